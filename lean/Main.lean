import DDV.Driver.Ops
import DDV.Driver.Proto
import DDV.Driver.Gen

partial def loop (h : IO.FS.Stream) (out : IO.FS.Stream) (f : String → String) : IO Unit := do
  let line ← h.getLine
  if line.isEmpty then return ()
  out.putStrLn (f line)
  loop h out f

def main (args : List String) : IO UInt32 := do
  let stdin ← IO.getStdin
  let stdout ← IO.getStdout
  match args with
  | ["ops"] => loop stdin stdout DDV.Driver.Ops.step; return 0
  | ["proto"] => loop stdin stdout DDV.Driver.ProtoDrv.step; return 0
  | ["gen"] => loop stdin stdout DDV.Driver.GenDrv.step; return 0
  | _ => IO.eprintln "usage: ddv-driver <ops|proto|gen>"; return 2
