/-
  DDV.Proto.Ops — the operation objects of `register.rs`, `command.rs`, `buffer.rs`, one `Prog`
  per Rust function, written from its body. Blocking and `_async` functions are separately written
  code in the crate, so they are separate definitions here (their equality is a theorem, and the
  correspondence harness runs each against its own definition).
-/
import DDV.Proto.Prog

namespace DDV.Proto
open DDV.Bits (Byte)

def bytesOf (bits : Nat) : Nat := (bits + 7) / 8
def zeros (n : Nat) : List Byte := List.replicate n 0#8

/-- A `FieldSet` type as the runtime crate sees it: `SIZE_BITS`, and the reset constructor handed
    to the operation (`register_new_with_reset`). `new_with_zero()` is `zeros (bytesOf sizeBits)`. -/
structure RegSpec where
  addr : Int
  sizeBits : Nat
  reset : List Byte

/-- The user's closure: it mutates the field set's bytes (length preserved by construction of the
    generated setters; here any function) and returns a value. -/
abbrev Closure := List Byte → List Byte × Nat

/-- Result values of operations. -/
inductive Val
  | unit
  | num (n : Nat)
  | bytes (b : List Byte)
  | eof                       -- `ReadExactError::UnexpectedEof`
  | other (e : Nat)           -- `ReadExactError::Other(e)`
  deriving DecidableEq, Repr

abbrev Res := Except Nat Val

namespace Register

/-- `RegisterOperation::write` (register.rs:93-103). -/
def write (r : RegSpec) (f : Closure) : Prog Res :=
  let reg := r.reset
  let (reg', ret) := f reg
  .call (.regWrite r.addr r.sizeBits reg') fun
    | .err e => .ret (.error e)
    | .ok _ _ => .ret (.ok (.num ret))

/-- `RegisterOperation::write_with_zero` (register.rs:108-120). -/
def writeWithZero (r : RegSpec) (f : Closure) : Prog Res :=
  let reg := zeros (bytesOf r.sizeBits)
  let (reg', ret) := f reg
  .call (.regWrite r.addr r.sizeBits reg') fun
    | .err e => .ret (.error e)
    | .ok _ _ => .ret (.ok (.num ret))

/-- `RegisterOperation::read` (register.rs:130-139). -/
def read (r : RegSpec) : Prog Res :=
  .call (.regRead r.addr r.sizeBits (zeros (bytesOf r.sizeBits))) fun
    | .err e => .ret (.error e)
    | .ok _ buf => .ret (.ok (.bytes buf))

/-- `RegisterOperation::modify` (register.rs:152-161): `self.read()?`, closure, write. -/
def modify (r : RegSpec) (f : Closure) : Prog Res :=
  .call (.regRead r.addr r.sizeBits (zeros (bytesOf r.sizeBits))) fun
    | .err e => .ret (.error e)
    | .ok _ buf =>
      let (reg', ret) := f buf
      .call (.regWrite r.addr r.sizeBits reg') fun
        | .err e => .ret (.error e)
        | .ok _ _ => .ret (.ok (.num ret))

/-- `write_async` (register.rs:174-189). -/
def writeAsync (r : RegSpec) (f : Closure) : Prog Res :=
  let reg := r.reset
  let (reg', ret) := f reg
  .call (.regWrite r.addr r.sizeBits reg') fun
    | .err e => .ret (.error e)
    | .ok _ _ => .ret (.ok (.num ret))

/-- `write_with_zero_async` (register.rs:194-208). -/
def writeWithZeroAsync (r : RegSpec) (f : Closure) : Prog Res :=
  let reg := zeros (bytesOf r.sizeBits)
  let (reg', ret) := f reg
  .call (.regWrite r.addr r.sizeBits reg') fun
    | .err e => .ret (.error e)
    | .ok _ _ => .ret (.ok (.num ret))

/-- `read_async` (register.rs:218-229). -/
def readAsync (r : RegSpec) : Prog Res :=
  .call (.regRead r.addr r.sizeBits (zeros (bytesOf r.sizeBits))) fun
    | .err e => .ret (.error e)
    | .ok _ buf => .ret (.ok (.bytes buf))

/-- `modify_async` (register.rs:242-256): `self.read_async().await?`, closure, write. -/
def modifyAsync (r : RegSpec) (f : Closure) : Prog Res :=
  .call (.regRead r.addr r.sizeBits (zeros (bytesOf r.sizeBits))) fun
    | .err e => .ret (.error e)
    | .ok _ buf =>
      let (reg', ret) := f buf
      .call (.regWrite r.addr r.sizeBits reg') fun
        | .err e => .ret (.error e)
        | .ok _ _ => .ret (.ok (.num ret))

end Register

namespace Command

/-- The four shapes: presence of an input / output field set, with their `SIZE_BITS`. -/
structure CmdSpec where
  addr : Int
  sizeIn : Option Nat
  sizeOut : Option Nat

/-- The closure of a command only mutates the input field set. -/
abbrev InClosure := List Byte → List Byte

/-- `CommandOperation::dispatch`, the four impl blocks of command.rs:75-156 selected by the type
    parameters `(InFieldSet, OutFieldSet)` being `()` or a field set. -/
def dispatch (c : CmdSpec) (f : InClosure) : Prog Res :=
  match c.sizeIn, c.sizeOut with
  | none, none =>
    .call (.cmd c.addr 0 [] 0 []) fun
      | .err e => .ret (.error e)
      | .ok _ _ => .ret (.ok .unit)
  | some si, none =>
    let inp := f (zeros (bytesOf si))
    .call (.cmd c.addr si inp 0 []) fun
      | .err e => .ret (.error e)
      | .ok _ _ => .ret (.ok .unit)
  | none, some so =>
    .call (.cmd c.addr 0 [] so (zeros (bytesOf so))) fun
      | .err e => .ret (.error e)
      | .ok _ out => .ret (.ok (.bytes out))
  | some si, some so =>
    let inp := f (zeros (bytesOf si))
    .call (.cmd c.addr si inp so (zeros (bytesOf so))) fun
      | .err e => .ret (.error e)
      | .ok _ out => .ret (.ok (.bytes out))

/-- `dispatch_async`, the four impl blocks of command.rs:158-249. -/
def dispatchAsync (c : CmdSpec) (f : InClosure) : Prog Res :=
  match c.sizeIn, c.sizeOut with
  | none, none =>
    .call (.cmd c.addr 0 [] 0 []) fun
      | .err e => .ret (.error e)
      | .ok _ _ => .ret (.ok .unit)
  | some si, none =>
    let inp := f (zeros (bytesOf si))
    .call (.cmd c.addr si inp 0 []) fun
      | .err e => .ret (.error e)
      | .ok _ _ => .ret (.ok .unit)
  | none, some so =>
    .call (.cmd c.addr 0 [] so (zeros (bytesOf so))) fun
      | .err e => .ret (.error e)
      | .ok _ out => .ret (.ok (.bytes out))
  | some si, some so =>
    let inp := f (zeros (bytesOf si))
    .call (.cmd c.addr si inp so (zeros (bytesOf so))) fun
      | .err e => .ret (.error e)
      | .ok _ out => .ret (.ok (.bytes out))

end Command

namespace Buffer

/-- `BufferOperation::write` (buffer.rs:86-88). -/
def write (addr : Int) (buf : List Byte) : Prog Res :=
  .call (.bufWrite addr buf) fun
    | .err e => .ret (.error e)
    | .ok n _ => .ret (.ok (.num n))

/-- `BufferOperation::flush` (buffer.rs:109-111). -/
def flush (addr : Int) : Prog Res :=
  .call (.bufFlush addr) fun
    | .err e => .ret (.error e)
    | .ok _ _ => .ret (.ok .unit)

/-- `BufferOperation::read` (buffer.rs:122-124); the value is the count and the caller's buffer
    as the interface left it. -/
def read (addr : Int) (buf : List Byte) : Prog (Res × List Byte) :=
  .call (.bufRead addr buf) fun
    | .err e => .ret (.error e, buf)
    | .ok n buf' => .ret (.ok (.num n), buf')

/-- `write_all` (buffer.rs:95-104). The `while !buf.is_empty()` loop; `fuel` bounds the number of
    iterations (`buf.length` always suffices because each `Ok(n)` that continues has `n ≥ 1`).
    `&buf[n..]` with `n > buf.len()` is the slice-index panic. -/
def writeAllLoop (addr : Int) : Nat → List Byte → Prog Res
  | 0, buf => if buf.isEmpty then .ret (.ok .unit) else .panic "fuel"
  | fuel + 1, buf =>
    if buf.isEmpty then .ret (.ok .unit) else
    .call (.bufWrite addr buf) fun
      | .err e => .ret (.error e)
      | .ok 0 _ => .panic "write() returned Ok(0)"
      | .ok n _ => if n > buf.length then .panic "slice index" else writeAllLoop addr fuel (buf.drop n)

def writeAll (addr : Int) (buf : List Byte) : Prog Res := writeAllLoop addr buf.length buf

/-- `read_exact` (buffer.rs:130-146). State: bytes already filled (`done`) and the unfilled
    remainder handed to the interface. Result `eof` = `ReadExactError::UnexpectedEof`,
    `other e` = `ReadExactError::Other(e)`. The second component is the caller's whole buffer
    afterwards. -/
def readExactLoop (addr : Int) : Nat → List Byte → List Byte → Prog (Res × List Byte)
  | 0, done, rem => if rem.isEmpty then .ret (.ok .unit, done) else .panic "fuel"
  | fuel + 1, done, rem =>
    if rem.isEmpty then .ret (.ok .unit, done) else
    .call (.bufRead addr rem) fun
      | .err e => .ret (.ok (.other e), done ++ rem)
      | .ok 0 rem' => .ret (.ok .eof, done ++ rem')
      | .ok n rem' =>
        if n > rem'.length then .panic "slice index"
        else readExactLoop addr fuel (done ++ rem'.take n) (rem'.drop n)

def readExact (addr : Int) (buf : List Byte) : Prog (Res × List Byte) :=
  readExactLoop addr buf.length [] buf

/-! async twins (buffer.rs:157-218) -/

def writeAsync (addr : Int) (buf : List Byte) : Prog Res :=
  .call (.bufWrite addr buf) fun
    | .err e => .ret (.error e)
    | .ok n _ => .ret (.ok (.num n))

def flushAsync (addr : Int) : Prog Res :=
  .call (.bufFlush addr) fun
    | .err e => .ret (.error e)
    | .ok _ _ => .ret (.ok .unit)

def readAsync (addr : Int) (buf : List Byte) : Prog (Res × List Byte) :=
  .call (.bufRead addr buf) fun
    | .err e => .ret (.error e, buf)
    | .ok n buf' => .ret (.ok (.num n), buf')

def writeAllAsyncLoop (addr : Int) : Nat → List Byte → Prog Res
  | 0, buf => if buf.isEmpty then .ret (.ok .unit) else .panic "fuel"
  | fuel + 1, buf =>
    if buf.isEmpty then .ret (.ok .unit) else
    .call (.bufWrite addr buf) fun
      | .err e => .ret (.error e)
      | .ok 0 _ => .panic "write() returned Ok(0)"
      | .ok n _ => if n > buf.length then .panic "slice index" else writeAllAsyncLoop addr fuel (buf.drop n)

def writeAllAsync (addr : Int) (buf : List Byte) : Prog Res := writeAllAsyncLoop addr buf.length buf

def readExactAsyncLoop (addr : Int) : Nat → List Byte → List Byte → Prog (Res × List Byte)
  | 0, done, rem => if rem.isEmpty then .ret (.ok .unit, done) else .panic "fuel"
  | fuel + 1, done, rem =>
    if rem.isEmpty then .ret (.ok .unit, done) else
    .call (.bufRead addr rem) fun
      | .err e => .ret (.ok (.other e), done ++ rem)
      | .ok 0 rem' => .ret (.ok .eof, done ++ rem')
      | .ok n rem' =>
        if n > rem'.length then .panic "slice index"
        else readExactAsyncLoop addr fuel (done ++ rem'.take n) (rem'.drop n)

def readExactAsync (addr : Int) (buf : List Byte) : Prog (Res × List Byte) :=
  readExactAsyncLoop addr buf.length [] buf

/-! The `embedded_io` / `embedded_io_async` trait impls (buffer.rs:223-286) delegate to the
    inherent methods (method resolution prefers inherent methods, so `self.write(buf)` inside the
    trait impl is not a self-call). The provided trait methods `write_all` / `read_exact` of the
    `embedded-io` crates run the same loops over the trait's `write` / `read`. -/
def traitWrite := write
def traitFlush := flush
def traitRead := read
def traitWriteAsync := writeAsync
def traitFlushAsync := flushAsync
def traitReadAsync := readAsync

end Buffer

end DDV.Proto
