import DDV.Proto.Ops

namespace DDV.Proto
set_option linter.unusedVariables false

theorem drive_call_zero {α : Type} (pend : Nat → Nat) (r : Req) (k : Resp → Prog α) (env : Env)
    (n fuel p : Nat) :
    drive pend (fuel + 1) ⟨.call r k, some 0, env, n⟩ p =
      drive pend (fuel + 1) ⟨k (env.answer r).1, none, (env.answer r).2, n + 1⟩ p := by
  simp only [drive, poll]

theorem drive_call_wait {α : Type} (pend : Nat → Nat) (r : Req) (k : Resp → Prog α) (env : Env)
    (n : Nat) : ∀ (c fuel p : Nat),
    drive pend (fuel + c) ⟨.call r k, some c, env, n⟩ p =
      drive pend fuel ⟨.call r k, some 0, env, n⟩ (p + c) := by
  intro c
  induction c with
  | zero => intro fuel p; rfl
  | succ c ih =>
    intro fuel p
    have : fuel + (c + 1) = (fuel + c) + 1 := by omega
    rw [this]
    simp only [drive, poll]
    rw [ih fuel (p + 1)]
    have h3 : p + 1 + c = p + (c + 1) := by omega
    rw [h3]

theorem drive_call_none {α : Type} (pend : Nat → Nat) (r : Req) (k : Resp → Prog α) (env : Env)
    (n fuel p : Nat) :
    drive pend (fuel + 1 + pend n) ⟨.call r k, none, env, n⟩ p =
      drive pend (fuel + 1) ⟨k (env.answer r).1, none, (env.answer r).2, n + 1⟩ (p + pend n) := by
  cases hc : pend n with
  | zero =>
    simp only [Nat.add_zero, drive, poll, hc]
  | succ c =>
    have : fuel + 1 + (c + 1) = (fuel + 1 + c) + 1 := by omega
    rw [this]
    simp only [drive, poll, hc]
    rw [drive_call_wait pend r k env n c (fuel + 1) (p + 1), drive_call_zero]
    have h3 : p + 1 + c = p + (c + 1) := by omega
    rw [h3]
    simp only [drive]

/-- **Async = blocking.** For every program, environment and suspension pattern, the executor
    finishes after `1 + Σ pend` polls with the log, remaining script and outcome of the blocking
    run. -/
theorem drive_eq_blocking {α : Type} (pend : Nat → Nat) :
    ∀ (prog : Prog α) (env : Env) (n p extra : Nat),
      drive pend (extra + 1 + pendSum pend prog env n) ⟨prog, none, env, n⟩ p =
        some ((runBlocking prog env).1, (runBlocking prog env).2, p + 1 + pendSum pend prog env n) := by
  intro prog
  induction prog with
  | ret a => intro env n p extra; simp [drive, poll, runBlocking, pendSum]
  | panic m => intro env n p extra; simp [drive, poll, runBlocking, pendSum]
  | call r k ih =>
    intro env n p extra
    simp only [pendSum, runBlocking]
    have h1 : extra + 1 + (pend n + pendSum pend (k (env.answer r).1) (env.answer r).2 (n + 1)) =
        (extra + pendSum pend (k (env.answer r).1) (env.answer r).2 (n + 1)) + 1 + pend n := by omega
    rw [h1, drive_call_none]
    have h2 : extra + pendSum pend (k (env.answer r).1) (env.answer r).2 (n + 1) + 1 =
        extra + 1 + pendSum pend (k (env.answer r).1) (env.answer r).2 (n + 1) := by omega
    rw [h2, ih (env.answer r).1 (env.answer r).2 (n + 1) (p + pend n) extra]
    have h3 : p + pend n + 1 + pendSum pend (k (env.answer r).1) (env.answer r).2 (n + 1) =
        p + 1 + (pend n + pendSum pend (k (env.answer r).1) (env.answer r).2 (n + 1)) := by omega
    rw [h3]

end DDV.Proto

namespace DDV.Proto
set_option linter.unusedVariables false

/-- **Frame lemma**: what an operation adds to the log, the script it consumes and its outcome do
    not depend on the calls made before it — operations are independent of each other. -/
theorem runBlocking_frame {α : Type} : ∀ (prog : Prog α) (log : List Req) (script : List Entry),
    runBlocking prog ⟨log, script⟩ =
      (⟨log ++ (runBlocking prog ⟨[], script⟩).1.log, (runBlocking prog ⟨[], script⟩).1.script⟩,
       (runBlocking prog ⟨[], script⟩).2) := by
  intro prog
  induction prog with
  | ret a => intro log script; simp [runBlocking]
  | panic m => intro log script; simp [runBlocking]
  | call r k ih =>
    intro log script
    simp only [runBlocking, Env.answer]
    rw [ih _ (log ++ [r]) script.tail, ih _ ([] ++ [r]) script.tail]
    simp

/-- A sequence of operations run one after the other on one interface. -/
def runSeq {α : Type} : List (Prog α) → Env → Env × List (Outcome α)
  | [], env => (env, [])
  | p :: ps, env =>
    let (env', o) := runBlocking p env
    let (env'', os) := runSeq ps env'
    (env'', o :: os)

/-- The log of a history is the concatenation of the logs of its operations, each run on the
    script left over by its predecessors. -/
theorem runSeq_log {α : Type} : ∀ (ps : List (Prog α)) (log : List Req) (script : List Entry),
    (runSeq ps ⟨log, script⟩).1.log = log ++ (runSeq ps ⟨[], script⟩).1.log := by
  intro ps
  induction ps with
  | nil => intro log script; simp [runSeq]
  | cons p ps ih =>
    intro log script
    simp only [runSeq]
    rw [runBlocking_frame p log script]
    simp only
    rw [ih (log ++ (runBlocking p ⟨[], script⟩).1.log) (runBlocking p ⟨[], script⟩).1.script]
    have h2 := ih (runBlocking p ⟨[], script⟩).1.log (runBlocking p ⟨[], script⟩).1.script
    rw [h2]
    simp [List.append_assoc]

/-- Buffer loops: more fuel than the slice length changes nothing, so `buf.length` is enough and
    the "fuel" panic of the model is unreachable. -/
theorem writeAllLoop_fuel (addr : Int) : ∀ (fuel : Nat) (buf : List DDV.Bits.Byte) (extra : Nat),
    buf.length ≤ fuel →
    Buffer.writeAllLoop addr (fuel + extra) buf = Buffer.writeAllLoop addr fuel buf := by
  intro fuel
  induction fuel with
  | zero =>
    intro buf extra h
    have : buf = [] := List.length_eq_zero_iff.mp (by omega)
    subst this
    cases extra <;> simp [Buffer.writeAllLoop]
  | succ fuel ih =>
    intro buf extra h
    have : fuel + 1 + extra = (fuel + extra) + 1 := by omega
    rw [this]
    simp only [Buffer.writeAllLoop]
    split
    · rfl
    · congr 1
      funext resp
      cases resp with
      | err e => rfl
      | ok n b =>
        cases n with
        | zero => rfl
        | succ n =>
          simp only
          split
          · rfl
          · exact ih _ extra (by simp only [List.length_drop]; omega)

end DDV.Proto
