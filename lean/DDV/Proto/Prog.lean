/-
  DDV.Proto.Prog — operations against a device interface as interaction trees.

  A Rust operation (`RegisterOperation::write`, `CommandOperation::dispatch`, …) is a `Prog`:
  it either returns, panics, or makes one interface call and continues with the interface's
  answer. The interface is the environment: an arbitrary script of per-call answers.
  Blocking execution (`runBlocking`) answers calls one after the other. Async execution is a poll
  machine (`poll` / `drive`): the n-th interface future returns `Pending` `pend n` times before it
  is `Ready`; `.await` polls a fresh future immediately, as Rust does.
-/
import DDV.Bits.Model

namespace DDV.Proto
open DDV.Bits (Byte)

/-- An interface call with exactly the arguments the trait method receives. Addresses are
    integers (the address type is opaque `Copy` data to the runtime crate). -/
inductive Req
  | regWrite (addr : Int) (sizeBits : Nat) (data : List Byte)
  | regRead (addr : Int) (sizeBits : Nat) (buf : List Byte)
  | cmd (addr : Int) (sizeIn : Nat) (input : List Byte) (sizeOut : Nat) (outBuf : List Byte)
  | bufWrite (addr : Int) (data : List Byte)
  | bufFlush (addr : Int)
  | bufRead (addr : Int) (buf : List Byte)
  deriving DecidableEq, Repr

/-- What the interface answered: an error code, or success with a count (buffer ops) and the
    contents it left in the `&mut [u8]` it was given (reads / command output). -/
inductive Resp
  | err (e : Nat)
  | ok (n : Nat) (buf : List Byte)
  deriving DecidableEq, Repr

inductive Prog (α : Type) where
  | ret (a : α)
  | panic (msg : String)
  | call (r : Req) (k : Resp → Prog α)

inductive Outcome (α : Type)
  | ret (a : α)
  | panic (msg : String)
  deriving Repr, DecidableEq

/-- One scripted answer of the mock interface: an error, or `Ok` with a count and bytes to put
    into the buffer (as many as fit; the rest of the buffer is left as it was). -/
inductive Entry
  | err (e : Nat)
  | ok (n : Nat) (fill : List Byte)
  deriving DecidableEq, Repr

def applyFill : List Byte → List Byte → List Byte
  | [], _ => []
  | b :: bs, [] => b :: bs
  | _ :: bs, f :: fs => f :: applyFill bs fs

theorem applyFill_length (buf fill : List Byte) : (applyFill buf fill).length = buf.length := by
  induction buf generalizing fill with
  | nil => rfl
  | cons b bs ih => cases fill <;> simp [applyFill, ih]

/-- The mutable buffer (if any) the interface may write into for a request. -/
def Req.mutBuf : Req → List Byte
  | .regRead _ _ buf => buf
  | .cmd _ _ _ _ out => out
  | .bufRead _ buf => buf
  | _ => []

/-- The mock interface: the answer to request `r` given the next script entry. When the script is
    exhausted it succeeds, accepting / producing the whole slice and leaving buffers untouched. -/
def respond (r : Req) : Option Entry → Resp
  | none =>
    match r with
    | .bufWrite _ d => .ok d.length []
    | .bufRead _ b => .ok b.length b
    | _ => .ok 0 r.mutBuf
  | some (.err e) => .err e
  | some (.ok n fill) => .ok n (applyFill r.mutBuf fill)

/-- Environment of a run: the calls made so far (oldest first) and the remaining script. -/
structure Env where
  log : List Req
  script : List Entry
  deriving Repr

def Env.answer (env : Env) (r : Req) : Resp × Env :=
  (respond r env.script.head?, { log := env.log ++ [r], script := env.script.tail })

/-- Blocking execution. -/
def runBlocking {α : Type} : Prog α → Env → Env × Outcome α
  | .ret a, env => (env, .ret a)
  | .panic m, env => (env, .panic m)
  | .call r k, env =>
    let (resp, env') := env.answer r
    runBlocking (k resp) env'

/-! ### Async execution as a poll machine -/

/-- A suspended operation future: the program at its current `.await`, how many more `Pending`s
    the in-flight interface future will return (`none`: the operation has not been polled at this
    call yet), the environment, and the index of the current interface call. -/
structure Task (α : Type) where
  prog : Prog α
  inflight : Option Nat
  env : Env
  callNo : Nat

inductive PollResult (α : Type)
  | ready (env : Env) (o : Outcome α) (calls : Nat)
  | pending (t : Task α)

/-- One `Future::poll` of the operation. The interface future's body runs on its first poll
    (it receives its arguments then — the call is logged), returns `Pending` `pend callNo` times
    and then completes with the scripted answer; the operation continues in the same poll. -/
def poll {α : Type} (pend : Nat → Nat) : Prog α → Option Nat → Env → Nat → PollResult α
  | .ret a, _, env, n => .ready env (.ret a) n
  | .panic m, _, env, n => .ready env (.panic m) n
  | .call r k, none, env, n =>
    match pend n with
    | 0 =>
      let (resp, env') := env.answer r
      poll pend (k resp) none env' (n + 1)
    | c + 1 => .pending ⟨.call r k, some c, env, n⟩
  | .call r k, some 0, env, n =>
    let (resp, env') := env.answer r
    poll pend (k resp) none env' (n + 1)
  | .call r k, some (c + 1), env, n => .pending ⟨.call r k, some c, env, n⟩

/-- The executor: poll until ready, at most `fuel` times. Returns the final environment, the
    outcome and the number of polls used. -/
def drive {α : Type} (pend : Nat → Nat) : Nat → Task α → Nat → Option (Env × Outcome α × Nat)
  | 0, _, _ => none
  | fuel + 1, t, polls =>
    match poll pend t.prog t.inflight t.env t.callNo with
    | .ready env o _ => some (env, o, polls + 1)
    | .pending t' => drive pend fuel t' (polls + 1)

/-- Number of interface calls a blocking run makes. -/
def callsMade {α : Type} : Prog α → Env → Nat
  | .ret _, _ => 0
  | .panic _, _ => 0
  | .call r k, env =>
    let (resp, env') := env.answer r
    1 + callsMade (k resp) env'

/-- Total number of `Pending`s the interface futures return during a run that starts at call
    index `n`. -/
def pendSum {α : Type} (pend : Nat → Nat) : Prog α → Env → Nat → Nat
  | .ret _, _, _ => 0
  | .panic _, _, _ => 0
  | .call r k, env, n =>
    let (resp, env') := env.answer r
    pend n + pendSum pend (k resp) env' (n + 1)

end DDV.Proto
