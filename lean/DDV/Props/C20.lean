/-
  C20 — Generation is deterministic and the CLI and macro agree with the library.
  (work in progress)
-/
import DDV.Extracted.Tables
import DDV.Gen.Pipeline
import DDV.Gen.Shell

namespace DDV.Props.C20
open DDV.Gen

/-- The generator iterates no `HashMap` / `HashSet` anywhere (the list of such sites, re-extracted
    from the source on every run, is empty): hash containers are used for membership and keyed
    lookup only, so no output can depend on a hash seed. -/
theorem no_hash_iteration_sites : DDV.Extracted.hashIterationSites = [] := by decide


open DDV.Shell

/-- **CLI output.** Whenever the CLI gets as far as calling the library, it writes exactly the
    pretty-printed library output for (parser chosen by the extension, file contents, device name)
    to the chosen file, or to stdout when none is given. -/
theorem cli_output_is_pretty_lib_output (w : World) (path e : String) (out : Option String) (device contents : String)
    (x : Ext) (hr : w.readFile path = some contents) (hx : parseExt e = some x) :
    (cli w path (some e) out device).written =
      some ((match out with | some p => Sink.file p | none => Sink.stdout), w.pretty (w.lib x contents device)) := by
  simp [cli, hr, hx]
  cases out <;> rfl

/-- **CLI exit status.** Given that the pretty-printer renders exactly the library's
    `compile_error!` outputs with the `::core::compile_error!` prefix (validated by the
    correspondence run on accepted and rejected inputs), the CLI exits non-zero exactly when the
    library reports an error. -/
theorem cli_nonzero_iff_lib_error (w : World) (path e : String) (out : Option String) (device contents : String)
    (x : Ext) (hr : w.readFile path = some contents) (hx : parseExt e = some x)
    (hpretty : ∀ o, looksLikeError w o = true ↔ ∃ msg, o = .compileError msg) :
    (cli w path (some e) out device).exitCode ≠ 0 ↔ ∃ msg, w.lib x contents device = .compileError msg := by
  simp only [cli, hr, hx]
  rw [← hpretty]
  cases looksLikeError w (w.lib x contents device) <;> simp

/-- Every way the CLI can stop before calling the library (no extension, unreadable file, unknown
    extension) is a non-zero exit with nothing written. -/
theorem cli_early_failure_is_nonzero (w : World) (path : String) (ext out : Option String) (device : String)
    (h : (cli w path ext out device).written = none) : (cli w path ext out device).exitCode = 101 := by
  unfold cli at h ⊢
  cases ext with
  | none => rfl
  | some e =>
    simp only at h ⊢
    cases hr : w.readFile path with
    | none => rfl
    | some c =>
      simp only [hr] at h ⊢
      cases hx : parseExt e with
      | none => rfl
      | some x => simp [hx] at h

/-- **Macro.** Inline DSL expands to the library output for those tokens; a manifest path is
    resolved against the crate root when relative, the parser is chosen by the file extension,
    and the expansion is the library output for the file's contents — the same `LibOutput` the
    library (and hence the CLI) produces for that input. -/
theorem macro_expansion_eq_lib_output (w : World) (device path e contents : String) (x : Ext)
    (hr : w.readFile (resolvePath w path) = some contents) (hx : parseExt e = some x) :
    createDevice w device (.manifest path (some e)) = .expansion (w.lib x contents device) ∧
    (∀ tokens, createDevice w device (.dsl tokens) = .expansion (w.lib .dsl tokens device)) := by
  simp [createDevice, hr, hx]

theorem extension_selects_parser :
    parseExt "dsl" = some .dsl ∧ parseExt "json" = some .json ∧ parseExt "yaml" = some .yaml ∧
    parseExt "toml" = some .toml ∧ parseExt "txt" = none := by decide

end DDV.Props.C20
