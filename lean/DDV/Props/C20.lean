/-
  C20 — Generation is deterministic and the CLI and macro agree with the library.
  (work in progress)
-/
import DDV.Extracted.Tables
import DDV.Gen.Pipeline

namespace DDV.Props.C20
open DDV.Gen

/-- The generator iterates no `HashMap` / `HashSet` anywhere (the list of such sites, re-extracted
    from the source on every run, is empty): hash containers are used for membership and keyed
    lookup only, so no output can depend on a hash seed. -/
theorem no_hash_iteration_sites : DDV.Extracted.hashIterationSites = [] := by decide

end DDV.Props.C20
