import DDV.Gen.Lemmas.Tree
namespace DDV.Props.C11
theorem placeholder : True := trivial
end DDV.Props.C11
