/-
  C11 — Field-layout validation accepts exactly the well-formed layouts.

  The three layout passes are `byte_order_specified`, `bool_fields_checked` and
  `bit_ranges_validated`; `layoutPasses` is their composition in the order of `run_passes`
  (the passes between them do not touch ranges, sizes, byte orders or overlap flags).
-/
import DDV.Gen.Lemmas.Layout

namespace DDV.Props.C11
open DDV.Gen
open DDV.Bits (ByteOrder)
set_option linter.unusedVariables false

/-! ### The property's notion of a well-formed layout, written from its text -/

/-- The range a field addresses: a `bool` given as a zero-width range means its single bit. -/
def range (f : Field) : Nat × Nat :=
  if f.base = .bool ∧ f.start = f.stop then (f.start, f.stop + 1) else (f.start, f.stop)

/-- "every field has a non-empty bit range inside the declared size, bool fields are exactly one
    bit and carry no conversion" -/
def FieldOk (size : Nat) (f : Field) : Prop :=
  (range f).1 < (range f).2 ∧ (range f).2 ≤ size ∧
  (f.base = .bool → (range f).2 - (range f).1 = 1 ∧ f.conv = none)

def Disjoint (f g : Field) : Prop := (range f).2 ≤ (range g).1 ∨ (range g).2 ≤ (range f).1

/-- "no two fields of one field set overlap unless bit overlap is allowed on the object" -/
def SetOk (allowOverlap : Bool) (size : Nat) (fs : List Field) : Prop :=
  (∀ f ∈ fs, FieldOk size f) ∧ (allowOverlap = false → fs.Pairwise Disjoint)

/-- "a byte order is known (on the object or globally) whenever a field set is larger than 8 bits" -/
def ObjOk (globalByteOrder : Option ByteOrder) : Object → Prop
  | .register r =>
    SetOk r.allowBitOverlap r.sizeBits r.fields ∧
    (r.sizeBits > 8 → r.byteOrder.isSome ∨ globalByteOrder.isSome)
  | .command c =>
    SetOk c.allowBitOverlap c.sizeBitsIn c.inFields ∧ SetOk c.allowBitOverlap c.sizeBitsOut c.outFields ∧
    ((c.sizeBitsIn > 8 ∨ c.sizeBitsOut > 8) → c.byteOrder.isSome ∨ globalByteOrder.isSome)
  | _ => True

def WellFormedLayout (d : Device) : Prop :=
  AllLeaves (ObjOk d.config.defaultByteOrder) d.objects

/-! ### The code -/

def layoutPasses (d : Device) : M Device :=
  match byteOrderSpecified d with
  | .error e => .error e
  | .ok d1 =>
    match boolFieldsChecked d1 with
    | .error e => .error e
    | .ok d2 => bitRangesValidated d2

/-! ### Bridging the spec's `range` and the pass's normalisation -/

theorem range_eq_norm (f : Field) : range f = ((boolNorm f).start, (boolNorm f).stop) := by
  unfold range boolNorm
  by_cases hb : f.base = .bool
  · have hbeq : (f.base == BaseType.bool) = true := by rw [hb]; rfl
    by_cases hs : f.start = f.stop
    · simp [hb, hs, hbeq]
    · simp [hb, hs, hbeq]
  · have hbeq : (f.base == BaseType.bool) = false := by cases h : f.base <;> simp_all
    simp [hb, hbeq]

theorem setOk_iff (allow : Bool) (size : Nat) (fs : List Field) :
    SetOk allow size fs ↔ (∀ f ∈ fs, BoolOk f) ∧ SetOkNorm allow size (fs.map boolNorm) := by
  unfold SetOk SetOkNorm FieldOk BoolOk Disjoint
  simp only [range_eq_norm, List.mem_map, forall_exists_index, and_imp, forall_apply_eq_imp_iff₂,
    List.pairwise_map, DDV.Gen.Disj]
  constructor
  · intro ⟨h1, h2⟩
    exact ⟨fun f hf => (h1 f hf).2.2, fun f hf => ⟨(h1 f hf).1, (h1 f hf).2.1⟩, h2⟩
  · intro ⟨h1, h2, h3⟩
    exact ⟨fun f hf => ⟨(h2 f hf).1, (h2 f hf).2, h1 f hf⟩, h3⟩

/-- Per object: the three callbacks succeed one after the other iff the object is well formed. -/
theorem obj_accept_iff (g : Option ByteOrder) (o : Object) :
    ObjOk g o ↔
      ByteOrderOk g o ∧ BoolObjOk (fillByteOrder g o) ∧ RangesObjOk (normObj (fillByteOrder g o)) := by
  cases o with
  | register r =>
    unfold ObjOk ByteOrderOk fillByteOrder
    by_cases hb : r.byteOrder.isNone = true <;>
      simp only [hb, if_true, if_false, BoolObjOk, normObj, RangesObjOk, setOk_iff] <;>
      constructor <;> (intro h; first | exact ⟨h.2, h.1.1, h.1.2⟩ | exact ⟨⟨h.2.1, h.2.2⟩, h.1⟩)
  | command c =>
    unfold ObjOk ByteOrderOk fillByteOrder
    by_cases hb : c.byteOrder.isNone = true <;>
      simp only [hb, if_true, if_false, BoolObjOk, normObj, RangesObjOk, setOk_iff] <;>
      constructor <;>
      (intro h; first
        | exact ⟨h.2.2, ⟨h.1.1, h.2.1.1⟩, h.1.2, h.2.1.2⟩
        | exact ⟨⟨h.2.1.1, h.2.2.1⟩, ⟨h.2.1.2, h.2.2.2⟩, h.1⟩)
  | block h os => simp [ObjOk, ByteOrderOk, fillByteOrder, BoolObjOk, normObj, RangesObjOk]
  | buffer b => simp [ObjOk, ByteOrderOk, fillByteOrder, BoolObjOk, normObj, RangesObjOk]
  | ref r => simp [ObjOk, ByteOrderOk, fillByteOrder, BoolObjOk, normObj, RangesObjOk]

/-- **C11, acceptance.** For every device tree, the three layout passes accept it if and only if
    every register and command of the tree (at any depth) is well formed in the property's sense. -/
theorem layout_accept_iff (d : Device) : isOk (layoutPasses d) ↔ WellFormedLayout d := by
  unfold WellFormedLayout layoutPasses
  let g := d.config.defaultByteOrder
  rw [allLeaves_congr _ _ (obj_accept_iff g) d.objects, allLeaves_and, allLeaves_and]
  rw [← allLeaves_treeMap BoolObjOk (fillByteOrder g) (fillByteOrder_leaf g)]
  rw [← allLeaves_treeMap (fun x => RangesObjOk (normObj x)) (fillByteOrder g) (fillByteOrder_leaf g)]
  rw [← allLeaves_treeMap RangesObjOk normObj normObj_leaf]
  -- pass 5
  have h5 := mapObjs_pure_isOk (byteOrderObj g) d.objects
  rw [allLeaves_congr _ _ (fun o => (byteOrderObj_spec g o).1)] at h5
  unfold byteOrderSpecified mapObjects
  cases hv5 : mapObjs (fun h => .ok h) (byteOrderObj g) d.objects with
  | error e =>
    constructor
    · intro ⟨a, ha⟩; cases ha
    · intro ⟨hbo, _⟩
      obtain ⟨a, ha⟩ := h5.2 hbo
      rw [hv5] at ha; cases ha
  | ok os1 =>
    have e1 : os1 = treeMap (fillByteOrder g) d.objects :=
      mapObjs_pure_eq_treeMap _ _ (fun o => (byteOrderObj_spec g o).2) _ _ hv5
    have hbo := h5.1 ⟨os1, hv5⟩
    simp only
    -- pass 7
    have h7 := mapObjs_pure_isOk boolObj os1
    rw [allLeaves_congr _ _ (fun o => (boolObj_spec o).1)] at h7
    unfold boolFieldsChecked mapObjects
    simp only
    cases hv7 : mapObjs (fun h => .ok h) boolObj os1 with
    | error e =>
      constructor
      · intro ⟨a, ha⟩; cases ha
      · intro ⟨_, hb, _⟩
        obtain ⟨a, ha⟩ := h7.2 (e1 ▸ hb)
        rw [hv7] at ha; cases ha
    | ok os2 =>
      have e2 : os2 = treeMap normObj os1 :=
        mapObjs_pure_eq_treeMap _ _ (fun o => (boolObj_spec o).2) _ _ hv7
      have hb := h7.1 ⟨os2, hv7⟩
      simp only
      -- pass 8
      have h8 := mapObjs_pure_isOk bitRangesObj os2
      rw [allLeaves_congr _ _ bitRangesObj_spec] at h8
      unfold bitRangesValidated mapObjects
      simp only
      cases hv8 : mapObjs (fun h => .ok h) bitRangesObj os2 with
      | error e =>
        constructor
        · intro ⟨a, ha⟩; cases ha
        · intro ⟨_, _, hr⟩
          obtain ⟨a, ha⟩ := h8.2 (by rw [e2, e1]; exact hr)
          rw [hv8] at ha; cases ha
      | ok os3 =>
        have hr := h8.1 ⟨os3, hv8⟩
        constructor
        · intro _
          exact ⟨hbo, e1 ▸ hb, by rw [e2, e1] at hr; exact hr⟩
        · intro _; exact ⟨_, rfl⟩

/-- **C11, no panic.** The layout passes only ever stop with a reported error of one of the layout
    kinds; the model has no panic exit in them at all (the arithmetic of `bool_fields_checked`,
    `end += 1`, cannot overflow for sizes in the property's range). -/
theorem layout_rejection_is_an_error (d : Device) (s : Stop) (h : layoutPasses d = .error s) :
    ∃ e, s = .error e := by
  unfold layoutPasses at h
  have o5 := mapObjs_onlyErrors (byteOrderObj d.config.defaultByteOrder)
    (byteOrderObj_onlyErrors d.config.defaultByteOrder) d.objects
  unfold byteOrderSpecified mapObjects at h
  cases hv5 : mapObjs (fun h => .ok h) (byteOrderObj d.config.defaultByteOrder) d.objects with
  | error e =>
    rw [hv5] at h
    exact o5 s (by rw [hv5]; exact congrArg _ (Except.error.inj h))
  | ok os1 =>
    rw [hv5] at h
    simp only at h
    have o7 := mapObjs_onlyErrors boolObj boolObj_onlyErrors os1
    unfold boolFieldsChecked mapObjects at h
    simp only at h
    cases hv7 : mapObjs (fun h => .ok h) boolObj os1 with
    | error e =>
      rw [hv7] at h
      exact o7 s (by rw [hv7]; exact congrArg _ (Except.error.inj h))
    | ok os2 =>
      rw [hv7] at h
      simp only at h
      have o8 := mapObjs_onlyErrors bitRangesObj bitRangesObj_onlyErrors os2
      unfold bitRangesValidated mapObjects at h
      simp only at h
      cases hv8 : mapObjs (fun h => .ok h) bitRangesObj os2 with
      | error e =>
        rw [hv8] at h
        exact o8 s (by rw [hv8]; exact congrArg _ (Except.error.inj h))
      | ok os3 => rw [hv8] at h; cases h

/-- **C11, the rejection names the object.** Every error the range validation can produce carries
    the name it was given (`Name`, or `Name (in)` / `Name (out)` for the two field sets of a
    command) as its first quoted name. -/
theorem validateLen_error_names (size : Nat) (n : String) (e : Err) : ∀ (fs : List Field),
    validateLen size n fs = .error (.error e) → e.names.head? = some n
  | [] => by intro h; unfold validateLen at h; cases h
  | f :: fs => by
    intro h
    unfold validateLen at h
    split at h
    · cases h; rfl
    · split at h
      · cases h; rfl
      · exact validateLen_error_names size n e fs h

theorem validateOverlap_error_names (n : String) (e : Err) : ∀ (fs : List Field),
    validateOverlap n fs = .error (.error e) → e.names.head? = some n
  | [] => by intro h; unfold validateOverlap at h; cases h
  | f :: fs => by
    intro h
    unfold validateOverlap at h
    split at h
    · cases h; rfl
    · exact validateOverlap_error_names n e fs h

theorem layout_error_names_object (allow : Bool) (size : Nat) (n : String) (fs : List Field) (e : Err)
    (h : validateSet allow size n fs = .error (.error e)) : e.names.head? = some n := by
  unfold validateSet at h
  cases hl : validateLen size n fs with
  | error s =>
    rw [hl] at h
    have : s = .error e := Except.error.inj h
    subst this
    exact validateLen_error_names size n e fs hl
  | ok u =>
    rw [hl] at h
    simp only at h
    cases allow
    · simp only [Bool.false_eq_true, if_false] at h
      exact validateOverlap_error_names n e fs h
    · simp only [if_true] at h; cases h

/-! ### Non-vacuity -/

def sampleRegister : Register :=
  { name := "R", access := .rw, byteOrder := some .le, bitOrder := .lsb0, allowBitOverlap := false,
    allowAddressOverlap := false, address := 0, sizeBits := 16, reset := none, repeat_ := none,
    fields := [{ name := "a", access := .rw, base := .uint, start := 0, stop := 5 },
               { name := "b", access := .rw, base := .bool, start := 5, stop := 5 }] }

/-- a concrete well-formed device: both sides of the iff are inhabited -/
example : WellFormedLayout { config := {}, objects := [.register sampleRegister] } :=
  (layout_accept_iff _).1 ⟨_, rfl⟩

end DDV.Props.C11
