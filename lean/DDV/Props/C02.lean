/-
  C02 — Field store/load round-trips and never disturbs bits outside the field.
-/
import DDV.Bits.Lemmas

namespace DDV.Props.C02
set_option linter.unusedVariables false
open DDV.Bits

structure InBounds (c : Carrier) (data : List Byte) (s e : Nat) : Prop where
  le : s ≤ e
  len : e ≤ 8 * data.length
  width : e - s ≤ c.bits

/-- The value the property requires a getter to return after `set(v)`: `v` reduced to the
    field's width `w`, read as an unsigned number for unsigned carriers and as a two's-complement
    number for signed ones. -/
def reduced (c : Carrier) (w : Nat) (v : BitVec c.bits) : BitVec c.bits :=
  if c.signed then (v.setWidth w).signExtend c.bits else (v.setWidth w).setWidth c.bits

/-- What the code computes today: always the zero-extended reduction. -/
theorem load_store_zero_extends (ptr : Nat) (c : Carrier) (bito : BitOrder) (bo : ByteOrder)
    (v : BitVec c.bits) (data : List Byte) (s e : Nat) (h : InBounds c data s e) :
    ∃ d, store ptr c bito bo v s e data = some d ∧
      load ptr c bito bo d s e = some ((v.setWidth (e - s)).setWidth c.bits) := by
  obtain ⟨d, hd, r, hr, hb⟩ := load_store_bits ptr c bito bo v data s e h.le h.len h.width
  refine ⟨d, hd, ?_⟩
  rw [hr]; congr 1
  apply BitVec.eq_of_getLsbD_eq
  intro j _
  rw [hb j, zeroReduce_getLsbD v (e - s) j h.width]

/-- **Round trip, unsigned fields** (full statement). -/
theorem load_store_unsigned (ptr : Nat) (c : Carrier) (hc : c.signed = false) (bito : BitOrder)
    (bo : ByteOrder) (v : BitVec c.bits) (data : List Byte) (s e : Nat) (h : InBounds c data s e) :
    ∃ d, store ptr c bito bo v s e data = some d ∧
      load ptr c bito bo d s e = some (reduced c (e - s) v) ∧
      ∃ r, load ptr c bito bo d s e = some r ∧ r.toNat = v.toNat % 2 ^ (e - s) := by
  obtain ⟨d, hd, hl⟩ := load_store_zero_extends ptr c bito bo v data s e h
  refine ⟨d, hd, by simp [reduced, hc, hl], _, hl, ?_⟩
  simp only [BitVec.toNat_setWidth]
  have h1 : v.toNat % 2 ^ (e - s) < 2 ^ (e - s) := Nat.mod_lt _ (Nat.two_pow_pos _)
  have h2 : 2 ^ (e - s) ≤ 2 ^ c.bits := Nat.pow_le_pow_right (by omega) h.width
  exact Nat.mod_eq_of_lt (by omega)

/-- The full statement of the signed clause of the property:
    `load (store v) = reduced c (e - s) v` for signed carriers too. It is **false** of the current
    tree (finding F1: no sign extension when the field is narrower than its carrier); see
    `load_store_signed_counterexample`. What is provable is `load_store_signed_partial`. -/
def LoadStoreSignedFull : Prop :=
  ∀ (ptr : Nat) (c : Carrier), c.signed = true → ∀ (bito : BitOrder) (bo : ByteOrder)
    (v : BitVec c.bits) (data : List Byte) (s e : Nat), InBounds c data s e → s < e →
    ∃ d, store ptr c bito bo v s e data = some d ∧
      load ptr c bito bo d s e = some (reduced c (e - s) v)

/-- **Round trip, signed fields — partial**: holds when the field is as wide as its carrier or
    the stored value's bit `w-1` is clear (a non-negative `w`-bit number). -/
theorem load_store_signed_partial (ptr : Nat) (c : Carrier) (hc : c.signed = true)
    (bito : BitOrder) (bo : ByteOrder) (v : BitVec c.bits) (data : List Byte) (s e : Nat)
    (h : InBounds c data s e) (hse : s < e)
    (hcase : e - s = c.bits ∨ v.getLsbD (e - s - 1) = false) :
    ∃ d, store ptr c bito bo v s e data = some d ∧
      load ptr c bito bo d s e = some (reduced c (e - s) v) := by
  obtain ⟨d, hd, hl⟩ := load_store_zero_extends ptr c bito bo v data s e h
  refine ⟨d, hd, ?_⟩
  rw [hl]; congr 1
  unfold reduced
  simp only [hc, if_true]
  apply BitVec.eq_of_getLsbD_eq
  intro j hj
  rw [BitVec.getLsbD_signExtend, BitVec.getLsbD_setWidth, BitVec.getLsbD_setWidth]
  have hw := h.width
  by_cases h1 : j < e - s
  · simp [h1, hj]
  · simp only [h1, decide_false, Bool.false_and, Bool.and_false, hj, decide_true, Bool.true_and,
      if_false]
    rcases hcase with hfull | hclear
    · omega
    · rw [BitVec.msb_eq_getLsbD_last, BitVec.getLsbD_setWidth]
      simp [hclear]

/-- **F1** — the full signed statement fails: `i8`, field `[4,8)`, store −1, load gives 15. -/
theorem load_store_signed_counterexample : ¬ LoadStoreSignedFull := by
  intro h
  have hb : InBounds ⟨8, true⟩ [0#8] 4 8 := ⟨by decide, by decide, by decide⟩
  obtain ⟨d, hd, hl⟩ := h 64 ⟨8, true⟩ rfl .lsb0 .le (-1 : BitVec 8) [0#8] 4 8 hb (by decide)
  obtain ⟨d', hd', hl'⟩ := load_store_zero_extends 64 ⟨8, true⟩ .lsb0 .le (-1 : BitVec 8) [0#8] 4 8 hb
  rw [hd] at hd'
  cases hd'
  rw [hl] at hl'
  revert hl'
  decide

/-- **Isolation**: every set-bit outside `[s,e)` is unchanged by a store. -/
theorem store_isolation (ptr : Nat) (c : Carrier) (bito : BitOrder) (bo : ByteOrder)
    (v : BitVec c.bits) (data : List Byte) (s e : Nat) (h : InBounds c data s e) :
    ∃ d, store ptr c bito bo v s e data = some d ∧ d.length = data.length ∧
      ∀ k, k < 8 * data.length → ¬ (s ≤ k ∧ k < e) → physBit bo bito d k = physBit bo bito data k := by
  obtain ⟨d, hd, hl, hb⟩ := store_spec ptr c bito bo v data s e h.le h.len h.width
  refine ⟨d, hd, hl, ?_⟩
  intro k hk hout
  rw [hb k hk]; unfold specStoreBit; simp only [hout, if_false]

/-- **Locality of reads**: two buffers of equal length that agree on the set-bits of `[s,e)`
    load the same value. -/
theorem load_depends_only_on_range (ptr : Nat) (c : Carrier) (bito : BitOrder) (bo : ByteOrder)
    (d1 d2 : List Byte) (s e : Nat) (h : InBounds c d1 s e) (hl : d1.length = d2.length)
    (hagree : ∀ k, s ≤ k → k < e → physBit bo bito d1 k = physBit bo bito d2 k) :
    load ptr c bito bo d1 s e = load ptr c bito bo d2 s e :=
  load_congr ptr c bito bo d1 d2 s e h.le hl h.len h.width hagree

/-- **Histories of setter calls**: after any sequence `pre`, then `set_A(v)`, then any sequence
    `post` of setters whose ranges do not overlap `A`, reading `A` returns `v` reduced to `A`'s
    width (zero-extended; for the signed reading see above). All calls are in-bounds. -/
theorem setter_history (ptr : Nat) (bito : BitOrder) (bo : ByteOrder)
    (pre post : List SetCall) (a : FieldRef) (v : BitVec a.c.bits) (data : List Byte)
    (hpre : ∀ x ∈ pre, x.f.Valid data.length) (ha : a.Valid data.length)
    (hpost : ∀ x ∈ post, x.f.Valid data.length ∧ x.f.Disjoint a) :
    ∃ d, applySets ptr bito bo (pre ++ ⟨a, v⟩ :: post) data = some d ∧ d.length = data.length ∧
      load ptr a.c bito bo d a.s a.e = some ((v.setWidth (a.e - a.s)).setWidth a.c.bits) := by
  obtain ⟨d0, hd0, hl0⟩ := applySets_total ptr bito bo pre data hpre
  have ha0 : a.Valid d0.length := hl0 ▸ ha
  obtain ⟨d1, hd1, hload⟩ := load_store_zero_extends ptr a.c bito bo v d0 a.s a.e
    ⟨ha0.1, ha0.2.1, ha0.2.2⟩
  obtain ⟨d1', hd1', hl1, _⟩ := store_spec ptr a.c bito bo v d0 a.s a.e ha0.1 ha0.2.1 ha0.2.2
  have hl1' : d1.length = d0.length := by
    have : d1' = d1 := by rw [hd1] at hd1'; exact (Option.some.inj hd1').symm
    rw [← this]; exact hl1
  obtain ⟨d2, hd2, hl2, hload2⟩ := applySets_preserves ptr bito bo a post d1 (hl1' ▸ ha0)
    (fun x hx => by rw [hl1', hl0]; exact hpost x hx)
  refine ⟨d2, ?_, by omega, by rw [hload2, hload]⟩
  rw [applySets_append, hd0]
  simp only [applySets, hd1, hd2]

/-! ### Non-vacuity -/
example : InBounds ⟨8, true⟩ [0#8] 4 8 := ⟨by decide, by decide, by decide⟩
example : (⟨⟨16, false⟩, 3, 12⟩ : FieldRef).Valid 2 ∧
    (⟨⟨8, false⟩, 12, 16⟩ : FieldRef).Disjoint ⟨⟨16, false⟩, 3, 12⟩ := by
  unfold FieldRef.Valid FieldRef.Disjoint; simp

end DDV.Props.C02
