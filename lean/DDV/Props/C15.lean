/-
  C15 — Enum analysis rejects ill-formed enums and grants infallibility only when total.
-/
import DDV.Gen.Lemmas.Enum

namespace DDV.Props.C15
open DDV.Gen
set_option linter.unusedVariables false
set_option linter.unusedSimpArgs false

/-- The property's acceptance conditions for an inline enum on a field of `w` bits. -/
structure EnumOk (w : Nat) (base : BaseType) (e : Enum) (useTry : Bool) : Prop where
  /-- it has variants -/
  nonempty : e.variants ≠ []
  /-- no two variants active under the same cfg resolve to the same number -/
  distinct : ((specNumbers e.variants none).zip (e.variants.map (·.cfg))).Nodup
  /-- every number fits the field's width -/
  fits : ∀ n ∈ specNumbers e.variants none, n ≤ 2 ^ w - 1
  /-- … and is not negative on an unsigned field -/
  nonneg : base ≠ .int → ∀ n ∈ specNumbers e.variants none, 0 ≤ n
  /-- at most one default and at most one catch-all -/
  oneDefault : countDefault e.variants ≤ 1
  oneCatchAll : countCatchAll e.variants ≤ 1
  /-- without `try`: a default, a catch-all, or a variant for every bit pattern -/
  total : useTry = true ∨ hasFallback e.variants = true ∨
          ∀ v : Nat, (v : Int) ≤ 2 ^ w - 1 → (v : Int) ∈ specNumbers e.variants none

/-- **Numbering.** Implicit numbering starts at 0 and continues one above the previous variant,
    whatever that variant's kind — `specNumbers` *is* that rule; the analysis assigns exactly these
    numbers, and the second, independent numbering done when the enum is emitted agrees with it on
    every variant list. -/
theorem analysis_numbering (vs : List EnumVariant) :
    (assignValues vs none).2.map (·.1) = specNumbers vs none :=
  assignValues_numbers vs none

theorem numbering_agree (vs : List EnumVariant) :
    (numberVariants (assignValues vs none).1 none).map (·.number) = specNumbers vs none :=
  DDV.Gen.numbering_agree vs none

theorem find_none_iff {α : Type} (p : α → Bool) (l : List α) :
    l.find? p = none ↔ ∀ x ∈ l, p x = false := by
  rw [List.find?_eq_none]
  constructor
  · intro h x hx; cases hp : p x <;> simp_all
  · intro h x hx; simp [h x hx]

/-- **C15, acceptance.** For every field narrower than 127 bits (beyond that the pass panics on
    `1 << bits`), the analysis accepts an inline enum if and only if it is well formed in the
    property's sense. -/
theorem enum_accept_iff (objName : String) (f : Field) (e : Enum) (useTry : Bool) (hw : f.width < 127) :
    isOk (checkEnum objName f e useTry) ↔ EnumOk f.width f.base e useTry := by
  unfold checkEnum isOk
  have h1 : ¬ f.width ≥ 128 := by omega
  have h2 : ¬ f.width = 127 := by omega
  simp only [h1, h2, if_false]
  have hnum := assignValues_numbers e.variants none
  have hkeys := assignValues_keys e.variants none
  generalize hseen : (assignValues e.variants none).2 = seen at hnum hkeys
  by_cases hne : e.variants.isEmpty = true
  · simp only [hne, if_true]
    constructor
    · intro ⟨a, ha⟩; cases ha
    · intro h; exact absurd (List.isEmpty_iff.1 hne) h.nonempty
  · simp only [hne, if_false]
    have hne' : e.variants ≠ [] := fun h => hne (List.isEmpty_iff.2 h)
    by_cases hd : (duplicatesBy dupKey seen [] []).isEmpty = true
    · have hdist : ((specNumbers e.variants none).zip (e.variants.map (·.cfg))).Nodup := by
        have := (duplicatesBy_nil_iff dupKey seen []).1 (List.isEmpty_iff.1 hd)
        rw [← hkeys]; exact this.2
      simp only [hd, Bool.not_true, Bool.false_eq_true, if_false]
      cases hhi : seen.find? (fun x => decide (x.1 > 2 ^ f.width - 1)) with
      | some x =>
        obtain ⟨v, name, cfg⟩ := x
        simp only
        constructor
        · intro ⟨a, ha⟩; cases ha
        · intro h
          have hx := List.find?_some hhi
          have hm := List.mem_of_find?_eq_some hhi
          have : v ∈ specNumbers e.variants none := by
            rw [← hnum]; exact List.mem_map.2 ⟨_, hm, rfl⟩
          have := h.fits v this
          simp only [gt_iff_lt, decide_eq_true_eq] at hx
          omega
      | none =>
        have hfits : ∀ n ∈ specNumbers e.variants none, n ≤ 2 ^ f.width - 1 := by
          intro n hn
          rw [← hnum] at hn
          obtain ⟨x, hx, rfl⟩ := List.mem_map.1 hn
          have := (find_none_iff _ seen).1 hhi x hx
          simp only [gt_iff_lt, decide_eq_false_iff_not, Int.not_lt] at this
          exact this
        simp only
        cases hlo : (if f.base != BaseType.int then seen.find? (fun x => decide (x.1 < 0)) else none) with
        | some x =>
          obtain ⟨v, name, cfg⟩ := x
          simp only
          constructor
          · intro ⟨a, ha⟩; cases ha
          · intro h
            by_cases hb : (f.base != BaseType.int) = true
            · simp only [hb, if_true] at hlo
              have hx := List.find?_some hlo
              have hm := List.mem_of_find?_eq_some hlo
              have hv : v ∈ specNumbers e.variants none := by
                rw [← hnum]; exact List.mem_map.2 ⟨_, hm, rfl⟩
              have hbase : f.base ≠ .int := by
                intro hh; rw [hh] at hb; simp at hb
              have := h.nonneg hbase v hv
              simp only [decide_eq_true_eq] at hx
              omega
            · simp only [hb, if_false] at hlo; cases hlo
        | none =>
          have hnonneg : f.base ≠ .int → ∀ n ∈ specNumbers e.variants none, 0 ≤ n := by
            intro hbase n hn
            have hb : (f.base != BaseType.int) = true := by
              cases hh : f.base <;> simp_all
            simp only [hb, if_true] at hlo
            rw [← hnum] at hn
            obtain ⟨x, hx, rfl⟩ := List.mem_map.1 hn
            have := (find_none_iff _ seen).1 hlo x hx
            simp only [decide_eq_false_iff_not, Int.not_lt] at this
            exact this
          simp only
          by_cases hdef : countDefault e.variants ≥ 2
          · simp only [hdef, if_true]
            constructor
            · intro ⟨a, ha⟩; cases ha
            · intro h; have := h.oneDefault; omega
          · simp only [hdef, if_false]
            by_cases hca : countCatchAll e.variants ≥ 2
            · simp only [hca, if_true]
              constructor
              · intro ⟨a, ha⟩; cases ha
              · intro h; have := h.oneCatchAll; omega
            · simp only [hca, if_false]
              have hcov := bitsCovered_iff (2 ^ f.width - 1) (seen.map (·.1))
                (by have : (0 : Int) < 2 ^ f.width := Int.pow_pos (by omega); omega)
              rw [hnum] at hcov
              by_cases hfb : hasFallback e.variants = true
              · simp only [hfb, Bool.true_or, if_true]
                have : ((GenStyle.infallible f.width == GenStyle.fallible) && !useTry) = false := by
                  simp
                simp only [this, Bool.false_eq_true, if_false]
                exact ⟨fun _ => ⟨hne', hdist, hfits, hnonneg, by omega, by omega, Or.inr (Or.inl hfb)⟩,
                       fun _ => ⟨_, rfl⟩⟩
              · have hfb' : hasFallback e.variants = false := by
                  cases h : hasFallback e.variants <;> simp_all
                simp only [hfb', Bool.false_or]
                by_cases hc : bitsCovered (2 ^ f.width - 1) (specNumbers e.variants none) = true
                · simp only [hnum, hc, if_true]
                  have : ((GenStyle.infallible f.width == GenStyle.fallible) && !useTry) = false := by
                    simp
                  simp only [this, Bool.false_eq_true, if_false]
                  exact ⟨fun _ => ⟨hne', hdist, hfits, hnonneg, by omega, by omega,
                                   Or.inr (Or.inr (hcov.1 hc))⟩, fun _ => ⟨_, rfl⟩⟩
                · simp only [hnum, hc, if_false]
                  cases useTry with
                  | true =>
                    simp only [Bool.not_true, Bool.and_false, Bool.false_eq_true, if_false]
                    exact ⟨fun _ => ⟨hne', hdist, hfits, hnonneg, by omega, by omega, Or.inl rfl⟩,
                           fun _ => ⟨_, rfl⟩⟩
                  | false =>
                    constructor
                    · intro ⟨a, ha⟩; simp at ha
                    · intro h
                      rcases h.total with h | h | h
                      · cases h
                      · rw [hfb'] at h; cases h
                      · exact absurd (hcov.2 h) hc
    · simp only [hd, Bool.not_false, if_true]
      constructor
      · intro ⟨a, ha⟩; cases ha
      · intro h
        have : duplicatesBy dupKey seen [] [] = [] := by
          apply (duplicatesBy_nil_iff dupKey seen []).2
          refine ⟨fun x _ => by simp, ?_⟩
          rw [hkeys]; exact h.distinct
        exact absurd (by rw [this]; rfl) hd

/-- Non-vacuity: a two-bit enum `A, B = 2, C = default` is well formed. -/
example : EnumOk 2 .uint
    { name := "E", variants := [{ name := "A", value := .unspecified }, { name := "B", value := .specified 2 },
                                 { name := "C", value := .default }] } false :=
  (enum_accept_iff "R"
    { name := "f", access := .rw, base := .uint, start := 0, stop := 2 } _ false (by decide)).1 ⟨_, rfl⟩

end DDV.Props.C15
