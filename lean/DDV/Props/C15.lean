import DDV.Gen.Lemmas.Tree
namespace DDV.Props.C15
theorem placeholder : True := trivial
end DDV.Props.C15
