import DDV.Gen.Lemmas.Tree
namespace DDV.Props.C13
theorem placeholder : True := trivial
end DDV.Props.C13
