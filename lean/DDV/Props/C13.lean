/-
  C13 — Accepted definitions never compute an address outside their address type.

  Model: `findMinMax` / `addressTypesBigEnough` (DDV/Gen/Passes.lean) mirror
  `find_min_max_addresses` and the pass of the same name. The reachability theorem is proved for
  the fragment without repeated blocks and without block refs; outside it the unchanged code
  violates the property (known findings F6a, F6b) and the counterexample below is machine-checked.
-/
import DDV.Extracted.Tables
import DDV.Gen.AddrSem
import DDV.Gen.Lemmas.MinMax
import DDV.Gen.Lemmas.Tree
import DDV.Gen.Lemmas.Internal

namespace DDV.Props.C13
open DDV.Gen DDV.Extracted

/-- The `Integer::{min,max}_value` arms of the source are the two's-complement ranges the model
    uses (editing an arm breaks this obligation). -/
theorem integer_table_matches_model :
    integerTable = [("U8", Integer.u8.minValue, Integer.u8.maxValue), ("U16", Integer.u16.minValue, Integer.u16.maxValue),
                    ("U32", Integer.u32.minValue, Integer.u32.maxValue), ("I8", Integer.i8.minValue, Integer.i8.maxValue),
                    ("I16", Integer.i16.minValue, Integer.i16.maxValue), ("I32", Integer.i32.minValue, Integer.i32.maxValue),
                    ("I64", Integer.i64.minValue, Integer.i64.maxValue)] := by decide

theorem integer_ranges_are_twos_complement (t : Integer) :
    (t.minValue, t.maxValue) = (match t with
      | .u8 => (0, 2 ^ 8 - 1) | .u16 => (0, 2 ^ 16 - 1) | .u32 => (0, 2 ^ 32 - 1)
      | .i8 => (-(2 ^ 7), 2 ^ 7 - 1) | .i16 => (-(2 ^ 15), 2 ^ 15 - 1) | .i32 => (-(2 ^ 31), 2 ^ 31 - 1)
      | .i64 => (-(2 ^ 63), 2 ^ 63 - 1)) := by
  cases t <;> decide


/-! ### Reachable addresses -/

def cnt (o : Object) : Nat := (o.repeat_.getD ⟨1, 0⟩).count
def strd (o : Object) : Int := (o.repeat_.getD ⟨1, 0⟩).stride

mutual
/-- Every address the generated driver computes for a selected object lies in `[lo, hi]`:
    a block instance `i` places its contents at `base + offset + i * stride`, and a selected
    addressed object instance `j` inside is at that plus `address + j * stride`. (A ref is taken at
    its own overriding address; a block ref's target contents are *not* followed — see
    `NoBlockRefs`.) -/
def InRangeObj (sel : Object → Bool) (lo hi : Int) (base : Int) : Object → Prop
  | .block h os =>
    ∀ i, i < cnt (.block h os) →
      (lo ≤ base + h.addressOffset + (i : Int) * strd (.block h os) ∧
       base + h.addressOffset + (i : Int) * strd (.block h os) ≤ hi) ∧
      InRangeList sel lo hi (base + h.addressOffset + (i : Int) * strd (.block h os)) os
  | .register r => sel (.register r) = true → ∀ j, j < cnt (.register r) →
      lo ≤ base + r.address + (j : Int) * strd (.register r) ∧
      base + r.address + (j : Int) * strd (.register r) ≤ hi
  | .command c => sel (.command c) = true → ∀ j, j < cnt (.command c) →
      lo ≤ base + c.address + (j : Int) * strd (.command c) ∧
      base + c.address + (j : Int) * strd (.command c) ≤ hi
  | .buffer b => sel (.buffer b) = true → lo ≤ base + b.address ∧ base + b.address ≤ hi
  | .ref r => sel (.ref r) = true → ∀ a, (Object.ref r).address = some a → ∀ j, j < cnt (.ref r) →
      lo ≤ base + a + (j : Int) * strd (.ref r) ∧ base + a + (j : Int) * strd (.ref r) ≤ hi
def InRangeList (sel : Object → Bool) (lo hi : Int) (base : Int) : List Object → Prop
  | [] => True
  | o :: os => InRangeObj sel lo hi base o ∧ InRangeList sel lo hi base os
end

/-- every instance of a repeated block sits between the block's own lowest and highest offset -/
theorem block_instance_between (h : BlockHead) (os : List Object) (i : Nat) (hi : i < cnt (.block h os))
    (hs : (h.repeat_.getD ⟨1, 0⟩).count - 1 < 2 ^ 63) :
    ownLo h.addressOffset (h.repeat_.getD ⟨1, 0⟩) ≤ h.addressOffset + (i : Int) * strd (.block h os) ∧
    h.addressOffset + (i : Int) * strd (.block h os) ≤ ownHi h.addressOffset (h.repeat_.getD ⟨1, 0⟩) :=
  own_between h.addressOffset (h.repeat_.getD ⟨1, 0⟩) i hi hs

mutual
/-- What the analysis bounds over a range of bases holds at every base in the range. -/
theorem inRange_of_bounds (sel : Object → Bool) (lo hi : Int) :
    ∀ (o : Object) (bl bh base : Int), bl ≤ base → base ≤ bh → SmallCounts o →
      BoundsObj sel lo hi bl bh o → InRangeObj sel lo hi base o
  | .block h os, bl, bh, base, h1, h2, hs, hb => by
    unfold SmallCounts at hs
    unfold BoundsObj at hb
    unfold InRangeObj
    intro i hlt
    obtain ⟨w1, w2⟩ := block_instance_between h os i hlt hs.1
    refine ⟨hb.1 base h1 h2 i hlt, ?_⟩
    exact inRangeList_of_bounds sel lo hi os _ _ _ (by omega) (by omega) hs.2 hb.2
  | .register r, bl, bh, base, h1, h2, hs, hb => by
    unfold BoundsObj at hb; unfold InRangeObj; exact fun hf j hj => hb hf base h1 h2 j hj
  | .command c, bl, bh, base, h1, h2, hs, hb => by
    unfold BoundsObj at hb; unfold InRangeObj; exact fun hf j hj => hb hf base h1 h2 j hj
  | .buffer b, bl, bh, base, h1, h2, hs, hb => by
    unfold BoundsObj at hb; unfold InRangeObj; exact fun hf => hb hf base h1 h2
  | .ref r, bl, bh, base, h1, h2, hs, hb => by
    unfold BoundsObj at hb; unfold InRangeObj; exact fun hf a ha j hj => hb hf a ha base h1 h2 j hj
theorem inRangeList_of_bounds (sel : Object → Bool) (lo hi : Int) :
    ∀ (os : List Object) (bl bh base : Int), bl ≤ base → base ≤ bh → SmallCountsList os →
      BoundsList sel lo hi bl bh os → InRangeList sel lo hi base os
  | [], bl, bh, base, h1, h2, hs, hb => by unfold InRangeList; trivial
  | o :: os, bl, bh, base, h1, h2, hs, hb => by
    unfold SmallCountsList at hs
    unfold BoundsList at hb
    unfold InRangeList
    exact ⟨inRange_of_bounds sel lo hi o bl bh base h1 h2 hs.1 hb.1,
           inRangeList_of_bounds sel lo hi os bl bh base h1 h2 hs.2 hb.2⟩
end

mutual
theorem inRange_widen (sel : Object → Bool) (lo hi lo' hi' : Int) (h1 : lo' ≤ lo) (h2 : hi ≤ hi') :
    ∀ (o : Object) (base : Int), InRangeObj sel lo hi base o → InRangeObj sel lo' hi' base o
  | .block h os, base, hb => by
    unfold InRangeObj at hb ⊢
    intro i hlt
    have := hb i hlt
    exact ⟨⟨by omega, by omega⟩, inRangeList_widen sel lo hi lo' hi' h1 h2 os _ this.2⟩
  | .register r, base, hb => by
    unfold InRangeObj at hb ⊢
    intro hf i hi; have := hb hf i hi; exact ⟨by omega, by omega⟩
  | .command c, base, hb => by
    unfold InRangeObj at hb ⊢
    intro hf i hi; have := hb hf i hi; exact ⟨by omega, by omega⟩
  | .buffer b, base, hb => by
    unfold InRangeObj at hb ⊢
    intro hf; have := hb hf; exact ⟨by omega, by omega⟩
  | .ref r, base, hb => by
    unfold InRangeObj at hb ⊢
    intro hf a ha i hi; have := hb hf a ha i hi; exact ⟨by omega, by omega⟩
theorem inRangeList_widen (sel : Object → Bool) (lo hi lo' hi' : Int) (h1 : lo' ≤ lo) (h2 : hi ≤ hi') :
    ∀ (os : List Object) (base : Int), InRangeList sel lo hi base os → InRangeList sel lo' hi' base os
  | [], base, hb => by unfold InRangeList; trivial
  | o :: os, base, hb => by
    unfold InRangeList at hb ⊢
    exact ⟨inRange_widen sel lo hi lo' hi' h1 h2 o base hb.1, inRangeList_widen sel lo hi lo' hi' h1 h2 os base hb.2⟩
end

/-- One address-type check of the pass, as a standalone function. -/
def checkKind (os : List Object) (t : Option Integer) (sel : Object → Bool) : Prop :=
  match t with
  | none => True
  | some ty => ∃ mn mx, findMinMax os sel = .ok (mn, mx) ∧ ty.minValue ≤ mn ∧ mx ≤ ty.maxValue

/-- **C13, the analysis (all definitions).** Whenever the min/max analysis returns, zero and every
    instance of every selected object — at every combination of its own repeat index and the
    repeat indices of its enclosing blocks — lie between the returned bounds. -/
theorem analysis_covers_every_visited_instance (sel : Object → Bool) (hb : ∀ h os, sel (.block h os) = true)
    (os : List Object) (hs : SmallCountsList os) (mn mx : Int) (h : findMinMax os sel = .ok (mn, mx)) :
    mn ≤ 0 ∧ 0 ≤ mx ∧ InRangeList sel mn mx 0 os := by
  obtain ⟨h1, h2, h3⟩ := findMinMax_bounds sel hb os hs mn mx h
  exact ⟨h1, h2, inRangeList_of_bounds sel mn mx os 0 0 0 (Int.le_refl _) (Int.le_refl _) hs h3⟩

/-- **C13 at full strength**, as a predicate: an accepted check of kind `sel` with address type
    `ty` implies that every address the driver can compute for that kind fits `ty`. -/
def Full (os : List Object) (ty : Integer) (sel : Object → Bool) : Prop :=
  checkKind os (some ty) sel → InRangeList sel ty.minValue ty.maxValue 0 os

/-- **C13 (the range analysis is sound, repeated blocks included).** If the pass's check for a kind
    succeeds, every address computed for a selected object — for every index of the object and
    every index of every enclosing repeated block — fits the address type. (What a block *ref*
    places at its own offset is not followed by the analysis: finding F6b, outside `InRangeObj`.
    Repeat counts below 2^63+1: see `SmallCount`.) Before the repair of finding F6a this held only
    for definitions without repeated blocks. -/
theorem reachable_in_range (sel : Object → Bool) (hb : ∀ h os, sel (.block h os) = true)
    (os : List Object) (hs : SmallCountsList os) (ty : Integer) :
    Full os ty sel := by
  intro hc
  obtain ⟨mn, mx, hf, h1, h2⟩ := hc
  have := (analysis_covers_every_visited_instance sel hb os hs mn mx hf).2.2
  exact inRangeList_widen sel mn mx _ _ h1 h2 os 0 this

theorem selRegister_blocks (h : BlockHead) (os : List Object) : selRegister (.block h os) = true := rfl
theorem selCommand_blocks (h : BlockHead) (os : List Object) : selCommand (.block h os) = true := rfl
theorem selBuffer_blocks (h : BlockHead) (os : List Object) : selBuffer (.block h os) = true := rfl

/-- The former F6a witness: a block repeated 2 × 100 holding a register at 50, register address
    type `i8`; `b(1).r()` computes 150. -/
def f6aDevice : List Object :=
  [.block { name := "b", addressOffset := 0, repeat_ := some ⟨2, 100⟩ }
     [.register { name := "r", access := .rw, byteOrder := none, bitOrder := .lsb0, allowBitOverlap := false,
                  allowAddressOverlap := false, address := 50, sizeBits := 8, reset := none,
                  repeat_ := none, fields := [] }]]

/-- After the repair of F6a the analysis reaches the instance at 150 … -/
theorem f6a_now_analysed : findMinMax f6aDevice selRegister = .ok (0, 150) := by
  rfl

/-- … and the definition is rejected with the offending bound (it used to be accepted, and
    `full_counterexample` proved `Full` false of the tree). -/
theorem f6a_now_rejected :
    checkAddrKind f6aDevice "register" (some .i8) selRegister =
      .error (passErr "addr_too_high_register" [] [150, 127]) := by
  rfl

/-- Non-vacuity of `reachable_in_range`: a repeated block holding a repeated register, accepted
    with `i8` and in range at every index combination (0 … 20 + 30 + 50 + 2·10 = 120). -/
def okDevice : List Object :=
  [.block { name := "b", addressOffset := 20, repeat_ := some ⟨2, 30⟩ }
     [.register { name := "r", access := .rw, byteOrder := none, bitOrder := .lsb0, allowBitOverlap := false,
                  allowAddressOverlap := false, address := 50, sizeBits := 8, reset := none,
                  repeat_ := some ⟨3, 10⟩, fields := [] }]]

example : Full okDevice .i8 selRegister :=
  reachable_in_range _ selRegister_blocks _
    (by simp [okDevice, SmallCountsList, SmallCounts, SmallCount, Object.repeat_]) _

/-- … and its check does succeed (the hypothesis of `Full` is met). -/
example : checkKind okDevice (some .i8) selRegister :=
  ⟨0, 120, rfl, by decide, by decide⟩

/-! ### The pass itself: acceptance and the error it reports -/

theorem checkAddrKind_ok_iff (os : List Object) (kind : String) (t : Option Integer) (sel : Object → Bool) :
    checkAddrKind os kind t sel = .ok () ↔ checkKind os t sel := by
  unfold checkAddrKind checkKind
  cases t with
  | none => simp
  | some ty =>
    simp only
    cases hf : findMinMax os sel with
    | error e => simp
    | ok p =>
      obtain ⟨mn, mx⟩ := p
      simp only [ge_iff_le, Except.ok.injEq, Prod.mk.injEq]
      by_cases h1 : ty.minValue ≤ mn
      · by_cases h2 : mx ≤ ty.maxValue
        · simp only [h1, h2, not_true_eq_false, if_false, true_iff]
          exact ⟨mn, mx, ⟨rfl, rfl⟩, h1, h2⟩
        · simp only [h1, h2, not_true_eq_false, not_false_eq_true, if_false, if_true, reduceCtorEq, false_iff]
          intro ⟨a, b, ⟨ha, hb⟩, _, hh⟩
          subst hb; exact h2 hh
      · simp only [h1, not_false_eq_true, if_true, reduceCtorEq, false_iff]
        intro ⟨a, b, ⟨ha, hb⟩, hh, _⟩
        subst ha; exact h1 hh

/-- **Rejected with an error stating the offending bound.** When a check of the pass fails without
    a panic, the error is `addr_too_low_<kind>` / `addr_too_high_<kind>` and carries exactly two
    numbers: the extreme address the analysis reached — which lies strictly beyond the type's
    limit — and that limit. -/
theorem rejection_states_the_offending_bound (os : List Object) (kind : String) (ty : Integer) (sel : Object → Bool)
    (e : Err) (h : checkAddrKind os kind (some ty) sel = .error (.error e)) :
    (∃ mn mx, findMinMax os sel = .ok (mn, mx) ∧
      ((e.kind = s!"addr_too_low_{kind}" ∧ e.numbers = [mn, ty.minValue] ∧ mn < ty.minValue) ∨
       (e.kind = s!"addr_too_high_{kind}" ∧ e.numbers = [mx, ty.maxValue] ∧ ty.maxValue < mx))) ∨
    findMinMax os sel = .error (.error e) := by
  unfold checkAddrKind at h
  simp only at h
  cases hf : findMinMax os sel with
  | error x =>
    rw [hf] at h
    right
    simp only [Except.error.injEq] at h
    rw [h]
  | ok p =>
    obtain ⟨mn, mx⟩ := p
    rw [hf] at h
    simp only at h
    left
    refine ⟨mn, mx, rfl, ?_⟩
    by_cases h1 : mn ≥ ty.minValue
    · simp only [h1, not_true_eq_false, if_false] at h
      by_cases h2 : mx ≤ ty.maxValue
      · simp [h2] at h
      · simp only [h2, not_false_eq_true, if_true, Except.error.injEq] at h
        right
        unfold passErr at h
        have := Stop.error.inj h
        subst this
        exact ⟨rfl, rfl, by omega⟩
    · simp only [h1, not_false_eq_true, if_true, Except.error.injEq] at h
      left
      unfold passErr at h
      have := Stop.error.inj h
      subst this
      exact ⟨rfl, rfl, by omega⟩

/-- **The pass accepts iff all three checks hold** (and then changes nothing). -/
theorem address_types_big_enough_iff (d : Device) :
    addressTypesBigEnough d = .ok d ↔
      checkKind d.objects d.config.registerAddressType selRegister ∧
      checkKind d.objects d.config.commandAddressType selCommand ∧
      checkKind d.objects d.config.bufferAddressType selBuffer := by
  unfold addressTypesBigEnough
  rw [← checkAddrKind_ok_iff d.objects "register", ← checkAddrKind_ok_iff d.objects "command",
      ← checkAddrKind_ok_iff d.objects "buffer"]
  cases h1 : checkAddrKind d.objects "register" d.config.registerAddressType selRegister with
  | error e => simp
  | ok u =>
    cases h2 : checkAddrKind d.objects "command" d.config.commandAddressType selCommand with
    | error e => simp
    | ok u2 =>
      cases h3 : checkAddrKind d.objects "buffer" d.config.bufferAddressType selBuffer with
      | error e => simp
      | ok u3 => simp

/-! ### A missing address type for a used object kind is rejected -/

theorem forM_unit_ok_iff {α : Type} (f : α → M Unit) :
    ∀ (l : List α), l.forM f = .ok () ↔ ∀ x ∈ l, f x = .ok ()
  | [] => by simp [List.forM, pure, Except.pure]
  | a :: as => by
    have hc : (a :: as).forM f = (match f a with | .error e => .error e | .ok _ => as.forM f) := by
      show (f a >>= fun _ => as.forM f) = _
      simp only [bind, Except.bind]
      cases f a <;> rfl
    rw [hc]
    simp only [List.mem_cons, forall_eq_or_imp]
    cases h : f a with
    | error e => simp
    | ok u =>
      cases u
      simp only [true_and]
      exact forM_unit_ok_iff f as

/-- **`address_types_specified` accepts iff every object kind in use has an address type** (at any
    depth of the tree). -/
theorem address_types_specified_iff (d : Device) :
    isOk (addressTypesSpecified d) ↔
      ((∃ r, Object.register r ∈ allObjects d.objects) → d.config.registerAddressType.isSome = true) ∧
      ((∃ c, Object.command c ∈ allObjects d.objects) → d.config.commandAddressType.isSome = true) ∧
      ((∃ b, Object.buffer b ∈ allObjects d.objects) → d.config.bufferAddressType.isSome = true) := by
  unfold addressTypesSpecified isOk
  simp only [bind, Except.bind, pure, Except.pure]
  generalize hf : (fun o => match o with
    | Object.register _ => if d.config.registerAddressType.isNone = true then throw (passErr "no_addr_type_register") else Except.ok ()
    | Object.command _ => if d.config.commandAddressType.isNone = true then throw (passErr "no_addr_type_command") else Except.ok ()
    | Object.buffer _ => if d.config.bufferAddressType.isNone = true then throw (passErr "no_addr_type_buffer") else Except.ok ()
    | _ => Except.ok () : Object → M Unit) = f
  have key : (allObjects d.objects).forM f = .ok () ↔ _ := forM_unit_ok_iff f (allObjects d.objects)
  constructor
  · intro ⟨a, ha⟩
    cases hm : (allObjects d.objects).forM f with
    | error e => rw [hm] at ha; cases ha
    | ok u =>
      cases u
      have hall := key.1 hm
      refine ⟨?_, ?_, ?_⟩
      · intro ⟨r, hr⟩
        have := hall _ hr
        rw [← hf] at this
        cases h : d.config.registerAddressType <;> simp_all [throw, throwThe, MonadExceptOf.throw]
      · intro ⟨c, hc⟩
        have := hall _ hc
        rw [← hf] at this
        cases h : d.config.commandAddressType <;> simp_all [throw, throwThe, MonadExceptOf.throw]
      · intro ⟨b, hb⟩
        have := hall _ hb
        rw [← hf] at this
        cases h : d.config.bufferAddressType <;> simp_all [throw, throwThe, MonadExceptOf.throw]
  · intro ⟨h1, h2, h3⟩
    have : (allObjects d.objects).forM f = .ok () := by
      apply key.2
      intro o ho
      rw [← hf]
      cases o with
      | register r =>
        have := h1 ⟨r, ho⟩
        cases h : d.config.registerAddressType <;> simp_all
      | command c =>
        have := h2 ⟨c, ho⟩
        cases h : d.config.commandAddressType <;> simp_all
      | buffer b =>
        have := h3 ⟨b, ho⟩
        cases h : d.config.bufferAddressType <;> simp_all
      | block hd os => rfl
      | ref r => rfl
    rw [this]
    exact ⟨d, rfl⟩

/-! ### The internal address type (`find_best_internal_address`): the type of `base_address` and of all
     emitted address arithmetic -/

/-- The lowering's internal type is what `find_best_internal_address` returns for the device. -/
theorem lower_internal (n : Names) (name : String) (d : Device) (l : Lir) (h : lower n name d = .ok l) :
    findBestInternalAddress d = .ok (l.internalSigned, l.internalBits) := by
  unfold lower at h
  simp only [bind, Except.bind, pure, Except.pure] at h
  split at h
  · cases h
  split at h
  · cases h
  cases hf : transformFieldSets d ((collectEnums d.objects).map (·.1)) with
  | error e => rw [hf] at h; cases h
  | ok fs =>
    rw [hf] at h
    simp only at h
    cases hc : collectIntoBlocks n d.config d.objects (2 * (allObjects d.objects).length + 4) none name true d.objects with
    | error e => rw [hc] at h; cases h
    | ok bl =>
      rw [hc] at h
      simp only at h
      cases hb : findBestInternalAddress d with
      | error e => rw [hb] at h; cases h
      | ok p =>
        rw [hb] at h
        simp only [Except.ok.injEq] at h
        subst h
        rfl

/-- **The internal type is a Rust integer**: `u8 … u64` or `i8 … i64`. -/
theorem internal_type_is_a_rust_integer (n : Names) (name : String) (d : Device) (l : Lir)
    (h : lower n name d = .ok l) :
    l.internalBits = 8 ∨ l.internalBits = 16 ∨ l.internalBits = 32 ∨ l.internalBits = 64 :=
  internal_bits_rust d _ _ (lower_internal n name d l h)

/-- **The internal type holds every address the analysis reached**: zero and every instance of
    every object (any kind), taken at the sum of its enclosing blocks' offsets, lie within the range
    of the type chosen for `base_address`, and that type is unsigned only if none of them is negative. -/
theorem internal_type_covers_every_visited_instance (n : Names) (name : String) (d : Device) (l : Lir)
    (hs : SmallCountsList d.objects) (h : lower n name d = .ok l) :
    (typeRange l.internalSigned l.internalBits).1 ≤ 0 ∧ 0 ≤ (typeRange l.internalSigned l.internalBits).2 ∧
    InRangeList (fun _ => true) (typeRange l.internalSigned l.internalBits).1
      (typeRange l.internalSigned l.internalBits).2 0 d.objects := by
  obtain ⟨mn, mx, hmm, h1, h2⟩ := internal_type_covers_range d _ _ (lower_internal n name d l h)
  obtain ⟨b1, b2, b3⟩ := analysis_covers_every_visited_instance (fun _ => true) (fun _ _ => rfl) d.objects hs mn mx hmm
  exact ⟨by omega, by omega, inRangeList_widen _ mn mx _ _ h1 h2 d.objects 0 b3⟩

/-- Where the emitted arithmetic `self.base_address + ADDRESS (+|-) index as T * |STRIDE|`, evaluated
    left to right in the internal type `T = [lo, hi]`, agrees with the exact sum: exactly when the
    literal, the partial sum, the index, the stride, their product and the result all fit `T`.
    (The analysis covers the partial sum and the result — they are instance addresses; the literal
    of an object below a positive block offset and the product are not covered: findings F15 / F6c.) -/
theorem internal_arithmetic_exact_iff (lo hi : Int) (m : Method) (base : Int) (idx : Nat) (v : Int) :
    m.addrAtT lo hi base idx = some v ↔
      m.addrAt base idx = some v ∧ fitsT lo hi m.address = true ∧ fitsT lo hi (base + m.address) = true ∧
      (∀ r, m.repeat_ = some r →
        fitsT lo hi (idx : Int) = true ∧ fitsT lo hi (r.stride.natAbs : Int) = true ∧
        fitsT lo hi ((idx : Int) * (r.stride.natAbs : Int)) = true ∧ fitsT lo hi v = true) := by
  unfold Method.addrAtT Method.addrAt
  cases hr : m.repeat_ with
  | none =>
    by_cases h1 : fitsT lo hi m.address = true <;> by_cases h2 : fitsT lo hi (base + m.address) = true <;>
      by_cases h3 : idx = 0 <;> simp [h1, h2, h3]
  | some r =>
    by_cases h1 : fitsT lo hi m.address = true <;> by_cases h2 : fitsT lo hi (base + m.address) = true <;>
      by_cases h3 : idx < r.count <;> simp [h1, h2, h3]
    by_cases h4 : fitsT lo hi (idx : Int) = true <;> by_cases h5 : fitsT lo hi (r.stride.natAbs : Int) = true <;>
      by_cases h6 : fitsT lo hi ((idx : Int) * (r.stride.natAbs : Int)) = true <;> simp [h4, h5, h6]
    by_cases hs : r.stride < 0 <;> simp [hs]
    · constructor
      · intro ⟨a, b⟩; subst b; exact ⟨rfl, a⟩
      · intro ⟨a, b⟩; subst a; exact ⟨b, rfl⟩
    · constructor
      · intro ⟨a, b⟩; subst b; exact ⟨rfl, a⟩
      · intro ⟨a, b⟩; subst a; exact ⟨b, rfl⟩

/-- Whatever a chain of accessors computes in the internal type without leaving it is the exact
    address of that chain (C04's `evalChain`), and a valid index tuple stays valid. -/
theorem internal_chain_sound (lo hi : Int) :
    ∀ (ch : List (Method × Nat)) (base v : Int), evalChainT lo hi ch base = some v → evalChain ch base = some v
  | [], base, v, h => by simpa [evalChainT, evalChain] using h
  | (m, i) :: rest, base, v, h => by
    unfold evalChainT at h
    unfold evalChain
    cases ha : m.addrAtT lo hi base i with
    | none => rw [ha] at h; cases h
    | some a =>
      rw [ha] at h
      have := ((internal_arithmetic_exact_iff lo hi m base i a).1 ha).1
      rw [this]
      exact internal_chain_sound lo hi rest a v h

/-- F6c, as a witness: `i8`, `register @100 { REPEAT 3 × -100 }` — every instance (100, 0, -100)
    fits `i8`, the product `2 * 100` does not. -/
theorem f6c_counterexample :
    let m : Method := { name := "r", cfg := none, kind := .register, address := 100, allowAddressOverlap := false,
                        repeat_ := some ⟨3, -100⟩ }
    m.addrAt 0 2 = some (-100) ∧ m.addrAtT (-128) 127 0 2 = none := by
  decide

/-! ### F24: what a ref inherits from its target is not analysed -/

/-- Witness of finding F24: a register at 5 repeated 3 × 1 and a ref to it that overrides only the address (255),
    register address type `u8`. -/
def f24Target : Register :=
  { name := "obj", access := .rw, byteOrder := none, bitOrder := .lsb0, allowBitOverlap := false,
    allowAddressOverlap := false, address := 5, sizeBits := 8, reset := none, repeat_ := some ⟨3, 1⟩, fields := [] }
def f24Ref : RefObject :=
  { name := "far", override := .register { name := "obj", access := none, address := some 255,
                                             allowAddressOverlap := false, reset := none, repeat_ := none } }
def f24Device : List Object := [.register f24Target, .ref f24Ref]

/-- The analysis bounds the ref as the single address 255 … -/
theorem f24_analysed_as_one_address : findMinMax f24Device selRegister = .ok (0, 255) := by rfl

/-- … so the definition is accepted with `u8`, although the lowering lets the ref inherit the repeat of its
    target (`substRef`): the accessor `far(i)` exists for `i < 3` and `far(1)` computes 256 (known finding F24;
    `reachable_in_range` speaks of a ref at its *own* address and repeat only). -/
theorem f24_counterexample (n : Names) :
    checkAddrKind f24Device "register" (some .u8) selRegister = .ok () ∧
    (substRef n f24Ref "new" (.register f24Target)).map (fun p => (p.1.address, p.1.repeat_)) =
      some (some 255, some ⟨3, 1⟩) ∧
    ¬ ((255 : Int) + 1 * 1 ≤ Integer.u8.maxValue) := by
  refine ⟨rfl, rfl, by decide⟩

end DDV.Props.C13
