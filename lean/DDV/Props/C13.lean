/-
  C13 — Accepted definitions never compute an address outside their address type.
  (work in progress: table obligation and the bound checks; the reachability theorem follows)
-/
import DDV.Extracted.Tables
import DDV.Gen.AddrSem

namespace DDV.Props.C13
open DDV.Gen DDV.Extracted

/-- The `Integer::{min,max}_value` arms of the source are the two's-complement ranges the model
    uses (editing an arm breaks this obligation). -/
theorem integer_table_matches_model :
    integerTable = [("U8", Integer.u8.minValue, Integer.u8.maxValue), ("U16", Integer.u16.minValue, Integer.u16.maxValue),
                    ("U32", Integer.u32.minValue, Integer.u32.maxValue), ("I8", Integer.i8.minValue, Integer.i8.maxValue),
                    ("I16", Integer.i16.minValue, Integer.i16.maxValue), ("I32", Integer.i32.minValue, Integer.i32.maxValue),
                    ("I64", Integer.i64.minValue, Integer.i64.maxValue)] := by decide

theorem integer_ranges_are_twos_complement (t : Integer) :
    (t.minValue, t.maxValue) = (match t with
      | .u8 => (0, 2 ^ 8 - 1) | .u16 => (0, 2 ^ 16 - 1) | .u32 => (0, 2 ^ 32 - 1)
      | .i8 => (-(2 ^ 7), 2 ^ 7 - 1) | .i16 => (-(2 ^ 15), 2 ^ 15 - 1) | .i32 => (-(2 ^ 31), 2 ^ 31 - 1)
      | .i64 => (-(2 ^ 63), 2 ^ 63 - 1)) := by
  cases t <;> decide

end DDV.Props.C13
