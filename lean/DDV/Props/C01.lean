/-
  C01 — Field bits occupy the documented physical positions for every byte/bit order.

  Property theorems only; helper lemmas are in `DDV.Bits.Lemmas`.
  `physBit`, `srcOfValueBit`, `valueBitOfSrc`, `specLoadBit`, `specStoreBit` are the
  documented numbering (`DDV.Bits.Spec`), written independently of the loops of `ops.rs`
  (`DDV.Bits.Model`).
-/
import DDV.Bits.Lemmas
import DDV.Extracted.Tables

namespace DDV.Props.C01
open DDV.Bits

/-- The in-bounds precondition of the property: a range `[s,e)` inside the buffer, not wider
    than the carrier. (`s = e` is allowed here; the generator never emits it, see C03.) -/
structure InBounds (c : Carrier) (data : List Byte) (s e : Nat) : Prop where
  le : s ≤ e
  len : e ≤ 8 * data.length
  width : e - s ≤ c.bits

/-- **Load, any order.** For every pointer width, carrier, byte order, bit order, buffer and
    in-bounds range the load succeeds (no out-of-bounds access, no over-wide shift) and value bit
    `j` is the documented set-bit: `s + j` under LSB0, the byte-segment reversal under MSB0; bits
    at and above the field width are zero. -/
theorem load_layout (ptr : Nat) (c : Carrier) (bito : BitOrder) (bo : ByteOrder)
    (data : List Byte) (s e : Nat) (h : InBounds c data s e) :
    ∃ v, load ptr c bito bo data s e = some v ∧
      ∀ j, v.getLsbD j = (decide (j < e - s) && physBit bo bito data (srcOfValueBit bito s e j)) :=
  load_spec ptr c bito bo data s e h.le h.len h.width

/-- LSB0: value bit `j` is set-bit `s + j`. -/
theorem load_lsb0_layout (ptr : Nat) (c : Carrier) (bo : ByteOrder) (data : List Byte) (s e : Nat)
    (h : InBounds c data s e) :
    ∃ v, load ptr c .lsb0 bo data s e = some v ∧
      ∀ j, v.getLsbD j = (decide (j < e - s) && physBit bo .lsb0 data (s + j)) :=
  load_layout ptr c .lsb0 bo data s e h

/-- MSB0: value bit `j` is the set-bit obtained by reversing `s + j` inside its byte segment
    `[max s (8⌊(s+j)/8⌋), min e (8⌊(s+j)/8⌋ + 8))`. -/
theorem load_msb0_layout (ptr : Nat) (c : Carrier) (bo : ByteOrder) (data : List Byte) (s e : Nat)
    (h : InBounds c data s e) :
    ∃ v, load ptr c .msb0 bo data s e = some v ∧
      ∀ j, v.getLsbD j = (decide (j < e - s) &&
        physBit bo .msb0 data (segLo s (s + j) + segHi e (s + j) - 1 - (s + j))) :=
  load_layout ptr c .msb0 bo data s e h

/-- **Store, any order.** The store succeeds, keeps the length, and afterwards every set-bit `k`
    of the buffer is the value bit the numbering assigns to it when `k ∈ [s,e)` and is unchanged
    otherwise. -/
theorem store_layout (ptr : Nat) (c : Carrier) (bito : BitOrder) (bo : ByteOrder)
    (v : BitVec c.bits) (data : List Byte) (s e : Nat) (h : InBounds c data s e) :
    ∃ d, store ptr c bito bo v s e data = some d ∧ d.length = data.length ∧
      ∀ k, k < 8 * data.length →
        physBit bo bito d k =
          if s ≤ k ∧ k < e then v.getLsbD (valueBitOfSrc bito s e k) else physBit bo bito data k :=
  store_spec ptr c bito bo v data s e h.le h.len h.width

/-- The numbering used by load and by store is the same bijection between value bits `[0,e-s)`
    and set-bits `[s,e)`. -/
theorem numbering_bijective (bito : BitOrder) (s e : Nat) :
    (∀ j, j < e - s → s ≤ srcOfValueBit bito s e j ∧ srcOfValueBit bito s e j < e ∧
        valueBitOfSrc bito s e (srcOfValueBit bito s e j) = j) ∧
    (∀ k, s ≤ k → k < e → valueBitOfSrc bito s e k < e - s ∧
        srcOfValueBit bito s e (valueBitOfSrc bito s e k) = k) :=
  ⟨fun j hj => ⟨(src_range bito s e j hj).1, (src_range bito s e j hj).2.1, value_src bito s e j hj⟩,
   fun k h1 h2 => src_value bito s e k h1 h2⟩

/-- MSB0 keeps every byte's part together: value bit `j` comes from the same byte as `s + j`. -/
theorem msb0_same_byte (s e j : Nat) (hj : j < e - s) :
    srcOfValueBit .msb0 s e j / 8 = (s + j) / 8 :=
  (src_range .msb0 s e j hj).2.2

/-- The `isize` pivot arithmetic of `pivot_msb0` is the segment reversal, at every position the
    MSB0 walk can reach on its bit-by-bit path. -/
theorem pivot_is_segment_reversal (s e i : Nat) (hs : s ≤ i) (hi : i < e)
    (hw : WalkPos s e i) (hslow : ¬ (i % 8 = 0 ∧ i + 8 ≤ e)) :
    pivotMsb0 s e i = some (segLo s i + segHi e i - 1 - i) :=
  DDV.Bits.pivot_is_segment_reversal s e i hs hi hw hslow

/-! ### The pictures of `book/src/memory.md` ("Together"), from `physBit` -/

/-- Only bit 0 high in a 2-byte array. -/
example : ∀ k, k < 16 → physBit .le .lsb0 [0x01#8, 0x00#8] k = decide (k = 0) := by decide
example : ∀ k, k < 16 → physBit .le .msb0 [0x80#8, 0x00#8] k = decide (k = 0) := by decide
example : ∀ k, k < 16 → physBit .be .lsb0 [0x00#8, 0x01#8] k = decide (k = 0) := by decide
example : ∀ k, k < 16 → physBit .be .msb0 [0x00#8, 0x80#8] k = decide (k = 0) := by decide
/-- Only bit 10 high in a 2-byte array. -/
example : ∀ k, k < 16 → physBit .le .lsb0 [0x00#8, 0x04#8] k = decide (k = 10) := by decide
example : ∀ k, k < 16 → physBit .le .msb0 [0x00#8, 0x20#8] k = decide (k = 10) := by decide
example : ∀ k, k < 16 → physBit .be .lsb0 [0x04#8, 0x00#8] k = decide (k = 10) := by decide
example : ∀ k, k < 16 → physBit .be .msb0 [0x20#8, 0x00#8] k = decide (k = 10) := by decide

/-! ### Non-vacuity: the hypotheses are satisfiable by non-trivial cases -/

example : InBounds ⟨16, true⟩ [0xAB#8, 0xCD#8, 0xEF#8] 3 17 := ⟨by decide, by decide, by decide⟩
example : WalkPos 3 17 16 ∧ ¬ (16 % 8 = 0 ∧ 16 + 8 ≤ 17) := by unfold WalkPos; omega

end DDV.Props.C01

/-! ### The `DedupCast` table (regenerated from `ops.rs` on every run) -/
namespace DDV.Props.C01
open DDV.Bits DDV.Extracted

/-- Width and signedness of a Rust integer type name on a target with `ptr`-bit pointers. -/
def typeInfo (ptr : Nat) (t : String) : Option (Nat × Bool) :=
  match t with
  | "u8" => some (8, false) | "u16" => some (16, false) | "u32" => some (32, false)
  | "u64" => some (64, false) | "u128" => some (128, false) | "usize" => some (ptr, false)
  | "i8" => some (8, true) | "i16" => some (16, true) | "i32" => some (32, true)
  | "i64" => some (64, true) | "i128" => some (128, true) | "isize" => some (ptr, true)
  | _ => none

/-- Whether a row's `cfg(...)` holds on a `ptr`-bit target. -/
def cfgHolds (ptr : Nat) (cfg : String) : Option Bool :=
  match cfg with
  | "" => some true
  | "cfg(target_pointer_width=\"16\")" => some (ptr == 16)
  | "cfg(target_pointer_width=\"32\")" => some (ptr == 32)
  | "cfg(target_pointer_width=\"64\")" => some (ptr == 64)
  | "cfg(not(target_pointer_width=\"16\"))" => some (ptr != 16)
  | _ => none

def rowOk (ptr : Nat) (row : String × String × String) : Bool :=
  match cfgHolds ptr row.2.2, typeInfo ptr row.1, typeInfo ptr row.2.1 with
  | some false, _, _ => true
  | some true, some (tb, ts), some (db, ds) => db == dedupWidth ptr tb && ds == ts
  | _, _, _ => false

/-- Every `impl_dedup_cast!` row of the source, on 16-, 32- and 64-bit targets, has the dedup width
    `dedupWidth` the model (and hence every theorem above) uses, with the carrier's signedness; and
    on each target every one of the twelve carriers has exactly one active row. -/
theorem dedup_table_matches_model :
    (∀ ptr ∈ [16, 32, 64], ∀ row ∈ dedupRows, rowOk ptr row = true) ∧
    (∀ ptr ∈ [16, 32, 64], ∀ t ∈ ["u8", "u16", "u32", "u64", "u128", "usize", "i8", "i16", "i32", "i64", "i128", "isize"],
      (dedupRows.filter fun row => row.1 == t && cfgHolds ptr row.2.2 == some true).length = 1) := by
  decide

end DDV.Props.C01
