/-
  C09 — Command dispatch transfers exactly the declared input and output.
-/
import DDV.Proto.Lemmas

namespace DDV.Props.C09
set_option linter.unusedSimpArgs false
open DDV.Proto DDV.Proto.Command

/-- The single interface call the property prescribes for a command: the address, the declared
    input size and the ⌈size/8⌉ input bytes the closure produced from an all-zero field set
    (0 and `[]` without input fields), the declared output size and a zeroed ⌈size/8⌉-byte output
    buffer (0 and `[]` without output fields). -/
def expectedCall (c : CmdSpec) (f : InClosure) : Req :=
  .cmd c.addr (c.sizeIn.getD 0)
    (match c.sizeIn with | none => [] | some si => f (zeros (bytesOf si)))
    (c.sizeOut.getD 0)
    (match c.sizeOut with | none => [] | some so => zeros (bytesOf so))

/-- The prescribed result: the interface's error unchanged; else `()` for commands without
    output, else exactly what the interface wrote into the output buffer. -/
def expectedResult (c : CmdSpec) (e : Option Entry) : Res :=
  match e with
  | some (.err code) => .error code
  | some (.ok _ fill) =>
    (match c.sizeOut with
     | none => .ok .unit
     | some so => .ok (.bytes (applyFill (zeros (bytesOf so)) fill)))
  | none =>
    (match c.sizeOut with
     | none => .ok .unit
     | some so => .ok (.bytes (zeros (bytesOf so))))

/-- **dispatch**, all four shapes: exactly one interface call with the prescribed five arguments
    and the prescribed result. -/
theorem dispatch_protocol (c : CmdSpec) (f : InClosure) (env : Env) :
    runBlocking (dispatch c f) env =
      (⟨env.log ++ [expectedCall c f], env.script.tail⟩,
       .ret (expectedResult c env.script.head?)) := by
  obtain ⟨addr, si, so⟩ := c
  cases si <;> cases so <;>
    (simp only [dispatch, expectedCall, expectedResult, runBlocking, Env.answer, Option.getD]
     cases h : env.script.head? with
     | none => simp [respond, runBlocking, Req.mutBuf]
     | some e => cases e <;> simp [respond, runBlocking, Req.mutBuf])

/-- **dispatch_async = dispatch** under every suspension pattern. -/
theorem dispatch_async_eq_blocking (pend : Nat → Nat) (c : CmdSpec) (f : InClosure) (env : Env)
    (n extra : Nat) :
    drive pend (extra + 1 + pendSum pend (dispatchAsync c f) env n) ⟨dispatchAsync c f, none, env, n⟩ 0 =
      some ((runBlocking (dispatch c f) env).1, (runBlocking (dispatch c f) env).2,
            0 + 1 + pendSum pend (dispatchAsync c f) env n) :=
  drive_eq_blocking pend (dispatchAsync c f) env n 0 extra

/-- A dispatch makes exactly one interface call, whatever the interface answers. -/
theorem dispatch_one_call (c : CmdSpec) (f : InClosure) (env : Env) :
    (runBlocking (dispatch c f) env).1.log.length = env.log.length + 1 := by
  rw [dispatch_protocol]; simp

example : expectedCall ⟨7, some 12, some 9⟩ (fun b => b.map (· ^^^ 0x0F#8)) =
    .cmd 7 12 [0x0F#8, 0x0F#8] 9 [0#8, 0#8] := by decide

end DDV.Props.C09
