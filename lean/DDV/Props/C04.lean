import DDV.Gen.Lemmas.Tree
namespace DDV.Props.C04
theorem placeholder : True := trivial
end DDV.Props.C04
