/-
  C04 — Every operation reaches the device at the mathematically defined address.
-/
import DDV.Gen.AddrSem
import DDV.Props.C05
import DDV.Gen.Emit
import DDV.Gen.Lemmas.Refs
import DDV.Gen.Lemmas.LowerTree
import DDV.Gen.Lemmas.LowerRefs
import DDV.Props.C14
import DDV.Gen.Lemmas.Claimed

namespace DDV.Props.C04
open DDV.Gen
set_option linter.unusedVariables false
set_option linter.unusedSimpArgs false

/-- **One accessor.** For a valid index the emitted `base + ADDRESS (+|-) index * |STRIDE|` is
    `base + address + index × stride` in the integers, negative strides included. -/
theorem accessor_address (m : Method) (base : Int) (idx : Nat) (a : Int) (h : m.addrAt base idx = some a) :
    a = base + m.address + (idx : Int) * m.strideOr0 := by
  unfold Method.addrAt at h
  unfold Method.strideOr0
  cases hr : m.repeat_ with
  | none =>
    simp only [hr] at h
    split at h
    · cases h; simp
    · cases h
  | some r =>
    simp only [hr] at h
    split at h
    · cases h
      by_cases hs : r.stride < 0
      · simp only [hs, if_true]
        have : (r.stride.natAbs : Int) = -r.stride := by omega
        rw [this, Int.mul_neg]; omega
      · simp only [hs, if_false]
        have : (r.stride.natAbs : Int) = r.stride := by omega
        rw [this]
    · cases h

/-- **An index ≥ the repeat count panics before the interface is touched**: the accessor yields no
    address (and hence no operation object) at all; a valid index always yields one. -/
theorem invalid_index_panics_first (m : Method) (base : Int) (r : Repeat) (hr : m.repeat_ = some r)
    (idx : Nat) : (m.addrAt base idx).isSome ↔ idx < r.count := by
  unfold Method.addrAt
  simp only [hr]
  by_cases h : idx < r.count <;> simp [h]

/-- **Chains of nested / repeated blocks.** The address handed on along any chain of accessor
    calls with valid indices is the sum of `offset + index × stride` over the chain. -/
theorem address_formula : ∀ (chain : List (Method × Nat)) (base a : Int),
    evalChain chain base = some a → a = specChain chain base
  | [], base, a, h => by unfold evalChain at h; unfold specChain; exact (Option.some.inj h).symm
  | (m, i) :: rest, base, a, h => by
    unfold evalChain at h
    unfold specChain
    cases hm : m.addrAt base i with
    | none => rw [hm] at h; cases h
    | some b =>
      rw [hm] at h
      simp only at h
      have := accessor_address m base i b hm
      rw [← this]
      exact address_formula rest b a h

/-- The chain succeeds exactly when every index is valid. -/
theorem chain_defined_iff : ∀ (chain : List (Method × Nat)) (base : Int),
    (evalChain chain base).isSome ↔ ∀ mi ∈ chain, (mi.1.addrAt 0 mi.2).isSome
  | [], base => by simp [evalChain]
  | (m, i) :: rest, base => by
    unfold evalChain
    have hindep : ∀ b, (m.addrAt b i).isSome = (m.addrAt 0 i).isSome := by
      intro b; unfold Method.addrAt
      cases m.repeat_ with
      | none => by_cases h : i = 0 <;> simp [h]
      | some r => by_cases h : i < r.count <;> simp [h]
    cases hm : m.addrAt base i with
    | none =>
      have := hindep base
      rw [hm] at this
      simp only [Option.isSome_none, Bool.false_eq_true, List.mem_cons, forall_eq_or_imp, false_iff, not_and]
      intro h; rw [← this] at h; cases h
    | some b =>
      have := hindep base
      rw [hm] at this
      simp only [List.mem_cons, forall_eq_or_imp]
      rw [chain_defined_iff rest b]
      constructor
      · intro h; exact ⟨by rw [← this]; rfl, h⟩
      · intro h; exact h.2

/-- **The address is passed to the interface verbatim** (from C05/C09/C10: the operation objects
    put exactly the address they were constructed with into every interface call). -/
theorem operation_passes_address_verbatim (r : DDV.Proto.RegSpec) (f : DDV.Proto.Closure) (env : DDV.Proto.Env) :
    (DDV.Proto.runBlocking (DDV.Proto.Register.write r f) env).1.log =
      env.log ++ [.regWrite r.addr r.sizeBits (f r.reset).1] := by
  rw [DDV.Props.C05.write_protocol]

/-- **read_all_registers, root block**: the reported address is the address used on the bus. -/
theorem read_all_reports_bus_address_root (m : Method) (idx : Nat) (a : Int)
    (h : m.addrAt 0 idx = some a) : m.reportedAt idx = a := by
  have := accessor_address m 0 idx a h
  unfold Method.reportedAt
  rw [this]; omega

/-- The full statement "reported = used" for every block. It is **false** of the current tree
    (finding F2): in a block constructed at a non-zero base the report omits the base. -/
def ReadAllReportsBusAddress : Prop :=
  ∀ (m : Method) (base : Int) (idx : Nat) (a : Int), m.addrAt base idx = some a → m.reportedAt idx = a

theorem read_all_reports_relative_address (m : Method) (base : Int) (idx : Nat) (a : Int)
    (h : m.addrAt base idx = some a) : m.reportedAt idx = a - base := by
  have := accessor_address m base idx a h
  unfold Method.reportedAt
  rw [this]; omega

theorem read_all_counterexample : ¬ ReadAllReportsBusAddress := by
  intro h
  have := h { cfg := none, name := "r", address := 1, allowAddressOverlap := false, repeat_ := none,
              kind := .register } 10 0 11 (by decide)
  revert this; decide

example : evalChain [({ cfg := none, name := "blk", address := 16, allowAddressOverlap := false,
                         repeat_ := some ⟨3, -4⟩, kind := .block }, 2),
                     ({ cfg := none, name := "r", address := -1, allowAddressOverlap := false,
                         repeat_ := none, kind := .register }, 0)] 0 = some 7 := by decide

/-! ### `read_all_registers` visits exactly the readable registers, every index, in declaration order -/

/-- **Which reads.** `(m, i)` is read by `read_all_registers` of a block iff `m` is a register
    accessor of that block whose access includes reading and `i` is one of its repeat indices. -/
theorem read_all_visits_iff (ms : List Method) (m : Method) (i : Nat) :
    (m, i) ∈ readAllVisits ms ↔ m ∈ ms ∧ m.readAllReads = true ∧ i < m.count := by
  unfold readAllVisits
  simp only [List.mem_flatMap]
  constructor
  · intro ⟨m', hm', h⟩
    by_cases hr : m'.readAllReads = true
    · rw [if_pos hr] at h
      obtain ⟨j, hj, heq⟩ := List.mem_map.1 h
      cases heq
      exact ⟨hm', hr, by rw [← repTriple_count]; exact List.mem_range.1 hj⟩
    · rw [if_neg hr] at h; cases h
  · intro ⟨h1, h2, h3⟩
    refine ⟨m, h1, ?_⟩
    rw [if_pos h2]
    exact List.mem_map.2 ⟨i, List.mem_range.2 (by rw [repTriple_count]; exact h3), rfl⟩

/-- **In which order.** Declaration order of the accessors, ascending index within one accessor,
    every index exactly once. -/
theorem read_all_visits_order (ms₁ ms₂ : List Method) :
    readAllVisits (ms₁ ++ ms₂) = readAllVisits ms₁ ++ readAllVisits ms₂ := by
  unfold readAllVisits; simp [List.flatMap_append]

theorem read_all_visits_single (m : Method) (h : m.readAllReads = true) :
    readAllVisits [m] = (List.range m.count).map fun i => (m, i) := by
  unfold readAllVisits
  simp [h, repTriple_count]

theorem read_all_skips (m : Method) (h : m.readAllReads = false) : readAllVisits [m] = [] := by
  unfold readAllVisits; simp [h]

/-- The access markers: only `RW` and `RO` registers are read. -/
theorem read_all_reads_iff (m : Method) :
    m.readAllReads = true ↔ m.kind = .register ∧ (m.access = some .rw ∨ m.access = some .ro) := by
  unfold Method.readAllReads
  cases hk : m.kind <;> cases ha : m.access with
  | none => simp
  | some a => cases a <;> simp [Access.readable]

/-- The emitted items are the visits, one to one and in the same order. -/
theorem read_all_items (ms : List Method) : readAllJson ms = (readAllVisits ms).map readAllItem := rfl

/-! ### Refs -/

/-- **A ref uses its own overridden address and repeat while sharing its target's layout.** The
    accessor lowered for a register ref is named after the ref, sits at the override's address
    (else the target's) with the override's repeat (else the target's), and is typed with the
    *target's* field set. -/
theorem register_ref_address_and_layout (n : Names) (cfg : GlobalConfig) (all : List Object) (rf : RefObject)
    (ov : RegisterOverride) (r : Register) (t : Integer) (fuel : Nat)
    (hov : rf.override = .register ov) (ht : searchObject ov.name all = some (.register r))
    (hc : cfg.registerAddressType = some t) :
    ∃ m, getMethod n cfg all "new" (fuel + 2) (.ref rf) = .ok (m, []) ∧
      m.name = n.method rf.name ∧ m.target = some r.name ∧ m.address = ov.address.getD r.address ∧
      m.repeat_ = (match ov.repeat_ with | some x => some x | none => r.repeat_) := by
  obtain ⟨m, h, h1, _, _, h4, h5, h6, _⟩ := register_ref_method n cfg all rf ov r t fuel hov ht hc
  exact ⟨m, h, h1, h4, h5, h6⟩

theorem command_ref_address (n : Names) (cfg : GlobalConfig) (all : List Object) (rf : RefObject)
    (ov : CommandOverride) (c : Command) (t : Integer) (fuel : Nat)
    (hov : rf.override = .command ov) (ht : searchObject ov.name all = some (.command c))
    (hc : cfg.commandAddressType = some t) :
    ∃ m, getMethod n cfg all "new" (fuel + 2) (.ref rf) = .ok (m, []) ∧
      m.name = n.method rf.name ∧ m.address = ov.address.getD c.address ∧
      m.repeat_ = (match ov.repeat_ with | some x => some x | none => c.repeat_) := by
  obtain ⟨m, h, h1, _, _, h4, h5, _⟩ := command_ref_method n cfg all rf ov c t fuel hov ht hc
  exact ⟨m, h, h1, h4, h5⟩

/-! ### From the definition to the bus: ref-free trees -/

theorem treeChain_valid {os : List Object} {tch : List (Object × Nat)} (h : TreeChain os tch) :
    RefFreeList os → ∀ x ∈ tch, RefFree x.1 ∧ x.2 < objCount x.1 := by
  induction h with
  | leaf hm hb hi =>
    intro hrf x hx
    simp only [List.mem_singleton] at hx
    subst hx
    exact ⟨refFree_of_mem hrf hm, hi⟩
  | step hm hi hrest ih =>
    intro hrf x hx
    have hr := refFree_of_mem hrf hm
    rcases List.mem_cons.1 hx with rfl | hx
    · exact ⟨hr, hi⟩
    · unfold RefFree at hr
      exact ih hr x hx

/-- **The address of an instance of the definition.** For a ref-free object tree and any path
    through it — enclosing blocks from the outside in, each with a valid repeat index, down to a
    register / command / buffer with a valid index of its own — the chain of generated accessor
    calls for that path computes exactly
    `Σ (block offset + block index × block stride) + object address + object index × object stride`
    in the integers (negative offsets, addresses and strides included). -/
theorem definition_instance_address (n : Names) (cfg : GlobalConfig) (os : List Object)
    (tch : List (Object × Nat)) (ht : TreeChain os tch) (hrf : RefFreeList os) :
    evalChain (tch.map (liftStep n cfg)) 0 = some (treeAddress tch 0) := by
  have hv := treeChain_valid ht hrf
  have hsome : (evalChain (tch.map (liftStep n cfg)) 0).isSome := by
    rw [chain_defined_iff]
    intro mi hmi
    obtain ⟨x, hx, rfl⟩ := List.mem_map.1 hmi
    obtain ⟨h1, h2⟩ := hv x hx
    simp only [liftStep]
    rw [← methodOf_count n cfg x.1 h1] at h2
    unfold Method.addrAt
    unfold Method.count at h2
    cases hr : (methodOf n cfg x.1).repeat_ with
    | none => rw [hr] at h2; simp only at h2; have : x.2 = 0 := by omega
              simp [this]
    | some r => rw [hr] at h2; simp only at h2; simp [h2]
  cases he : evalChain (tch.map (liftStep n cfg)) 0 with
  | none => rw [he] at hsome; cases hsome
  | some a =>
    have := address_formula _ 0 a he
    rw [this, specChain_lift n cfg tch 0 (fun x hx => (hv x hx).1)]

/-- … and an index at or above the repeat count is no path at all: the chain yields no address. -/
theorem definition_invalid_index (n : Names) (cfg : GlobalConfig) (pre : List (Object × Nat)) (o : Object) (i : Nat)
    (post : List (Object × Nat)) (hr : RefFree o) (hi : objCount o ≤ i) :
    evalChain ((pre ++ (o, i) :: post).map (liftStep n cfg)) 0 = none := by
  cases he : evalChain ((pre ++ (o, i) :: post).map (liftStep n cfg)) 0 with
  | none => rfl
  | some a =>
    have hsome : (evalChain ((pre ++ (o, i) :: post).map (liftStep n cfg)) 0).isSome := by rw [he]; rfl
    rw [chain_defined_iff] at hsome
    have hk := hsome (liftStep n cfg (o, i)) (List.mem_map.2 ⟨(o, i), by simp, rfl⟩)
    simp only [liftStep] at hk
    rw [← methodOf_count n cfg o hr] at hi
    unfold Method.addrAt at hk
    unfold Method.count at hi
    cases hrp : (methodOf n cfg o).repeat_ with
    | none => rw [hrp] at hk hi; simp only at hk hi; have hne : i ≠ 0 := by omega
              simp [hne] at hk
    | some r => rw [hrp] at hk hi; simp only at hk hi
                have hne : ¬ i < r.count := by omega
                simp [hne] at hk

/-! ### The same at definition level with refs (register, command and block refs at any depth) -/

/-- **A ref uses its own overridden address, repeat, access and reset value while sharing its
    target's layout**: what a register ref stands for is its target with exactly those members
    replaced where the override has them (name, size, orders and fields are the target's). -/
theorem register_ref_stands_for (n : Names) (all : List Object) (rf : RefObject) (ov : RegisterOverride) (r : Register)
    (hov : rf.override = .register ov) (ht : searchObject ov.name all = some (.register r)) :
    resolve n all (.ref rf) = some (.register { r with
      cfg := rf.cfg, description := rf.description,
      allowAddressOverlap := r.allowAddressOverlap || ov.allowAddressOverlap,
      access := ov.access.getD r.access, address := ov.address.getD r.address,
      reset := (match ov.reset with | some x => some x | none => r.reset),
      repeat_ := (match ov.repeat_ with | some x => some x | none => r.repeat_) }) := by
  simp [resolve, resolveWith, hov, ObjectOverride.name, ht, substRef]
  cases ov.reset <;> cases ov.repeat_ <;> exact ⟨rfl, rfl⟩

theorem command_ref_stands_for (n : Names) (all : List Object) (rf : RefObject) (ov : CommandOverride) (c : Command)
    (hov : rf.override = .command ov) (ht : searchObject ov.name all = some (.command c)) :
    resolve n all (.ref rf) = some (.command { c with
      cfg := rf.cfg, description := rf.description,
      allowAddressOverlap := c.allowAddressOverlap || ov.allowAddressOverlap,
      address := ov.address.getD c.address,
      repeat_ := (match ov.repeat_ with | some x => some x | none => c.repeat_) }) := by
  simp [resolve, resolveWith, hov, ObjectOverride.name, ht, substRef]
  cases ov.repeat_ <;> rfl

/-- A block ref stands for a block with the target's children, at the override's offset and repeat. -/
theorem block_ref_stands_for (n : Names) (all : List Object) (rf : RefObject) (ov : BlockOverride) (h : BlockHead)
    (cs : List Object) (hov : rf.override = .block ov) (ht : searchObject ov.name all = some (.block h cs)) :
    resolve n all (.ref rf) = some (.block { h with
      cfg := rf.cfg, description := rf.description,
      addressOffset := ov.addressOffset.getD h.addressOffset,
      repeat_ := (match ov.repeat_ with | some x => some x | none => h.repeat_) } cs) := by
  simp [resolve, resolveWith, hov, ObjectOverride.name, ht, substRef]
  cases ov.repeat_ <;> rfl

/-- **The address of an instance, refs included.** For any path through the definition — real
    blocks and block refs from the outside in, each with a valid index, down to a register /
    command / buffer or a ref to one — the chain of generated accessor calls computes exactly
    `Σ (offset + index × stride)` in the integers, each offset, address and stride being the ref's
    own where its override has one and its target's otherwise. -/
theorem definition_instance_address_refs (n : Names) (cfg : GlobalConfig) (all os : List Object)
    (tch : List (Object × Nat)) (ht : TreeChainR n all os tch) :
    evalChain (tch.map (liftStepR n cfg all)) 0 = some (treeAddressR n all tch 0) := by
  have hv := treeChainR_valid n all ht
  have hsome : (evalChain (tch.map (liftStepR n cfg all)) 0).isSome := by
    rw [chain_defined_iff]
    intro mi hmi
    obtain ⟨x, hx, rfl⟩ := List.mem_map.1 hmi
    obtain ⟨t, h1, h2⟩ := hv x hx
    simp only [liftStepR]
    rw [← methodOfR_count n cfg all x.1 t h1] at h2
    unfold Method.addrAt
    unfold Method.count at h2
    cases hr : (methodOfR n cfg all "new" x.1).repeat_ with
    | none => rw [hr] at h2; simp only at h2; have : x.2 = 0 := by omega
              simp [this]
    | some r => rw [hr] at h2; simp only at h2; simp [h2]
  cases he : evalChain (tch.map (liftStepR n cfg all)) 0 with
  | none => rw [he] at hsome; cases hsome
  | some a =>
    have := address_formula _ 0 a he
    rw [this, specChain_liftR n cfg all tch 0 (treeChainR_resolves n all ht)]

/-- … and an index at or above the count of what the object stands for yields no address. -/
theorem definition_invalid_index_refs (n : Names) (cfg : GlobalConfig) (all : List Object)
    (pre : List (Object × Nat)) (o t : Object) (i : Nat) (post : List (Object × Nat))
    (hr : resolve n all o = some t) (hi : objCount t ≤ i) :
    evalChain ((pre ++ (o, i) :: post).map (liftStepR n cfg all)) 0 = none := by
  cases he : evalChain ((pre ++ (o, i) :: post).map (liftStepR n cfg all)) 0 with
  | none => rfl
  | some a =>
    have hsome : (evalChain ((pre ++ (o, i) :: post).map (liftStepR n cfg all)) 0).isSome := by rw [he]; rfl
    rw [chain_defined_iff] at hsome
    have hk := hsome (liftStepR n cfg all (o, i)) (List.mem_map.2 ⟨(o, i), by simp, rfl⟩)
    simp only [liftStepR] at hk
    rw [← methodOfR_count n cfg all o t hr] at hi
    unfold Method.addrAt at hk
    unfold Method.count at hi
    cases hrp : (methodOfR n cfg all "new" o).repeat_ with
    | none => rw [hrp] at hk hi; simp only at hk hi; have hne : i ≠ 0 := by omega
              simp [hne] at hk
    | some r => rw [hrp] at hk hi; simp only at hk hi
                have hne : ¬ i < r.count := by omega
                simp [hne] at hk

/-- **C04 at definition level, whole devices.** If the lowering of a device succeeds and its block
    type names are distinct (from each other and from the device name), then the accessor chains
    from the root block are exactly the instances of the definition — refs at any depth standing
    for their targets with the override applied — and each reaches the mathematically defined
    address. -/
theorem every_instance_reaches_its_address (n : Names) (name : String) (d : Device) (l : Lir)
    (h : lower n name d = .ok l) (hn : (l.blocks.map (·.name)).Nodup) :
    ∃ root rest, l.blocks = root :: rest ∧ root.root = true ∧ root.name = name ∧
      (∀ tch, TreeChainR n d.objects d.objects tch →
        LeafChain l.blocks root.methods (tch.map (liftStepR n d.config d.objects)) ∧
        evalChain (tch.map (liftStepR n d.config d.objects)) 0 = some (treeAddressR n d.objects tch 0)) ∧
      (∀ ch, LeafChain l.blocks root.methods ch →
        ∃ tch, TreeChainR n d.objects d.objects tch ∧ ch = tch.map (liftStepR n d.config d.objects)) := by
  obtain ⟨fuel, hc⟩ := lower_blocks n name d l h
  obtain ⟨root, rest, e1, e2, e3, e4, f1, f2, f3⟩ :=
    instances_of_the_definition_refs n d.config fuel name d.objects l.blocks hc hn
  exact ⟨root, rest, e1, e2, e3,
    fun tch ht => ⟨f1 tch ht, definition_instance_address_refs n d.config d.objects d.objects tch ht⟩, f2⟩

/-- **… for every accepted cfg-free definition.** The distinct-names hypothesis above is what
    `names_unique` enforces (C14's `names_accept_iff`): for a definition without cfgs that passes
    it, whose device name no object bears, a successful lowering yields exactly the instances of
    the definition as accessor chains, each at its mathematically defined address. -/
theorem accepted_cfg_free_definition_reaches_every_address (n : Names) (name : String) (d : Device) (l : Lir)
    (hnames : DDV.Gen.isOk (namesUnique d))
    (hcfg : ∀ o ∈ allObjects d.objects, o.cfg = none)
    (hdev : ∀ o ∈ allObjects d.objects, o.name ≠ name)
    (h : lower n name d = .ok l) :
    ∃ root rest, l.blocks = root :: rest ∧ root.root = true ∧ root.name = name ∧
      (∀ tch, TreeChainR n d.objects d.objects tch →
        LeafChain l.blocks root.methods (tch.map (liftStepR n d.config d.objects)) ∧
        evalChain (tch.map (liftStepR n d.config d.objects)) 0 = some (treeAddressR n d.objects tch 0)) ∧
      (∀ ch, LeafChain l.blocks root.methods ch →
        ∃ tch, TreeChainR n d.objects d.objects tch ∧ ch = tch.map (liftStepR n d.config d.objects)) := by
  obtain ⟨fuel, hc⟩ := lower_blocks n name d l h
  have hok := (DDV.Props.C14.names_accept_iff d).1 hnames
  exact every_instance_reaches_its_address n name d l h
    (lowered_block_names_nodup n d.config fuel name d.objects l.blocks hc hcfg hok.objects hdev)

/-! Non-vacuity: `block A { OFFSET 10; register R @3 ×2 stride 4 }, ref B = block A { OFFSET 100, ×3 stride 20 }` —
    `b(2).r(1)` is an instance and sits at 100 + 2·20 + 3 + 1·4 = 147. -/
section Example
def exNames : Names := { devicePascal := "Dev", pascal := fun s => s, method := fun s => s, snake := fun s => s, collision := fun s => s }
def exReg : Register :=
  { name := "R", access := Access.rw, byteOrder := none, bitOrder := DDV.Bits.BitOrder.lsb0,
    allowBitOverlap := false, allowAddressOverlap := false, address := 3, sizeBits := 8, reset := none,
    repeat_ := some ⟨2, 4⟩, fields := [] }
def exBlk : Object := .block { name := "A", addressOffset := 10, repeat_ := none } [.register exReg]
def exRef : Object := .ref { name := "B", override := .block { name := "A", addressOffset := some 100, repeat_ := some ⟨3, 20⟩ } }
def exObjs : List Object := [exBlk, exRef]

theorem exRef_resolves : resolve exNames exObjs exRef =
    some (.block { name := "A", addressOffset := 100, repeat_ := some ⟨3, 20⟩ } [.register exReg]) := by
  simp [resolve, resolveWith, exRef, ObjectOverride.name, searchObject, allObjects, flattenList, flattenObj, exObjs,
    exBlk, Object.name, substRef]

theorem exPath : TreeChainR exNames exObjs exObjs [(exRef, 2), (.register exReg, 1)] :=
  TreeChainR.step (by simp [exObjs]) exRef_resolves (by decide)
    (TreeChainR.leaf (by simp) rfl rfl (by decide))

example (cfg : GlobalConfig) :
    evalChain ([(exRef, 2), (.register exReg, 1)].map (liftStepR exNames cfg exObjs)) 0 = some 147 := by
  rw [definition_instance_address_refs exNames cfg exObjs exObjs _ exPath]
  simp only [treeAddressR, exRef_resolves, resolve_nonref_obj exNames exObjs (.register exReg) rfl, Option.getD_some,
    Object.address, objStride, Object.repeat_, exReg]
  decide
end Example

end DDV.Props.C04
