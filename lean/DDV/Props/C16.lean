import DDV.Gen.Lemmas.Tree
namespace DDV.Props.C16
theorem placeholder : True := trivial
end DDV.Props.C16
