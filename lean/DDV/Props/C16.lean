/-
  C16 — All four input syntaxes yield the same driver.

  The DSL front end and the manifest front end (shared by JSON / YAML / TOML) are two separately
  written lowerings from what the user wrote to the MIR; everything after the MIR is one function
  (`transform_mir`). So the property reduces to: on definitions all syntaxes can express, the two
  lowerings produce the same MIR (or the same rejection).
-/
import DDV.Gen.Pipeline
import DDV.Gen.Lemmas.FrontCases

namespace DDV.Props.C16
open DDV.Gen DDV.Gen.FrontCases
set_option linter.unusedVariables false
set_option linter.unusedSimpArgs false

/-- The fragment in which "the same definition" is expressible in every syntax (from the book). -/
def CommonField (f : AField) : Prop :=
  -- a single-bit address is only allowed for `bool` (the DSL rejects it otherwise in the front end,
  -- the manifest lowers it to an empty range that a later pass rejects)
  (f.base ≠ .bool → f.stop.isSome) ∧
  (match f.conv with
   | some (.ty p _) => stripWs p = p                       -- paths are written without whitespace
   | some (.enum e _) => e.description.getD "" = f.description.getD ""   -- the DSL has no separate enum docs
   | none => True)

/-- The integers a syntax can write down as a reset value: TOML integers are i64; JSON numbers are read
    as u64; YAML integers are i64 but a `0b…` string is converted with `u64::from_str_radix`; the DSL
    reads a u128 (the manifest lowering is never run with `.dsl`; its bound there is the strictest one). -/
def resetBound : Syntax → Nat
  | .toml => 2 ^ 63
  | .json => 2 ^ 64
  | .yaml => 2 ^ 64
  | .dsl => 2 ^ 63

def CommonReset (syn : Syntax) (r : Option ResetValue) : Prop :=
  match r with
  | some (.int n) => n < resetBound syn
  | _ => True

def CommonOverride (syn : Syntax) (ov : AOverride) : Prop :=
  ov.illegal = [] ∧ (ov.kind = "block" ∨ ov.kind = "register" ∨ ov.kind = "command") ∧ CommonReset syn ov.reset

mutual
def CommonObj (syn : Syntax) : AObj → Prop
  | .block _ _ _ os => CommonObjs syn os
  | .register _ _ _ _ _ _ reset _ _ _ fields => CommonReset syn reset ∧ ∀ f ∈ fields, CommonField f
  | .command _ basic _ bo bito si so rep abo aao fin fout =>
    -- the basic form `command Foo = 5` denotes the extended form with nothing set
    (basic = true → bo = none ∧ bito = none ∧ si = none ∧ so = none ∧ rep = none ∧ abo = none ∧
      aao = none ∧ fin = none ∧ fout = none) ∧
    (∀ f ∈ fin.getD [], CommonField f) ∧ (∀ f ∈ fout.getD [], CommonField f)
  | .buffer _ _ _ => True
  | .ref _ _ ov => CommonOverride syn ov
def CommonObjs (syn : Syntax) : List AObj → Prop
  | [] => True
  | o :: os => CommonObj syn o ∧ CommonObjs syn os
end

theorem mapM_congr_mem {α β : Type} (f g : α → M β) : ∀ (l : List α), (∀ x ∈ l, f x = g x) → l.mapM f = l.mapM g
  | [], _ => rfl
  | x :: xs, h => by
    rw [List.mapM_cons, List.mapM_cons, h x (List.mem_cons_self ..),
      mapM_congr_mem f g xs (fun y hy => h y (List.mem_cons_of_mem _ hy))]

theorem field_agree (g : GlobalConfig) (f : AField) (h : CommonField f) : dslField g f = manField g f := by
  unfold dslField manField
  obtain ⟨h1, h2⟩ := h
  cases hs : f.stop with
  | none =>
    have hb : f.base = .bool := by
      cases hbb : f.base <;> simp_all
    cases hc : f.conv with
    | none => cases hu : checkU32 f.start <;> simp [hb, hu, bind, Except.bind, pure, Except.pure]
    | some cv =>
      cases cv with
      | ty p t => simp only [hc] at h2; cases hu : checkU32 f.start <;> simp [hb, hu, h2, bind, Except.bind, pure, Except.pure]
      | «enum» e t => simp only [hc] at h2; cases hu : checkU32 f.start <;> simp [hb, hu, h2, bind, Except.bind, pure, Except.pure]
  | some e =>
    cases hc : f.conv with
    | none => cases hu : checkU32 f.start <;> cases hv : checkU32 e <;> simp [hu, hv, bind, Except.bind, pure, Except.pure]
    | some cv =>
      cases cv with
      | ty p t =>
        simp only [hc] at h2
        cases hu : checkU32 f.start <;> cases hv : checkU32 e <;> simp [hu, hv, h2, bind, Except.bind, pure, Except.pure]
      | «enum» e' t =>
        simp only [hc] at h2
        cases hu : checkU32 f.start <;> cases hv : checkU32 e <;> simp [hu, hv, h2, bind, Except.bind, pure, Except.pure]

/-- Under `CommonField` the DSL lowering of a field can only fail with `front_bad_value` (as the manifest one). -/
theorem dslField_cases (g : GlobalConfig) (f : AField) (h : CommonField f) :
    (∃ v, dslField g f = .ok v) ∨ dslField g f = .error bv := by
  rw [field_agree g f h]; exact manField_cases g f

theorem reset_agree (syn : Syntax) (r : Option ResetValue) (h : CommonReset syn r) : dslReset r = manReset syn r := by
  unfold dslReset manReset manUintOk
  cases r with
  | none => rfl
  | some rv =>
    cases rv with
    | int n =>
      simp only [CommonReset] at h
      cases syn with
      | dsl =>
        have h3 : n < 9223372036854775808 := h
        have h1 : n < 2 ^ 128 := by omega
        simp [h1, h3]
      | json =>
        have h2 : n < 18446744073709551616 := h
        have h1 : n < 2 ^ 128 := by omega
        simp [h1, fitsU64, h2]
      | yaml =>
        have h2 : n < 18446744073709551616 := h
        have h1 : n < 2 ^ 128 := by omega
        simp [h1, fitsU64, h2]
      | toml =>
        have h3 : n < 9223372036854775808 := h
        have h1 : n < 2 ^ 128 := by omega
        simp [h1, h3]
    | array a => rfl

theorem override_agree (syn : Syntax) (target : String) (ov : AOverride) (h : CommonOverride syn ov) :
    dslOverride target ov = manOverride syn target ov := by
  unfold dslOverride manOverride
  obtain ⟨h1, h2, h3⟩ := h
  simp only [h1, List.isEmpty_nil, Bool.not_true, Bool.false_eq_true, if_false]
  rcases h2 with hk | hk | hk
  · simp [hk]
  · simp only [hk, ← reset_agree syn ov.reset h3]
    rcases optAddr_cases ov.address with a1 | a1 <;> rcases checkRepeat_cases ov.repeat_ with a2 | a2 <;>
      rcases dslReset_cases ov.reset with a3 | a3 <;>
      simp [a1, a2, a3, bind, Except.bind, pure, Except.pure]
  · simp [hk]

mutual
theorem obj_agree (syn : Syntax) (g : GlobalConfig) : ∀ (o : AObj), CommonObj syn o → dslObj g o = manObj syn g o
  | .block c off rep os, h => by
    unfold dslObj manObj
    unfold CommonObj at h
    rw [objs_agree syn g os h]
  | .register c access bo bito address size reset rep abo aao fields, h => by
    unfold dslObj manObj
    unfold CommonObj at h
    rw [← mapM_congr_mem _ _ fields (fun f hf => field_agree g f (h.2 f hf)), ← reset_agree syn reset h.1]
    rcases checkAddr_cases address with a1 | a1 <;> rcases checkU32_cases size with a2 | a2 <;>
      rcases dslReset_cases reset with a3 | a3 <;> rcases checkRepeat_cases rep with a4 | a4 <;>
      rcases mapM_cases (dslField g) fields (fun f hf => dslField_cases g f (h.2 f hf)) with ⟨v, a5⟩ | a5 <;>
      simp [a1, a2, a3, a4, a5, bind, Except.bind, pure, Except.pure]
  | .command c basic address bo bito si so rep abo aao fin fout, h => by
    unfold dslObj manObj
    unfold CommonObj at h
    rw [← mapM_congr_mem _ _ (fin.getD []) (fun f hf => field_agree g f (h.2.1 f hf)),
        ← mapM_congr_mem _ _ (fout.getD []) (fun f hf => field_agree g f (h.2.2 f hf))]
    cases basic with
    | false =>
      simp only [Bool.false_eq_true, if_false]
      rcases checkAddr_cases address with a1 | a1 <;> rcases checkU32_cases (si.getD 0) with a2 | a2 <;>
        rcases checkU32_cases (so.getD 0) with a3 | a3 <;> rcases checkRepeat_cases rep with a4 | a4 <;>
        rcases mapM_cases (dslField g) (fin.getD []) (fun f hf => dslField_cases g f (h.2.1 f hf)) with ⟨v, a5⟩ | a5 <;>
        rcases mapM_cases (dslField g) (fout.getD []) (fun f hf => dslField_cases g f (h.2.2 f hf)) with ⟨w, a6⟩ | a6 <;>
        simp [a1, a2, a3, a4, a5, a6, bind, Except.bind, pure, Except.pure]
    | true =>
      obtain ⟨rfl, rfl, rfl, rfl, rfl, rfl, rfl, rfl, rfl⟩ := h.1 rfl
      simp [checkU32, fitsU32, checkRepeat, bind, Except.bind, pure, Except.pure]
      try (cases checkAddr address <;> rfl)
  | .buffer c access address, h => by
    unfold dslObj manObj; rfl
  | .ref c target ov, h => by
    unfold dslObj manObj
    unfold CommonObj at h
    rw [override_agree syn target ov h]
theorem objs_agree (syn : Syntax) (g : GlobalConfig) : ∀ (os : List AObj), CommonObjs syn os → dslObjs g os = manObjs syn g os
  | [], _ => by unfold dslObjs manObjs; rfl
  | o :: os, h => by
    unfold dslObjs manObjs
    unfold CommonObjs at h
    rw [obj_agree syn g o h.1, objs_agree syn g os h.2]
end

/-- **C16.** On every definition of the common fragment the DSL lowering and the manifest lowering
    agree — same MIR or same rejection, with every global-config default applied the same way. -/
theorem front_ends_agree (syn : Syntax) (d : ADef) (h : CommonObjs syn d.objects) :
    lowerDsl d = lowerManifest syn d := by
  simp only [lowerDsl, lowerManifest, objs_agree syn _ d.objects h]

/-- … hence the same driver and the same accept/reject decision from all four syntaxes. -/
theorem same_driver (n : Names) (name : String) (d : ADef) (s : Syntax) (h : CommonObjs s d.objects) :
    generate n s name d = generate n .dsl name d := by
  unfold generate lowerFront
  cases s <;> simp only [← front_ends_agree _ d h]

/-- Every global default reaches the objects that do not set their own value, in both front ends:
    (register access, shown on the manifest side, where it used to be ignored). -/
theorem default_register_access_applied (g : GlobalConfig) (c : ACommon) (bo : Option DDV.Bits.ByteOrder)
    (bito : Option DDV.Bits.BitOrder) (address : Int) (size : Nat) (o : Object)
    (syn : Syntax)
    (h : manObj syn g (.register c none bo bito address size none none none none []) = .ok o) :
    ∃ r, o = .register r ∧ r.access = g.defaultRegisterAccess ∧ r.bitOrder = bito.getD g.defaultBitOrder := by
  unfold manObj at h
  simp only [bind, Except.bind, pure, Except.pure, List.mapM_nil, manReset, checkRepeat] at h
  cases ha : checkAddr address with
  | error e => rw [ha] at h; cases h
  | ok a =>
    rw [ha] at h
    simp only at h
    cases hs : checkU32 size with
    | error e => rw [hs] at h; cases h
    | ok sz =>
      rw [hs] at h
      simp only [Except.ok.injEq] at h
      exact ⟨_, h.symm, rfl, rfl⟩

end DDV.Props.C16
