/-
  C03 (b) — every accessor the generator emits for an accepted definition addresses a range with
  start < end ≤ size ≤ 8 × byte length and width ≤ carrier width, i.e. it satisfies the safety
  precondition of the bit operations (part (a), `DDV.Props.C03`).
-/
import DDV.Gen.Lemmas.Layout
import DDV.Gen.Lower
import DDV.Props.C03

namespace DDV.Props.C03Gen
open DDV.Gen
set_option linter.unusedVariables false
set_option linter.unusedSimpArgs false

theorem le_nextPow2 (n : Nat) : n ≤ nextPow2 n := by
  unfold nextPow2
  split
  · omega
  · have := Nat.lt_log2_self (n := n - 1)
    omega

/-- The carrier is wide enough for the field: `max(w, 8).next_power_of_two() ≥ w`. -/
theorem carrier_fits (w : Nat) : w ≤ carrierBitsOf w ∧ 8 ≤ carrierBitsOf w := by
  unfold carrierBitsOf
  have := le_nextPow2 (Nat.max w 8)
  have h1 : w ≤ Nat.max w 8 := Nat.le_max_left _ _
  have h2 : 8 ≤ Nat.max w 8 := Nat.le_max_right _ _
  exact ⟨Nat.le_trans h1 this, Nat.le_trans h2 this⟩

/-- What the lowering makes of a field: same range, carrier at least as wide as the field. -/
theorem transformField_bounds (enums : List Enum) (f : Field) (lf : LField)
    (h : transformField enums f = .ok lf) :
    lf.start = f.start ∧ lf.stop = f.stop ∧ f.stop - f.start ≤ lf.carrierBits := by
  unfold transformField at h
  simp only [bind, Except.bind, pure, Except.pure, throw, throwThe, MonadExceptOf.throw] at h
  cases hb : f.base <;> cases hc : f.conv <;> simp only [hb, hc] at h
  · -- bool, no conversion
    by_cases hw : f.width = 1
    · simp only [hw, if_true, Except.ok.injEq] at h
      rw [← h]
      unfold Field.width at hw
      exact ⟨rfl, rfl, by simp only; omega⟩
    · simp only [hw, if_false] at h; cases h
  · cases h
  · simp only [Except.ok.injEq] at h; rw [← h]; exact ⟨rfl, rfl, (carrier_fits _).1⟩
  · split at h
    · cases h
    · simp only [Except.ok.injEq] at h; rw [← h]; exact ⟨rfl, rfl, (carrier_fits _).1⟩
  · simp only [Except.ok.injEq] at h; rw [← h]; exact ⟨rfl, rfl, (carrier_fits _).1⟩
  · split at h
    · cases h
    · simp only [Except.ok.injEq] at h; rw [← h]; exact ⟨rfl, rfl, (carrier_fits _).1⟩

/-- **C03 (b).** For a register that passed range validation, every field the lowering emits
    satisfies the safety precondition of the bit operations on the register's own byte array of
    ⌈size/8⌉ bytes — so, by C03 (a), its getter and setter neither read nor write outside it. -/
theorem accepted_accessors_safe (enums : List Enum) (r : Register)
    (hr : isOk (bitRangesObj (.register r))) (f : Field) (hf : f ∈ r.fields) (lf : LField)
    (hl : transformField enums f = .ok lf) :
    DDV.Props.C03.Safe ⟨lf.carrierBits, lf.signed⟩ ((r.sizeBits + 7) / 8) lf.start lf.stop := by
  have hok := (bitRangesObj_spec (.register r)).1 hr
  unfold RangesObjOk SetOkNorm at hok
  obtain ⟨h1, h2⟩ := hok.1 f hf
  obtain ⟨hs, he, hc⟩ := transformField_bounds enums f lf hl
  refine ⟨by omega, ?_, by rw [hs, he]; exact hc⟩
  rw [he]; omega

/-- The same for both field sets of a command. -/
theorem accepted_command_accessors_safe (enums : List Enum) (c : Command)
    (hr : isOk (bitRangesObj (.command c))) (f : Field) (lf : LField)
    (hl : transformField enums f = .ok lf) :
    (f ∈ c.inFields → DDV.Props.C03.Safe ⟨lf.carrierBits, lf.signed⟩ ((c.sizeBitsIn + 7) / 8) lf.start lf.stop) ∧
    (f ∈ c.outFields → DDV.Props.C03.Safe ⟨lf.carrierBits, lf.signed⟩ ((c.sizeBitsOut + 7) / 8) lf.start lf.stop) := by
  have hok := (bitRangesObj_spec (.command c)).1 hr
  unfold RangesObjOk SetOkNorm at hok
  obtain ⟨hs, he, hc⟩ := transformField_bounds enums f lf hl
  constructor
  · intro hf
    obtain ⟨h1, h2⟩ := hok.1.1 f hf
    exact ⟨by omega, by rw [he]; omega, by rw [hs, he]; exact hc⟩
  · intro hf
    obtain ⟨h1, h2⟩ := hok.2.1 f hf
    exact ⟨by omega, by rw [he]; omega, by rw [hs, he]; exact hc⟩

/-- Bool fields are exactly one bit in a `u8` carrier. -/
theorem bool_accessor (enums : List Enum) (f : Field) (lf : LField) (hb : f.base = .bool)
    (hl : transformField enums f = .ok lf) : lf.stop - lf.start = 1 ∧ lf.carrierBits = 8 ∧ lf.conv = .bool := by
  unfold transformField at hl
  simp only [bind, Except.bind, pure, Except.pure, throw, throwThe, MonadExceptOf.throw, hb] at hl
  cases hc : f.conv <;> simp only [hc] at hl
  · by_cases hw : f.width = 1
    · simp only [hw, if_true, Except.ok.injEq] at hl
      rw [← hl]; unfold Field.width at hw; exact ⟨hw, rfl, rfl⟩
    · simp only [hw, if_false] at hl; cases hl
  · cases hl

end DDV.Props.C03Gen
