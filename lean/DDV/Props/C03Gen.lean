import DDV.Gen.Lemmas.Layout
namespace DDV.Props.C03Gen
theorem placeholder : True := trivial
end DDV.Props.C03Gen
