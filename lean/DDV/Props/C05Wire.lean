/-
  C05 (generator ⋈ runtime) — the register protocol as seen through *generated* accessors: the
  operation object built by the emitted accessor body, run through the protocol theorems of
  `DDV.Props.C05`.
-/
import DDV.Props.C08Wire

namespace DDV.Props.C05Wire
open DDV.Gen DDV.Proto DDV.Props.C08Wire
set_option linter.unusedSimpArgs false
set_option linter.unusedVariables false

/-- **C05 through generated code**: read via the accessor is one interface read into a zeroed
    buffer of ⌈size/8⌉ bytes with the declared size at the accessor's address. -/
theorem read_reads_declared_size (n : Names) (name : String) (d : Device) (l : Lir) (r : Register)
    (hl : lower n name d = .ok l) (hr : Object.register r ∈ allObjects d.objects)
    (hu : (fieldSetNames d).Nodup) (addr : Int) (env : Env) :
    ∃ spec, l.registerOperation n (methodOf n d.config (.register r)) addr = some spec ∧
      (runBlocking (Register.read spec) env).1.log =
        env.log ++ [.regRead addr r.sizeBits (zeros (bytesOf r.sizeBits))] := by
  refine ⟨_, register_accessor_operation n name d l r hl hr hu addr, ?_⟩
  rw [DDV.Props.C05.read_protocol]


/-- `write_with_zero` through the accessor: one write of all-zero bytes of length ⌈size/8⌉ (the
    declared size, whatever the reset value). -/
theorem write_with_zero_sends_zeros (n : Names) (name : String) (d : Device) (l : Lir) (r : Register)
    (hl : lower n name d = .ok l) (hr : Object.register r ∈ allObjects d.objects)
    (hu : (fieldSetNames d).Nodup) (addr : Int) (env : Env) :
    ∃ spec, l.registerOperation n (methodOf n d.config (.register r)) addr = some spec ∧
      (runBlocking (Register.writeWithZero spec (fun b => (b, 0))) env).1.log =
        env.log ++ [.regWrite addr r.sizeBits (zeros (bytesOf r.sizeBits))] := by
  refine ⟨_, register_accessor_operation n name d l r hl hr hu addr, ?_⟩
  rw [DDV.Props.C05.write_with_zero_protocol]

end DDV.Props.C05Wire
