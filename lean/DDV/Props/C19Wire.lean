/-
  C19 (generator ⋈ runtime) — what a generated accessor refers to exists: for every register and command of an
  accepted device whose field-set type names are pairwise distinct, the field-set type the accessor names is among
  the emitted ones and the constructor it passes is one that type has (so `RegisterOperation::new(.., T::ctor)` and
  `CommandOperation::<.., In, Out>` name existing items). Corollaries of `DDV.Props.C08Wire` / `C09Wire`.
-/
import DDV.Props.C08Wire
import DDV.Props.C09Wire

namespace DDV.Props.C19Wire
open DDV.Gen DDV.Proto
set_option linter.unusedSimpArgs false
set_option linter.unusedVariables false

/-- The field-set type and the `new` constructor a register accessor names are emitted. -/
theorem register_accessor_items_exist (n : Names) (name : String) (d : Device) (l : Lir) (r : Register)
    (hl : lower n name d = .ok l) (hr : Object.register r ∈ allObjects d.objects)
    (hu : (fieldSetNames d).Nodup) :
    ∃ fs, l.fieldSet r.name = some fs ∧ (fs.ctorBytes n "new").isSome = true := by
  obtain ⟨fs, hfind, _, _, _⟩ := DDV.Props.C08Wire.register_field_set_lookup n name d l r hl hr hu
  exact ⟨fs, hfind, by simp [LFieldSet.ctorBytes]⟩

/-- The `new_as_<ref>` constructor a ref's accessor names is emitted on the target's field set. -/
theorem ref_accessor_items_exist (n : Names) (name : String) (d : Device) (l : Lir)
    (rf : RefObject) (ov : RegisterOverride) (r : Register) (a : List Nat) (m : Method)
    (hl : lower n name d = .ok l) (hr : Object.register r ∈ allObjects d.objects)
    (hrf : Object.ref rf ∈ allObjects d.objects)
    (hov : rf.override = .register ov) (hname : ov.name = r.name) (hreset : ov.reset = some (.array a))
    (hu : (fieldSetNames d).Nodup)
    (hctor : ((refsTo (allObjects d.objects) r.name).map fun x => refCtorName n x.name).Nodup)
    (hm : m.target = some r.name ∧ m.resetFn = some (refCtorName n rf.name)) :
    (l.registerOperation n m 0).isSome = true := by
  rw [DDV.Props.C08Wire.ref_accessor_operation n name d l rf ov r a m hl hr hrf hov hname hreset hu hctor hm 0]
  rfl

/-- Both sides of a command accessor name emitted field sets (or the unit type). -/
theorem command_accessor_items_exist (n : Names) (name : String) (d : Device) (l : Lir) (c : Command)
    (hl : lower n name d = .ok l) (hc : Object.command c ∈ allObjects d.objects)
    (hu : (fieldSetNames d).Nodup) :
    (l.commandOperation (methodOf n d.config (.command c)) 0).isSome = true := by
  rw [DDV.Props.C09Wire.command_accessor_operation n name d l c hl hc hu 0]
  rfl

end DDV.Props.C19Wire
