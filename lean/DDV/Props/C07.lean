/-
  C07 — Generated enum conversions are total, invertible and never undefined.
-/
import DDV.Gen.EnumSem
import DDV.Gen.Lemmas.Enum

namespace DDV.Props.C07
open DDV.Gen
set_option linter.unusedVariables false
set_option linter.unusedSimpArgs false

/-- **Precedence.** A raw number converts to the variant listed with that number; else to the
    catch-all variant carrying the raw value; else to the default variant; else (only for enums
    with neither) to the error carrying the raw value and the enum's name. -/
theorem from_listed (e : LEnum) (raw : Int) (v : LVariant)
    (h : e.numberArms.find? (fun x => x.number == raw) = some v) :
    e.fromNum raw = .ok ⟨v.name, none⟩ := by
  unfold LEnum.fromNum; rw [h]

theorem from_catch_all (e : LEnum) (raw : Int) (c : LVariant)
    (h : e.numberArms.find? (fun x => x.number == raw) = none)
    (hc : e.variants.find? (·.catchAll) = some c) :
    e.fromNum raw = .ok ⟨c.name, some raw⟩ := by
  unfold LEnum.fromNum; rw [h, hc]

theorem from_default (e : LEnum) (raw : Int) (d : LVariant)
    (h : e.numberArms.find? (fun x => x.number == raw) = none)
    (hc : e.variants.find? (·.catchAll) = none) (hd : e.variants.find? (·.default) = some d) :
    e.fromNum raw = .ok ⟨d.name, none⟩ := by
  unfold LEnum.fromNum; rw [h, hc, hd]

theorem from_error (e : LEnum) (raw : Int)
    (h : e.numberArms.find? (fun x => x.number == raw) = none)
    (hc : e.variants.find? (·.catchAll) = none) (hd : e.variants.find? (·.default) = none) :
    e.fromNum raw = .error ⟨raw, e.name⟩ := by
  unfold LEnum.fromNum; rw [h, hc, hd]

/-- What the analysis guarantees about an accepted enum (C15): distinct variant names and distinct
    numbers among the variants that have a number arm. -/
structure Canonical (e : LEnum) : Prop where
  names : (e.variants.map (·.name)).Nodup
  numbers : (e.numberArms.map (·.number)).Nodup

theorem find_unique {α β : Type} [DecidableEq β] (key : α → β) :
    ∀ (l : List α) (x : α), x ∈ l → (l.map key).Nodup → l.find? (fun y => key y == key x) = some x
  | [], x, hx, _ => by cases hx
  | y :: ys, x, hx, hnd => by
    simp only [List.map_cons, List.nodup_cons] at hnd
    unfold List.find?
    by_cases hk : key y = key x
    · simp only [hk, beq_self_eq_true]
      cases hx with
      | head => rfl
      | tail _ hmem =>
        exact absurd (List.mem_map.2 ⟨x, hmem, hk.symm⟩) hnd.1
    · have : (key y == key x) = false := by simp [hk]
      simp only [this]
      cases hx with
      | head => exact absurd rfl hk
      | tail _ hmem => exact find_unique key ys x hmem hnd.2

/-- **Round trip of unit variants.** Converting any non-catch-all variant to its number and back
    yields the same variant. -/
theorem roundtrip_unit (e : LEnum) (hc : Canonical e) (v : LVariant) (hv : v ∈ e.variants)
    (hu : v.catchAll = false) :
    e.toNum ⟨v.name, none⟩ = some v.number ∧ e.fromNum v.number = .ok ⟨v.name, none⟩ := by
  constructor
  · unfold LEnum.toNum
    have := find_unique (fun x : LVariant => x.name) e.variants v hv hc.names
    rw [this]; simp [hu]
  · have hm : v ∈ e.numberArms := by
      unfold LEnum.numberArms; exact List.mem_filter.2 ⟨hv, by simp [hu]⟩
    have := find_unique (fun x : LVariant => x.number) e.numberArms v hm hc.numbers
    exact from_listed e v.number v this

/-- **Round trip of the catch-all variant**: a payload round-trips exactly when it is not a listed
    number (a listed payload is not a canonical value: the precedence rule maps it to the listed
    variant). -/
theorem roundtrip_catch_all (e : LEnum) (hcan : Canonical e) (c : LVariant) (hv : c ∈ e.variants)
    (hc : c.catchAll = true) (hfirst : e.variants.find? (·.catchAll) = some c) (n : Int) :
    e.toNum ⟨c.name, some n⟩ = some n ∧
    (e.fromNum n = .ok ⟨c.name, some n⟩ ↔ e.numberArms.find? (fun x => x.number == n) = none) := by
  constructor
  · unfold LEnum.toNum
    have := find_unique (fun x : LVariant => x.name) e.variants c hv hcan.names
    rw [this]; simp [hc]
  · constructor
    · intro h
      cases hf : e.numberArms.find? (fun x => x.number == n) with
      | none => rfl
      | some v =>
        rw [from_listed e n v hf] at h
        simp at h
    · intro h; exact from_catch_all e n c h hfirst

/-- **Totality of the conversion an infallible getter relies on.** If the enum has a fallback
    variant, or lists every number below `2^bitSize`, then no raw value of a field of `w ≤ bitSize`
    bits converts to an error — so `unwrap_unchecked` in the generated getter is never reached with
    `Err`, also when the enum is reused by name on a narrower field. -/
theorem infallible_getter_total (e : LEnum) (bitSize w : Nat) (hw : w ≤ bitSize)
    (htotal : (e.variants.any (fun v => v.catchAll || v.default)) = true ∨
              ∀ v : Nat, (v : Int) ≤ 2 ^ bitSize - 1 → ∃ x ∈ e.numberArms, x.number = (v : Int))
    (raw : Nat) (hraw : raw < 2 ^ w) :
    ∃ x, e.fromNum (raw : Int) = .ok x := by
  unfold LEnum.fromNum
  cases hf : e.numberArms.find? (fun v => v.number == (raw : Int)) with
  | some v => exact ⟨_, rfl⟩
  | none =>
    simp only
    rcases htotal with hfb | hcov
    · cases hc : e.variants.find? (·.catchAll) with
      | some c => exact ⟨_, rfl⟩
      | none =>
        simp only
        cases hd : e.variants.find? (·.default) with
        | some d => exact ⟨_, rfl⟩
        | none =>
          exfalso
          obtain ⟨v, hv, hp⟩ := List.any_eq_true.1 hfb
          have h1 := List.find?_eq_none.1 hc v hv
          have h2 := List.find?_eq_none.1 hd v hv
          simp only [Bool.or_eq_true] at hp
          rcases hp with hp | hp
          · exact h1 hp
          · exact h2 hp
    · exfalso
      have hle : (raw : Int) ≤ 2 ^ bitSize - 1 := by
        have h1 : 2 ^ w ≤ 2 ^ bitSize := Nat.pow_le_pow_right (by omega) hw
        have h2 : ((2 ^ bitSize : Nat) : Int) = (2 : Int) ^ bitSize := by simp
        omega
      obtain ⟨x, hx, hnum⟩ := hcov raw hle
      have := List.find?_eq_none.1 hf x hx
      simp [hnum] at this

/-- The lowering uses the unchecked conversion only under exactly that side condition:
    `transform_field` picks `UnsafeInto` only when an enum generated under that name was analysed
    `Infallible { bit_size }` and the field is at most `bit_size` bits wide (and `try` was not
    requested). -/
theorem unsafe_into_only_when_analysed_total (enums : List Enum) (w : Nat) (fc : FieldConversion)
    (ty : String) (h : selectConv enums w fc = .unsafeInto ty) :
    fc.useTry = false ∧ ∃ e ∈ enums, e.name = fc.typeName ∧
      ∃ bitSize, e.style = some (.infallible bitSize) ∧ w ≤ bitSize := by
  unfold selectConv at h
  cases ht : fc.useTry with
  | true => simp [ht] at h
  | false =>
    simp only [ht, Bool.false_eq_true, if_false] at h
    refine ⟨rfl, ?_⟩
    cases hf : enums.find? (fun e => e.name == fc.typeName) with
    | none => simp [hf] at h
    | some e =>
      simp only [hf] at h
      have hmem := List.mem_of_find?_eq_some hf
      have hname : e.name = fc.typeName := by
        have := List.find?_some hf
        simpa using this
      cases hs : e.style with
      | none => simp [hs] at h
      | some st =>
        cases st with
        | fallible => simp [hs] at h
        | infallible b =>
          simp only [hs] at h
          by_cases hwb : w ≤ b
          · exact ⟨e, hmem, hname, b, hs, hwb⟩
          · simp [hwb] at h

/-- Non-vacuity: an enum `A = 0, B = 1` on one bit is canonical and total. -/
example : ∃ x, (⟨none, "E", false, 8,
    [⟨none, "A", 0, false, false⟩, ⟨none, "B", 1, false, false⟩]⟩ : LEnum).fromNum 1 = .ok x :=
  ⟨_, rfl⟩

end DDV.Props.C07
