import DDV.Gen.Lemmas.Tree
namespace DDV.Props.C07
theorem placeholder : True := trivial
end DDV.Props.C07
