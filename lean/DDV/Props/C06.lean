/-
  C06 — Generated field-set API implements exactly the declared layout and types.
-/
import DDV.Props.C01
import DDV.Props.C02
import DDV.Props.C03Gen
import DDV.Gen.Emit
import DDV.Extracted.Tables

namespace DDV.Props.C06
open DDV.Gen DDV.Bits
set_option linter.unusedVariables false
set_option linter.unusedSimpArgs false

/-- **Carrier**: for every width the language allows (1..128) the carrier is the smallest of
    8, 16, 32, 64, 128 bits that fits the width. -/
theorem carrier_is_smallest_fit : ∀ w, w ≤ 128 →
    (carrierBitsOf w ∈ [8, 16, 32, 64, 128]) ∧ w ≤ carrierBitsOf w ∧
    (∀ c ∈ [8, 16, 32, 64, 128], w ≤ c → carrierBitsOf w ≤ c) := by
  decide +kernel

/-- signed iff the base type is `int`; `bool` fields use a `u8` carrier and the `bool` type. -/
theorem carrier_signedness (enums : List Enum) (f : Field) (lf : LField) (h : transformField enums f = .ok lf) :
    (lf.signed = true ↔ f.base = .int) ∧ (f.base = .bool → lf.conv = .bool ∧ lf.carrierBits = 8) ∧
    (f.base ≠ .bool → lf.carrierBits = carrierBitsOf f.width) := by
  unfold transformField at h
  simp only [bind, Except.bind, pure, Except.pure, throw, throwThe, MonadExceptOf.throw] at h
  cases hb : f.base <;> cases hc : f.conv <;> simp only [hb, hc] at h
  · by_cases hw : f.width = 1
    · simp only [hw, if_true, Except.ok.injEq] at h; rw [← h]; simp
    · simp only [hw, if_false] at h; cases h
  · cases h
  · simp only [Except.ok.injEq] at h; rw [← h]; simp
  · split at h
    · cases h
    · simp only [Except.ok.injEq] at h; rw [← h]; simp
  · simp only [Except.ok.injEq] at h; rw [← h]; simp
  · split at h
    · cases h
    · simp only [Except.ok.injEq] at h; rw [← h]; simp

/-- **Range forms**: `a..b` is `[a,b)`; the single-bit address form (only for `bool`) is `[a,a+1)`
    after the bool normalisation; both front ends lower the same way. -/
theorem range_forms (g : GlobalConfig) (f : AField) (mf : Field) (syn : Syntax)
    (h : (match syn with | .dsl => dslField g f | _ => manField g f) = .ok mf) :
    mf.start = f.start ∧ mf.stop = (f.stop.getD f.start) := by
  have hd : dslField g f = .ok mf → mf.start = f.start ∧ mf.stop = (f.stop.getD f.start) := by
    intro h
    unfold dslField at h
    simp only [bind, Except.bind, pure, Except.pure, throw, throwThe, MonadExceptOf.throw, checkU32] at h
    by_cases h1 : fitsU32 f.start = true
    · simp only [h1, if_true] at h
      cases hs : f.stop with
      | none =>
        simp only [hs] at h
        by_cases hb : (f.base == BaseType.bool) = true
        · simp only [hb, if_true, Except.ok.injEq] at h; rw [← h]; simp
        · simp [hb] at h
      | some e =>
        simp only [hs] at h
        by_cases h2 : fitsU32 e = true
        · simp only [h2, if_true, Except.ok.injEq] at h; rw [← h]; simp
        · simp [h2] at h
    · simp [h1] at h
      cases hs : f.stop with
      | none => rw [hs] at h; by_cases hb : f.base = BaseType.bool <;> simp [hb] at h
      | some e => rw [hs] at h; simp at h
  have hm : manField g f = .ok mf → mf.start = f.start ∧ mf.stop = (f.stop.getD f.start) := by
    intro h
    unfold manField at h
    simp only [bind, Except.bind, pure, Except.pure, throw, throwThe, MonadExceptOf.throw, checkU32] at h
    by_cases h1 : fitsU32 f.start = true
    · simp only [h1, if_true] at h
      cases hs : f.stop with
      | none =>
        simp only [hs, Except.ok.injEq] at h; rw [← h]; simp
      | some e =>
        simp only [hs] at h
        by_cases h2 : fitsU32 e = true
        · simp only [h2, if_true, Except.ok.injEq] at h; rw [← h]; simp
        · simp [h2] at h
    · simp [h1] at h
  cases syn
  · exact hd h
  · exact hm h
  · exact hm h
  · exact hm h

/-- **Effective byte order**: the object's own, else the global default, else LE for sets of at
    most 8 bits (otherwise the definition is rejected). -/
def effectiveByteOrder (own global : Option ByteOrder) : ByteOrder := own.getD (global.getD .le)

theorem effective_byte_order (g : Option ByteOrder) (r r' : Register)
    (h : byteOrderObj g (.register r) = .ok (.register r')) :
    r'.byteOrder = some (effectiveByteOrder r.byteOrder g) ∧
    (r.byteOrder = none → g = none → r.sizeBits ≤ 8) := by
  have hspec := (byteOrderObj_spec g (.register r)).2 _ h
  have hok := (byteOrderObj_spec g (.register r)).1.1 ⟨_, h⟩
  unfold fillByteOrder at hspec
  unfold ByteOrderOk at hok
  unfold effectiveByteOrder
  cases hb : r.byteOrder with
  | none =>
    simp only [hb, Option.isNone_none, if_true, Object.register.injEq] at hspec
    rw [hspec]
    refine ⟨by simp, ?_⟩
    intro _ hg
    subst hg
    simp only [hb, Option.isSome_none, Bool.false_eq_true, or_self, imp_false, Nat.not_lt] at hok
    exact hok
  | some b =>
    simp only [hb, Option.isNone_some, Bool.false_eq_true, if_false, Object.register.injEq] at hspec
    rw [hspec]
    exact ⟨by simp [hb], fun h => by cases h⟩

/-- **The getter reads exactly the declared range under the effective orders.** For a register
    that passed range validation, the emitted getter of a field — `load_<bit order>::<carrier,
    byte order>(&self.bits, start, end)` — returns, for every content of the ⌈size/8⌉-byte array,
    the value whose bit `j` is the documented set-bit of the declared range (C01), and the setter
    writes exactly those set-bits and leaves every other bit of the field set alone (C02). -/
theorem getter_implements_declared_layout (ptr : Nat) (enums : List Enum) (r : Register)
    (hr : isOk (bitRangesObj (.register r))) (f : Field) (hf : f ∈ r.fields) (lf : LField)
    (hl : transformField enums f = .ok lf) (bo : ByteOrder) (data : List Byte)
    (hd : data.length = (r.sizeBits + 7) / 8) :
    ∃ v, load ptr ⟨lf.carrierBits, lf.signed⟩ r.bitOrder bo data f.start f.stop = some v ∧
      ∀ j, v.getLsbD j = (decide (j < f.stop - f.start) &&
        physBit bo r.bitOrder data (srcOfValueBit r.bitOrder f.start f.stop j)) := by
  have hs := DDV.Props.C03Gen.accepted_accessors_safe enums r hr f hf lf hl
  obtain ⟨h1, h2, h3⟩ := DDV.Props.C03Gen.transformField_bounds enums f lf hl
  rw [h1, h2] at hs
  exact DDV.Props.C01.load_layout ptr ⟨lf.carrierBits, lf.signed⟩ r.bitOrder bo data f.start f.stop
    ⟨hs.le, by rw [hd]; exact hs.len, hs.width⟩

theorem setter_implements_declared_layout (ptr : Nat) (enums : List Enum) (r : Register)
    (hr : isOk (bitRangesObj (.register r))) (f : Field) (hf : f ∈ r.fields) (lf : LField)
    (hl : transformField enums f = .ok lf) (bo : ByteOrder) (data : List Byte)
    (hd : data.length = (r.sizeBits + 7) / 8) (v : BitVec lf.carrierBits) :
    ∃ d, store ptr ⟨lf.carrierBits, lf.signed⟩ r.bitOrder bo v f.start f.stop data = some d ∧
      d.length = data.length ∧
      ∀ k, k < 8 * data.length →
        physBit bo r.bitOrder d k =
          if f.start ≤ k ∧ k < f.stop then v.getLsbD (valueBitOfSrc r.bitOrder f.start f.stop k)
          else physBit bo r.bitOrder data k := by
  have hs := DDV.Props.C03Gen.accepted_accessors_safe enums r hr f hf lf hl
  obtain ⟨h1, h2, h3⟩ := DDV.Props.C03Gen.transformField_bounds enums f lf hl
  rw [h1, h2] at hs
  exact DDV.Props.C01.store_layout ptr ⟨lf.carrierBits, lf.signed⟩ r.bitOrder bo v data f.start f.stop
    ⟨hs.le, by rw [hd]; exact hs.len, hs.width⟩

/- Conversion type path (`super::` unless the path is absolute or starts at `crate`): the string
   function `superPrefix` of `DDV.Gen.Emit` is compared with the emitted signature types of every
   generated getter / setter by the correspondence run; string primitives do not reduce in the
   kernel, so there is no theorem about it here. -/

/-- **Names**: object, enum and variant names are the PascalCase, field names the snake_case
    normalisation with the configured boundaries (the `convert_case` oracle `n`). -/
theorem names_are_normalised (n : Names) (f : Field) :
    (normField n f).name = n.snake f.name ∧
    (∀ e t, f.conv = some (.enum e t) →
      ∃ e', (normField n f).conv = some (.enum e' t) ∧ e'.name = n.pascal e.name ∧
        e'.variants.map (·.name) = e.variants.map (fun v => n.pascal v.name)) := by
  unfold normField
  refine ⟨rfl, ?_⟩
  intro e t h
  simp only [h]
  exact ⟨_, rfl, rfl, by simp⟩

/-- The full statement for accessor *method* names would be `snake B name` with the configured
    boundaries `B`; the current tree derives them with convert_case's default boundaries (finding
    F4): the model carries a separate oracle function `method` for that conversion. -/
theorem accessor_name_uses_method_oracle (n : Names) (cfg : GlobalConfig) (all : List Object) (r : Register)
    (t : Integer) (hc : cfg.registerAddressType = some t) (fuel : Nat) :
    ∃ m, getMethod n cfg all "new" (fuel + 1) (.register r) = .ok (m, []) ∧ m.name = n.method r.name := by
  unfold getMethod
  simp [hc, bind, Except.bind, pure, Except.pure]

/-! ### The codec a getter / setter names (translator-tied: the arms of `get_read_function` /
     `get_write_function`, re-extracted from the source on every run) -/

/-- what the model (and every theorem above) takes the arm for `(bo, bito)` to be -/
def codecRowOk (row : String × String × String × String × String) : Bool :=
  let (which, bo, bito, fn, ord) := row
  (ord == bo) &&
  (fn == (if which == "read" then "load_" else "store_") ++ (if bito == "LSB0" then "lsb0" else "msb0")) &&
  (bo == "LE" || bo == "BE") && (bito == "LSB0" || bito == "MSB0") && (which == "read" || which == "write")

/-- Every arm of the two selection matches that the translator can read off the source names the
    load / store routine of its own bit order, instantiated with its own byte order, and no
    combination has two arms. (The translator reads `(ByteOrder::X, BitOrder::Y) => quote! { ::device_driver::ops::F::<#base_type, ::device_driver::ops::O> }`
    arms inside `get_read_function` / `get_write_function`; written any other way the table is empty,
    this obligation says nothing, and the selection is covered by the correspondence alone, which
    compares the routine and order named by every emitted getter and setter with the model.) -/
theorem codec_selection_matches_declared_orders :
    (∀ row ∈ DDV.Extracted.codecTable, codecRowOk row = true) ∧
    (∀ which ∈ ["read", "write"], ∀ bo ∈ ["LE", "BE"], ∀ bito ∈ ["LSB0", "MSB0"],
      (DDV.Extracted.codecTable.filter fun r => r.1 == which && r.2.1 == bo && r.2.2.1 == bito).length ≤ 1) := by
  decide

end DDV.Props.C06
