import DDV.Gen.Lemmas.Tree
namespace DDV.Props.C06
theorem placeholder : True := trivial
end DDV.Props.C06
