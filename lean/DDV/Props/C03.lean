/-
  C03 — Generated accessors never touch memory outside their field set.

  Part (a): the bit operations of `ops.rs`, given in-bounds arguments, read and write no byte
  outside the slice and write no byte outside the bytes the range covers.
  Part (b) (every accessor the generator emits satisfies that precondition) is in
  `DDV.Props.C03Gen`.
-/
import DDV.Bits.Lemmas

namespace DDV.Props.C03
open DDV.Bits

/-- The safety precondition the generated accessors must establish. -/
structure Safe (c : Carrier) (len s e : Nat) : Prop where
  le : s ≤ e
  len : e ≤ 8 * len
  width : e - s ≤ c.bits

/-- In the model every out-of-bounds `get_unchecked`, every `usize` underflow (BE index,
    `pivot_msb0`) and every shift `≥` the type's width is the failure value `none`. Under the
    precondition the load never reaches one. -/
theorem load_in_bounds (ptr : Nat) (c : Carrier) (bito : BitOrder) (bo : ByteOrder)
    (data : List Byte) (s e : Nat) (h : Safe c data.length s e) :
    (load ptr c bito bo data s e).isSome := by
  obtain ⟨v, hv, _⟩ := load_spec ptr c bito bo data s e h.le h.len h.width
  simp [hv]

/-- Likewise for the store; the slice keeps its length. -/
theorem store_in_bounds (ptr : Nat) (c : Carrier) (bito : BitOrder) (bo : ByteOrder)
    (v : BitVec c.bits) (data : List Byte) (s e : Nat) (h : Safe c data.length s e) :
    ∃ d, store ptr c bito bo v s e data = some d ∧ d.length = data.length := by
  obtain ⟨d, hd, hl, _⟩ := store_spec ptr c bito bo v data s e h.le h.len h.width
  exact ⟨d, hd, hl⟩

/-- A store writes no byte outside the bytes its range covers: every byte index that holds no
    set-bit of `[s,e)` has the same content afterwards. -/
theorem store_touches_only_covered_bytes (ptr : Nat) (c : Carrier) (bito : BitOrder)
    (bo : ByteOrder) (v : BitVec c.bits) (data : List Byte) (s e : Nat)
    (h : Safe c data.length s e) :
    ∃ d, store ptr c bito bo v s e data = some d ∧ d.length = data.length ∧
      ∀ idx, idx < data.length →
        (∀ k, s ≤ k → k < e → specByteIndex bo data.length k ≠ idx) →
        d.getD idx 0#8 = data.getD idx 0#8 :=
  store_untouched_byte ptr c bito bo v data s e h.le h.len h.width

/-- The failure values are real: outside the precondition the model does fail (so the two
    theorems above are not true for the wrong reason). One bit past the end of a 1-byte slice: -/
example : getByte? .le [0#8] 8 = none := by decide
example : getByte? .be [0#8] 8 = none := by decide

example : Safe ⟨16, false⟩ 3 5 21 := ⟨by decide, by decide, by decide⟩

end DDV.Props.C03
