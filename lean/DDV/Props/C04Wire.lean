/-
  C04 (generator ⋈ runtime) — the address an accessor chain computes is the address the interface
  is called with: `DDV.Props.C04.address_formula` joined to the protocol of `DDV.Props.C05`.
-/
import DDV.Gen.Lemmas.OpSem
import DDV.Props.C04
import DDV.Props.C05

namespace DDV.Props.C04Wire
open DDV.Gen DDV.Proto
set_option linter.unusedSimpArgs false
set_option linter.unusedVariables false

/-- **C04 down to the wire**: a register operation reached through an accessor chain talks to the
    interface at the mathematically defined address of that chain — the sum of every step's
    offset / address plus index × stride. -/
theorem chain_write_reaches_formula_address (n : Names) (l : Lir) (chain : List (Method × Nat)) (m : Method)
    (i : Nat) (base a : Int) (spec : RegSpec) (f : Closure) (env : Env)
    (hch : evalChain (chain ++ [(m, i)]) base = some a)
    (hop : l.registerOperation n m a = some spec) :
    (runBlocking (Register.write spec f) env).1.log =
      env.log ++ [.regWrite (specChain (chain ++ [(m, i)]) base) spec.sizeBits (f spec.reset).1] := by
  have ha := DDV.Props.C04.address_formula (chain ++ [(m, i)]) base a hch
  have hs : spec.addr = a := by
    unfold Lir.registerOperation at hop
    split at hop
    · split at hop
      · split at hop
        · simp only [Option.some.injEq] at hop; rw [← hop]
        · cases hop
      · cases hop
    · cases hop
  rw [DDV.Props.C05.write_protocol, hs, ha]


end DDV.Props.C04Wire
