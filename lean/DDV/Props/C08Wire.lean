/-
  C08 (generator ⋈ runtime) — reset values reach the wire exactly as declared: the operation object a
  generated register accessor returns (`DDV.Gen.OpSem`, the model of `block_transform.rs:221-258`)
  run through the runtime model (`DDV.Proto`). These theorems join the two halves that
  `DDV.Props.C08` (conversion of the declared value, constructors) and `DDV.Props.C05` (protocol)
  prove separately; the compiled probe compares what the real driver puts on the wire with exactly
  this composition (`op_tables` of the model's facts).
-/
import DDV.Gen.Lemmas.OpSem
import DDV.Props.C05

namespace DDV.Props.C08Wire
open DDV.Gen DDV.Proto
set_option linter.unusedSimpArgs false
set_option linter.unusedVariables false

/-- The field set an accessor looks up by the name of register `r`, in a device the lowering
    accepts whose field-set type names are pairwise distinct. -/
theorem register_field_set_lookup (n : Names) (name : String) (d : Device) (l : Lir) (r : Register)
    (hl : lower n name d = .ok l) (hr : Object.register r ∈ allObjects d.objects)
    (hu : (fieldSetNames d).Nodup) :
    ∃ fs, l.fieldSet r.name = some fs ∧ fs.sizeBits = r.sizeBits ∧ fs.reset = declaredReset r ∧
      (refsTo (allObjects d.objects) r.name).filterMapM refResetStep = .ok fs.refResets := by
  have hf := lower_fieldSets n name d l hl
  obtain ⟨fs, hmem, h1, h2, h3, h4⟩ := transformFieldSets_register d _ _ r hf hr
  have hnames := transformFieldSets_names d _ _ hf
  refine ⟨fs, ?_, h2, h3, h4⟩
  unfold Lir.fieldSet
  have := find_by_key (fun (x : LFieldSet) => x.name) l.fieldSets fs hmem (by rw [hnames]; exact hu)
  simpa [h1] using this

/-- **The operation behind a register accessor.** For a device the lowering accepts whose field-set
    type names are pairwise distinct, the accessor of a register anywhere in the tree, at whatever
    address its chain computed, returns a `RegisterOperation` over the register's declared size
    whose `new` constructor yields the declared reset value. -/
theorem register_accessor_operation (n : Names) (name : String) (d : Device) (l : Lir) (r : Register)
    (hl : lower n name d = .ok l) (hr : Object.register r ∈ allObjects d.objects)
    (hu : (fieldSetNames d).Nodup) (addr : Int) :
    l.registerOperation n (methodOf n d.config (.register r)) addr =
      some { addr := addr, sizeBits := r.sizeBits, reset := toBytes (declaredReset r) } := by
  obtain ⟨fs, hfind, h2, h3, _⟩ := register_field_set_lookup n name d l r hl hr hu
  simp [Lir.registerOperation, methodOf, hfind, LFieldSet.ctorBytes, h2, h3]

/-- **C08, on the wire**: `write(|_| ())` through the accessor of a register of an accepted
    definition performs exactly one interface write, at the accessor's address, with the declared
    size and exactly the declared reset value (all zero when none is declared). -/
theorem write_sends_declared_reset (n : Names) (name : String) (d : Device) (l : Lir) (r : Register)
    (hl : lower n name d = .ok l) (hr : Object.register r ∈ allObjects d.objects)
    (hu : (fieldSetNames d).Nodup) (addr : Int) (env : Env) :
    ∃ spec, l.registerOperation n (methodOf n d.config (.register r)) addr = some spec ∧
      (runBlocking (Register.write spec (fun b => (b, 0))) env).1.log =
        env.log ++ [.regWrite addr r.sizeBits (toBytes (declaredReset r))] := by
  refine ⟨_, register_accessor_operation n name d l r hl hr hu addr, ?_⟩
  rw [DDV.Props.C05.write_protocol]

/-- **A ref that overrides the reset value starts from its own value** (C08 / C05): its accessor's
    operation has the *target's* size and the *override's* bytes, provided the `new_as_<ref>`
    constructor names of the refs to that register are pairwise distinct. -/
theorem ref_accessor_operation (n : Names) (name : String) (d : Device) (l : Lir)
    (rf : RefObject) (ov : RegisterOverride) (r : Register) (a : List Nat) (m : Method)
    (hl : lower n name d = .ok l) (hr : Object.register r ∈ allObjects d.objects)
    (hrf : Object.ref rf ∈ allObjects d.objects)
    (hov : rf.override = .register ov) (hname : ov.name = r.name) (hreset : ov.reset = some (.array a))
    (hu : (fieldSetNames d).Nodup)
    (hctor : ((refsTo (allObjects d.objects) r.name).map fun x => refCtorName n x.name).Nodup)
    (hm : m.target = some r.name ∧ m.resetFn = some (refCtorName n rf.name)) (addr : Int) :
    l.registerOperation n m addr = some { addr := addr, sizeBits := r.sizeBits, reset := toBytes a } := by
  obtain ⟨fs, hfind, h2, h3, h4⟩ := register_field_set_lookup n name d l r hl hr hu
  have hin : rf ∈ refsTo (allObjects d.objects) r.name := by
    unfold refsTo
    rw [List.mem_filterMap]
    refine ⟨.ref rf, hrf, ?_⟩
    simp [hov, ObjectOverride.name, hname]
  have hmem : (rf.name, a) ∈ fs.refResets :=
    filterMapM_ok_mem refResetStep _ _ h4 rf hin _ (refResetStep_array rf ov a hov hreset)
  have hsub := filterMapM_ok_sublist refResetStep (fun (p : String × List Nat) => refCtorName n p.1)
    (fun (x : RefObject) => refCtorName n x.name) (by
      intro x y hxy
      unfold refResetStep at hxy
      cases hx : x.override with
      | register o =>
        rw [hx] at hxy
        simp only [bind, Except.bind, pure, Except.pure] at hxy
        cases hb : resetBytes o.reset with
        | error e => rw [hb] at hxy; cases hxy
        | ok ob =>
          rw [hb] at hxy
          cases ob with
          | none => simp at hxy
          | some bytes => simp at hxy; rw [← hxy]
      | block o => rw [hx] at hxy; simp [throw, throwThe, MonadExceptOf.throw] at hxy
      | command o => rw [hx] at hxy; simp [throw, throwThe, MonadExceptOf.throw] at hxy) _ _ h4
  have hnd : (fs.refResets.map fun p => refCtorName n p.1).Nodup := hsub.nodup hctor
  have hfind2 := find_by_key (fun (p : String × List Nat) => refCtorName n p.1) fs.refResets (rf.name, a) hmem hnd
  have hne : refCtorName n rf.name ≠ "new" := refCtor_ne_new n rf.name
  simp only [Lir.registerOperation, hm.1, hm.2, hfind, LFieldSet.ctorBytes, hne, if_false, hfind2, Option.map_some, h2]



/-- … hence `write(|_| ())` through the ref's accessor sends the override's bytes, with the target's size. -/
theorem ref_write_sends_override (n : Names) (name : String) (d : Device) (l : Lir)
    (rf : RefObject) (ov : RegisterOverride) (r : Register) (a : List Nat) (m : Method)
    (hl : lower n name d = .ok l) (hr : Object.register r ∈ allObjects d.objects)
    (hrf : Object.ref rf ∈ allObjects d.objects)
    (hov : rf.override = .register ov) (hname : ov.name = r.name) (hreset : ov.reset = some (.array a))
    (hu : (fieldSetNames d).Nodup)
    (hctor : ((refsTo (allObjects d.objects) r.name).map fun x => refCtorName n x.name).Nodup)
    (hm : m.target = some r.name ∧ m.resetFn = some (refCtorName n rf.name)) (addr : Int) (env : Env) :
    ∃ spec, l.registerOperation n m addr = some spec ∧
      (runBlocking (Register.write spec (fun b => (b, 0))) env).1.log =
        env.log ++ [.regWrite addr r.sizeBits (toBytes a)] := by
  refine ⟨_, ref_accessor_operation n name d l rf ov r a m hl hr hrf hov hname hreset hu hctor hm addr, ?_⟩
  rw [DDV.Props.C05.write_protocol]

/-- Non-vacuity: a device with one 12-bit register with reset `[0xBC, 0x0A]` and a ref overriding
    it; the model of the lowering accepts it, names are distinct, and the wire carries the bytes. -/
def exReg : Register :=
  { name := "Ctrl", access := .rw, byteOrder := some .le, bitOrder := .lsb0, address := 5, sizeBits := 12,
    allowBitOverlap := false, allowAddressOverlap := false, repeat_ := none,
    reset := some (.array [0xBC, 0x0A]), fields := [] }
def exDev : Device := { config := { registerAddressType := some .u8 }, objects := [.register exReg] }
def exNames : Names := { devicePascal := "Dev", pascal := fun s => s, method := fun s => s, snake := fun s => s, collision := fun s => s }

example : (fieldSetNames exDev) = ["Ctrl"] := by decide
example : declaredReset exReg = [0xBC, 0x0A] := rfl
/-- what the lowering produces for `exDev` (field sets only) -/
def exFs : LFieldSet :=
  { cfg := none, name := "Ctrl", byteOrder := DDV.Bits.ByteOrder.le, bitOrder := DDV.Bits.BitOrder.lsb0,
    sizeBits := 12, reset := [0xBC, 0x0A], refResets := [("Alias", [1, 2])], fields := [] }
def exLir : Lir :=
  { internalSigned := false, internalBits := 8, registerAddressType := Integer.u8, blocks := [],
    fieldSets := [exFs], enums := [], defmt := none }
example : exLir.registerOperation exNames (methodOf exNames {} (.register exReg)) 5 =
    some { addr := 5, sizeBits := 12, reset := [0xBC#8, 0x0A#8] } := by
  simp [Lir.registerOperation, methodOf, exReg, Lir.fieldSet, exLir, exFs, LFieldSet.ctorBytes, toBytes]
example : exLir.registerOperation exNames { (methodOf exNames {} (.register exReg)) with resetFn := some "new_as_Alias" } 9 =
    some { addr := 9, sizeBits := 12, reset := [1#8, 2#8] } := by
  have h : (toString "new_as_" ++ toString "Alias" : String) = "new_as_Alias" := by decide
  simp [Lir.registerOperation, methodOf, exReg, Lir.fieldSet, exLir, exFs, LFieldSet.ctorBytes, toBytes, refCtorName, exNames, h]

end DDV.Props.C08Wire
