/-
  C18 — Conditional-compilation gates equal the conjunction of own and enclosing cfgs.
-/
import DDV.Gen.Passes
import DDV.Gen.Lemmas.Refs
import DDV.Gen.Lemmas.LowerRefs

namespace DDV.Props.C18
open DDV.Gen
set_option linter.unusedVariables false
set_option linter.unusedSimpArgs false

/- The specification, as the tree recursion the property describes: an object's gate is its own
   cfg combined with the gate of its enclosing block (`inh`, itself the combination along the
   path); enums generated from a field additionally combine the field's cfg; nothing comes from
   siblings or preceding blocks. With no cfg anywhere on the path the result is `none`. -/
mutual
def specObj (inh : Cfg) : Object → Object
  | .block h os => .block { h with cfg := Cfg.combine h.cfg inh } (specList (Cfg.combine h.cfg inh) os)
  | .register r => applyLeafCfg (Cfg.combine r.cfg inh) (.register r)
  | .command x => applyLeafCfg (Cfg.combine x.cfg inh) (.command x)
  | .buffer b => applyLeafCfg (Cfg.combine b.cfg inh) (.buffer b)
  | .ref r => applyLeafCfg (Cfg.combine r.cfg inh) (.ref r)
def specList (inh : Cfg) : List Object → List Object
  | [] => []
  | o :: os => specObj inh o :: specList inh os
end

/-- Invariant of the depth-tracked stack while the walk is at nesting level `depth` below the
    blocks whose combined cfgs are `base` (innermost first): entries above that level may still be
    on the stack (they are popped lazily at the next object), the rest of the stack is `base`. -/
structure Inv (w : CfgWalk) (depth : Nat) (base : List Cfg) : Prop where
  ge : depth ≤ w.currentDepth
  len : w.stack.length = w.currentDepth + 1
  tail : w.stack.drop (w.currentDepth - depth) = base

theorem cfgStep_spec (w : CfgWalk) (depth : Nat) (own inh : Cfg) (rest : List Cfg)
    (h : Inv w depth (inh :: rest)) :
    cfgStep w depth own = .ok (Cfg.combine own inh, ⟨depth, inh :: rest⟩) := by
  unfold cfgStep
  by_cases hd : depth < w.currentDepth
  · simp only [hd, if_true, h.tail, List.head?_cons]
  · have heq : w.currentDepth = depth := by have := h.ge; omega
    have ht := h.tail
    rw [heq, Nat.sub_self, List.drop_zero] at ht
    simp only [hd, if_false, ht, List.head?_cons]
    cases w with
    | mk cd st => simp only at heq ht; subst heq; subst ht; rfl

theorem inv_after_step (depth : Nat) (base : List Cfg) (hl : base.length = depth + 1) :
    Inv ⟨depth, base⟩ depth base :=
  ⟨Nat.le_refl _, hl, by simp⟩

mutual
theorem cfgWalkObj_spec (inh : Cfg) (rest : List Cfg) :
    ∀ (o : Object) (depth : Nat) (w : CfgWalk), rest.length = depth → Inv w depth (inh :: rest) →
      ∃ w', cfgWalkObj depth w o = .ok (specObj inh o, w') ∧ Inv w' depth (inh :: rest)
  | .block h os, depth, w, hr, hi => by
    unfold cfgWalkObj specObj
    rw [cfgStep_spec w depth h.cfg inh rest hi]
    simp only
    have hbase : (Cfg.combine h.cfg inh :: inh :: rest).length = (depth + 1) + 1 := by simp [hr]
    have hinv : Inv ⟨depth + 1, Cfg.combine h.cfg inh :: inh :: rest⟩ (depth + 1)
        (Cfg.combine h.cfg inh :: inh :: rest) := inv_after_step _ _ hbase
    obtain ⟨w2, hw2, hi2⟩ := cfgWalkList_spec (Cfg.combine h.cfg inh) (inh :: rest) os (depth + 1) _
      (by simp [hr]) hinv
    rw [hw2]
    refine ⟨w2, rfl, ?_⟩
    refine ⟨by have := hi2.ge; omega, hi2.len, ?_⟩
    have ht := hi2.tail
    have hge := hi2.ge
    have : w2.currentDepth - depth = (w2.currentDepth - (depth + 1)) + 1 := by omega
    rw [this, ← List.drop_drop, ht]
    rfl
  | .register r, depth, w, hr, hi => by
    unfold cfgWalkObj specObj
    rw [cfgStep_spec w depth r.cfg inh rest hi]
    exact ⟨_, rfl, inv_after_step _ _ (by simp [hr])⟩
  | .command x, depth, w, hr, hi => by
    unfold cfgWalkObj specObj
    rw [cfgStep_spec w depth x.cfg inh rest hi]
    exact ⟨_, rfl, inv_after_step _ _ (by simp [hr])⟩
  | .buffer b, depth, w, hr, hi => by
    unfold cfgWalkObj specObj
    rw [cfgStep_spec w depth b.cfg inh rest hi]
    exact ⟨_, rfl, inv_after_step _ _ (by simp [hr])⟩
  | .ref r, depth, w, hr, hi => by
    unfold cfgWalkObj specObj
    rw [cfgStep_spec w depth r.cfg inh rest hi]
    exact ⟨_, rfl, inv_after_step _ _ (by simp [hr])⟩

theorem cfgWalkList_spec (inh : Cfg) (rest : List Cfg) :
    ∀ (os : List Object) (depth : Nat) (w : CfgWalk), rest.length = depth → Inv w depth (inh :: rest) →
      ∃ w', cfgWalkList depth w os = .ok (specList inh os, w') ∧ Inv w' depth (inh :: rest)
  | [], depth, w, hr, hi => by
    unfold cfgWalkList specList
    exact ⟨w, rfl, hi⟩
  | o :: os, depth, w, hr, hi => by
    unfold cfgWalkList specList
    obtain ⟨w1, h1, i1⟩ := cfgWalkObj_spec inh rest o depth w hr hi
    rw [h1]
    simp only
    obtain ⟨w2, h2, i2⟩ := cfgWalkList_spec inh rest os depth w1 hr i1
    rw [h2]
    exact ⟨w2, rfl, i2⟩
end

/-- **C18.** For every object tree, the depth-tracked stack walk of `propagate_cfg` never fails and
    gates every object, and every enum generated from a field, with exactly its own cfg combined
    with the cfgs of the blocks enclosing it — the tree recursion `specList`. -/
theorem cfg_is_path_conjunction (d : Device) :
    propagateCfg d = .ok { d with objects := specList none d.objects } := by
  unfold propagateCfg
  obtain ⟨w', h, _⟩ := cfgWalkList_spec none [] d.objects 0 ⟨0, [none]⟩ rfl
    ⟨Nat.le_refl _, rfl, rfl⟩
  rw [h]

/-- Items with no cfg anywhere on their path are unconditional. -/
theorem no_cfg_on_path_is_unconditional (own : Cfg) (h : own = none) : Cfg.combine own none = none := by
  subst h; rfl

/-- The combination rule: identity on `none`, idempotent on equal predicates, `all(own, inherited)`
    otherwise. -/
theorem combine_rule (a b : String) :
    Cfg.combine (some a) none = some a ∧ Cfg.combine none (some b) = some b ∧
    Cfg.combine (some a) (some a) = some a ∧
    (a ≠ b → Cfg.combine (some a) (some b) = some s!"all({a}, {b})") := by
  refine ⟨rfl, rfl, by simp [Cfg.combine], fun h => by simp [Cfg.combine, h]⟩

/-- Non-vacuity: the witness of the former defect (an object following two closed nested cfg'd
    blocks) is unconditional. -/
example : specList none
    [.block ⟨some "a", "", "A", 0, none⟩ [.block ⟨some "b", "", "B", 0, none⟩ [.buffer ⟨none, "", "R1", .rw, 0⟩]],
     .buffer ⟨none, "", "R2", .rw, 1⟩] =
    [.block ⟨some "a", "", "A", 0, none⟩ [.block ⟨some "all(b, a)", "", "B", 0, none⟩
        [.buffer ⟨some "all(b, a)", "", "R1", .rw, 0⟩]],
     .buffer ⟨none, "", "R2", .rw, 1⟩] := by
  simp [specList, specObj, applyLeafCfg, Object.setCfg, Cfg.combine]
  decide

/-- **Refs**: the accessor lowered for a register / command ref carries the *ref's* cfg (which
    `propagate_cfg` has already combined with the blocks enclosing the ref) — nothing of the
    target's own cfg or of the blocks enclosing the target. -/
theorem register_ref_cfg (n : Names) (cfg : GlobalConfig) (all : List Object) (rf : RefObject)
    (ov : RegisterOverride) (r : Register) (t : Integer) (fuel : Nat)
    (hov : rf.override = .register ov) (ht : searchObject ov.name all = some (.register r))
    (hc : cfg.registerAddressType = some t) :
    ∃ m, getMethod n cfg all "new" (fuel + 2) (.ref rf) = .ok (m, []) ∧ m.cfg = rf.cfg := by
  obtain ⟨m, h, _, _, h3, _⟩ := register_ref_method n cfg all rf ov r t fuel hov ht hc
  exact ⟨m, h, h3⟩

theorem command_ref_cfg (n : Names) (cfg : GlobalConfig) (all : List Object) (rf : RefObject)
    (ov : CommandOverride) (c : Command) (t : Integer) (fuel : Nat)
    (hov : rf.override = .command ov) (ht : searchObject ov.name all = some (.command c))
    (hc : cfg.commandAddressType = some t) :
    ∃ m, getMethod n cfg all "new" (fuel + 2) (.ref rf) = .ok (m, []) ∧ m.cfg = rf.cfg := by
  obtain ⟨m, h, _, _, h3, _⟩ := command_ref_method n cfg all rf ov c t fuel hov ht hc
  exact ⟨m, h, h3⟩

/-- **Every accessor carries exactly its object's own cfg** — for every object at every depth and
    for refs of all three kinds (block refs included): whatever the lowering emits for an object
    (`lowering_structure_refs`) is gated by that object's cfg after `propagate_cfg`, i.e. own ∧
    enclosing blocks; for a ref that is the *ref's* cfg, and nothing of its target's or of the blocks
    around its target. -/
theorem accessor_cfg_is_the_objects_own (n : Names) (cfg : GlobalConfig) (all : List Object) (rfn : String)
    (fuel : Nat) (o : Object) (m : Method) (bs : List LBlock)
    (h : getMethod n cfg all rfn fuel o = .ok (m, bs)) : m.cfg = o.cfg := by
  obtain ⟨e, _, _⟩ := (lowering_structure_refs n cfg all fuel).1 rfn o m bs h
  rw [e]
  cases o with
  | block hd os => rfl
  | register r => rfl
  | command c => rfl
  | buffer b => rfl
  | ref rf =>
    simp only [methodOfR, resolveWith]
    cases hs : searchObject rf.override.name all with
    | none => rfl
    | some t =>
      simp only
      cases hov : rf.override <;> cases t <;> simp [substRef, hov, methodOfWith, methodOf, Object.cfg]

end DDV.Props.C18
