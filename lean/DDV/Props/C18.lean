import DDV.Gen.Lemmas.Tree
namespace DDV.Props.C18
theorem placeholder : True := trivial
end DDV.Props.C18
