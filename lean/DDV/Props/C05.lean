/-
  C05 — Register read/write/modify follow the documented protocol, sync and async alike.
-/
import DDV.Proto.Lemmas

namespace DDV.Props.C05
set_option linter.unusedSimpArgs false
open DDV.Proto DDV.Proto.Register

/-- What the next script entry makes of a write: the interface's error unchanged, else `ok v`. -/
def afterWrite (e : Option Entry) (v : Val) : Res :=
  match e with
  | some (.err c) => .error c
  | _ => .ok v

/-- **write**: the closure gets the reset value; exactly one interface write of the closure's
    result with the declared address and size; the closure's return value (or the interface's
    error unchanged) is returned; nothing else is called. -/
theorem write_protocol (r : RegSpec) (f : Closure) (env : Env) :
    runBlocking (write r f) env =
      (⟨env.log ++ [.regWrite r.addr r.sizeBits (f r.reset).1], env.script.tail⟩,
       .ret (afterWrite env.script.head? (.num (f r.reset).2))) := by
  unfold write
  simp only [runBlocking, Env.answer]
  cases h : env.script.head? with
  | none => simp [respond, afterWrite, runBlocking, Req.mutBuf]
  | some e => cases e <;> simp [respond, afterWrite, runBlocking]

/-- **write_with_zero**: as `write`, starting from all-zero bytes of length ⌈size/8⌉. -/
theorem write_with_zero_protocol (r : RegSpec) (f : Closure) (env : Env) :
    runBlocking (writeWithZero r f) env =
      (⟨env.log ++ [.regWrite r.addr r.sizeBits (f (zeros (bytesOf r.sizeBits))).1], env.script.tail⟩,
       .ret (afterWrite env.script.head? (.num (f (zeros (bytesOf r.sizeBits))).2))) := by
  unfold writeWithZero
  simp only [runBlocking, Env.answer]
  cases h : env.script.head? with
  | none => simp [respond, afterWrite, runBlocking, Req.mutBuf]
  | some e => cases e <;> simp [respond, afterWrite, runBlocking]

/-- **read**: exactly one interface read into a zeroed buffer of ⌈size/8⌉ bytes; the result is
    what the interface left in that buffer (or its error unchanged). -/
theorem read_protocol (r : RegSpec) (env : Env) :
    runBlocking (Register.read r) env =
      (⟨env.log ++ [.regRead r.addr r.sizeBits (zeros (bytesOf r.sizeBits))], env.script.tail⟩,
       .ret (match env.script.head? with
             | some (.err c) => .error c
             | some (.ok _ fill) => .ok (.bytes (applyFill (zeros (bytesOf r.sizeBits)) fill))
             | none => .ok (.bytes (zeros (bytesOf r.sizeBits))))) := by
  unfold Register.read
  simp only [runBlocking, Env.answer]
  cases h : env.script.head? with
  | none => simp [respond, runBlocking, Req.mutBuf]
  | some e => cases e <;> simp [respond, runBlocking, Req.mutBuf]

/-- **modify, failed read**: the error is returned unchanged and *no write* is issued. -/
theorem modify_failed_read (r : RegSpec) (f : Closure) (env : Env) (c : Nat)
    (h : env.script.head? = some (.err c)) :
    runBlocking (Register.modify r f) env =
      (⟨env.log ++ [.regRead r.addr r.sizeBits (zeros (bytesOf r.sizeBits))], env.script.tail⟩,
       .ret (.error c)) := by
  unfold Register.modify
  simp [runBlocking, Env.answer, h, respond]

/-- **modify, successful read**: one read, then one write of `f(readback)` to the same address
    with the same size; result as for `write`. -/
theorem modify_protocol (r : RegSpec) (f : Closure) (env : Env) (n : Nat) (fill : List DDV.Bits.Byte)
    (h : env.script.head? = some (.ok n fill)) :
    runBlocking (Register.modify r f) env =
      (⟨env.log ++ [.regRead r.addr r.sizeBits (zeros (bytesOf r.sizeBits)),
                    .regWrite r.addr r.sizeBits (f (applyFill (zeros (bytesOf r.sizeBits)) fill)).1],
        env.script.tail.tail⟩,
       .ret (afterWrite env.script.tail.head? (.num (f (applyFill (zeros (bytesOf r.sizeBits)) fill)).2))) := by
  unfold Register.modify
  simp only [runBlocking, Env.answer, h, respond, Req.mutBuf]
  cases h2 : env.script.tail.head? with
  | none => simp [respond, afterWrite, runBlocking, Req.mutBuf]
  | some e => cases e <;> simp [respond, afterWrite, runBlocking]

/-- **Histories**: in any sequence of operations the log is the concatenation of the operations'
    own logs — an operation's calls, the script it consumes and its result do not depend on what
    was called before it. -/
theorem history (ops : List (Prog Res)) (log : List Req) (script : List Entry) :
    (runSeq ops ⟨log, script⟩).1.log = log ++ (runSeq ops ⟨[], script⟩).1.log :=
  runSeq_log ops log script

theorem operation_independent_of_past (op : Prog Res) (log : List Req) (script : List Entry) :
    runBlocking op ⟨log, script⟩ =
      (⟨log ++ (runBlocking op ⟨[], script⟩).1.log, (runBlocking op ⟨[], script⟩).1.script⟩,
       (runBlocking op ⟨[], script⟩).2) :=
  runBlocking_frame op log script

/-- **Async = blocking**, for each of the four operations and every suspension pattern `pend`
    (the n-th interface future is `Pending` `pend n` times): same calls, same arguments, same
    remaining script, same result, after exactly `1 + Σ pend` polls. -/
theorem write_async_eq_blocking (pend : Nat → Nat) (r : RegSpec) (f : Closure) (env : Env) (n extra : Nat) :
    drive pend (extra + 1 + pendSum pend (writeAsync r f) env n) ⟨writeAsync r f, none, env, n⟩ 0 =
      some ((runBlocking (write r f) env).1, (runBlocking (write r f) env).2,
            0 + 1 + pendSum pend (writeAsync r f) env n) :=
  drive_eq_blocking pend (writeAsync r f) env n 0 extra

theorem write_with_zero_async_eq_blocking (pend : Nat → Nat) (r : RegSpec) (f : Closure) (env : Env) (n extra : Nat) :
    drive pend (extra + 1 + pendSum pend (writeWithZeroAsync r f) env n) ⟨writeWithZeroAsync r f, none, env, n⟩ 0 =
      some ((runBlocking (writeWithZero r f) env).1, (runBlocking (writeWithZero r f) env).2,
            0 + 1 + pendSum pend (writeWithZeroAsync r f) env n) :=
  drive_eq_blocking pend (writeWithZeroAsync r f) env n 0 extra

theorem read_async_eq_blocking (pend : Nat → Nat) (r : RegSpec) (env : Env) (n extra : Nat) :
    drive pend (extra + 1 + pendSum pend (readAsync r) env n) ⟨readAsync r, none, env, n⟩ 0 =
      some ((runBlocking (Register.read r) env).1, (runBlocking (Register.read r) env).2,
            0 + 1 + pendSum pend (readAsync r) env n) :=
  drive_eq_blocking pend (readAsync r) env n 0 extra

theorem modify_async_eq_blocking (pend : Nat → Nat) (r : RegSpec) (f : Closure) (env : Env) (n extra : Nat) :
    drive pend (extra + 1 + pendSum pend (modifyAsync r f) env n) ⟨modifyAsync r f, none, env, n⟩ 0 =
      some ((runBlocking (Register.modify r f) env).1, (runBlocking (Register.modify r f) env).2,
            0 + 1 + pendSum pend (modifyAsync r f) env n) :=
  drive_eq_blocking pend (modifyAsync r f) env n 0 extra

/-- Non-vacuity: a concrete modify with a pending pattern runs to completion. -/
example : (drive (fun n => n + 1) 10
    ⟨modifyAsync ⟨5, 12, [0x12#8, 0x03#8]⟩ (fun b => (b.map (· ^^^ 0xFF#8), 7)), none,
     ⟨[], [.ok 0 [0xAA#8, 0x0B#8]]⟩, 0⟩ 0).isSome = true := by decide

end DDV.Props.C05
