/-
  C16 (DSL side, below the grammar) — the generator's own lowering of the DSL tree, `dsl_hir/mir_transform.rs`
  modelled function by function in `DDV.Gen.DslHir`, computes on the tree of a definition exactly the abstract
  lowering `lowerDsl` that `DDV.Props.C16.front_ends_agree` / `same_driver` and every generator theorem are about.
  The driver runs this model on the tree the real grammar built from the very DSL text the generator was given, so
  what stays outside the model on the DSL route is the `syn` grammar of `dsl_hir/mod.rs` alone.
-/
import DDV.Gen.Lemmas.DslHirConfig
import DDV.Gen.Lemmas.DslPerm
import DDV.Gen.Lemmas.DslUnique
import DDV.Gen.Lemmas.DslNoPanic
import DDV.Props.C16Tree

namespace DDV.Props.C16Hir
open DDV.Gen DDV.Gen.HirLemmas

/-! What the grammar can hand to the lowering at all (`TreesOk`): reset arrays are bytes (`Vec<u8>`), enum numbers
    are within the `i128` they are parsed into, and a ref override carries no layout item (those are rejected by
    both; `register_override_layout_rejected`). Nothing else is assumed: definitions with several defects at once are
    rejected by both with the same error, because `lowerDsl` checks in the order the Rust does. -/

/-- The DSL lowering of the generator, run on the tree the grammar builds from the canonical DSL text of a
    definition, is the abstract DSL lowering `lowerDsl` (the function `front_ends_agree`, `same_driver` and every
    generator theorem downstream are stated about). -/
theorem hirTransform_render (d : ADef) (h : TreesOk d.objects) : hirTransform (Dsl.renderHir d) = lowerDsl d := by
  unfold hirTransform Dsl.renderHir lowerDsl
  simp only [config_render, objs_render _ d.objects h, bind, Except.bind, pure, Except.pure]

/-- **The two key-level / tree-level routes of the model agree end to end**: for a definition of the common
    fragment (what every syntax can express), the generator's lowering of the DSL tree and the key-by-key reading of
    the manifest value tree give the same MIR or the same rejection - hence, `transform_mir` being one function, the
    same driver. -/
theorem dsl_tree_eq_manifest_tree (syn : Syntax) (d : ADef) (h : TreesOk d.objects)
    (hc : DDV.Props.C16.CommonObjs syn d.objects) (hb : d.config.nameWordBoundaries = none)
    (hn : ∀ p ∈ rObjs syn d.objects, p.1 ≠ "config") (hi : DDV.Props.C16Tree.ObjsIn syn d.objects) :
    hirTransform (Dsl.renderHir d) = manTransform syn (renderTree syn d) := by
  rw [hirTransform_render d h]
  exact DDV.Props.C16Tree.dsl_lowering_eq_tree_reading syn d hc hb hn hi

theorem same_driver_from_the_trees (n : Names) (name : String) (syn : Syntax) (d : ADef) (h : TreesOk d.objects)
    (hc : DDV.Props.C16.CommonObjs syn d.objects) (hb : d.config.nameWordBoundaries = none)
    (hn : ∀ p ∈ rObjs syn d.objects, p.1 ≠ "config") (hi : DDV.Props.C16Tree.ObjsIn syn d.objects) :
    (hirTransform (Dsl.renderHir d) >>= transformMir n name) =
      (manTransform syn (renderTree syn d) >>= transformMir n name) := by
  rw [dsl_tree_eq_manifest_tree syn d h hc hb hn hi]

/-- A field written with a single-bit address must be a `bool`: anything else is rejected by the lowering
    (`mir_transform.rs:527-535`), whatever else the field says. -/
theorem single_address_needs_bool (g : GlobalConfig) (f : HField) (l : HLit) (c : Cfg)
    (ha : f.addr = .integer l) (hb : f.base ≠ .bool) (hc : hirCfg f.attrs = .ok c) (hn : f.conv = none) :
    hirField g f = .error (frontErr "front_field_needs_range") := by
  unfold hirField
  have hb' : (f.base == BaseType.bool) = false := by cases hbb : f.base <;> simp_all
  simp [ha, hb', hc, hn, bind, Except.bind, pure, Except.pure, throw, throwThe, MonadExceptOf.throw]

/-- A register override that carries a layout item (`ByteOrder`, `BitOrder`, `SizeBits`, `AllowBitOverlap`) is
    rejected (`mir_transform.rs:708-741`). -/
theorem register_override_layout_rejected (name : String) (items : List HRegItem)
    (h : items.any HRegItem.layout = true) :
    hirRegisterOverride [] name items [] = .error (frontErr "front_override_layout") := by
  unfold hirRegisterOverride
  simp [h, overrideLayout, bind, Except.bind, throw, throwThe, MonadExceptOf.throw]

/-- More than one `#[cfg]` on an item is rejected (`get_cfg_attr`). -/
theorem two_cfgs_rejected (a b : String) (rest : List HAttr) :
    hirCfg (.cfg a :: .cfg b :: rest) = .error (frontErr "front_multi_cfg") := by
  unfold hirCfg
  simp only [List.filterMap_cons]
  rfl

/-- A global config given twice is rejected whatever its values (`mir_transform.rs:91-105`). -/
theorem duplicate_config_rejected (a b : Access) :
    hirConfig [.defaultRegisterAccess a, .defaultRegisterAccess b] = .error (frontErr "front_dup_config") := by
  rfl

/-- `start..=4294967295`: the inclusive end is incremented in `u32` (`mir_transform.rs:540`); with overflow checks
    (every debug build of a user's proc macro) that is a panic, not a rejection. -/
theorem inclusive_end_overflow_panics : hirInclEnd 4294967295 = .error (.panic "add_overflow") := by rfl


/-- **Whatever tree the grammar hands it, the DSL lowering reports every problem as an error** (a `syn::Error`, i.e. a
    compile error in the user's build) and never panics - with the one exception the model made visible, the `u32`
    overflow of an inclusive range that ends at 4294967295 (`inclusive_end_overflow_panics`). For all trees, not only
    rendered ones. -/
theorem dsl_lowering_reports_errors (d : HDevice) (s : Stop) (h : hirTransform d = .error s) :
    (∃ k, s = frontErr k) ∨ s = .panic "add_overflow" :=
  HirNoPanic.hirTransform_benign d s h

/-- Two different front-end defects in one register (an address outside `i64` *and* a non-bool field with a
    single-bit address): the Rust reads the address first, and so do both routes of the model. -/
theorem two_defects_same_rejection (g : GlobalConfig) :
    let o : AObj := .register { name := "R" } none none none (2 ^ 64) 8 none none none none
      [{ name := "f", base := .uint, start := 0, stop := none }]
    hirObj g (Dsl.rObj o) = .error (frontErr "front_bad_value") ∧ dslObj g o = .error (frontErr "front_bad_value") := by
  constructor
  · rw [obj_render g _ (by simp [TreeOk, ObjOk, HirLemmas.ResetOk, HirLemmas.FieldOk, HirLemmas.ConvOk])]
    rfl
  · rfl


/-! ### The order of the items in a body does not matter

The grammar refuses a second item of a kind, so each selector of the lowering (`find_map`) sees at most one match; under
that condition the lowering of a body is invariant under any reordering of its items (the renderer's `item_order` knob
exercises two orders; this is every order). -/

theorem register_items_order_irrelevant (g : GlobalConfig) (attrs : List HAttr) (name : String)
    {items items' : List HRegItem} (fields : List HField) (hp : items.Perm items') (hu : HirPerm.RegUnique items) :
    hirRegister g attrs name items fields = hirRegister g attrs name items' fields :=
  HirPerm.hirRegister_perm g attrs name fields hp hu

theorem register_override_items_order_irrelevant (attrs : List HAttr) (name : String)
    {items items' : List HRegItem} (fields : List HField) (hp : items.Perm items') (hu : HirPerm.RegUnique items) :
    hirRegisterOverride attrs name items fields = hirRegisterOverride attrs name items' fields :=
  HirPerm.hirRegisterOverride_perm attrs name fields hp hu

theorem command_items_order_irrelevant (g : GlobalConfig) (attrs : List HAttr) (name : String)
    {items items' : List HCmdItem} (fin fout : Option (List HField)) (hp : items.Perm items')
    (hu : HirPerm.CmdUnique items) :
    hirCommand g attrs name (some (.extended items fin fout)) = hirCommand g attrs name (some (.extended items' fin fout)) :=
  HirPerm.hirCommand_perm g attrs name fin fout hp hu

theorem block_items_order_irrelevant {items items' : List HBlockItem} (hp : items.Perm items')
    (hu : HirPerm.BlockUnique items) :
    hirBlockOffset items = hirBlockOffset items' ∧ hirBlockRepeat items = hirBlockRepeat items' :=
  HirPerm.hirBlockItems_perm hp hu


/-- **Written in any order, the items of a register body lower to what `lowerDsl` says**: the rendered body carries
    each kind of item at most once (`regItems_unique`), so every permutation of it is lowered like the rendered one. -/
theorem register_any_item_order (g : GlobalConfig) (c : ACommon) (access : Option Access)
    (bo : Option DDV.Bits.ByteOrder) (bito : Option DDV.Bits.BitOrder) (address : Int) (size : Nat)
    (reset : Option ResetValue) (rep : Option Repeat) (abo aao : Option Bool) (fields : List AField)
    (items' : List HRegItem) (hp : (Dsl.rRegItems access bo bito address size reset rep abo aao).Perm items')
    (hres : HirLemmas.ResetOk reset) (hf : ∀ f ∈ fields, HirLemmas.FieldOk f) :
    hirObj g (.register (Dsl.rAttrs c.cfg c.description) c.name items' (fields.map Dsl.rField)) =
      dslObj g (.register c access bo bito address size reset rep abo aao fields) := by
  rw [← register_render g c access bo bito address size reset rep abo aao fields hres hf]
  unfold Dsl.rObj hirObj
  rw [HirPerm.hirRegister_perm g _ _ _ hp (regItems_unique ..)]


/-- … and so do the items of a command body (the extended form). -/
theorem command_any_item_order (g : GlobalConfig) (c : ACommon) (address : Int) (bo : Option DDV.Bits.ByteOrder)
    (bito : Option DDV.Bits.BitOrder) (si so : Option Nat) (rep : Option Repeat) (abo aao : Option Bool)
    (fin fout : Option (List AField)) (items' : List HCmdItem)
    (hp : (Dsl.rCmdItems address bo bito si so rep abo aao).Perm items')
    (hi : ∀ f ∈ fin.getD [], HirLemmas.FieldOk f) (ho : ∀ f ∈ fout.getD [], HirLemmas.FieldOk f) :
    hirObj g (.command (Dsl.rAttrs c.cfg c.description) c.name (some (.extended items'
      (fin.map (·.map Dsl.rField)) (fout.map (·.map Dsl.rField))))) =
      dslObj g (.command c false address bo bito si so rep abo aao fin fout) := by
  rw [← command_render g c false address bo bito si so rep abo aao fin fout hi ho]
  unfold Dsl.rObj hirObj
  rw [HirPerm.hirCommand_perm g _ _ _ _ hp (cmdItems_unique ..)]

/-- Non-vacuity: a three-item register body meets `RegUnique`. -/
example : HirPerm.RegUnique [HRegItem.address ⟨false, 3⟩, .sizeBits ⟨false, 8⟩, .access .ro] := by
  constructor <;> simp [HirPerm.Unique, HRegItem.access?, HRegItem.byteOrder?, HRegItem.bitOrder?, HRegItem.address?,
    HRegItem.sizeBits?, hirResetOf, HRegItem.repeat?, HRegItem.allowBitOverlap?, HRegItem.allowAddressOverlap?]

/-- Without the grammar's guarantee the order does matter (`find_map` takes the first match): two `Address` items. -/
theorem duplicate_items_order_matters :
    (hirRegister {} [] "R" [.address ⟨false, 1⟩, .address ⟨false, 2⟩, .sizeBits ⟨false, 8⟩] []).toOption.map (·.address) = some 1 ∧
    (hirRegister {} [] "R" [.address ⟨false, 2⟩, .address ⟨false, 1⟩, .sizeBits ⟨false, 8⟩] []).toOption.map (·.address) = some 2 := by
  constructor <;> rfl

/-- Non-vacuity: a definition with a block, a register with an enum field and a reset value, a command, a buffer
    and a ref meets `TreesOk`, and its tree lowers successfully. -/
def sample : ADef :=
  { config := { defaultByteOrder := some .le, registerAddressType := some .u8 },
    objects := [
      .block { name := "B", cfg := some "feature = \"x\"" } (some 16) (some { count := 2, stride := 4 }) [
        .register { name := "R", description := some "doc" } (some .ro) none none 3 8 (some (.int 5)) none none none
          [{ name := "f", base := .uint, start := 0, stop := some 2,
             conv := some (.enum { name := "E", variants := [{ name := "A", value := .unspecified },
                                                            { name := "B", value := .default }] } false) },
           { name := "g", base := .bool, start := 7, stop := none }]],
      .command { name := "C" } true 5 none none none none none none none none none,
      .buffer { name := "F" } none 9,
      .ref { name := "X" } "R" { kind := "register", address := some 40, reset := some (.array [1]) }] }

example : TreesOk sample.objects := by
  simp [sample, TreesOk, TreeOk, ObjOk, HirLemmas.ResetOk, HirLemmas.FieldOk, HirLemmas.ConvOk, HirLemmas.VariantOk, fitsI128]

example : (hirTransform (Dsl.renderHir sample)).toBool = true := by rfl

end DDV.Props.C16Hir
