/-
  C17 — Access specifiers decide exactly which operations exist.

  `DDV.Extracted.Tables` is regenerated from /repo's source on every run: the marker types, the
  `impl ReadCapability / WriteCapability for …` lines, and for every public operation of
  `RegisterOperation` / `BufferOperation` (and every embedded-io trait impl) the capability bounds
  of its `impl … where Access: …` block.
-/
import DDV.Extracted.Tables
import DDV.Gen.Emit
import DDV.Gen.Lemmas.Refs
import DDV.Gen.Lemmas.LowerRefs

namespace DDV.Props.C17
open DDV.Extracted DDV.Gen

/-- Whether the method resolves for an accessor typed with `marker` (trait-bound satisfaction). -/
def available (marker : String) (op : String × Bool × Bool) : Bool :=
  (!op.2.1 || readMarkers.contains marker) && (!op.2.2 || writeMarkers.contains marker)

/-- What an access value means (the property): RW includes both, RO reading, WO writing. -/
def includesRead (marker : String) : Bool := marker == "RW" || marker == "RO"
def includesWrite (marker : String) : Bool := marker == "RW" || marker == "WO"

/-- What each operation is, from the property text: read operations, write operations, modify. -/
def isReadOp (name : String) : Bool :=
  ["RegisterOperation::read", "RegisterOperation::read_async", "BufferOperation::read", "BufferOperation::read_exact",
   "BufferOperation::read_async", "BufferOperation::read_exact_async", "embedded_io::Read::read",
   "embedded_io_async::Read::read"].contains name
def isWriteOp (name : String) : Bool :=
  ["RegisterOperation::write", "RegisterOperation::write_with_zero", "RegisterOperation::write_async",
   "RegisterOperation::write_with_zero_async", "BufferOperation::write", "BufferOperation::write_all",
   "BufferOperation::flush", "BufferOperation::write_async", "BufferOperation::write_all_async",
   "BufferOperation::flush_async", "embedded_io::Write::write", "embedded_io::Write::flush",
   "embedded_io_async::Write::write", "embedded_io_async::Write::flush"].contains name
def isModifyOp (name : String) : Bool :=
  ["RegisterOperation::modify", "RegisterOperation::modify_async"].contains name

/-- Every operation found in the source is classified (a new public operation breaks this). -/
theorem every_operation_classified :
    ∀ op ∈ opBounds, (isReadOp op.1 || isWriteOp op.1 || isModifyOp op.1) = true := by decide

/-- … and every operation the property lists exists in the source. -/
theorem every_listed_operation_exists :
    ∀ n ∈ ["RegisterOperation::read", "RegisterOperation::write", "RegisterOperation::write_with_zero",
           "RegisterOperation::modify", "RegisterOperation::read_async", "RegisterOperation::write_async",
           "RegisterOperation::write_with_zero_async", "RegisterOperation::modify_async",
           "BufferOperation::read", "BufferOperation::write", "BufferOperation::flush",
           "BufferOperation::read_exact", "BufferOperation::write_all", "embedded_io::Read::read",
           "embedded_io::Write::write", "embedded_io::Write::flush", "embedded_io_async::Read::read",
           "embedded_io_async::Write::write", "embedded_io_async::Write::flush"],
      (opBounds.map (·.1)).contains n = true := by decide

/-- **C17, runtime crate.** For every marker type and every operation: read operations are
    available iff the access includes reading, write operations iff it includes writing, modify iff
    both; `RC` and `CO` offer nothing. -/
theorem operation_available_iff :
    ∀ marker ∈ markers, ∀ op ∈ opBounds,
      available marker op =
        ((!isReadOp op.1 || includesRead marker) && (!isWriteOp op.1 || includesWrite marker) &&
         (!isModifyOp op.1 || (includesRead marker && includesWrite marker))) := by decide

theorem rc_co_offer_nothing : ∀ op ∈ opBounds, available "RC" op = false ∧ available "CO" op = false := by
  decide

theorem markers_are_the_five : markers = ["WO", "RO", "RW", "RC", "CO"] := by decide

/-- **Field getters / setters** (generator): a field has a getter iff it is readable and a setter
    iff it is writable — `get_read_function` / `get_write_function` emit nothing otherwise. -/
theorem field_getter_setter_iff (bo : DDV.Bits.ByteOrder) (bito : DDV.Bits.BitOrder) (f : LField) :
    (getterJson bo bito f = Lean.Json.null ↔ f.access.readable = false) ∧
    (setterJson bo bito f = Lean.Json.null ↔ f.access.writable = false) := by
  unfold getterJson setterJson
  constructor
  · cases h : f.access.readable
    · simp
    · simp only [Bool.not_true, Bool.false_eq_true, if_false, reduceCtorEq, iff_false]
      intro hh
      simp [Lean.Json.mkObj] at hh
  · cases h : f.access.writable
    · simp
    · simp only [Bool.not_true, Bool.false_eq_true, if_false, reduceCtorEq, iff_false]
      intro hh
      simp [Lean.Json.mkObj] at hh

/-- **Effective access** (front ends): own setting, else the global default, else read-write. -/
theorem effective_register_access (g : GlobalConfig) (c : ACommon) (access : Option Access)
    (bo : Option DDV.Bits.ByteOrder) (bito : Option DDV.Bits.BitOrder) (address : Int) (size : Nat) (o : Object)
    (syn : Syntax)
    (h : (match syn with | .dsl => dslObj g | s => manObj s g)
          (.register c access bo bito address size none none none none []) = .ok o) :
    ∃ r, o = .register r ∧ r.access = access.getD g.defaultRegisterAccess := by
  cases syn <;> simp only at h <;>
  · first | unfold dslObj at h | unfold manObj at h
    simp only [bind, Except.bind, pure, Except.pure, List.mapM_nil, manReset, dslReset, checkRepeat] at h
    cases ha : checkAddr address with
    | error e => rw [ha] at h; cases h
    | ok a =>
      rw [ha] at h
      simp only at h
      cases hs : checkU32 size with
      | error e => rw [hs] at h; cases h
      | ok sz =>
        rw [hs] at h
        simp only [Except.ok.injEq] at h
        exact ⟨_, h.symm, rfl⟩

theorem default_config_is_read_write : (lowerConfig {}).defaultRegisterAccess = .rw ∧
    (lowerConfig {}).defaultFieldAccess = .rw ∧ (lowerConfig {}).defaultBufferAccess = .rw := by decide

/-- **Effective access of a ref**: the ref override's access if it has one, else the target's own
    (which the front ends have already defaulted from the global config). -/
theorem register_ref_access (n : Names) (cfg : GlobalConfig) (all : List Object) (rf : RefObject)
    (ov : RegisterOverride) (r : Register) (t : Integer) (fuel : Nat)
    (hov : rf.override = .register ov) (ht : searchObject ov.name all = some (.register r))
    (hc : cfg.registerAddressType = some t) :
    ∃ m, getMethod n cfg all "new" (fuel + 2) (.ref rf) = .ok (m, []) ∧
      m.access = some (ov.access.getD r.access) := by
  obtain ⟨m, h, _, _, _, _, _, _, h7, _⟩ := register_ref_method n cfg all rf ov r t fuel hov ht hc
  exact ⟨m, h, h7⟩

/-- **The accessor of every register and buffer carries the effective access** — at any depth and
    for refs too: whatever the lowering emits for an object that stands for a register `r'` (itself,
    or for a ref its target with `access := override.access.getD target.access`) is typed with
    `r'.access`; the MIR's `access` of a declared object is its own setting, else the global
    default (`effective_register_access`). -/
theorem accessor_access_is_the_effective_access (n : Names) (cfg : GlobalConfig) (all : List Object)
    (fuel : Nat) (o : Object) (m : Method) (bs : List LBlock)
    (h : getMethod n cfg all "new" fuel o = .ok (m, bs)) :
    (∀ r', resolve n all o = some (.register r') → m.access = some r'.access) ∧
    (∀ b', resolve n all o = some (.buffer b') → m.access = some b'.access) := by
  obtain ⟨e, _, _⟩ := (lowering_structure_refs n cfg all fuel).1 "new" o m bs h
  constructor
  · intro r' hr
    obtain ⟨rfn', he⟩ := methodOfR_resolve n cfg all o _ hr
    rw [e, he]
    rfl
  · intro b' hr
    obtain ⟨rfn', he⟩ := methodOfR_resolve n cfg all o _ hr
    rw [e, he]
    rfl

end DDV.Props.C17
