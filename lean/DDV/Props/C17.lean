import DDV.Gen.Lemmas.Tree
namespace DDV.Props.C17
theorem placeholder : True := trivial
end DDV.Props.C17
