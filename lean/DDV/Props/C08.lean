import DDV.Gen.Lemmas.Tree
namespace DDV.Props.C08
theorem placeholder : True := trivial
end DDV.Props.C08
