/-
  C08 — Reset values reach the wire exactly as declared.
-/
import DDV.Gen.Lower
import DDV.Gen.Lemmas.Refs

namespace DDV.Props.C08
open DDV.Gen
open DDV.Bits (ByteOrder BitOrder)
set_option linter.unusedVariables false
set_option linter.unusedSimpArgs false

/-- Set-bit `k` of a byte array in the documented numbering (C01): the byte is counted from the
    front under LE and from the back under BE, the bit inside it from the least-significant end
    under LSB0 and from the most-significant end under MSB0. -/
def specBit (bo : ByteOrder) (bito : BitOrder) (a : List Nat) (k : Nat) : Bool :=
  (a.getD (match bo with | .le => k / 8 | .be => a.length - 1 - k / 8) 0).testBit
    (match bito with | .lsb0 => k % 8 | .msb0 => 7 - k % 8)

def bytesOf (size : Nat) : Nat := (size + 7) / 8

theorem anyBitFrom_false_iff (bit : Nat → Bool) (lo hi : Nat) :
    anyBitFrom bit lo hi = false ↔ ∀ k, lo ≤ k → k < hi → bit k = false := by
  unfold anyBitFrom
  rw [List.any_eq_false]
  simp only [List.mem_range, Bool.not_eq_true]
  constructor
  · intro h k h1 h2
    have := h (k - lo) (by omega)
    rwa [show lo + (k - lo) = k by omega] at this
  · intro h i hi'
    exact h (lo + i) (by omega) (by omega)

theorem getD_reverse (a : List Nat) (i : Nat) (h : i < a.length) :
    a.reverse.getD i 0 = a.getD (a.length - 1 - i) 0 := by
  simp only [List.getD_eq_getElem?_getD]
  rw [List.getElem?_reverse h]

/-- The array-form check of the pass, for both bit orders. -/
def arrayBad (bo : ByteOrder) (bito : BitOrder) (a : List Nat) (size : Nat) : Bool :=
  let le := if bo == .be then a.reverse else a
  match bito with
  | .lsb0 => anyBitFrom (lsb0Bit le) size (8 * le.length)
  | .msb0 => anyBitFrom (msb0Bit le) size (8 * le.length)

theorem arrayBad_false_iff (bo : ByteOrder) (bito : BitOrder) (a : List Nat) (size : Nat) :
    arrayBad bo bito a size = false ↔
      ∀ k, size ≤ k → k < 8 * a.length → specBit bo bito a k = false := by
  unfold arrayBad
  have hlen : (if (bo == ByteOrder.be) = true then a.reverse else a).length = a.length := by
    split <;> simp
  have hbits : ∀ k, k < 8 * a.length →
      (lsb0Bit (if (bo == ByteOrder.be) = true then a.reverse else a) k = specBit bo .lsb0 a k) ∧
      (msb0Bit (if (bo == ByteOrder.be) = true then a.reverse else a) k = specBit bo .msb0 a k) := by
    intro k hk
    unfold specBit lsb0Bit msb0Bit
    cases bo
    · have : (ByteOrder.le == ByteOrder.be) = false := by decide
      simp only [this, Bool.false_eq_true, if_false]
      refine ⟨?_, ?_⟩ <;> first | rfl | trivial
    · simp only [beq_self_eq_true, if_true]
      rw [getD_reverse a (k / 8) (by omega)]
      refine ⟨?_, ?_⟩ <;> first | rfl | trivial
  simp only [hlen]
  cases bito with
  | lsb0 =>
    simp only
    rw [anyBitFrom_false_iff]
    constructor
    · intro h k h1 h2; rw [← (hbits k h2).1]; exact h k h1 h2
    · intro h k h1 h2; rw [(hbits k h2).1]; exact h k h1 h2
  | msb0 =>
    simp only
    rw [anyBitFrom_false_iff]
    constructor
    · intro h k h1 h2; rw [← (hbits k h2).2]; exact h k h1 h2
    · intro h k h1 h2; rw [(hbits k h2).2]; exact h k h1 h2

theorem convert_array_eq (a : List Nat) (bito : BitOrder) (size : Nat) (name : String) (bo : ByteOrder) :
    convertResetValue (.array a) bito size name bo =
      if a.length ≠ bytesOf size then .error (passErr "reset_wrong_length" [name] [bytesOf size, a.length])
      else if arrayBad bo bito a size then .error (passErr "reset_bits_above_size" [name] [size])
      else .ok (.array a) := by
  unfold convertResetValue arrayBad bytesOf
  simp only [bind, Except.bind, pure, Except.pure, throw, throwThe, MonadExceptOf.throw]
  by_cases hl : a.length = (size + 7) / 8
  · simp only [hl, ne_eq, not_true_eq_false, if_false]
    cases bito <;> simp only <;> split <;> rfl
  · simp only [ne_eq, hl, not_false_eq_true, if_true]

/-- **Array form.** Accepted exactly when it has ⌈size/8⌉ bytes and no set-bit at or above
    `size` (documented numbering of the register's orders); the bytes are kept verbatim; every
    other outcome is a reported error naming the register. -/
theorem array_form (a : List Nat) (bito : BitOrder) (size : Nat) (name : String) (bo : ByteOrder) :
    (convertResetValue (.array a) bito size name bo = .ok (.array a) ↔
      a.length = bytesOf size ∧ ∀ k, size ≤ k → k < 8 * a.length → specBit bo bito a k = false) ∧
    (∀ r, convertResetValue (.array a) bito size name bo = .ok r → r = .array a) ∧
    (∀ s, convertResetValue (.array a) bito size name bo = .error s →
      ∃ e, s = .error e ∧ e.names = [name]) := by
  rw [convert_array_eq]
  by_cases hl : a.length = bytesOf size
  · simp only [hl, ne_eq, not_true_eq_false, if_false, true_and]
    cases hb : arrayBad bo bito a size with
    | true =>
      simp only [if_true, reduceCtorEq, false_iff]
      refine ⟨?_, (fun r h => by cases h), fun s h => ⟨_, (Except.error.inj h).symm, rfl⟩⟩
      intro hall
      have := (arrayBad_false_iff bo bito a size).2 (by rw [hl]; exact hall)
      rw [hb] at this; cases this
    | false =>
      simp only [Bool.false_eq_true, if_false, true_iff]
      refine ⟨?_, (fun r h => (Except.ok.inj h).symm), (fun s h => by cases h)⟩
      have := (arrayBad_false_iff bo bito a size).1 hb
      rw [hl] at this; exact this
  · simp only [ne_eq, hl, not_false_eq_true, if_true, reduceCtorEq, false_and, iff_false, not_false_eq_true,
      true_and]
    exact ⟨(fun r h => by cases h), fun s h => ⟨_, (Except.error.inj h).symm, rfl⟩⟩

/-! ### Integer form -/

theorem reverseBits8_testBit : ∀ b, b < 256 → ∀ t, t < 8 →
    (reverseBits8 b).testBit t = b.testBit (7 - t) := by decide +kernel

theorem reverseBits8_involutive : ∀ b, b < 256 → reverseBits8 (reverseBits8 b) = b := by decide +kernel

theorem reverseBits8_lt : ∀ b, b < 256 → reverseBits8 b < 256 := by decide +kernel

theorem toLeBytes16_getD (n j : Nat) (hj : j < 16) :
    (toLeBytes16 n).getD j 0 = (n / 2 ^ (8 * j)) % 256 := by
  unfold toLeBytes16
  simp [List.getD_eq_getElem?_getD, hj]

theorem toLeBytes16_lt (n : Nat) : ∀ b ∈ toLeBytes16 n, b < 256 := by
  unfold toLeBytes16
  intro b hb
  obtain ⟨i, _, rfl⟩ := List.mem_map.1 hb
  exact Nat.mod_lt _ (by decide)

theorem byte_testBit (n j t : Nat) (ht : t < 8) :
    ((n / 2 ^ (8 * j)) % 256).testBit t = n.testBit (8 * j + t) := by
  have : (256 : Nat) = 2 ^ 8 := by decide
  rw [this, Nat.testBit_mod_two_pow, Nat.testBit_div_two_pow]
  simp [ht, Nat.add_comm]

/-- Bit `k` of the integer as the pass sees it: for MSB0 registers the bits of every byte are
    numbered from its most-significant end. -/
def intBit (bito : BitOrder) (n k : Nat) : Bool :=
  n.testBit (match bito with | .lsb0 => k | .msb0 => 8 * (k / 8) + (7 - k % 8))

theorem lsb0Bit_int (bito : BitOrder) (n k : Nat) (hk : k < 128) :
    lsb0Bit (if (bito == BitOrder.msb0) = true then (toLeBytes16 n).map reverseBits8 else toLeBytes16 n) k =
      intBit bito n k := by
  unfold lsb0Bit intBit
  have hj : k / 8 < 16 := by omega
  have ht : k % 8 < 8 := Nat.mod_lt _ (by decide)
  cases bito
  · have : (BitOrder.lsb0 == BitOrder.msb0) = false := by decide
    simp only [this, Bool.false_eq_true, if_false]
    rw [toLeBytes16_getD n _ hj, byte_testBit n _ _ ht]
    congr 1; omega
  · simp only [beq_self_eq_true, if_true]
    have hlen : (toLeBytes16 n).length = 16 := by simp [toLeBytes16]
    have : ((toLeBytes16 n).map reverseBits8).getD (k / 8) 0 = reverseBits8 ((toLeBytes16 n).getD (k / 8) 0) := by
      simp only [List.getD_eq_getElem?_getD, List.getElem?_map]
      have : k / 8 < (toLeBytes16 n).length := by omega
      simp [List.getElem?_eq_getElem this]
    rw [this, toLeBytes16_getD n _ hj]
    rw [reverseBits8_testBit _ (Nat.mod_lt _ (by decide)) _ ht, byte_testBit n _ _ (by omega)]

theorem anyBitFrom_congr (f g : Nat → Bool) (lo hi : Nat) (h : ∀ k, lo ≤ k → k < hi → f k = g k) :
    anyBitFrom f lo hi = anyBitFrom g lo hi := by
  cases hg : anyBitFrom g lo hi with
  | false =>
    rw [anyBitFrom_false_iff] at hg ⊢
    intro k h1 h2; rw [h k h1 h2]; exact hg k h1 h2
  | true =>
    cases hf : anyBitFrom f lo hi with
    | true => rfl
    | false =>
      rw [anyBitFrom_false_iff] at hf
      have : anyBitFrom g lo hi = false := by
        rw [anyBitFrom_false_iff]
        intro k h1 h2; rw [← h k h1 h2]; exact hf k h1 h2
      rw [hg] at this; cases this

/-- What the property requires of an accepted integer reset value: the integer's little-endian
    bytes cut to the register's byte length, reversed for big-endian registers. -/
def expectedIntBytes (n size : Nat) (bo : ByteOrder) : List Nat :=
  let le := (toLeBytes16 n).take (bytesOf size)
  if bo == .be then le.reverse else le

/-- **Integer form** (registers of at most 128 bits). Accepted exactly when no bit at or above
    `size` is set (numbered per byte from the end the register's bit order prescribes); the result
    is `expectedIntBytes`. -/
theorem int_form (n : Nat) (bito : BitOrder) (size : Nat) (name : String) (bo : ByteOrder) (hs : size ≤ 128) :
    convertResetValue (.int n) bito size name bo =
      if anyBitFrom (intBit bito n) size 128 then .error (passErr "reset_bits_above_size" [name] [size])
      else .ok (.array (expectedIntBytes n size bo)) := by
  unfold convertResetValue expectedIntBytes bytesOf
  simp only [bind, Except.bind, pure, Except.pure, throw, throwThe, MonadExceptOf.throw]
  have h1 : ¬ size > 128 := by omega
  simp only [h1, if_false]
  have hany : anyBitFrom (lsb0Bit (if (bito == BitOrder.msb0) = true then (toLeBytes16 n).map reverseBits8
      else toLeBytes16 n)) size 128 = anyBitFrom (intBit bito n) size 128 := by
    apply anyBitFrom_congr
    intro k _ hk
    exact lsb0Bit_int bito n k hk
  rw [hany]
  cases hb : anyBitFrom (intBit bito n) size 128 with
  | true => simp
  | false =>
    simp only [Bool.false_eq_true, if_false]
    congr 2
    have hfin : (if (bito == BitOrder.msb0) = true then
        ((if (bito == BitOrder.msb0) = true then (toLeBytes16 n).map reverseBits8 else toLeBytes16 n).take
          ((size + 7) / 8)).map reverseBits8
      else (if (bito == BitOrder.msb0) = true then (toLeBytes16 n).map reverseBits8 else toLeBytes16 n).take
          ((size + 7) / 8)) = (toLeBytes16 n).take ((size + 7) / 8) := by
      cases bito
      · have : (BitOrder.lsb0 == BitOrder.msb0) = false := by decide
        simp only [this, Bool.false_eq_true, if_false]
      · simp only [beq_self_eq_true, if_true]
        rw [← List.map_take, List.map_map]
        have : ∀ b ∈ (toLeBytes16 n).take ((size + 7) / 8), (reverseBits8 ∘ reverseBits8) b = b := by
          intro b hb
          exact reverseBits8_involutive b (toLeBytes16_lt n b (List.mem_of_mem_take hb))
        conv => rhs; rw [← List.map_id ((toLeBytes16 n).take ((size + 7) / 8))]
        exact List.map_congr_left this
    rw [hfin]

/-- **No reset value declared**: all zero bytes of the register's byte length. -/
theorem no_reset_is_zero (enums : List Enum) (fields : List Field) (name : String) (cfg : Cfg)
    (bo : ByteOrder) (bito : BitOrder) (size : Nat) (fs : LFieldSet)
    (h : transformFieldSet enums fields name cfg bo bito size none [] = .ok fs) :
    fs.reset = List.replicate (bytesOf size) 0 := by
  unfold transformFieldSet at h
  simp only [bind, Except.bind, pure, Except.pure] at h
  cases hm : fields.mapM (transformField enums) with
  | error e => rw [hm] at h; cases h
  | ok x =>
    rw [hm] at h
    simp only [Except.ok.injEq] at h
    rw [← h]; rfl

/-- Non-vacuity / worked examples: a 12-bit BE register with reset 0x0ABC; MSB0 range detection. -/
example : convertResetValue (.int 0xABC) .lsb0 12 "R" .be = .ok (.array [0x0A, 0xBC]) := by
  rw [int_form _ _ _ _ _ (by decide)]
  have : anyBitFrom (intBit .lsb0 0xABC) 12 128 = false := by decide
  rw [this]; rfl
example : ∃ e, convertResetValue (.int 0x0F) .msb0 4 "R" .le = .error (.error e) := by
  rw [int_form _ _ _ _ _ (by decide)]
  have : anyBitFrom (intBit .msb0 0x0F) 4 128 = true := by decide
  rw [this]; exact ⟨_, rfl⟩

/-- **A ref that overrides the reset value gets its own constructor** (`new_as_<ref>`, whatever the
    overriding value is — also when it equals the target's), and a ref that does not uses `new`. -/
theorem ref_constructor (n : Names) (cfg : GlobalConfig) (all : List Object) (rf : RefObject)
    (ov : RegisterOverride) (r : Register) (t : Integer) (fuel : Nat)
    (hov : rf.override = .register ov) (ht : searchObject ov.name all = some (.register r))
    (hc : cfg.registerAddressType = some t) :
    ∃ m, getMethod n cfg all "new" (fuel + 2) (.ref rf) = .ok (m, []) ∧
      m.resetFn = some (if ov.reset.isSome then s!"new_as_{n.method rf.name}" else "new") := by
  obtain ⟨m, h, _, _, _, _, _, _, _, _, _, h10⟩ := register_ref_method n cfg all rf ov r t fuel hov ht hc
  exact ⟨m, h, h10⟩

end DDV.Props.C08
