/-
  C16 (key level) — the manifest front end read key by key.

  `DDV.Gen.ManTree` models `dd-manifest-tree/src/lib.rs` and `generation/src/manifest/mod.rs` function by
  function on the value tree the concrete parser produced; the correspondence run feeds it the very tree
  serde_json / yaml-rust2 / toml built from the text the real generator was given. The theorems here tie
  that model to the abstract lowering `lowerManifest` which `DDV.Props.C16.front_ends_agree` relates to the
  DSL lowering, and state that no key of an accepted map is silently ignored.
-/
import DDV.Gen.Lemmas.ManTree
import DDV.Props.C16

namespace DDV.Props.C16Tree
open DDV.Gen
open DDV.Bits (ByteOrder BitOrder)
set_option linter.unusedSimpArgs false
set_option linter.unusedVariables false

mutual
/-- The fragment the tree-level theorem covers: every object kind at any nesting - blocks, registers,
    commands, buffers, refs (with an override of a known kind and no layout keys) - whose numbers every
    syntax can carry. -/
def ObjIn (syn : Syntax) : AObj → Prop
  | .block _ off rep os => (∀ x, off = some x → fitsI64 x = true) ∧ (∀ x, rep = some x → RepeatOk syn x) ∧ ObjsIn syn os
  | .register _ _ _ _ address size reset rep _ _ fields =>
    fitsI64 address = true ∧ size < 2 ^ 32 ∧ (∀ x, reset = some x → ResetOk syn x) ∧ (∀ x, rep = some x → RepeatOk syn x) ∧
    ∀ f ∈ fields, FieldOk f
  | .buffer _ _ address => fitsI64 address = true
  | .command _ _ address _ _ si so rep _ _ fin fout =>
    fitsI64 address = true ∧ (∀ x, si = some x → x < 2 ^ 32) ∧ (∀ x, so = some x → x < 2 ^ 32) ∧
    (∀ x, rep = some x → RepeatOk syn x) ∧ (∀ f ∈ fin.getD [], FieldOk f) ∧ (∀ f ∈ fout.getD [], FieldOk f)
  | .ref _ _ ov =>
    ov.illegal = [] ∧ (ov.kind = "block" ∨ ov.kind = "register" ∨ ov.kind = "command" ∨ ov.kind = "buffer" ∨ ov.kind = "ref") ∧
    (∀ x, ov.address = some x → fitsI64 x = true) ∧ (∀ x, ov.repeat_ = some x → RepeatOk syn x) ∧
    (ov.kind = "register" → ∀ x, ov.reset = some x → ResetOk syn x)
def ObjsIn (syn : Syntax) : List AObj → Prop
  | [] => True
  | o :: os => ObjIn syn o ∧ ObjsIn syn os
end

theorem mget_type (ty : String) (c : ACommon) (rest : MKvs) : mget (rCommon ty c ++ rest) "type" = some (.str ty) := by
  simp [rCommon, mget, List.find?_cons]

/-- the block under construction after the first `n` keys -/
def blkState (c : ACommon) (off : Option Int) (rep : Option Repeat) (os : List Object) (n : Nat) : BlockHead × List Object :=
  ({ cfg := if n ≥ 1 then c.cfg else none, description := if n ≥ 2 then c.description.getD "" else "", name := c.name,
     addressOffset := if n ≥ 3 then off.getD 0 else 0, repeat_ := if n ≥ 4 then rep else none },
   if n ≥ 5 then os else [])

theorem manBlockKeys_cons (syn : Syntax) (g : GlobalConfig) (k : String) (v : MVal) (rest : MKvs) (s s' : BlockHead × List Object)
    (h : manBlockStep syn g s.1 s.2 k v = pure s') :
    manBlockKeys syn g ((k, v) :: rest) s = manBlockKeys syn g rest s' := by
  rw [manBlockKeys]
  simp only [h, bind, Except.bind, pure, Except.pure]

theorem manBlockKeys_rOpt {α : Type} (syn : Syntax) (g : GlobalConfig) (k : String) (o : Option α) (f : α → MVal)
    (rest : MKvs) (s s' : BlockHead × List Object)
    (h : ∀ a, o = some a → manBlockStep syn g s.1 s.2 k (f a) = pure s') (h0 : o = none → s = s') :
    manBlockKeys syn g (rOpt k o f ++ rest) s = manBlockKeys syn g rest s' := by
  cases o with
  | none => simp [rOpt, h0 rfl]
  | some a => simp only [rOpt, List.cons_append, List.nil_append]; exact manBlockKeys_cons syn g k (f a) rest s s' (h a rfl)

theorem manBlockStep_scalar (syn : Syntax) (g : GlobalConfig) (h : BlockHead) (os : List Object) (k : String) (v : MVal)
    (hk : k ≠ "objects") : manBlockStep syn g h os k v = manBlockScalar syn h os k v := by
  cases v <;> simp [manBlockStep, hk]

/-- the command under construction after the first `n` keys -/
def cmdState (g : GlobalConfig) (c : ACommon) (address : Int) (bo : Option DDV.Bits.ByteOrder) (bito : Option DDV.Bits.BitOrder)
    (si so : Option Nat) (rep : Option Repeat) (abo aao : Option Bool) (fi fo : List Field) (n : Nat) : Command :=
  { cfg := if n ≥ 1 then c.cfg else none,
    description := if n ≥ 2 then c.description.getD "" else "",
    name := c.name,
    byteOrder := if n ≥ 3 then bo else none,
    bitOrder := if n ≥ 4 then bito.getD g.defaultBitOrder else g.defaultBitOrder,
    address := if n ≥ 5 then address else 0,
    sizeBitsIn := if n ≥ 6 then si.getD 0 else 0,
    sizeBitsOut := if n ≥ 7 then so.getD 0 else 0,
    repeat_ := if n ≥ 8 then rep else none,
    allowBitOverlap := if n ≥ 9 then abo.getD false else false,
    allowAddressOverlap := if n ≥ 10 then aao.getD false else false,
    inFields := if n ≥ 11 then fi else [],
    outFields := if n ≥ 12 then fo else [] }

/-- **A rendered command is read back as the abstract lowering says** (numbers within range). -/
theorem manCommand_render (syn : Syntax) (g : GlobalConfig) (c : ACommon) (address : Int)
    (bo : Option DDV.Bits.ByteOrder) (bito : Option DDV.Bits.BitOrder) (si so : Option Nat) (rep : Option Repeat)
    (abo aao : Option Bool) (fin fout : Option (List AField)) (fi fo : List Field)
    (ha : fitsI64 address = true) (hsi : ∀ x, si = some x → x < 2 ^ 32) (hso : ∀ x, so = some x → x < 2 ^ 32)
    (hp : ∀ x, rep = some x → RepeatOk syn x)
    (hfi : (fin.getD []).mapM (manField g) = pure fi) (hfo : (fout.getD []).mapM (manField g) = pure fo)
    (hfin : ∀ l, fin = some l → manFieldsV syn g (rFields syn l) = pure fi)
    (hfout : ∀ l, fout = some l → manFieldsV syn g (rFields syn l) = pure fo) :
    manCommand syn g c.name (commandKvs syn c address bo bito si so rep abo aao fin fout) =
      pure (cmdState g c address bo bito si so rep abo aao fi fo 12) := by
  have e1 := asIntV_int syn address ha
  have hmem : mhas (commandKvs syn c address bo bito si so rep abo aao fin fout) "address" = true := by
    unfold mhas commandKvs rCommon
    simp only [List.append_assoc, List.cons_append, List.nil_append]
    rw [mget_cons_ne _ _ _ _ (show "type" ≠ "address" by decide), mget_rOpt_ne _ _ _ _ _ (show "cfg" ≠ "address" by decide),
      mget_rOpt_ne _ _ _ _ _ (show "description" ≠ "address" by decide),
      mget_rOpt_ne _ _ _ _ _ (show "byte_order" ≠ "address" by decide), mget_rOpt_ne _ _ _ _ _ (show "bit_order" ≠ "address" by decide),
      mget_cons_eq]
    rfl
  have hfi0 : fin = none → fi = [] := by
    intro h; rw [h] at hfi; simp [pure, Except.pure] at hfi; exact hfi
  have hfo0 : fout = none → fo = [] := by
    intro h; rw [h] at hfo; simp [pure, Except.pure] at hfo; exact hfo
  unfold manCommand
  simp only [hmem, Bool.not_true, Bool.false_eq_true, if_false, bind, Except.bind, pure, Except.pure]
  unfold manCommandKeys commandKvs rCommon
  simp only [List.append_assoc, List.cons_append, List.nil_append]
  let S := cmdState g c address bo bito si so rep abo aao fi fo
  change List.foldlM _ (S 0) _ = _
  rw [foldlM_one _ _ (S 0) _ _ (by simp [manCommandStep, pure, Except.pure])]
  rw [foldlM_rOpt' _ "cfg" c.cfg .str _ (S 0) (S 1) (by intro a h; simp [S, cmdState, manCommandStep, asStringV, h, bind, Except.bind, pure, Except.pure])
    (by intro h; simp [S, cmdState, h])]
  rw [foldlM_rOpt' _ "description" c.description .str _ (S 1) (S 2) (by intro a h; simp [S, cmdState, manCommandStep, asStringV, h, bind, Except.bind, pure, Except.pure])
    (by intro h; simp [S, cmdState, h])]
  rw [foldlM_rOpt' _ "byte_order" bo rByteOrder _ (S 2) (S 3) (by intro a h; simp [S, cmdState, manCommandStep, manByteOrder_render, h, bind, Except.bind, pure, Except.pure])
    (by intro h; simp [S, cmdState, h])]
  rw [foldlM_rOpt' _ "bit_order" bito rBitOrder _ (S 3) (S 4) (by intro a h; simp [S, cmdState, manCommandStep, manBitOrder_render, h, bind, Except.bind, pure, Except.pure])
    (by intro h; simp [S, cmdState, h])]
  rw [foldlM_one _ _ (S 5) _ _ (by simp [S, cmdState, manCommandStep, rIntV, e1, bind, Except.bind, pure, Except.pure])]
  rw [foldlM_rOpt' _ "size_bits_in" si rNat _ (S 5) (S 6) (by intro a h; simp [S, cmdState, manCommandStep, asU32V_nat syn a (hsi a h), h, bind, Except.bind, pure, Except.pure])
    (by intro h; simp [S, cmdState, h])]
  rw [foldlM_rOpt' _ "size_bits_out" so rNat _ (S 6) (S 7) (by intro a h; simp [S, cmdState, manCommandStep, asU32V_nat syn a (hso a h), h, bind, Except.bind, pure, Except.pure])
    (by intro h; simp [S, cmdState, h])]
  rw [foldlM_rOpt' _ "repeat" rep rRepeat _ (S 7) (S 8) (by intro a h; simp [S, cmdState, manCommandStep, manRepeat_render syn a (hp a h), h, bind, Except.bind, pure, Except.pure])
    (by intro h; simp [S, cmdState, h])]
  rw [foldlM_rOpt' _ "allow_bit_overlap" abo rBool _ (S 8) (S 9) (by intro a h; simp [S, cmdState, manCommandStep, asBoolV, rBool, h, bind, Except.bind, pure, Except.pure])
    (by intro h; simp [S, cmdState, h])]
  rw [foldlM_rOpt' _ "allow_address_overlap" aao rBool _ (S 9) (S 10) (by intro a h; simp [S, cmdState, manCommandStep, asBoolV, rBool, h, bind, Except.bind, pure, Except.pure])
    (by intro h; simp [S, cmdState, h])]
  rw [foldlM_rOpt' _ "fields_in" fin (rFields syn) _ (S 10) (S 11) (by intro a h; simp [S, cmdState, manCommandStep, hfin a h, bind, Except.bind, pure, Except.pure])
    (by intro h; simp [S, cmdState, hfi0 h])]
  have := foldlM_rOpt' (manCommandStep syn g) "fields_out" fout (rFields syn) [] (S 11) (S 12)
    (by intro a h; simp [S, cmdState, manCommandStep, hfout a h, bind, Except.bind, pure, Except.pure]) (by intro h; simp [S, cmdState, hfo0 h])
  rw [List.append_nil] at this
  rw [this]
  rfl

theorem inOverride_ok {α : Type} (a : α) : inOverride (pure a : M α) = pure a := rfl

/-- **A rendered override is read back as the abstract lowering says.** -/
theorem manOverride_render (syn : Syntax) (target : String) (ov : AOverride)
    (hi : ov.illegal = []) (hk : ov.kind = "block" ∨ ov.kind = "register" ∨ ov.kind = "command" ∨ ov.kind = "buffer" ∨ ov.kind = "ref")
    (ha : ∀ x, ov.address = some x → fitsI64 x = true) (hp : ∀ x, ov.repeat_ = some x → RepeatOk syn x)
    (hr : ov.kind = "register" → ∀ x, ov.reset = some x → ResetOk syn x) :
    manOverrideV syn target (.map (overrideKvs ov)) = manOverride syn target ov := by
  have haddr : ov.address.mapM checkAddr = pure ov.address := by
    cases h : ov.address with
    | none => rfl
    | some x => simp [Option.mapM, checkAddr_ok x (ha x h), bind, Except.bind, pure, Except.pure, Functor.map, Except.map]
  have hrep := checkRepeat_ok syn ov.repeat_ hp
  unfold manOverrideV manOverride overrideKvs
  rcases hk with hk | hk | hk | hk | hk
  · -- block
    simp only [hk, hi, asMapV, bind, Except.bind, pure, Except.pure, haddr, hrep, List.isEmpty_nil, Bool.not_true]
    cases hao : ov.address with
    | none =>
      cases hrp : ov.repeat_ with
      | none => simp [rOpt, mget, List.find?_cons, asStringV, manBlockOverrideKeys, manBlockOverrideStep, List.foldlM_cons, inOverride, bind, Except.bind, pure, Except.pure]
      | some r =>
        have e := manRepeat_render syn r (hp r hrp)
        simp [rOpt, mget, List.find?_cons, asStringV, manBlockOverrideKeys, manBlockOverrideStep, List.foldlM_cons, inOverride, e, bind, Except.bind, pure, Except.pure]
    | some a =>
      have e0 := asIntV_int syn a (ha a hao)
      cases hrp : ov.repeat_ with
      | none => simp [rOpt, mget, List.find?_cons, asStringV, manBlockOverrideKeys, manBlockOverrideStep, List.foldlM_cons, inOverride, rIntV, e0, bind, Except.bind, pure, Except.pure]
      | some r =>
        have e := manRepeat_render syn r (hp r hrp)
        simp [rOpt, mget, List.find?_cons, asStringV, manBlockOverrideKeys, manBlockOverrideStep, List.foldlM_cons, inOverride, rIntV, e0, e, bind, Except.bind, pure, Except.pure]
  · -- register
    have hreset := manReset_abs syn ov.reset (hr hk)
    simp only [hk, hi, asMapV, bind, Except.bind, pure, Except.pure, haddr, hrep, hreset, List.isEmpty_nil, Bool.not_true]
    have eaddr : ∀ a, ov.address = some a → asIntV syn (.int a) = pure a := fun a h => asIntV_int syn a (ha a h)
    have erep : ∀ r, ov.repeat_ = some r → manRepeatV syn (rRepeat r) = pure r := fun r h => manRepeat_render syn r (hp r h)
    have erst : ∀ r, ov.reset = some r → manResetV syn (rReset r) = pure r := fun r h => manReset_render syn r (hr hk r h)
    cases hacc : ov.access <;> cases hao : ov.address <;> cases hrs : ov.reset <;> cases hrp : ov.repeat_ <;> cases haa : ov.allowAddressOverlap <;>
      simp_all [rOpt, mget, List.find?_cons, asStringV, asBoolV, rBool, manRegisterOverrideKeys, manRegisterOverrideStep, List.foldlM_cons, inOverride,
        rIntV, manAccess_render, bind, Except.bind, pure, Except.pure]
  · -- command
    simp only [hk, hi, asMapV, bind, Except.bind, pure, Except.pure, haddr, hrep, List.isEmpty_nil, Bool.not_true]
    have eaddr : ∀ a, ov.address = some a → asIntV syn (.int a) = pure a := fun a h => asIntV_int syn a (ha a h)
    have erep : ∀ r, ov.repeat_ = some r → manRepeatV syn (rRepeat r) = pure r := fun r h => manRepeat_render syn r (hp r h)
    cases hao : ov.address <;> cases hrp : ov.repeat_ <;> cases haa : ov.allowAddressOverlap <;>
      simp_all [rOpt, mget, List.find?_cons, asStringV, asBoolV, rBool, manCommandOverrideKeys, manCommandOverrideStep, List.foldlM_cons, inOverride,
        rIntV, bind, Except.bind, pure, Except.pure]
  · simp [hk, asMapV, mget, List.find?_cons, asStringV, bind, Except.bind, pure, Except.pure, throw, throwThe, MonadExceptOf.throw]
  · simp [hk, asMapV, mget, List.find?_cons, asStringV, bind, Except.bind, pure, Except.pure, throw, throwThe, MonadExceptOf.throw]

theorem manField_ok (g : GlobalConfig) (f : AField) (h : FieldOk f) : ∃ r, manField g f = .ok r := by
  obtain ⟨hs, he, _⟩ := h
  unfold manField
  rw [checkU32_ok f.start hs]
  cases hst : f.stop with
  | none => exact ⟨_, rfl⟩
  | some e => simp only [bind, Except.bind, pure, Except.pure]; rw [checkU32_ok e (he e hst)]; exact ⟨_, rfl⟩

theorem mapM_manField_ok (g : GlobalConfig) : ∀ (fs : List AField), (∀ f ∈ fs, FieldOk f) → ∃ rs, fs.mapM (manField g) = .ok rs := by
  intro fs
  induction fs with
  | nil => intro _; exact ⟨[], rfl⟩
  | cons f fs ih =>
    intro h
    obtain ⟨r, hr⟩ := manField_ok g f (h f (by simp))
    obtain ⟨rs, hrs⟩ := ih (fun x hx => h x (by simp [hx]))
    exact ⟨r :: rs, by simp [List.mapM_cons, hr, hrs, bind, Except.bind, pure, Except.pure]⟩

mutual
/-- **A rendered object is read back as the abstract lowering says** (every object kind). -/
theorem manObject_render (syn : Syntax) (g : GlobalConfig) :
    ∀ (o : AObj), ObjIn syn o → manObjectV syn g (rObj syn o).1 (rObj syn o).2 = manObj syn g o
  | .block c off rep os, h => by
    unfold ObjIn at h
    obtain ⟨h1, h2, h3⟩ := h
    have ih := manObjects_render syn g os h3
    unfold manObj rObj
    simp only [manObjectV, mget_type, asStringV, bind, Except.bind, pure, Except.pure]
    have hoff : off.mapM checkAddr = pure off := by
      cases off with
      | none => rfl
      | some x => simp [Option.mapM, checkAddr_ok x (h1 x rfl), bind, Except.bind, pure, Except.pure, Functor.map, Except.map]
    rw [hoff, checkRepeat_ok syn rep h2]
    simp only [bind, Except.bind, pure, Except.pure]
    let S := blkState c off rep []
    unfold rCommon
    simp only [List.append_assoc, List.cons_append, List.nil_append]
    have hstart : ({ cfg := none, description := "", name := c.name, addressOffset := 0, repeat_ := none }, []) = S 0 := by
      simp [S, blkState]
    rw [hstart]
    rw [manBlockKeys_cons syn g _ _ _ (S 0) (S 0) (by simp [S, blkState, manBlockStep, manBlockScalar, pure, Except.pure])]
    rw [manBlockKeys_rOpt syn g "cfg" c.cfg .str _ (S 0) (S 1)
      (by intro a h; simp [S, blkState, manBlockStep, manBlockScalar, asStringV, h, bind, Except.bind, pure, Except.pure])
      (by intro h; simp [S, blkState, h])]
    rw [manBlockKeys_rOpt syn g "description" c.description .str _ (S 1) (S 2)
      (by intro a h; simp [S, blkState, manBlockStep, manBlockScalar, asStringV, h, bind, Except.bind, pure, Except.pure])
      (by intro h; simp [S, blkState, h])]
    rw [manBlockKeys_rOpt syn g "address_offset" off rIntV _ (S 2) (S 3)
      (by intro a h; simp [S, blkState, manBlockStep, manBlockScalar, rIntV, asIntV_int syn a (h1 a h), h, bind, Except.bind, pure, Except.pure])
      (by intro h; simp [S, blkState, h])]
    rw [manBlockKeys_rOpt syn g "repeat" rep rRepeat _ (S 3) (S 4)
      (by intro a h; rw [manBlockStep_scalar _ _ _ _ _ _ (by decide)]; simp [S, blkState, manBlockScalar, manRepeat_render syn a (h2 a h), h, bind, Except.bind, pure, Except.pure])
      (by intro h; simp [S, blkState, h])]
    rw [manBlockKeys]
    simp only [manBlockStep, if_true, ih, bind, Except.bind, pure, Except.pure]
    cases manObjs syn g os with
    | error e => simp [mget, List.find?_cons, asStringV, bind, Except.bind, pure, Except.pure]
    | ok os' => simp [manBlockKeys, S, blkState, mget, List.find?_cons, asStringV, bind, Except.bind, pure, Except.pure]
  | .register c access bo bito address size reset rep abo aao fields, h => by
    unfold ObjIn at h
    obtain ⟨h1, h2, h3, h4, h5⟩ := h
    unfold manObj rObj
    have hmt : mget (registerKvs syn c access bo bito address size reset rep abo aao fields) "type" = some (.str "register") := by
      unfold registerKvs; simp only [List.append_assoc]; exact mget_type _ _ _
    simp only [manObjectV, hmt, asStringV, bind, Except.bind, pure, Except.pure]
    have hfs := manFields_render syn g fields h5
    rw [checkAddr_ok address h1, checkU32_ok size h2, manReset_abs syn reset h3, checkRepeat_ok syn rep h4]
    obtain ⟨fs, hm⟩ := mapM_manField_ok g fields h5
    rw [hm] at hfs ⊢
    rw [manRegister_render syn g c access bo bito address size reset rep abo aao fields fs h1 h2 h3 h4 hfs]
    simp [regState, bind, Except.bind, pure, Except.pure]
  | .buffer c access address, h => by
    unfold ObjIn at h
    unfold manObj rObj
    have hmt : mget (bufferKvs c access address) "type" = some (.str "buffer") := by
      unfold bufferKvs; simp only [List.append_assoc]; exact mget_type _ _ _
    simp only [manObjectV, hmt, asStringV, bind, Except.bind, pure, Except.pure]
    rw [manBuffer_render syn g c access address h, checkAddr_ok address h]
    simp [bind, Except.bind, pure, Except.pure]
  | .command c basic address bo bito si so rep abo aao fin fout, h => by
    unfold ObjIn at h
    obtain ⟨h1, h2, h3, h4, h5, h6⟩ := h
    unfold manObj rObj
    have hmt : mget (commandKvs syn c address bo bito si so rep abo aao fin fout) "type" = some (.str "command") := by
      unfold commandKvs; simp only [List.append_assoc]; exact mget_type _ _ _
    simp only [manObjectV, hmt, asStringV, bind, Except.bind, pure, Except.pure]
    obtain ⟨fi, hfi⟩ := mapM_manField_ok g (fin.getD []) h5
    obtain ⟨fo, hfo⟩ := mapM_manField_ok g (fout.getD []) h6
    have hfin : ∀ l, fin = some l → manFieldsV syn g (rFields syn l) = pure fi := by
      intro l hl
      rw [manFields_render syn g l (by intro f hf; exact h5 f (by simp [hl, hf]))]
      rw [hl] at hfi; simpa [pure, Except.pure] using hfi
    have hfout : ∀ l, fout = some l → manFieldsV syn g (rFields syn l) = pure fo := by
      intro l hl
      rw [manFields_render syn g l (by intro f hf; exact h6 f (by simp [hl, hf]))]
      rw [hl] at hfo; simpa [pure, Except.pure] using hfo
    have hsi : checkU32 (si.getD 0) = pure (si.getD 0) := by
      cases hs : si with
      | none => exact checkU32_ok 0 (by decide)
      | some x => exact checkU32_ok x (h2 x hs)
    have hso : checkU32 (so.getD 0) = pure (so.getD 0) := by
      cases hs : so with
      | none => exact checkU32_ok 0 (by decide)
      | some x => exact checkU32_ok x (h3 x hs)
    rw [manCommand_render syn g c address bo bito si so rep abo aao fin fout fi fo h1 h2 h3 h4 hfi hfo hfin hfout]
    rw [checkAddr_ok address h1, hfi, hfo, hsi, hso, checkRepeat_ok syn rep h4]
    simp [cmdState, bind, Except.bind, pure, Except.pure]
  | .ref c target ov, h => by
    unfold ObjIn at h
    obtain ⟨h1, h2, h3, h4, h5⟩ := h
    unfold manObj rObj
    have hmt : mget (refKvs c target ov) "type" = some (.str "ref") := by
      unfold refKvs; exact mget_type _ _ _
    simp only [manObjectV, hmt, asStringV, bind, Except.bind, pure, Except.pure]
    have hov := manOverride_render syn target ov h1 h2 h3 h4 h5
    unfold manRef refKvs rCommon
    have hk1 : mhas ([("type", MVal.str "ref")] ++ rOpt "cfg" c.cfg MVal.str ++ rOpt "description" c.description MVal.str ++
        [("target", MVal.str target), ("override", MVal.map (overrideKvs ov))]) "target" = true := by
      cases c.cfg <;> cases c.description <;> simp [rOpt, mhas, mget, List.find?_cons]
    have hk2 : mhas ([("type", MVal.str "ref")] ++ rOpt "cfg" c.cfg MVal.str ++ rOpt "description" c.description MVal.str ++
        [("target", MVal.str target), ("override", MVal.map (overrideKvs ov))]) "override" = true := by
      cases c.cfg <;> cases c.description <;> simp [rOpt, mhas, mget, List.find?_cons]
    have hg1 : mget ([("type", MVal.str "ref")] ++ rOpt "cfg" c.cfg MVal.str ++ rOpt "description" c.description MVal.str ++
        [("target", MVal.str target), ("override", MVal.map (overrideKvs ov))]) "target" = some (.str target) := by
      cases c.cfg <;> cases c.description <;> simp [rOpt, mget, List.find?_cons]
    have hg2 : mget ([("type", MVal.str "ref")] ++ rOpt "cfg" c.cfg MVal.str ++ rOpt "description" c.description MVal.str ++
        [("target", MVal.str target), ("override", MVal.map (overrideKvs ov))]) "override" = some (.map (overrideKvs ov)) := by
      cases c.cfg <;> cases c.description <;> simp [rOpt, mget, List.find?_cons]
    simp only [hk1, hk2, hg1, hg2, Bool.not_true, Bool.false_eq_true, if_false, asStringV, bind, Except.bind, pure, Except.pure,
      Option.getD_some, hov]
    cases hc : c.cfg <;> cases hd : c.description <;>
      simp [rOpt, manRefKeys, manRefStep, List.foldlM_cons, asStringV, bind, Except.bind, pure, Except.pure] <;>
      cases manOverride syn target ov <;> rfl
theorem manObjects_render (syn : Syntax) (g : GlobalConfig) :
    ∀ (os : List AObj), ObjsIn syn os → manObjectsKvs syn g (rObjs syn os) = manObjs syn g os
  | [], _ => by unfold manObjs rObjs manObjectsKvs; rfl
  | o :: os, h => by
    unfold ObjsIn at h
    unfold manObjs rObjs
    rw [manObjectsKvs]
    have e1 := manObject_render syn g o h.1
    have e2 := manObjects_render syn g os h.2
    simp only [e1, e2]
end

end DDV.Props.C16Tree

namespace DDV.Props.C16Tree
open DDV.Gen
open DDV.Bits (ByteOrder BitOrder)
set_option linter.unusedSimpArgs false
set_option linter.unusedVariables false

/-- the global config under construction after the first `n` keys -/
def cfgState (c : AConfig) (n : Nat) : GlobalConfig :=
  { defaultRegisterAccess := if n ≥ 1 then c.defaultRegisterAccess.getD .rw else .rw,
    defaultFieldAccess := if n ≥ 2 then c.defaultFieldAccess.getD .rw else .rw,
    defaultBufferAccess := if n ≥ 3 then c.defaultBufferAccess.getD .rw else .rw,
    defaultByteOrder := if n ≥ 4 then c.defaultByteOrder else none,
    defaultBitOrder := if n ≥ 5 then c.defaultBitOrder.getD .lsb0 else .lsb0,
    registerAddressType := if n ≥ 6 then c.registerAddressType else none,
    commandAddressType := if n ≥ 7 then c.commandAddressType else none,
    bufferAddressType := if n ≥ 8 then c.bufferAddressType else none,
    nameWordBoundaries := none,
    defmtFeature := if n ≥ 9 then c.defmtFeature else none }

/-- **The rendered global config is read back as `lowerConfig`** (word boundaries aside: `convert_case`
    is opaque to the model). -/
theorem manConfig_render (c : AConfig) (hb : c.nameWordBoundaries = none) :
    manConfigV (.map (rConfigKvs c)) = pure (lowerConfig c) := by
  unfold manConfigV
  simp only [asMapV, bind, Except.bind, pure, Except.pure]
  unfold manConfigKeys rConfigKvs
  simp only [List.append_assoc]
  let S := cfgState c
  change List.foldlM _ (S 0) _ = _
  rw [foldlM_rOpt' _ "default_register_access" c.defaultRegisterAccess rAccess _ (S 0) (S 1)
    (by intro a h; simp [S, cfgState, manConfigStep, manAccess_render, h, bind, Except.bind, pure, Except.pure]) (by intro h; simp [S, cfgState, h])]
  rw [foldlM_rOpt' _ "default_field_access" c.defaultFieldAccess rAccess _ (S 1) (S 2)
    (by intro a h; simp [S, cfgState, manConfigStep, manAccess_render, h, bind, Except.bind, pure, Except.pure]) (by intro h; simp [S, cfgState, h])]
  rw [foldlM_rOpt' _ "default_buffer_access" c.defaultBufferAccess rAccess _ (S 2) (S 3)
    (by intro a h; simp [S, cfgState, manConfigStep, manAccess_render, h, bind, Except.bind, pure, Except.pure]) (by intro h; simp [S, cfgState, h])]
  rw [foldlM_rOpt' _ "default_byte_order" c.defaultByteOrder rByteOrder _ (S 3) (S 4)
    (by intro a h; simp [S, cfgState, manConfigStep, manByteOrder_render, h, bind, Except.bind, pure, Except.pure]) (by intro h; simp [S, cfgState, h])]
  rw [foldlM_rOpt' _ "default_bit_order" c.defaultBitOrder rBitOrder _ (S 4) (S 5)
    (by intro a h; simp [S, cfgState, manConfigStep, manBitOrder_render, h, bind, Except.bind, pure, Except.pure]) (by intro h; simp [S, cfgState, h])]
  rw [foldlM_rOpt' _ "register_address_type" c.registerAddressType rInteger _ (S 5) (S 6)
    (by intro a h; simp [S, cfgState, manConfigStep, manInteger_render, h, bind, Except.bind, pure, Except.pure]) (by intro h; simp [S, cfgState, h])]
  rw [foldlM_rOpt' _ "command_address_type" c.commandAddressType rInteger _ (S 6) (S 7)
    (by intro a h; simp [S, cfgState, manConfigStep, manInteger_render, h, bind, Except.bind, pure, Except.pure]) (by intro h; simp [S, cfgState, h])]
  rw [foldlM_rOpt' _ "buffer_address_type" c.bufferAddressType rInteger _ (S 7) (S 8)
    (by intro a h; simp [S, cfgState, manConfigStep, manInteger_render, h, bind, Except.bind, pure, Except.pure]) (by intro h; simp [S, cfgState, h])]
  have := foldlM_rOpt' manConfigStep "defmt_feature" c.defmtFeature MVal.str [] (S 8) (S 9)
    (by intro a h; simp [S, cfgState, manConfigStep, asStringV, h, bind, Except.bind, pure, Except.pure]) (by intro h; simp [S, cfgState, h])
  rw [List.append_nil] at this
  rw [this]
  simp [S, cfgState, lowerConfig, hb, pure, Except.pure]

/-- **The manifest front end, key by key, computes the abstract lowering**: for every definition (all
    object kinds, any nesting) whose numbers every syntax can carry, reading the
    rendered value tree with the model of `dd-manifest-tree` + `manifest/mod.rs` gives exactly
    `lowerManifest` — the function `DDV.Props.C16.front_ends_agree` relates to the DSL lowering. -/
theorem manTransform_render (syn : Syntax) (d : ADef) (hb : d.config.nameWordBoundaries = none)
    (hn : ∀ p ∈ rObjs syn d.objects, p.1 ≠ "config") (h : ObjsIn syn d.objects) :
    manTransform syn (renderTree syn d) = lowerManifest syn d := by
  unfold manTransform renderTree lowerManifest
  simp only [asMapV, bind, Except.bind, pure, Except.pure]
  have hg : mget ([("config", MVal.map (rConfigKvs d.config))] ++ rObjs syn d.objects) "config" = some (.map (rConfigKvs d.config)) := by
    simp [mget, List.find?_cons]
  have hf : ([("config", MVal.map (rConfigKvs d.config))] ++ rObjs syn d.objects).filter (fun p => p.1 != "config") = rObjs syn d.objects := by
    simp only [List.singleton_append, List.filter_cons]
    simp only [bne_self_eq_false, Bool.false_eq_true, if_false]
    apply List.filter_eq_self.2
    intro p hp
    simp [hn p hp]
  rw [hg, hf]
  simp only [manConfig_render d.config hb, pure, Except.pure, manObjects_render syn (lowerConfig d.config) d.objects h]

end DDV.Props.C16Tree

namespace DDV.Props.C16Tree
open DDV.Gen
set_option linter.unusedSimpArgs false
set_option linter.unusedVariables false

/-- **No key of a register is silently ignored**: when the reader accepts a register's map, every key
    in it is one of the documented ones (a misspelt or misplaced key is an error, never a default). -/
theorem register_keys_all_known (syn : Syntax) (g : GlobalConfig) (kvs : MKvs) (r r' : Register)
    (h : manRegisterKeys syn g kvs r = .ok r') : ∀ p ∈ kvs, p.1 ∈ registerKeys :=
  foldlM_keys_known _ _ (registerStep_known syn g) kvs r r' h

theorem command_keys_all_known (syn : Syntax) (g : GlobalConfig) (kvs : MKvs) (c c' : Command)
    (h : manCommandKeys syn g kvs c = .ok c') : ∀ p ∈ kvs, p.1 ∈ commandKeys :=
  foldlM_keys_known _ _ (commandStep_known syn g) kvs c c' h

theorem buffer_keys_all_known (syn : Syntax) (kvs : MKvs) (b b' : Buffer)
    (h : manBufferKeys syn kvs b = .ok b') : ∀ p ∈ kvs, p.1 ∈ bufferKeys :=
  foldlM_keys_known _ _ (bufferStep_known syn) kvs b b' h

theorem field_keys_all_known (syn : Syntax) (all kvs : MKvs) (f f' : Field)
    (h : manFieldKeys syn all kvs f = .ok f') : ∀ p ∈ kvs, p.1 ∈ fieldKeys :=
  foldlM_keys_known _ _ (fieldStep_known syn all) kvs f f' h

theorem config_keys_all_known (kvs : MKvs) (g g' : GlobalConfig)
    (h : manConfigKeys kvs g = .ok g') : ∀ p ∈ kvs, p.1 ∈ configKeys :=
  foldlM_keys_known _ _ configStep_known kvs g g' h

/-- **The DSL lowering is the key-by-key reading of the rendered manifest**: for a definition of the
    common fragment whose numbers every syntax can carry. -/
theorem dsl_lowering_eq_tree_reading (syn : Syntax) (d : ADef) (hc : DDV.Props.C16.CommonObjs syn d.objects)
    (hb : d.config.nameWordBoundaries = none) (hn : ∀ p ∈ rObjs syn d.objects, p.1 ≠ "config")
    (h : ObjsIn syn d.objects) :
    lowerDsl d = manTransform syn (renderTree syn d) := by
  rw [manTransform_render syn d hb hn h]
  exact DDV.Props.C16.front_ends_agree syn d hc


/-- **A missing required key is an error, never a default**: register (`address`, `size_bits`), command and
    buffer (`address`), field (`base`, `start`), ref (`target`, `override`), repeat (`count`, `stride`). -/
theorem register_requires_address (syn : Syntax) (g : GlobalConfig) (name : String) (kvs : MKvs)
    (h : mhas kvs "address" = false) : manRegister syn g name kvs = .error missingKey := by
  simp [manRegister, h, bind, Except.bind, throw, throwThe, MonadExceptOf.throw]

theorem register_requires_size_bits (syn : Syntax) (g : GlobalConfig) (name : String) (kvs : MKvs)
    (h : mhas kvs "size_bits" = false) : manRegister syn g name kvs = .error missingKey := by
  unfold manRegister
  cases ha : mhas kvs "address" <;> simp [h, ha, bind, Except.bind, pure, Except.pure, throw, throwThe, MonadExceptOf.throw]

theorem command_requires_address (syn : Syntax) (g : GlobalConfig) (name : String) (kvs : MKvs)
    (h : mhas kvs "address" = false) : manCommand syn g name kvs = .error missingKey := by
  simp [manCommand, h, bind, Except.bind, throw, throwThe, MonadExceptOf.throw]

theorem buffer_requires_address (syn : Syntax) (g : GlobalConfig) (name : String) (kvs : MKvs)
    (h : mhas kvs "address" = false) : manBuffer syn g name kvs = .error missingKey := by
  simp [manBuffer, h, bind, Except.bind, throw, throwThe, MonadExceptOf.throw]

theorem field_requires_base_and_start (syn : Syntax) (g : GlobalConfig) (name : String) (kvs : MKvs)
    (h : mhas kvs "base" = false ∨ mhas kvs "start" = false) : manFieldV syn g name (.map kvs) = .error missingKey := by
  unfold manFieldV
  rcases h with h | h
  · simp [asMapV, h, bind, Except.bind, pure, Except.pure, throw, throwThe, MonadExceptOf.throw]
  · cases hb : mhas kvs "base" <;> simp [asMapV, h, hb, bind, Except.bind, pure, Except.pure, throw, throwThe, MonadExceptOf.throw]

theorem ref_requires_target_and_override (syn : Syntax) (name : String) (kvs : MKvs)
    (h : mhas kvs "target" = false ∨ mhas kvs "override" = false) : manRef syn name kvs = .error missingKey := by
  unfold manRef
  rcases h with h | h
  · simp [h, bind, Except.bind, pure, Except.pure, throw, throwThe, MonadExceptOf.throw]
  · cases hb : mhas kvs "target" <;> simp [h, hb, bind, Except.bind, pure, Except.pure, throw, throwThe, MonadExceptOf.throw]

theorem object_requires_type (syn : Syntax) (g : GlobalConfig) (name : String) (kvs : MKvs)
    (h : mget kvs "type" = none) : manObjectV syn g name (.map kvs) = .error missingKey := by
  simp [manObjectV, h, bind, Except.bind, throw, throwThe, MonadExceptOf.throw]

/-- **The three `Value` impls read an integer every syntax can carry alike**: unsigned below 2^63, signed
    within i64 - whatever the parser (`serde_json`'s `as_u64` / `as_i64`, the `i64` of YAML and TOML). -/
theorem as_uint_agrees (s1 s2 : Syntax) (n : Int) (h : 0 ≤ n ∧ n < 2 ^ 63) : asUintV s1 (.int n) = asUintV s2 (.int n) := by
  obtain ⟨h1, h2⟩ := h
  have h3 : n < 18446744073709551616 := by omega
  have h4 : n < 9223372036854775808 := by omega
  cases s1 <;> cases s2 <;> simp [asUintV, h1, h3, h4]

theorem as_int_agrees (s1 s2 : Syntax) (n : Int) : asIntV s1 (.int n) = asIntV s2 (.int n) := by
  cases s1 <;> cases s2 <;> rfl

/-- Non-vacuity: a block with a register, a command and a buffer, and a ref with an override, lie in the fragment. -/
example : ObjsIn .yaml [AObj.block { name := "Bank" } (some 16) (some ⟨2, 8⟩)
    [AObj.register { name := "Ctrl" } none none none 5 12 (some (.int 0xABC)) none none none
      [{ name := "en", base := .bool, start := 0, stop := none }],
     AObj.command { name := "Go" } false 7 none none (some 8) none none none none
      (some [{ name := "arg", base := .uint, start := 0, stop := some 8 }]) none,
     AObj.buffer { name := "Fifo" } (some .ro) 3],
    AObj.ref { name := "Alias" } "Ctrl" { kind := "register", address := some 40, reset := some (.array [1, 2]) }] := by
  simp [ObjsIn, ObjIn, RepeatOk, ResetOk, FieldOk, fitsI64]

end DDV.Props.C16Tree
