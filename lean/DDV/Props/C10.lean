/-
  C10 — Buffer operations honour the embedded-io read/write contracts.
-/
import DDV.Proto.Lemmas

namespace DDV.Props.C10
set_option linter.unusedSimpArgs false
set_option linter.unusedVariables false
open DDV.Proto DDV.Proto.Buffer
open DDV.Bits (Byte)

/-- **write / flush / read** pass the address and the caller's slice straight to the interface
    and return its result. -/
theorem write_passthrough (addr : Int) (buf : List Byte) (env : Env) :
    runBlocking (Buffer.write addr buf) env =
      (⟨env.log ++ [.bufWrite addr buf], env.script.tail⟩,
       .ret (match env.script.head? with
             | some (.err c) => .error c
             | some (.ok n _) => .ok (.num n)
             | none => .ok (.num buf.length))) := by
  unfold Buffer.write
  simp only [runBlocking, Env.answer]
  cases h : env.script.head? with
  | none => simp [respond, runBlocking]
  | some e => cases e <;> simp [respond, runBlocking]

theorem flush_passthrough (addr : Int) (env : Env) :
    runBlocking (Buffer.flush addr) env =
      (⟨env.log ++ [.bufFlush addr], env.script.tail⟩,
       .ret (match env.script.head? with
             | some (.err c) => .error c
             | _ => .ok .unit)) := by
  unfold Buffer.flush
  simp only [runBlocking, Env.answer]
  cases h : env.script.head? with
  | none => simp [respond, runBlocking, Req.mutBuf]
  | some e => cases e <;> simp [respond, runBlocking]

theorem read_passthrough (addr : Int) (buf : List Byte) (env : Env) :
    runBlocking (Buffer.read addr buf) env =
      (⟨env.log ++ [.bufRead addr buf], env.script.tail⟩,
       .ret (match env.script.head? with
             | some (.err c) => (.error c, buf)
             | some (.ok n fill) => (.ok (.num n), applyFill buf fill)
             | none => (.ok (.num buf.length), buf))) := by
  unfold Buffer.read
  simp only [runBlocking, Env.answer]
  cases h : env.script.head? with
  | none => simp [respond, runBlocking]
  | some e => cases e <;> simp [respond, runBlocking, Req.mutBuf]

/-- The `write_all` contract as a relation between the unwritten remainder, the interface's
    answers, the calls issued and the outcome: every call is made on exactly the unwritten
    remainder; it ends `Ok` when nothing remains, returns the first error unchanged and stops,
    panics when the interface reports zero bytes (or more bytes than it was given). An exhausted
    script means the mock accepts everything. -/
inductive WriteAllSpec (addr : Int) : List Byte → List Entry → List Req → Outcome Res → Prop
  | done (script : List Entry) : WriteAllSpec addr [] script [] (.ret (.ok .unit))
  | error (rem : List Byte) (e : Nat) (rest : List Entry) : rem ≠ [] →
      WriteAllSpec addr rem (.err e :: rest) [.bufWrite addr rem] (.ret (.error e))
  | zero (rem fill : List Byte) (rest : List Entry) : rem ≠ [] →
      WriteAllSpec addr rem (.ok 0 fill :: rest) [.bufWrite addr rem] (.panic "write() returned Ok(0)")
  | over (rem fill : List Byte) (n : Nat) (rest : List Entry) : rem ≠ [] → n > rem.length →
      WriteAllSpec addr rem (.ok n fill :: rest) [.bufWrite addr rem] (.panic "slice index")
  | more (rem fill : List Byte) (n : Nat) (rest : List Entry) (calls : List Req) (o : Outcome Res) :
      rem ≠ [] → 1 ≤ n → n ≤ rem.length → WriteAllSpec addr (rem.drop n) rest calls o →
      WriteAllSpec addr rem (.ok n fill :: rest) (.bufWrite addr rem :: calls) o
  | exhausted (rem : List Byte) : rem ≠ [] →
      WriteAllSpec addr rem [] [.bufWrite addr rem] (.ret (.ok .unit))

theorem writeAllLoop_spec (addr : Int) : ∀ (fuel : Nat) (buf : List Byte) (script : List Entry),
    buf.length ≤ fuel →
    WriteAllSpec addr buf script
      (runBlocking (writeAllLoop addr fuel buf) ⟨[], script⟩).1.log
      (runBlocking (writeAllLoop addr fuel buf) ⟨[], script⟩).2 := by
  intro fuel
  induction fuel with
  | zero =>
    intro buf script h
    have : buf = [] := List.length_eq_zero_iff.mp (by omega)
    subst this
    simp [writeAllLoop, runBlocking]
    exact .done script
  | succ fuel ih =>
    intro buf script h
    cases buf with
    | nil => simp [writeAllLoop, runBlocking]; exact .done script
    | cons b bs =>
      have hne : (b :: bs) ≠ [] := by simp
      simp only [writeAllLoop, List.isEmpty_cons, Bool.false_eq_true, if_false, runBlocking, Env.answer]
      cases script with
      | nil =>
        simp only [List.head?_nil, respond, List.tail_nil, List.nil_append]
        have hlen : (b :: bs).length = bs.length + 1 := rfl
        simp only [hlen]
        have hn : ¬ (bs.length + 1 > bs.length + 1) := by omega
        simp only [hn, if_false, List.drop_length_cons]
        have h0 := ih [] [] (by simp)
        rw [runBlocking_frame]
        cases fuel <;> simp [writeAllLoop, runBlocking] <;> exact .exhausted _ hne
      | cons e rest =>
        cases e with
        | err c =>
          simp only [List.head?_cons, respond, runBlocking, List.nil_append, List.tail_cons]
          exact .error _ c rest hne
        | ok n fill =>
          simp only [List.head?_cons, respond, List.nil_append, List.tail_cons]
          cases n with
          | zero => simp only [runBlocking]; exact .zero _ fill rest hne
          | succ n =>
            simp only
            by_cases hov : n + 1 > (b :: bs).length
            · simp only [hov, if_true, runBlocking]
              exact .over _ fill (n + 1) rest hne hov
            · simp only [hov, if_false]
              rw [runBlocking_frame]
              have hd : ((b :: bs).drop (n + 1)).length ≤ fuel := by
                simp only [List.length_drop, List.length_cons] at *; omega
              have := ih ((b :: bs).drop (n + 1)) rest hd
              exact .more _ fill (n + 1) rest _ _ hne (by omega) (by omega) this

/-- **write_all** satisfies its contract for every slice and every sequence of interface
    answers. -/
theorem write_all_spec (addr : Int) (buf : List Byte) (script : List Entry) :
    WriteAllSpec addr buf script
      (runBlocking (writeAll addr buf) ⟨[], script⟩).1.log
      (runBlocking (writeAll addr buf) ⟨[], script⟩).2 :=
  writeAllLoop_spec addr buf.length buf script (Nat.le_refl _)

/-- The `read_exact` contract: every call is made on exactly the unfilled remainder; `Ok` when the
    slice is full; `UnexpectedEof` when the interface returns zero early; interface errors are
    wrapped in `Other`; the caller's buffer holds the bytes delivered so far followed by the
    remainder as the interface last left it. -/
inductive ReadExactSpec (addr : Int) :
    List Byte → List Byte → List Entry → List Req → Outcome (Res × List Byte) → Prop
  | done (dn : List Byte) (script : List Entry) :
      ReadExactSpec addr dn [] script [] (.ret (.ok .unit, dn))
  | error (dn rem : List Byte) (e : Nat) (rest : List Entry) : rem ≠ [] →
      ReadExactSpec addr dn rem (.err e :: rest) [.bufRead addr rem] (.ret (.ok (.other e), dn ++ rem))
  | eof (dn rem fill : List Byte) (rest : List Entry) : rem ≠ [] →
      ReadExactSpec addr dn rem (.ok 0 fill :: rest) [.bufRead addr rem]
        (.ret (.ok .eof, dn ++ applyFill rem fill))
  | over (dn rem fill : List Byte) (n : Nat) (rest : List Entry) : rem ≠ [] → n > rem.length →
      ReadExactSpec addr dn rem (.ok n fill :: rest) [.bufRead addr rem] (.panic "slice index")
  | more (dn rem fill : List Byte) (n : Nat) (rest : List Entry) (calls : List Req)
      (o : Outcome (Res × List Byte)) :
      rem ≠ [] → 1 ≤ n → n ≤ rem.length →
      ReadExactSpec addr (dn ++ (applyFill rem fill).take n) ((applyFill rem fill).drop n) rest calls o →
      ReadExactSpec addr dn rem (.ok n fill :: rest) (.bufRead addr rem :: calls) o
  | exhausted (dn rem : List Byte) : rem ≠ [] →
      ReadExactSpec addr dn rem [] [.bufRead addr rem] (.ret (.ok .unit, dn ++ rem))

theorem readExactLoop_spec (addr : Int) : ∀ (fuel : Nat) (dn rem : List Byte) (script : List Entry),
    rem.length ≤ fuel →
    ReadExactSpec addr dn rem script
      (runBlocking (readExactLoop addr fuel dn rem) ⟨[], script⟩).1.log
      (runBlocking (readExactLoop addr fuel dn rem) ⟨[], script⟩).2 := by
  intro fuel
  induction fuel with
  | zero =>
    intro dn rem script h
    have : rem = [] := List.length_eq_zero_iff.mp (by omega)
    subst this
    simp [readExactLoop, runBlocking]
    exact .done dn script
  | succ fuel ih =>
    intro dn rem script h
    cases rem with
    | nil => simp [readExactLoop, runBlocking]; exact .done dn script
    | cons b bs =>
      have hne : (b :: bs) ≠ [] := by simp
      simp only [readExactLoop, List.isEmpty_cons, Bool.false_eq_true, if_false, runBlocking, Env.answer]
      cases script with
      | nil =>
        simp only [List.head?_nil, respond, List.tail_nil, List.nil_append]
        have hlen : (b :: bs).length = bs.length + 1 := rfl
        simp only [hlen]
        have hn : ¬ (bs.length + 1 > bs.length + 1) := by omega
        simp only [hn, if_false]
        rw [runBlocking_frame]
        have htake : (b :: bs).take (bs.length + 1) = b :: bs := by
          rw [← hlen]; exact List.take_length
        have hdrop : (b :: bs).drop (bs.length + 1) = [] := by
          rw [← hlen]; exact List.drop_length
        rw [htake, hdrop]
        cases fuel <;> simp [readExactLoop, runBlocking] <;> exact .exhausted dn _ hne
      | cons e rest =>
        cases e with
        | err c =>
          simp only [List.head?_cons, respond, runBlocking, List.nil_append, List.tail_cons]
          exact .error dn _ c rest hne
        | ok n fill =>
          simp only [List.head?_cons, respond, List.nil_append, List.tail_cons, Req.mutBuf]
          cases n with
          | zero => simp only [runBlocking]; exact .eof dn _ fill rest hne
          | succ n =>
            simp only
            have hfl := applyFill_length (b :: bs) fill
            by_cases hov : n + 1 > (applyFill (b :: bs) fill).length
            · simp only [hov, if_true, runBlocking]
              exact .over dn _ fill (n + 1) rest hne (by omega)
            · simp only [hov, if_false]
              rw [runBlocking_frame]
              have hd : ((applyFill (b :: bs) fill).drop (n + 1)).length ≤ fuel := by
                simp only [List.length_drop, hfl, List.length_cons] at *; omega
              have := ih (dn ++ (applyFill (b :: bs) fill).take (n + 1))
                ((applyFill (b :: bs) fill).drop (n + 1)) rest hd
              exact .more dn _ fill (n + 1) rest _ _ hne (by omega) (by omega) this

/-- **read_exact** satisfies its contract for every slice and every sequence of answers. -/
theorem read_exact_spec (addr : Int) (buf : List Byte) (script : List Entry) :
    ReadExactSpec addr [] buf script
      (runBlocking (readExact addr buf) ⟨[], script⟩).1.log
      (runBlocking (readExact addr buf) ⟨[], script⟩).2 :=
  readExactLoop_spec addr buf.length [] buf script (Nat.le_refl _)

/-- Consequences of the contracts, spelled out. -/
theorem write_all_ok_means_all_accepted (addr : Int) :
    ∀ (buf : List Byte) (script : List Entry) (calls : List Req),
      WriteAllSpec addr buf script calls (.ret (.ok .unit)) →
      ∀ c ∈ calls, ∃ k, c = .bufWrite addr (buf.drop k) := by
  intro buf script calls h
  generalize ho : (Outcome.ret (Except.ok Val.unit) : Outcome Res) = o at h
  induction h with
  | done => intro c hc; cases hc
  | error => cases ho
  | zero => cases ho
  | over => cases ho
  | more rem fill n rest calls o hne h1 h2 hrec ih =>
    intro c hc
    cases hc with
    | head => exact ⟨0, by simp⟩
    | tail _ hc =>
      obtain ⟨k, hk⟩ := ih ho c hc
      exact ⟨n + k, by rw [hk, List.drop_drop]⟩
  | exhausted rem hne =>
    intro c hc
    cases hc with
    | head => exact ⟨0, by simp⟩
    | tail _ hc => cases hc

/-- **Trait methods = inherent methods**, and **async = blocking** for every buffer operation
    and every suspension pattern. -/
theorem trait_eq_inherent :
    traitWrite = Buffer.write ∧ traitFlush = Buffer.flush ∧ traitRead = Buffer.read ∧
    traitWriteAsync = Buffer.writeAsync ∧ traitFlushAsync = Buffer.flushAsync ∧
    traitReadAsync = Buffer.readAsync := ⟨rfl, rfl, rfl, rfl, rfl, rfl⟩

theorem writeAllAsyncLoop_eq (addr : Int) : ∀ (fuel : Nat) (buf : List Byte),
    writeAllAsyncLoop addr fuel buf = writeAllLoop addr fuel buf := by
  intro fuel
  induction fuel with
  | zero => intro buf; rfl
  | succ fuel ih =>
    intro buf
    simp only [writeAllAsyncLoop, writeAllLoop]
    split
    · rfl
    · congr 1; funext resp
      cases resp with
      | err e => rfl
      | ok n b => cases n with
        | zero => rfl
        | succ n => simp only [ih]

theorem readExactAsyncLoop_eq (addr : Int) : ∀ (fuel : Nat) (dn rem : List Byte),
    readExactAsyncLoop addr fuel dn rem = readExactLoop addr fuel dn rem := by
  intro fuel
  induction fuel with
  | zero => intro dn rem; rfl
  | succ fuel ih =>
    intro dn rem
    simp only [readExactAsyncLoop, readExactLoop]
    split
    · rfl
    · congr 1; funext resp
      cases resp with
      | err e => rfl
      | ok n b => cases n with
        | zero => rfl
        | succ n => simp only [ih]

theorem write_all_async_eq_blocking (pend : Nat → Nat) (addr : Int) (buf : List Byte) (env : Env)
    (n extra : Nat) :
    drive pend (extra + 1 + pendSum pend (writeAllAsync addr buf) env n)
        ⟨writeAllAsync addr buf, none, env, n⟩ 0 =
      some ((runBlocking (writeAll addr buf) env).1, (runBlocking (writeAll addr buf) env).2,
            0 + 1 + pendSum pend (writeAllAsync addr buf) env n) := by
  have h : writeAllAsync addr buf = writeAll addr buf := writeAllAsyncLoop_eq addr _ _
  rw [h]; exact drive_eq_blocking pend (writeAll addr buf) env n 0 extra

theorem read_exact_async_eq_blocking (pend : Nat → Nat) (addr : Int) (buf : List Byte) (env : Env)
    (n extra : Nat) :
    drive pend (extra + 1 + pendSum pend (readExactAsync addr buf) env n)
        ⟨readExactAsync addr buf, none, env, n⟩ 0 =
      some ((runBlocking (readExact addr buf) env).1, (runBlocking (readExact addr buf) env).2,
            0 + 1 + pendSum pend (readExactAsync addr buf) env n) := by
  have h : readExactAsync addr buf = readExact addr buf := readExactAsyncLoop_eq addr _ _ _
  rw [h]; exact drive_eq_blocking pend (readExact addr buf) env n 0 extra

theorem simple_async_eq_blocking (pend : Nat → Nat) (addr : Int) (buf : List Byte) (env : Env)
    (n extra : Nat) :
    drive pend (extra + 1 + pendSum pend (Buffer.writeAsync addr buf) env n) ⟨Buffer.writeAsync addr buf, none, env, n⟩ 0 =
      some ((runBlocking (Buffer.write addr buf) env).1, (runBlocking (Buffer.write addr buf) env).2,
            0 + 1 + pendSum pend (Buffer.writeAsync addr buf) env n) ∧
    drive pend (extra + 1 + pendSum pend (Buffer.flushAsync addr) env n) ⟨Buffer.flushAsync addr, none, env, n⟩ 0 =
      some ((runBlocking (Buffer.flush addr) env).1, (runBlocking (Buffer.flush addr) env).2,
            0 + 1 + pendSum pend (Buffer.flushAsync addr) env n) ∧
    drive pend (extra + 1 + pendSum pend (Buffer.readAsync addr buf) env n) ⟨Buffer.readAsync addr buf, none, env, n⟩ 0 =
      some ((runBlocking (Buffer.read addr buf) env).1, (runBlocking (Buffer.read addr buf) env).2,
            0 + 1 + pendSum pend (Buffer.readAsync addr buf) env n) :=
  ⟨drive_eq_blocking pend _ env n 0 extra, drive_eq_blocking pend _ env n 0 extra,
   drive_eq_blocking pend _ env n 0 extra⟩

/-- Non-vacuity: a three-call `write_all` over a 5-byte slice. -/
example : WriteAllSpec 3 [1#8, 2#8, 3#8, 4#8, 5#8] [.ok 2 [], .ok 1 [], .ok 2 []]
    [.bufWrite 3 [1#8, 2#8, 3#8, 4#8, 5#8], .bufWrite 3 [3#8, 4#8, 5#8], .bufWrite 3 [4#8, 5#8]]
    (.ret (.ok .unit)) :=
  .more _ _ 2 _ _ _ (by simp) (by omega) (by simp) <|
  .more _ _ 1 _ _ _ (by simp) (by omega) (by simp) <|
  .more _ _ 2 _ _ _ (by simp) (by omega) (by simp) <| .done _

end DDV.Props.C10
