import DDV.Gen.Lemmas.Tree
namespace DDV.Props.C12
theorem placeholder : True := trivial
end DDV.Props.C12
