/-
  C12 — Address-collision analysis is sound and complete.
-/
import DDV.Gen.AddrSem
import DDV.Gen.Lemmas.Claimed
import DDV.Gen.Lemmas.Refs
import DDV.Gen.Lemmas.LowerTree
import DDV.Gen.Lemmas.LowerRefs
import DDV.Props.C04

namespace DDV.Props.C12
open DDV.Gen
set_option linter.unusedVariables false
set_option linter.unusedSimpArgs false

/-- Two claimed instances collide: same kind, same absolute address, not both allowing overlap. -/
def Collide (a b : Claimed) : Prop :=
  a.address = b.address ∧ a.kind = b.kind ∧ ¬ (a.allowOverlap = true ∧ b.allowOverlap = true)

theorem collide_iff_test (c o : Claimed) :
    (o.address == c.address && o.kind == c.kind && !(c.allowOverlap && o.allowOverlap)) = true ↔ Collide c o := by
  unfold Collide
  simp only [Bool.and_eq_true, beq_iff_eq, Bool.not_eq_true', Bool.and_eq_false_iff]
  constructor
  · intro ⟨⟨h1, h2⟩, h3⟩
    refine ⟨h1.symm, h2.symm, ?_⟩
    intro ⟨h4, h5⟩
    rcases h3 with h | h
    · rw [h4] at h; cases h
    · rw [h5] at h; cases h
  · intro ⟨h1, h2, h3⟩
    refine ⟨⟨h1.symm, h2.symm⟩, ?_⟩
    cases hc : c.allowOverlap
    · left; rfl
    · right
      cases ho : o.allowOverlap
      · rfl
      · exact absurd ⟨hc, ho⟩ h3

/-- **Sound and complete on the expanded instance list**: the pairwise scan finds a pair iff some
    two distinct positions of the list collide. -/
theorem no_collision_iff (cs : List Claimed) :
    firstCollision cs = none ↔ cs.Pairwise (fun a b => ¬ Collide a b) := by
  induction cs with
  | nil => simp [firstCollision]
  | cons c rest ih =>
    unfold firstCollision
    cases hf : rest.find? (fun o => o.address == c.address && o.kind == c.kind && !(c.allowOverlap && o.allowOverlap)) with
    | some o =>
      simp only [reduceCtorEq, List.pairwise_cons, false_iff, not_and]
      intro hall
      have hm := List.mem_of_find?_eq_some hf
      have hp := List.find?_some hf
      exact absurd ((collide_iff_test c o).1 hp) (hall o hm)
    | none =>
      simp only [List.pairwise_cons]
      rw [ih]
      constructor
      · intro h
        refine ⟨?_, h⟩
        intro o ho hcol
        have := List.find?_eq_none.1 hf o ho
        exact this ((collide_iff_test c o).2 hcol)
      · intro ⟨_, h⟩; exact h

/-- The reported pair really collides, and comes from the list in order. -/
theorem reported_pair_collides (cs : List Claimed) (a b : Claimed) (h : firstCollision cs = some (a, b)) :
    Collide a b ∧ a ∈ cs ∧ b ∈ cs := by
  induction cs with
  | nil => simp [firstCollision] at h
  | cons c rest ih =>
    unfold firstCollision at h
    cases hf : rest.find? (fun o => o.address == c.address && o.kind == c.kind && !(c.allowOverlap && o.allowOverlap)) with
    | some o =>
      rw [hf] at h
      simp only [Option.some.injEq, Prod.mk.injEq] at h
      obtain ⟨rfl, rfl⟩ := h
      have hp := List.find?_some hf
      have hm := List.mem_of_find?_eq_some hf
      exact ⟨(collide_iff_test c o).1 hp, List.mem_cons_self .., List.mem_cons_of_mem _ hm⟩
    | none =>
      rw [hf] at h
      obtain ⟨h1, h2, h3⟩ := ih h
      exact ⟨h1, List.mem_cons_of_mem _ h2, List.mem_cons_of_mem _ h3⟩

/-- **Objects of different kinds never collide.** -/
theorem kinds_never_collide (a b : Claimed) (h : a.kind ≠ b.kind) : ¬ Collide a b :=
  fun hc => h hc.2.1

/-- **An object can collide with itself**: two indices of one repeated object with stride 0 are two
    instances at one address. -/
example : firstCollision
    [⟨"R", some 0, 5, false, .register⟩, ⟨"R", some 1, 5, false, .register⟩] ≠ none := by decide

/-- **Rejected iff some two instances collide; the error names both objects and the shared
    address.** -/
theorem collision_reject_iff {α : Type} (claimed : List Claimed) (x : α) :
    (reportCollision claimed x = .ok x ↔ claimed.Pairwise (fun a b => ¬ Collide a b)) ∧
    (∀ s, reportCollision claimed x = .error s →
      ∃ a b : Claimed, a ∈ claimed ∧ b ∈ claimed ∧ Collide a b ∧
        s = .error { stage := "lir", kind := "address_collision",
                     names := [displayName a, displayName b], numbers := [a.address] }) := by
  unfold reportCollision
  cases hf : firstCollision claimed with
  | none =>
    simp only [true_iff]
    exact ⟨(no_collision_iff claimed).1 hf, fun s h => by cases h⟩
  | some p =>
    obtain ⟨a, b⟩ := p
    simp only [reduceCtorEq, false_iff]
    refine ⟨?_, ?_⟩
    · intro hp
      have := (no_collision_iff claimed).2 hp
      rw [hf] at this; cases this
    · intro s h
      obtain ⟨h1, h2, h3⟩ := reported_pair_collides claimed a b hf
      exact ⟨a, b, h2, h3, h1, (Except.error.inj h).symm⟩

/-! ### The expanded list is exactly the set of accessor chains (C12 ⇄ C04) -/

/-- **The instances the pass compares are exactly the accessor chains of the lowered device.**
    Whenever the expansion of the root block finishes (it does unless a block resolves to one of
    its own ancestors, or an address leaves `i64`): every entry is the address
    `Σ (block offset + index·stride) + object address + index·stride` of a chain of accessor calls
    with valid indices ending at a register / command / buffer accessor, with that accessor's kind
    and overlap flag — and every such chain has an entry. -/
theorem instances_are_accessor_chains (n : Names) (blocks : List LBlock) (fuel : Nat) (root : LBlock)
    (cs : List Claimed) (h : claimedOfBlock n blocks fuel root 0 [] = .ok cs) :
    (∀ c ∈ cs, ∃ ch, LeafChain blocks root.methods ch ∧ Claims c ch 0) ∧
    (∀ ch, LeafChain blocks root.methods ch → ∃ c ∈ cs, Claims c ch 0) :=
  claimedOfBlock_spec n blocks fuel root 0 [] cs h

/-- Two accessor chains collide: same kind of accessor at the end, same address, not both allowing overlap. -/
def ChainsCollide (ch1 ch2 : List (Method × Nat)) : Prop :=
  ∃ m1 m2, chainLeaf ch1 = some m1 ∧ chainLeaf ch2 = some m2 ∧ m1.kind = m2.kind ∧
    specChain ch1 0 = specChain ch2 0 ∧ ¬ (m1.allowAddressOverlap = true ∧ m2.allowAddressOverlap = true)

theorem collide_of_claims {a b : Claimed} {ch1 ch2 : List (Method × Nat)}
    (h1 : Claims a ch1 0) (h2 : Claims b ch2 0) : Collide a b ↔ ChainsCollide ch1 ch2 := by
  obtain ⟨a1, m1, l1, k1, o1⟩ := h1
  obtain ⟨a2, m2, l2, k2, o2⟩ := h2
  unfold Collide ChainsCollide
  constructor
  · intro ⟨e1, e2, e3⟩
    exact ⟨m1, m2, l1, l2, by rw [← k1, ← k2]; exact e2, by rw [← a1, ← a2]; exact e1, by rw [← o1, ← o2]; exact e3⟩
  · intro ⟨n1, n2, p1, p2, e2, e1, e3⟩
    rw [l1] at p1; rw [l2] at p2
    cases p1; cases p2
    exact ⟨by rw [a1, a2]; exact e1, by rw [k1, k2]; exact e2, by rw [o1, o2]; exact e3⟩

/-- **Soundness at the level of accessors.** A reported collision is a collision between two
    accessor chains of the device: the analysis never rejects for an address nothing can reach. -/
theorem rejection_is_a_real_collision (n : Names) (l : Lir) (s : Stop) (root : LBlock) (cs : List Claimed)
    (hcs : claimedOfBlock n l.blocks (2 * l.blocks.length + 4) root 0 [] = .ok cs)
    (h : reportCollision cs l = .error s) :
    ∃ ch1 ch2, LeafChain l.blocks root.methods ch1 ∧ LeafChain l.blocks root.methods ch2 ∧ ChainsCollide ch1 ch2 := by
  obtain ⟨a, b, ha, hb, hcol, _⟩ := (collision_reject_iff cs l).2 s h
  have spec := instances_are_accessor_chains n l.blocks _ root cs hcs
  obtain ⟨ch1, l1, c1⟩ := spec.1 a ha
  obtain ⟨ch2, l2, c2⟩ := spec.1 b hb
  exact ⟨ch1, ch2, l1, l2, (collide_of_claims c1 c2).1 hcol⟩

/-- **Completeness at the level of accessors.** If the definition is accepted, any two accessor
    chains that collide are claimed by one and the same entry of the expanded list (they are the
    same instance): no collision between two different instances goes unreported. -/
theorem accepted_means_no_two_instances_collide (n : Names) (l : Lir) (root : LBlock) (cs : List Claimed)
    (hcs : claimedOfBlock n l.blocks (2 * l.blocks.length + 4) root 0 [] = .ok cs)
    (h : reportCollision cs l = .ok l) :
    ∀ ch1 ch2, LeafChain l.blocks root.methods ch1 → LeafChain l.blocks root.methods ch2 → ChainsCollide ch1 ch2 →
      ∀ i j (hi : i < cs.length) (hj : j < cs.length), Claims cs[i] ch1 0 → Claims cs[j] ch2 0 → i = j := by
  intro ch1 ch2 l1 l2 hcol i j hi hj c1 c2
  have hp := (collision_reject_iff cs l).1.1 h
  have hcoll : Collide cs[i] cs[j] := (collide_of_claims c1 c2).2 hcol
  have hcoll' : Collide cs[j] cs[i] := by
    obtain ⟨e1, e2, e3⟩ := hcoll
    exact ⟨e1.symm, e2.symm, fun ⟨x, y⟩ => e3 ⟨y, x⟩⟩
  rcases Nat.lt_trichotomy i j with hlt | heq | hgt
  · exact absurd hcoll (List.pairwise_iff_getElem.1 hp i j hi hj hlt)
  · exact heq
  · exact absurd hcoll' (List.pairwise_iff_getElem.1 hp j i hj hi hgt)

/-- **Refs and the overlap flag**: a ref allows address overlap iff its target or its override does
    (for register and for command refs alike). -/
theorem ref_allows_overlap (n : Names) (cfg : GlobalConfig) (all : List Object) (rf : RefObject) (fuel : Nat) :
    (∀ (ov : RegisterOverride) (r : Register) (t : Integer),
      rf.override = .register ov → searchObject ov.name all = some (.register r) → cfg.registerAddressType = some t →
      ∃ m, getMethod n cfg all "new" (fuel + 2) (.ref rf) = .ok (m, []) ∧
        m.allowAddressOverlap = (r.allowAddressOverlap || ov.allowAddressOverlap)) ∧
    (∀ (ov : CommandOverride) (c : Command) (t : Integer),
      rf.override = .command ov → searchObject ov.name all = some (.command c) → cfg.commandAddressType = some t →
      ∃ m, getMethod n cfg all "new" (fuel + 2) (.ref rf) = .ok (m, []) ∧
        m.allowAddressOverlap = (c.allowAddressOverlap || ov.allowAddressOverlap)) := by
  constructor
  · intro ov r t hov ht hc
    obtain ⟨m, h, _, _, _, _, _, _, _, h8, _⟩ := register_ref_method n cfg all rf ov r t fuel hov ht hc
    exact ⟨m, h, h8⟩
  · intro ov c t hov ht hc
    obtain ⟨m, h, _, _, _, _, _, h6, _⟩ := command_ref_method n cfg all rf ov c t fuel hov ht hc
    exact ⟨m, h, h6⟩

/-! ### Instances of the definition (ref-free trees) -/

/-- **An instance is an object at one combination of its own repeat index and the repeat indices of
    its enclosing blocks — and those are exactly what the pass compares.** For a ref-free tree
    whose lowering and expansion succeed and whose block names are distinct from each other and
    from the device name: every entry of the expanded list is the address of a path through the
    definition (`treeAddress`: Σ offset + index × stride …), and every path has an entry. -/
theorem claimed_entries_are_the_instances_of_the_definition (n : Names) (cfg : GlobalConfig) (all : List Object)
    (fuel fuel' : Nat) (deviceName : String) (os : List Object) (blocks : List LBlock) (cs : List Claimed)
    (hrf : RefFreeList os)
    (hl : collectIntoBlocks n cfg all fuel none deviceName true os = .ok blocks)
    (hn : (blocks.map (·.name)).Nodup) :
    ∃ root, blocks.head? = some root ∧
      (claimedOfBlock n blocks fuel' root 0 [] = .ok cs →
        (∀ c ∈ cs, ∃ tch, TreeChain os tch ∧ c.address = treeAddress tch 0) ∧
        (∀ tch, TreeChain os tch → ∃ c ∈ cs, c.address = treeAddress tch 0)) := by
  obtain ⟨root, rest, hb, _, _, hm, h1, h2⟩ := instances_of_the_definition n cfg all fuel deviceName os blocks hrf hl hn
  refine ⟨root, by rw [hb]; rfl, ?_⟩
  intro hc
  have spec := instances_are_accessor_chains n blocks fuel' root cs hc
  constructor
  · intro c hcm
    obtain ⟨ch, l1, l2⟩ := spec.1 c hcm
    obtain ⟨tch, t1, t2⟩ := h2 ch l1
    refine ⟨tch, t1, ?_⟩
    rw [l2.1, t2]
    exact specChain_lift n cfg tch 0 (fun x hx => (DDV.Props.C04.treeChain_valid t1 hrf x hx).1)
  · intro tch ht
    obtain ⟨c, hcm, l⟩ := spec.2 _ (h1 tch ht)
    refine ⟨c, hcm, ?_⟩
    rw [l.1]
    exact specChain_lift n cfg tch 0 (fun x hx => (DDV.Props.C04.treeChain_valid ht hrf x hx).1)

/-- **… with ref objects counted at their own address.** The same for any object tree, register,
    command and block refs included: every entry of the expanded list is the address of an
    instance of the definition in which each ref stands for its target with the override applied
    (`treeAddressR`: the ref's own offset / address and repeat where overridden), and every such
    instance has an entry. -/
theorem claimed_entries_are_the_instances_of_the_definition_refs (n : Names) (cfg : GlobalConfig)
    (fuel fuel' : Nat) (deviceName : String) (os : List Object) (blocks : List LBlock) (cs : List Claimed)
    (hl : collectIntoBlocks n cfg os fuel none deviceName true os = .ok blocks)
    (hn : (blocks.map (·.name)).Nodup) :
    ∃ root, blocks.head? = some root ∧
      (claimedOfBlock n blocks fuel' root 0 [] = .ok cs →
        (∀ c ∈ cs, ∃ tch, TreeChainR n os os tch ∧ c.address = treeAddressR n os tch 0) ∧
        (∀ tch, TreeChainR n os os tch → ∃ c ∈ cs, c.address = treeAddressR n os tch 0)) := by
  obtain ⟨root, rest, hb, _, _, hm, h1, h2, h3⟩ := instances_of_the_definition_refs n cfg fuel deviceName os blocks hl hn
  refine ⟨root, by rw [hb]; rfl, ?_⟩
  intro hc
  have spec := instances_are_accessor_chains n blocks fuel' root cs hc
  constructor
  · intro c hcm
    obtain ⟨ch, l1, l2⟩ := spec.1 c hcm
    obtain ⟨tch, t1, t2⟩ := h2 ch l1
    refine ⟨tch, t1, ?_⟩
    rw [l2.1, t2]
    exact h3 tch t1 0
  · intro tch ht
    obtain ⟨c, hcm, l⟩ := spec.2 _ (h1 tch ht)
    refine ⟨c, hcm, ?_⟩
    rw [l.1]
    exact h3 tch ht 0

end DDV.Props.C12
