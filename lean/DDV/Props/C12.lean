/-
  C12 — Address-collision analysis is sound and complete.
-/
import DDV.Gen.AddrSem

namespace DDV.Props.C12
open DDV.Gen
set_option linter.unusedVariables false
set_option linter.unusedSimpArgs false

/-- Two claimed instances collide: same kind, same absolute address, not both allowing overlap. -/
def Collide (a b : Claimed) : Prop :=
  a.address = b.address ∧ a.kind = b.kind ∧ ¬ (a.allowOverlap = true ∧ b.allowOverlap = true)

theorem collide_iff_test (c o : Claimed) :
    (o.address == c.address && o.kind == c.kind && !(c.allowOverlap && o.allowOverlap)) = true ↔ Collide c o := by
  unfold Collide
  simp only [Bool.and_eq_true, beq_iff_eq, Bool.not_eq_true', Bool.and_eq_false_iff]
  constructor
  · intro ⟨⟨h1, h2⟩, h3⟩
    refine ⟨h1.symm, h2.symm, ?_⟩
    intro ⟨h4, h5⟩
    rcases h3 with h | h
    · rw [h4] at h; cases h
    · rw [h5] at h; cases h
  · intro ⟨h1, h2, h3⟩
    refine ⟨⟨h1.symm, h2.symm⟩, ?_⟩
    cases hc : c.allowOverlap
    · left; rfl
    · right
      cases ho : o.allowOverlap
      · rfl
      · exact absurd ⟨hc, ho⟩ h3

/-- **Sound and complete on the expanded instance list**: the pairwise scan finds a pair iff some
    two distinct positions of the list collide. -/
theorem no_collision_iff (cs : List Claimed) :
    firstCollision cs = none ↔ cs.Pairwise (fun a b => ¬ Collide a b) := by
  induction cs with
  | nil => simp [firstCollision]
  | cons c rest ih =>
    unfold firstCollision
    cases hf : rest.find? (fun o => o.address == c.address && o.kind == c.kind && !(c.allowOverlap && o.allowOverlap)) with
    | some o =>
      simp only [reduceCtorEq, List.pairwise_cons, false_iff, not_and]
      intro hall
      have hm := List.mem_of_find?_eq_some hf
      have hp := List.find?_some hf
      exact absurd ((collide_iff_test c o).1 hp) (hall o hm)
    | none =>
      simp only [List.pairwise_cons]
      rw [ih]
      constructor
      · intro h
        refine ⟨?_, h⟩
        intro o ho hcol
        have := List.find?_eq_none.1 hf o ho
        exact this ((collide_iff_test c o).2 hcol)
      · intro ⟨_, h⟩; exact h

/-- The reported pair really collides, and comes from the list in order. -/
theorem reported_pair_collides (cs : List Claimed) (a b : Claimed) (h : firstCollision cs = some (a, b)) :
    Collide a b ∧ a ∈ cs ∧ b ∈ cs := by
  induction cs with
  | nil => simp [firstCollision] at h
  | cons c rest ih =>
    unfold firstCollision at h
    cases hf : rest.find? (fun o => o.address == c.address && o.kind == c.kind && !(c.allowOverlap && o.allowOverlap)) with
    | some o =>
      rw [hf] at h
      simp only [Option.some.injEq, Prod.mk.injEq] at h
      obtain ⟨rfl, rfl⟩ := h
      have hp := List.find?_some hf
      have hm := List.mem_of_find?_eq_some hf
      exact ⟨(collide_iff_test c o).1 hp, List.mem_cons_self .., List.mem_cons_of_mem _ hm⟩
    | none =>
      rw [hf] at h
      obtain ⟨h1, h2, h3⟩ := ih h
      exact ⟨h1, List.mem_cons_of_mem _ h2, List.mem_cons_of_mem _ h3⟩

/-- **Objects of different kinds never collide.** -/
theorem kinds_never_collide (a b : Claimed) (h : a.kind ≠ b.kind) : ¬ Collide a b :=
  fun hc => h hc.2.1

/-- **An object can collide with itself**: two indices of one repeated object with stride 0 are two
    instances at one address. -/
example : firstCollision
    [⟨"R", some 0, 5, false, .register⟩, ⟨"R", some 1, 5, false, .register⟩] ≠ none := by decide

/-- **Rejected iff some two instances collide; the error names both objects and the shared
    address.** -/
theorem collision_reject_iff {α : Type} (claimed : List Claimed) (x : α) :
    (reportCollision claimed x = .ok x ↔ claimed.Pairwise (fun a b => ¬ Collide a b)) ∧
    (∀ s, reportCollision claimed x = .error s →
      ∃ a b : Claimed, a ∈ claimed ∧ b ∈ claimed ∧ Collide a b ∧
        s = .error { stage := "lir", kind := "address_collision",
                     names := [displayName a, displayName b], numbers := [a.address] }) := by
  unfold reportCollision
  cases hf : firstCollision claimed with
  | none =>
    simp only [true_iff]
    exact ⟨(no_collision_iff claimed).1 hf, fun s h => by cases h⟩
  | some p =>
    obtain ⟨a, b⟩ := p
    simp only [reduceCtorEq, false_iff]
    refine ⟨?_, ?_⟩
    · intro hp
      have := (no_collision_iff claimed).2 hp
      rw [hf] at this; cases this
    · intro s h
      obtain ⟨h1, h2, h3⟩ := reported_pair_collides claimed a b hf
      exact ⟨a, b, h2, h3, h1, (Except.error.inj h).symm⟩

end DDV.Props.C12
