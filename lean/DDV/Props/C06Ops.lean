/-
  C06 (field-set value operations) — the emitted `From<[u8; N]>` / `From<FieldSet> for [u8; N]` pair and
  the bitwise operator impls of a generated field set (`field_set_transform.rs:39-60, 204-270`): the
  conversions move the array in and out unchanged, `&`, `|`, `^` combine byte by byte
  (`for (l, r) in self.bits.iter_mut().zip(&rhs.bits) { *l op= *r }`), `!` inverts every byte.
  Stated on the set-bits of the documented numbering (`DDV.Bits.physBit`): every bit of the set takes part.
-/
import DDV.Bits.Spec

namespace DDV.Props.C06Ops
open DDV.Bits

/-- `FieldSet::from(bytes)` then `<[u8; N]>::from(fs)`. -/
def fromBytes (b : List Byte) : List Byte := b
def intoBytes (fs : List Byte) : List Byte := fs
def fsAnd (a b : List Byte) : List Byte := List.zipWith (· &&& ·) a b
def fsOr (a b : List Byte) : List Byte := List.zipWith (· ||| ·) a b
def fsXor (a b : List Byte) : List Byte := List.zipWith (· ^^^ ·) a b
def fsNot (a : List Byte) : List Byte := a.map (~~~ ·)

/-- **Converting a field set to and from its byte array is the identity on the bytes.** -/
theorem bytes_roundtrip (b : List Byte) : intoBytes (fromBytes b) = b := rfl
theorem bytes_roundtrip_back (fs : List Byte) : fromBytes (intoBytes fs) = fs := rfl

theorem zipWith_getD (f : Byte → Byte → Byte) (h0 : f 0#8 0#8 = 0#8) :
    ∀ (a b : List Byte) (i : Nat), a.length = b.length → (List.zipWith f a b).getD i 0#8 = f (a.getD i 0#8) (b.getD i 0#8) := by
  intro a
  induction a with
  | nil => intro b i h; cases b <;> simp_all
  | cons x xs ih =>
    intro b i h
    cases b with
    | nil => simp at h
    | cons y ys =>
      cases i with
      | zero => simp
      | succ i => simpa using ih ys i (by simpa using h)

/-- **The bitwise operators act on all underlying bits**: every set-bit of the result, under either
    byte and bit order, is the operator applied to the same set-bit of the operands. -/
theorem and_all_bits (bo : ByteOrder) (bito : BitOrder) (a b : List Byte) (h : a.length = b.length) (k : Nat) :
    physBit bo bito (fsAnd a b) k = (physBit bo bito a k && physBit bo bito b k) := by
  unfold physBit byteAt fsAnd
  rw [List.length_zipWith, ← h, Nat.min_self, zipWith_getD _ (by decide) a b _ h]
  simp [h]

theorem or_all_bits (bo : ByteOrder) (bito : BitOrder) (a b : List Byte) (h : a.length = b.length) (k : Nat) :
    physBit bo bito (fsOr a b) k = (physBit bo bito a k || physBit bo bito b k) := by
  unfold physBit byteAt fsOr
  rw [List.length_zipWith, ← h, Nat.min_self, zipWith_getD _ (by decide) a b _ h]
  simp [h]

theorem xor_all_bits (bo : ByteOrder) (bito : BitOrder) (a b : List Byte) (h : a.length = b.length) (k : Nat) :
    physBit bo bito (fsXor a b) k = (physBit bo bito a k ^^ physBit bo bito b k) := by
  unfold physBit byteAt fsXor
  rw [List.length_zipWith, ← h, Nat.min_self, zipWith_getD _ (by decide) a b _ h]
  simp [h]

/-- `!fs` inverts every set-bit inside the array (`k < 8 · len`). -/
theorem not_all_bits (bo : ByteOrder) (bito : BitOrder) (a : List Byte) (k : Nat) (hk : k < 8 * a.length) :
    physBit bo bito (fsNot a) k = !physBit bo bito a k := by
  unfold physBit byteAt fsNot
  have hi : specByteIndex bo a.length k < a.length := by
    unfold specByteIndex; cases bo <;> simp <;> omega
  have hb : specBitInByte bito k < 8 := by unfold specBitInByte; cases bito <;> simp <;> omega
  simp only [List.length_map]
  have hm : ∀ (l : List Byte) (i : Nat), i < l.length → (l.map (~~~ ·)).getD i 0#8 = ~~~ (l.getD i 0#8) := by
    intro l
    induction l with
    | nil => intro i h; simp at h
    | cons x xs ih =>
      intro i h
      cases i with
      | zero => simp
      | succ i => simpa using ih i (by simpa using h)
  rw [hm a _ hi]
  simp [hb]

/-- The operators keep the array length (`[u8; N]` stays `[u8; N]`). -/
theorem ops_keep_length (a b : List Byte) (h : a.length = b.length) :
    (fsAnd a b).length = a.length ∧ (fsOr a b).length = a.length ∧ (fsXor a b).length = a.length ∧ (fsNot a).length = a.length := by
  simp [fsAnd, fsOr, fsXor, fsNot, h]

example : fsAnd [0xF0#8, 0x0F#8] [0x3C#8, 0x3C#8] = [0x30#8, 0x0C#8] := by decide

end DDV.Props.C06Ops
