/-
  C09 (generator ⋈ runtime) — command dispatch through *generated* accessors: which of `()` /
  `<Cmd>FieldsIn` / `<Cmd>FieldsOut` the emitted accessor hands to `CommandOperation`, and the single
  interface call that results (`DDV.Props.C09.dispatch_protocol`).
-/
import DDV.Gen.Lemmas.OpSem
import DDV.Props.C09

namespace DDV.Props.C09Wire
open DDV.Gen DDV.Proto
set_option linter.unusedSimpArgs false
set_option linter.unusedVariables false

/-- The two field sets an accessor looks up for command `c`. -/
theorem command_field_set_lookup (n : Names) (name : String) (d : Device) (l : Lir) (c : Command)
    (hl : lower n name d = .ok l) (hc : Object.command c ∈ allObjects d.objects)
    (hu : (fieldSetNames d).Nodup) :
    (∃ i, l.fieldSet s!"{c.name}FieldsIn" = some i ∧ i.sizeBits = c.sizeBitsIn) ∧
    (∃ o, l.fieldSet s!"{c.name}FieldsOut" = some o ∧ o.sizeBits = c.sizeBitsOut) := by
  have hf := lower_fieldSets n name d l hl
  obtain ⟨i, hi, o, ho, h1, h2, h3, h4⟩ := transformFieldSets_command d _ _ c hf hc
  have hnames := transformFieldSets_names d _ _ hf
  have hnd : (l.fieldSets.map fun (x : LFieldSet) => x.name).Nodup := by rw [hnames]; exact hu
  refine ⟨⟨i, ?_, h2⟩, ⟨o, ?_, h4⟩⟩
  · unfold Lir.fieldSet
    have := find_by_key (fun (x : LFieldSet) => x.name) l.fieldSets i hi hnd
    simpa [h1] using this
  · unfold Lir.fieldSet
    have := find_by_key (fun (x : LFieldSet) => x.name) l.fieldSets o ho hnd
    simpa [h3] using this

/-- **The operation behind a command accessor** (C09, generator half): a side without fields is the
    unit type — no bytes, size 0 on the wire — and a side with fields is the field set of the
    declared size. -/
theorem command_accessor_operation (n : Names) (name : String) (d : Device) (l : Lir) (c : Command)
    (hl : lower n name d = .ok l) (hc : Object.command c ∈ allObjects d.objects)
    (hu : (fieldSetNames d).Nodup) (addr : Int) :
    l.commandOperation (methodOf n d.config (.command c)) addr =
      some { addr := addr,
             sizeIn := if c.inFields.isEmpty then none else some c.sizeBitsIn,
             sizeOut := if c.outFields.isEmpty then none else some c.sizeBitsOut } := by
  obtain ⟨⟨i, hi, hi2⟩, ⟨o, ho, ho2⟩⟩ := command_field_set_lookup n name d l c hl hc hu
  unfold Lir.commandOperation Lir.sideSize
  simp only [methodOf]
  cases h1 : c.inFields.isEmpty <;> cases h2 : c.outFields.isEmpty <;>
    simp [hi, ho, hi2, ho2]

/-- **C09 through generated code**: dispatching through the accessor of a command of an accepted
    definition makes exactly the one interface call the property prescribes, with the declared
    sizes (0 and no bytes for a side without fields). -/
theorem dispatch_through_accessor (n : Names) (name : String) (d : Device) (l : Lir) (c : Command)
    (hl : lower n name d = .ok l) (hc : Object.command c ∈ allObjects d.objects)
    (hu : (fieldSetNames d).Nodup) (addr : Int) (f : Command.InClosure) (env : Env) :
    ∃ spec, l.commandOperation (methodOf n d.config (.command c)) addr = some spec ∧
      (runBlocking (Command.dispatch spec f) env).1.log = env.log ++
        [.cmd addr (if c.inFields.isEmpty then 0 else c.sizeBitsIn)
              (if c.inFields.isEmpty then [] else f (zeros (bytesOf c.sizeBitsIn)))
              (if c.outFields.isEmpty then 0 else c.sizeBitsOut)
              (if c.outFields.isEmpty then [] else zeros (bytesOf c.sizeBitsOut))] := by
  refine ⟨_, command_accessor_operation n name d l c hl hc hu addr, ?_⟩
  rw [DDV.Props.C09.dispatch_protocol]
  simp only [DDV.Props.C09.expectedCall]
  cases h1 : c.inFields.isEmpty <;> cases h2 : c.outFields.isEmpty <;> simp


end DDV.Props.C09Wire
