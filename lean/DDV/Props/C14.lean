import DDV.Gen.Lemmas.Tree
namespace DDV.Props.C14
theorem placeholder : True := trivial
end DDV.Props.C14
