/-
  C14 — Name and reference validation accepts exactly resolvable, collision-free input.
  (work in progress: pass-order obligation; accept-iff theorems follow)
-/
import DDV.Extracted.Tables
import DDV.Gen.Pipeline

namespace DDV.Props.C14
open DDV.Gen

/-- The statement order of `run_passes` in the source is the order `runPasses` composes the passes
    in (so e.g. refs are validated before anything dereferences them). -/
theorem pass_order_matches_model : DDV.Extracted.passOrder = DDV.Gen.passOrder := by decide

theorem refs_validated_before_reset_values :
    (DDV.Extracted.passOrder.idxOf "refs_validated") < (DDV.Extracted.passOrder.idxOf "reset_values_converted") := by
  decide

end DDV.Props.C14
