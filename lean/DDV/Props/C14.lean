/-
  C14 — Name and reference validation accepts exactly resolvable, collision-free input.
-/
import DDV.Extracted.Tables
import DDV.Gen.Pipeline
import DDV.Gen.Lemmas.Tree
import DDV.Gen.Lemmas.Names

namespace DDV.Props.C14
open DDV.Gen
set_option linter.unusedVariables false
set_option linter.unusedSimpArgs false

/-- The statement order of `run_passes` in the source is the order `runPasses` composes the passes
    in (so e.g. refs are validated before anything dereferences them). -/
theorem pass_order_matches_model : DDV.Extracted.passOrder = DDV.Gen.passOrder := by decide

theorem refs_validated_before_reset_values :
    (DDV.Extracted.passOrder.idxOf "refs_validated") < (DDV.Extracted.passOrder.idxOf "reset_values_converted") := by
  decide

/-! ### Names -/

/-- The property's collision-freeness, on the (already normalised) names: over all objects of the
    tree at any depth, no two objects with the same name and cfg; within one field set no two fields
    with the same name; over the whole definition no two generated enums with the same name and cfg;
    within one enum no two variants with the same name and cfg. -/
structure NamesOk (d : Device) : Prop where
  objects : ((allObjects d.objects).map objKey).Nodup
  fields : ∀ o ∈ allObjects d.objects, ∀ fs ∈ o.fieldSets, (fs.map (·.name)).Nodup
  enums : ((enumsOfObjs (allObjects d.objects)).map enumKey).Nodup
  variants : ∀ e ∈ enumsOfObjs (allObjects d.objects), (e.variants.map variantKey).Nodup

/-- **Names, acceptance.** `names_unique` (run on the normalised names) accepts iff the definition
    is collision free in the sense above; since it returns `Except`, a rejection is a reported
    error, never a panic. -/
theorem names_accept_iff (d : Device) : isOk (namesUnique d) ↔ NamesOk d := by
  rw [namesUnique_ok_iff, ObjsOk_iff]
  simp only [List.not_mem_nil, not_false_eq_true, implies_true, true_and]
  exact ⟨fun ⟨a, b, c, e⟩ => ⟨a, b, c, e⟩, fun h => ⟨h.objects, h.fields, h.enums, h.variants⟩⟩

/-- … and it leaves the definition unchanged. -/
theorem names_unique_is_a_check (d d' : Device) (h : namesUnique d = .ok d') : d' = d := by
  unfold namesUnique at h
  cases hh : (allObjects d.objects).foldlM namesStep ({} : Seen) with
  | error e => rw [hh] at h; cases h
  | ok s => rw [hh] at h; exact (Except.ok.inj h).symm

/-- Non-vacuity: two registers `A`, `B`, the first with fields `x`, `y` and an inline enum. -/
example : NamesOk { config := {}, objects := [
    .register { name := "A", access := .rw, byteOrder := none, bitOrder := .lsb0, allowBitOverlap := false,
                allowAddressOverlap := false, address := 0, sizeBits := 8, reset := none, repeat_ := none,
                fields := [{ name := "x", access := .rw, base := .uint, start := 0, stop := 2,
                             conv := some (.enum { name := "E", variants := [{ name := "P", value := .unspecified },
                                                                                { name := "Q", value := .default }] } false) },
                           { name := "y", access := .rw, base := .uint, start := 2, stop := 4 }] },
    .register { name := "B", access := .rw, byteOrder := none, bitOrder := .lsb0, allowBitOverlap := false,
                allowAddressOverlap := false, address := 1, sizeBits := 8, reset := none, repeat_ := none,
                fields := [] }] } :=
  (names_accept_iff _).1 ⟨_, rfl⟩

/-- … and the same with the second register also called `A` is rejected. -/
example : ¬ NamesOk { config := {}, objects := [
    .register { name := "A", access := .rw, byteOrder := none, bitOrder := .lsb0, allowBitOverlap := false,
                allowAddressOverlap := false, address := 0, sizeBits := 8, reset := none, repeat_ := none, fields := [] },
    .block { name := "Blk", addressOffset := 0, repeat_ := none } [
      .command { name := "A", address := 1, byteOrder := none, bitOrder := .lsb0, allowBitOverlap := false,
                 allowAddressOverlap := false, sizeBitsIn := 0, sizeBitsOut := 0, repeat_ := none,
                 inFields := [], outFields := [] }]] } := by
  intro h
  have := h.objects
  revert this
  decide

/-! ### Refs -/

/-- every ref of kind `k` targets the name of a real object of kind `k` -/
def RefsResolve (objs : List Object) (k : RefKind) : Prop :=
  ∀ x ∈ refsOfKind objs k, x.1 ∈ realsOfKind objs k

theorem reportBadRefs_ok_iff (refs bad : List (String × String)) (k : RefKind) :
    reportBadRefs refs bad k = .ok () ↔ bad = [] := by
  unfold reportBadRefs
  cases bad <;> simp

theorem reportBadRefs_error (refs bad : List (String × String)) (k : RefKind) (s : Stop)
    (h : reportBadRefs refs bad k = .error s) : ∃ e, s = .error e ∧ e.names.length = 2 := by
  unfold reportBadRefs at h
  cases bad with
  | nil => cases h
  | cons b bs => exact ⟨_, (Except.error.inj h).symm, rfl⟩

theorem checkRefKind_ok_iff (objs : List Object) (k : RefKind) :
    checkRefKind objs k = .ok () ↔ RefsResolve objs k := by
  unfold checkRefKind RefsResolve
  rw [reportBadRefs_ok_iff, List.filter_eq_nil_iff]
  constructor
  · intro h x hx
    have := h x hx
    simp only [Bool.not_eq_true', Bool.not_eq_false, Bool.not_not] at this
    exact List.contains_iff_mem.1 (by simpa using this)
  · intro h x hx
    have := h x hx
    simp [this]

/-- **Refs, acceptance.** `refs_validated` accepts iff every block / register / command ref
    targets an existing object of the kind its override states (a missing target and a target of
    another kind are both "unknown <kind>"); it never panics, and the error names the ref and its
    target. -/
theorem refs_accept_iff (d : Device) :
    refsValidated d = .ok d ↔
      RefsResolve (allObjects d.objects) .block ∧ RefsResolve (allObjects d.objects) .register ∧
      RefsResolve (allObjects d.objects) .command := by
  unfold refsValidated
  simp only
  rw [← checkRefKind_ok_iff, ← checkRefKind_ok_iff, ← checkRefKind_ok_iff]
  cases h1 : checkRefKind (allObjects d.objects) .block with
  | error e => simp
  | ok u =>
    cases h2 : checkRefKind (allObjects d.objects) .register with
    | error e => simp
    | ok u2 =>
      cases h3 : checkRefKind (allObjects d.objects) .command with
      | error e => simp
      | ok u3 => simp

theorem refs_rejection_is_an_error (d : Device) (s : Stop) (h : refsValidated d = .error s) :
    ∃ e, s = .error e ∧ e.names.length = 2 := by
  have hk : ∀ k s', checkRefKind (allObjects d.objects) k = .error s' → ∃ e, s' = .error e ∧ e.names.length = 2 := by
    intro k s' h'
    exact reportBadRefs_error _ _ k s' h'
  unfold refsValidated at h
  simp only at h
  cases h1 : checkRefKind (allObjects d.objects) .block with
  | error e => rw [h1] at h; exact hk _ _ (by rw [h1]; exact congrArg _ (Except.error.inj h))
  | ok u =>
    rw [h1] at h
    simp only at h
    cases h2 : checkRefKind (allObjects d.objects) .register with
    | error e => rw [h2] at h; exact hk _ _ (by rw [h2]; exact congrArg _ (Except.error.inj h))
    | ok u2 =>
      rw [h2] at h
      simp only at h
      cases h3 : checkRefKind (allObjects d.objects) .command with
      | error e => rw [h3] at h; exact hk _ _ (by rw [h3]; exact congrArg _ (Except.error.inj h))
      | ok u3 => rw [h3] at h; cases h

/-- **Resolution anywhere in the tree.** With distinct object names, looking a name up by the
    depth-first search used for ref resolution finds exactly the object of that name, wherever it
    is declared (before or after the ref, at any depth). -/
theorem ref_resolves_anywhere (os : List Object) (o : Object) (ho : o ∈ allObjects os)
    (hnd : ((allObjects os).map (·.name)).Nodup) : searchObject o.name os = some o := by
  unfold searchObject
  generalize allObjects os = l at ho hnd
  induction l with
  | nil => cases ho
  | cons y ys ih =>
    simp only [List.map_cons, List.nodup_cons] at hnd
    unfold List.find?
    by_cases hk : y.name = o.name
    · simp only [hk, beq_self_eq_true]
      cases ho with
      | head => rfl
      | tail _ hmem => exact absurd (List.mem_map.2 ⟨o, hmem, hk.symm⟩) hnd.1
    · have : (y.name == o.name) = false := by simp [hk]
      simp only [this]
      cases ho with
      | head => exact absurd rfl hk
      | tail _ hmem => exact ih hmem hnd.2

/-! ### Device name -/

/-- The device name must be a fixed point of the lenient PascalCase conversion; otherwise the
    lowering reports `device_name_not_pascal` naming the expected spelling. -/
theorem device_name_check (n : Names) (name : String) (d : Device) (h : name ≠ n.devicePascal) :
    lower n name d = .error (lowerErr "device_name_not_pascal" [n.devicePascal]) := by
  unfold lower
  simp [h, bind, Except.bind, throw, throwThe, MonadExceptOf.throw]

/-! ### Front ends: refs to buffers / refs and layout keys in overrides -/

theorem ref_to_buffer_or_ref_rejected (target : String) (ov : AOverride) :
    (ov.kind = "buffer" → dslOverride target ov = .error (frontErr "front_ref_buffer") ∧
                          ∀ s, manOverride s target ov = .error (frontErr "front_ref_buffer")) ∧
    (ov.kind = "ref" → dslOverride target ov = .error (frontErr "front_ref_ref") ∧
                       ∀ s, manOverride s target ov = .error (frontErr "front_ref_ref")) := by
  constructor
  · intro hk
    constructor
    · unfold dslOverride
      simp [hk, bind, Except.bind, throw, throwThe, MonadExceptOf.throw]
    · intro s; unfold manOverride
      simp [hk, bind, Except.bind, throw, throwThe, MonadExceptOf.throw]
  · intro hk
    constructor
    · unfold dslOverride
      simp [hk, bind, Except.bind, throw, throwThe, MonadExceptOf.throw]
    · intro s; unfold manOverride
      simp [hk, bind, Except.bind, throw, throwThe, MonadExceptOf.throw]

theorem override_layout_keys_rejected (target : String) (ov : AOverride) (hil : ov.illegal ≠ [])
    (hk : ov.kind = "block" ∨ ov.kind = "register" ∨ ov.kind = "command") :
    dslOverride target ov = .error (frontErr "front_override_layout") ∧
    ∀ s, manOverride s target ov = .error (frontErr "front_override_layout") := by
  have hne : ov.illegal.isEmpty = false := by
    cases h : ov.illegal with
    | nil => exact absurd h hil
    | cons a as => rfl
  constructor
  · unfold dslOverride
    rcases hk with hk | hk | hk <;>
      simp [hk, hne, bind, Except.bind, pure, Except.pure, throw, throwThe, MonadExceptOf.throw]
  · intro s
    unfold manOverride
    rcases hk with hk | hk | hk <;>
      simp [hk, hne, bind, Except.bind, pure, Except.pure, throw, throwThe, MonadExceptOf.throw]

end DDV.Props.C14
