/-
  C19 — Every accepted definition yields Rust that type-checks.

  There is no formal model of Rust's type system here, so this property is decided in two layers:
  the theorems below prove *necessary* well-formedness conditions of the emitted items over the
  model of the generator (referenced items exist, names agree between the referencing and the
  defining site, discriminants are distinct, called getters exist), and rustc itself is the oracle
  for sufficiency: every accepted definition the harness generates is compiled (`cargo check`,
  `#![no_std]`, against /repo/device-driver).
-/
import DDV.Gen.Emit
import DDV.Gen.Lemmas.Enum
import DDV.Props.C15
import DDV.Gen.Lemmas.LowerTree

namespace DDV.Props.C19
open DDV.Gen
set_option linter.unusedVariables false
set_option linter.unusedSimpArgs false

/-- A register accessor refers to the field-set type named like the register, with the address
    type of the global config, the register's access marker and the `new` constructor. -/
theorem register_accessor_refers_to_its_field_set (n : Names) (cfg : GlobalConfig) (all : List Object)
    (r : Register) (t : Integer) (hc : cfg.registerAddressType = some t) (fuel : Nat) :
    ∃ m, getMethod n cfg all "new" (fuel + 1) (.register r) = .ok (m, []) ∧
      m.target = some r.name ∧ m.addressType = some t ∧ m.access = some r.access ∧ m.resetFn = some "new" := by
  unfold getMethod
  simp [hc, bind, Except.bind, pure, Except.pure]

/-- The field set that accessor refers to is emitted under exactly that name (`transform_field_set`
    is called with `format_ident!("{}", r.name)`), with the register's size. -/
theorem register_field_set_is_emitted (enums : List Enum) (r : Register) (bo : DDV.Bits.ByteOrder)
    (reset : Option (List Nat)) (refs : List (String × List Nat)) (fs : LFieldSet)
    (h : transformFieldSet enums r.fields r.name r.cfg bo r.bitOrder r.sizeBits reset refs = .ok fs) :
    fs.name = r.name ∧ fs.sizeBits = r.sizeBits ∧ fs.refResets = refs ∧ fs.cfg = r.cfg := by
  unfold transformFieldSet at h
  simp only [bind, Except.bind, pure, Except.pure] at h
  cases hm : r.fields.mapM (transformField enums) with
  | error e => rw [hm] at h; cases h
  | ok x => rw [hm] at h; simp only [Except.ok.injEq] at h; rw [← h]; exact ⟨rfl, rfl, rfl, rfl⟩

/-- A command uses the unit type exactly for an absent field list, and otherwise the names
    `<Command>FieldsIn` / `<Command>FieldsOut` under which its two field sets are emitted. -/
theorem command_accessor_sets (n : Names) (cfg : GlobalConfig) (all : List Object) (c : Command)
    (t : Integer) (hc : cfg.commandAddressType = some t) (fuel : Nat) :
    ∃ m, getMethod n cfg all "new" (fuel + 1) (.command c) = .ok (m, []) ∧
      (m.inSet = if c.inFields.isEmpty then none else some s!"{c.name}FieldsIn") ∧
      (m.outSet = if c.outFields.isEmpty then none else some s!"{c.name}FieldsOut") := by
  unfold getMethod
  simp [hc, bind, Except.bind, pure, Except.pure]

/-- Discriminants of an accepted cfg-free enum are pairwise distinct (so `#[repr(..)] enum` has no
    duplicate discriminant error): from the analysis' distinctness condition (C15). -/
theorem discriminants_distinct (e : Enum) (hcfg : ∀ v ∈ e.variants, v.cfg = none)
    (hd : ((specNumbers e.variants none).zip (e.variants.map (·.cfg))).Nodup) :
    (specNumbers e.variants none).Nodup := by
  have hlen : ∀ (vs : List EnumVariant) (last : Option Int), (specNumbers vs last).length = vs.length := by
    intro vs
    induction vs with
    | nil => intro last; rfl
    | cons v vs ih => intro last; simp [specNumbers, ih]
  have hmap : (e.variants.map (·.cfg)) = List.replicate e.variants.length none := by
    apply List.eq_replicate_iff.2
    exact ⟨by simp, fun c hc => by obtain ⟨v, hv, rfl⟩ := List.mem_map.1 hc; exact hcfg v hv⟩
  rw [hmap] at hd
  generalize hl : specNumbers e.variants none = ns at hd
  have hlen' : ns.length = e.variants.length := by rw [← hl]; exact hlen _ _
  clear hl hmap
  generalize e.variants.length = k at hd hlen'
  induction ns generalizing k with
  | nil => exact List.nodup_nil
  | cons a as ih =>
    cases k with
    | zero => simp at hlen'
    | succ k =>
      simp only [List.replicate_succ, List.zip_cons_cons, List.nodup_cons] at hd ⊢
      refine ⟨?_, ih k hd.2 (by simpa using hlen')⟩
      intro hmem
      apply hd.1
      have : as.length = k := by simpa using hlen'
      rw [List.mem_iff_getElem] at hmem ⊢
      obtain ⟨i, hi, hget⟩ := hmem
      exact ⟨i, by simp [this] at hi ⊢; omega, by simp [hget]⟩

/-- … hence the discriminants actually written into the emitted `enum` (the second, independent
    numbering done in `transform_enum`) are pairwise distinct for every enum the analysis accepts. -/
theorem emitted_discriminants_distinct (e : Enum) (w : Nat) (base : BaseType) (useTry : Bool)
    (hcfg : ∀ v ∈ e.variants, v.cfg = none) (hok : DDV.Props.C15.EnumOk w base e useTry) :
    ((numberVariants (assignValues e.variants none).1 none).map (·.number)).Nodup := by
  rw [DDV.Props.C15.numbering_agree]
  exact discriminants_distinct e hcfg hok.distinct

/-- The `Debug` impl calls the getter of every field; a field set all of whose fields are readable
    therefore only calls getters that exist. (The full statement — for every field set — is false
    of the current tree: finding F11, write-only fields.) -/
theorem debug_calls_existing_getters (bo : DDV.Bits.ByteOrder) (bito : DDV.Bits.BitOrder) (fs : LFieldSet)
    (hr : ∀ f ∈ fs.fields, f.access.readable = true) :
    ∀ f ∈ fs.fields, getterJson bo bito f ≠ Lean.Json.null := by
  intro f hf
  unfold getterJson
  simp [hr f hf, Lean.Json.mkObj]

/-- **An accessor for every declared object** (ref-free trees): whenever the lowering succeeds,
    the root block has, in declaration order, one accessor per top-level object, named after it and
    of its kind, and every nested block has its own block struct with one accessor per child. -/
theorem accessor_for_every_object (n : Names) (cfg : GlobalConfig) (all : List Object) (fuel : Nat)
    (deviceName : String) (os : List Object) (blocks : List LBlock)
    (hrf : RefFreeList os) (hl : collectIntoBlocks n cfg all fuel none deviceName true os = .ok blocks) :
    ∃ root rest, blocks = root :: rest ∧ root.name = deviceName ∧
      root.methods = os.map (methodOf n cfg) ∧ rest = blocksOfList n cfg os := by
  unfold collectIntoBlocks at hl
  simp only [bind, Except.bind, pure, Except.pure] at hl
  cases hc : collectMethods n cfg all fuel os with
  | error e => rw [hc] at hl; cases hl
  | ok p =>
    obtain ⟨ms, bs⟩ := p
    rw [hc] at hl
    simp only [Except.ok.injEq] at hl
    obtain ⟨e1, e2⟩ := (lowering_structure n cfg all fuel).2 os ms bs hrf hc
    refine ⟨_, _, hl.symm, rfl, ?_, e2⟩
    rw [e1, methodsOfList_eq_map]

/-- … and the accessor of an object has the object's name (normalised once more for methods), kind
    and — for registers and buffers — access marker. -/
theorem accessor_shape (n : Names) (cfg : GlobalConfig) :
    (∀ r, (methodOf n cfg (.register r)).name = n.method r.name ∧ (methodOf n cfg (.register r)).kind = .register ∧
          (methodOf n cfg (.register r)).access = some r.access ∧ (methodOf n cfg (.register r)).target = some r.name) ∧
    (∀ c, (methodOf n cfg (.command c)).name = n.method c.name ∧ (methodOf n cfg (.command c)).kind = .command) ∧
    (∀ b, (methodOf n cfg (.buffer b)).name = n.method b.name ∧ (methodOf n cfg (.buffer b)).kind = .buffer ∧
          (methodOf n cfg (.buffer b)).access = some b.access) ∧
    (∀ h cs, (methodOf n cfg (.block h cs)).name = n.method h.name ∧ (methodOf n cfg (.block h cs)).kind = .block ∧
             (methodOf n cfg (.block h cs)).target = some h.name) :=
  ⟨fun _ => ⟨rfl, rfl, rfl, rfl⟩, fun _ => ⟨rfl, rfl⟩, fun _ => ⟨rfl, rfl, rfl⟩, fun _ _ => ⟨rfl, rfl, rfl⟩⟩

end DDV.Props.C19
