import DDV.Gen.Emit
namespace DDV.Props.C19
theorem placeholder : True := trivial
end DDV.Props.C19
