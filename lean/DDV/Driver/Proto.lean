import DDV.Proto.Ops
import DDV.Driver.Util

/-!
  `ddv-driver proto` — evaluates the operation models.

  Lines:
  * `R <op> <async> <addr> <sizeBits> <resetHex> <xorHex> <ret> <script> <pend>`
        op ∈ write | wzero | read | modify
  * `C <async> <addr> <sizeIn|-> <sizeOut|-> <xorHex> <script> <pend>`
  * `B <op> <via> <async> <addr> <bufHex> <script> <pend>`
        op ∈ write | write_all | flush | read | read_exact ; via ∈ inherent | trait
  `<script>` = `n` followed by n entries `E:<code>` | `K:<count>:<fillHex>`;
  `<pend>` = `m` followed by m numbers (the n-th interface future is Pending that many times).
  Output: `log=<call;call;…> res=<result> buf=<hex> polls=<n>`
  (`polls` is 0 for blocking operations).
-/
namespace DDV.Driver.ProtoDrv
open DDV.Proto DDV.Driver
open DDV.Bits (Byte)

def xorCyclic (mask : List Byte) (b : List Byte) : List Byte :=
  if mask.isEmpty then b else
  (b.zipIdx).map fun (x, i) => x ^^^ mask.getD (i % mask.length) 0#8

def parseEntry (s : String) : Option Entry :=
  match s.splitOn ":" with
  | ["E", c] => c.toNat?.map Entry.err
  | ["K", n, fill] => do
    let n ← n.toNat?
    let f ← parseHexBytes fill
    some (Entry.ok n f)
  | _ => none

def takeN {α : Type} (parse : String → Option α) : Nat → List String → Option (List α × List String)
  | 0, rest => some ([], rest)
  | n + 1, x :: rest => do
    let a ← parse x
    let (as, rest') ← takeN parse n rest
    some (a :: as, rest')
  | _, [] => none

def parseScriptPend (ws : List String) : Option (List Entry × List Nat) :=
  match ws with
  | n :: rest => do
    let n ← n.toNat?
    let (script, rest') ← takeN parseEntry n rest
    match rest' with
    | m :: rest'' => do
      let m ← m.toNat?
      let (pend, tail) ← takeN String.toNat? m rest''
      if tail.isEmpty then some (script, pend) else none
    | [] => none
  | [] => none

def showReq : Req → String
  | .regWrite a s d => s!"w:{a}:{s}:{hexOfBytes d}"
  | .regRead a s b => s!"r:{a}:{s}:{hexOfBytes b}"
  | .cmd a si i so o => s!"c:{a}:{si}:{hexOfBytes i}:{so}:{hexOfBytes o}"
  | .bufWrite a d => s!"bw:{a}:{hexOfBytes d}"
  | .bufFlush a => s!"bf:{a}"
  | .bufRead a b => s!"br:{a}:{hexOfBytes b}"

def showLog (l : List Req) : String :=
  if l.isEmpty then "-" else ";".intercalate (l.map showReq)

def showRes : Res → String
  | .error e => s!"err:{e}"
  | .ok .unit => "unit"
  | .ok (.num n) => s!"ok:{n}"
  | .ok (.bytes b) => s!"bytes:{hexOfBytes b}"
  | .ok .eof => "eof"
  | .ok (.other e) => s!"other:{e}"

def pendFn (pend : List Nat) (n : Nat) : Nat := pend.getD n 0

/-- Run a program blocking or through the poll machine. -/
def exec {α : Type} (isAsync : Bool) (prog : Prog α) (script : List Entry) (pend : List Nat) :
    Option (Env × Outcome α × Nat) :=
  if isAsync then
    let fuel := 2 + pendSum (pendFn pend) prog ⟨[], script⟩ 0
    drive (pendFn pend) fuel ⟨prog, none, ⟨[], script⟩, 0⟩ 0
  else
    let (env, o) := runBlocking prog ⟨[], script⟩
    some (env, o, 0)

def fmt (r : Option (Env × Outcome Res × Nat)) (buf : String := "-") : String :=
  match r with
  | none => "stuck"
  | some (env, .ret res, polls) => s!"log={showLog env.log} res={showRes res} buf={buf} polls={polls}"
  | some (env, .panic _, polls) => s!"log={showLog env.log} res=panic buf=- polls={polls}"

def fmt2 (r : Option (Env × Outcome (Res × List Byte) × Nat)) : String :=
  match r with
  | none => "stuck"
  | some (env, .ret (res, buf), polls) =>
    s!"log={showLog env.log} res={showRes res} buf={hexOfBytes buf} polls={polls}"
  | some (env, .panic _, polls) => s!"log={showLog env.log} res=panic buf=- polls={polls}"

def optNat (s : String) : Option (Option Nat) :=
  if s = "-" then some none else s.toNat?.map some

/-- A case line may end in ` #…`: a note for the reader (the operations made before this one on the same
    operation object), not part of the case - operations do not depend on the object's past. -/
def stripNote (line : String) : String := (line.splitOn " #").headD line

def step (line : String) : String :=
  match words (stripNote line) with
  | "R" :: op :: asy :: addr :: size :: reset :: xor :: ret :: rest =>
    match addr.toInt?, size.toNat?, parseHexBytes reset, parseHexBytes xor, ret.toNat?, parseScriptPend rest with
    | some addr, some size, some reset, some xor, some ret, some (script, pend) =>
      let r : RegSpec := ⟨addr, size, reset⟩
      let f : Closure := fun b => (xorCyclic xor b, ret)
      let a : Bool := asy == "1"
      match op with
      | "write" => fmt (exec a (if a then Register.writeAsync r f else Register.write r f) script pend)
      | "wzero" => fmt (exec a (if a then Register.writeWithZeroAsync r f else Register.writeWithZero r f) script pend)
      | "read" => fmt (exec a (if a then Register.readAsync r else Register.read r) script pend)
      | "modify" => fmt (exec a (if a then Register.modifyAsync r f else Register.modify r f) script pend)
      | _ => "bad-op"
    | _, _, _, _, _, _ => "bad-op"
  | "C" :: asy :: addr :: si :: so :: xor :: rest =>
    match addr.toInt?, optNat si, optNat so, parseHexBytes xor, parseScriptPend rest with
    | some addr, some si, some so, some xor, some (script, pend) =>
      let c : Command.CmdSpec := ⟨addr, si, so⟩
      let a : Bool := asy == "1"
      fmt (exec a (if a then Command.dispatchAsync c (xorCyclic xor) else Command.dispatch c (xorCyclic xor)) script pend)
    | _, _, _, _, _ => "bad-op"
  | "B" :: op :: via :: asy :: addr :: buf :: rest =>
    match addr.toInt?, parseHexBytes buf, parseScriptPend rest with
    | some addr, some buf, some (script, pend) =>
      let a : Bool := asy == "1"
      let tr : Bool := via == "trait"
      match op with
      | "write" => fmt (exec a (match a, tr with
          | false, false => Buffer.write addr buf | false, true => Buffer.traitWrite addr buf
          | true, false => Buffer.writeAsync addr buf | true, true => Buffer.traitWriteAsync addr buf) script pend)
      | "flush" => fmt (exec a (match a, tr with
          | false, false => Buffer.flush addr | false, true => Buffer.traitFlush addr
          | true, false => Buffer.flushAsync addr | true, true => Buffer.traitFlushAsync addr) script pend)
      | "write_all" => fmt (exec a (if a then Buffer.writeAllAsync addr buf else Buffer.writeAll addr buf) script pend)
      | "read" => fmt2 (exec a (match a, tr with
          | false, false => Buffer.read addr buf | false, true => Buffer.traitRead addr buf
          | true, false => Buffer.readAsync addr buf | true, true => Buffer.traitReadAsync addr buf) script pend)
      | "read_exact" => fmt2 (exec a (if a then Buffer.readExactAsync addr buf else Buffer.readExact addr buf) script pend)
      | _ => "bad-op"
    | _, _, _ => "bad-op"
  | _ => "bad-op"

end DDV.Driver.ProtoDrv
