import Lean.Data.Json
import DDV.Gen.Emit
import DDV.Gen.ManTree
import DDV.Gen.DslHir

/-!
  `ddv-driver gen` — one case line in (GEN_PROTOCOL.md §1), one answer line out:
  `{"id": n, "facts": FACTS}` computed by the model.
-/
namespace DDV.Driver.GenDrv
open Lean (Json)
open DDV.Gen
open DDV.Bits (ByteOrder BitOrder)

abbrev P := Except String

def optKey (j : Json) (k : String) : Option Json :=
  match j.getObjVal? k with
  | .ok .null => none
  | .ok v => some v
  | .error _ => none

def reqKey (j : Json) (k : String) : P Json :=
  match j.getObjVal? k with
  | .ok v => pure v
  | .error _ => throw s!"missing key {k}"

def asStr (j : Json) : P String := match j with | .str s => pure s | _ => throw "expected string"

def asNat (j : Json) : P Nat :=
  match j with
  | .num n => if n.exponent = 0 ∧ n.mantissa ≥ 0 then pure n.mantissa.toNat else throw "expected natural"
  | .str s => match s.toNat? with | some n => pure n | none => throw "expected natural string"
  | _ => throw "expected natural"

def asInt (j : Json) : P Int :=
  match j with
  | .num n => if n.exponent = 0 then pure n.mantissa else throw "expected integer"
  | .str s => match s.toInt? with | some n => pure n | none => throw "expected integer string"
  | _ => throw "expected integer"

def asBool (j : Json) : P Bool := match j with | .bool b => pure b | _ => throw "expected bool"

def asArr (j : Json) : P (List Json) := match j with | .arr a => pure a.toList | _ => throw "expected array"

def optStr (j : Json) (k : String) : P (Option String) := (optKey j k).mapM asStr
def optNat (j : Json) (k : String) : P (Option Nat) := (optKey j k).mapM asNat
def optInt (j : Json) (k : String) : P (Option Int) := (optKey j k).mapM asInt
def optBool (j : Json) (k : String) : P (Option Bool) := (optKey j k).mapM asBool

def parseAccess (s : String) : P Access :=
  match s with
  | "RW" => pure .rw | "RO" => pure .ro | "WO" => pure .wo | _ => throw s!"bad access {s}"
def parseBo (s : String) : P ByteOrder :=
  match s with | "LE" => pure .le | "BE" => pure .be | _ => throw s!"bad byte order {s}"
def parseBito (s : String) : P BitOrder :=
  match s with | "LSB0" => pure .lsb0 | "MSB0" => pure .msb0 | _ => throw s!"bad bit order {s}"
def parseInteger (s : String) : P Integer :=
  match s with
  | "u8" => pure .u8 | "u16" => pure .u16 | "u32" => pure .u32 | "i8" => pure .i8
  | "i16" => pure .i16 | "i32" => pure .i32 | "i64" => pure .i64 | _ => throw s!"bad integer type {s}"
def parseBase (s : String) : P BaseType :=
  match s with | "uint" => pure .uint | "int" => pure .int | "bool" => pure .bool | _ => throw s!"bad base {s}"

def optWith {α : Type} (j : Json) (k : String) (f : String → P α) : P (Option α) := do
  match ← optStr j k with
  | some s => pure (some (← f s))
  | none => pure none

def parseConfig (j : Json) : P AConfig := do
  let bounds ← match optKey j "name_word_boundaries" with
    | some b => do pure (some (← (← asArr b).mapM asStr))
    | none => pure none
  pure { defaultRegisterAccess := ← optWith j "default_register_access" parseAccess
         defaultFieldAccess := ← optWith j "default_field_access" parseAccess
         defaultBufferAccess := ← optWith j "default_buffer_access" parseAccess
         defaultByteOrder := ← optWith j "default_byte_order" parseBo
         defaultBitOrder := ← optWith j "default_bit_order" parseBito
         registerAddressType := ← optWith j "register_address_type" parseInteger
         commandAddressType := ← optWith j "command_address_type" parseInteger
         bufferAddressType := ← optWith j "buffer_address_type" parseInteger
         nameWordBoundaries := bounds
         defmtFeature := ← optStr j "defmt_feature" }

def parseRepeat (j : Json) : P Repeat := do
  pure { count := ← asNat (← reqKey j "count"), stride := ← asInt (← reqKey j "stride") }

def optRepeat (j : Json) : P (Option Repeat) := (optKey j "repeat").mapM parseRepeat

def parseReset (j : Json) : P ResetValue := do
  match optKey j "int" with
  | some n => pure (.int (← asNat n))
  | none => pure (.array (← (← asArr (← reqKey j "array")).mapM asNat))

def optReset (j : Json) : P (Option ResetValue) := (optKey j "reset").mapM parseReset

def parseEnumValue (j : Json) : P EnumValue :=
  match j with
  | .null => pure .unspecified
  | .str "default" => pure .default
  | .str "catch_all" => pure .catchAll
  | other => do pure (.specified (← asInt other))

def parseVariant (j : Json) : P AVariant := do
  let value ← match j.getObjVal? "value" with
    | .ok v => parseEnumValue v
    | .error _ => pure .unspecified
  pure { name := ← asStr (← reqKey j "name"), cfg := ← optStr j "cfg",
         description := ← optStr j "description", value := value }

def parseConv (j : Json) : P AConv := do
  let useTry ← match optKey j "try" with | some b => asBool b | none => pure false
  match optKey j "enum" with
  | some e =>
    let variants ← (← asArr (← reqKey e "variants")).mapM parseVariant
    pure (.enum { name := ← asStr (← reqKey e "name"), description := ← optStr e "description",
                  variants := variants } useTry)
  | none => pure (.ty (← asStr (← reqKey j "type")) useTry)

def parseField (j : Json) : P AField := do
  pure { name := ← asStr (← reqKey j "name"), cfg := ← optStr j "cfg",
         description := ← optStr j "description", access := ← optWith j "access" parseAccess,
         base := ← parseBase (← asStr (← reqKey j "base")), start := ← asNat (← reqKey j "start"),
         stop := ← optNat j "end", conv := ← (optKey j "conversion").mapM parseConv }

def parseFields (j : Json) (k : String) : P (Option (List AField)) :=
  (optKey j k).mapM fun a => do (← asArr a).mapM parseField

def parseOverride (j : Json) : P AOverride := do
  let kind ← asStr (← reqKey j "kind")
  let address ← match ← optInt j "address" with
    | some a => pure (some a)
    | none => optInt j "address_offset"
  let illegal ← match optKey j "illegal" with
    | some a => do (← asArr a).mapM asStr
    | none => pure []
  pure { kind := kind, address := address, repeat_ := ← optRepeat j,
         access := ← optWith j "access" parseAccess, reset := ← optReset j,
         allowAddressOverlap := ← optBool j "allow_address_overlap", illegal := illegal }

def parseCommon (j : Json) : P ACommon := do
  pure { name := ← asStr (← reqKey j "name"), cfg := ← optStr j "cfg", description := ← optStr j "description" }

partial def parseObj (j : Json) : P AObj := do
  let c ← parseCommon j
  match ← asStr (← reqKey j "kind") with
  | "block" =>
    let os ← match optKey j "objects" with
      | some a => do (← asArr a).mapM parseObj
      | none => pure []
    pure (.block c (← optInt j "address_offset") (← optRepeat j) os)
  | "register" =>
    let fields ← parseFields j "fields"
    pure (.register c (← optWith j "access" parseAccess) (← optWith j "byte_order" parseBo)
      (← optWith j "bit_order" parseBito) (← asInt (← reqKey j "address")) (← asNat (← reqKey j "size_bits"))
      (← optReset j) (← optRepeat j) (← optBool j "allow_bit_overlap") (← optBool j "allow_address_overlap")
      (fields.getD []))
  | "command" =>
    let basic ← match optKey j "basic" with | some b => asBool b | none => pure false
    pure (.command c basic (← asInt (← reqKey j "address")) (← optWith j "byte_order" parseBo)
      (← optWith j "bit_order" parseBito) (← optNat j "size_bits_in") (← optNat j "size_bits_out")
      (← optRepeat j) (← optBool j "allow_bit_overlap") (← optBool j "allow_address_overlap")
      (← parseFields j "fields_in") (← parseFields j "fields_out"))
  | "buffer" => pure (.buffer c (← optWith j "access" parseAccess) (← asInt (← reqKey j "address")))
  | "ref" => pure (.ref c (← asStr (← reqKey j "target")) (← parseOverride (← reqKey j "override")))
  | k => throw s!"bad object kind {k}"

def parseADef (j : Json) : P ADef := do
  let config ← match optKey j "config" with
    | some c => parseConfig c
    | none => pure {}
  let objects ← (← asArr (← reqKey j "objects")).mapM parseObj
  pure { config := config, objects := objects }

def lookupTable (j : Json) (table : String) (key : String) : String :=
  match j.getObjVal? table with
  | .ok t => (match t.getObjVal? key with
    | .ok (.str s) => s
    | _ => "⟨missing:" ++ table ++ ":" ++ key ++ "⟩")
  | .error _ => "⟨missing-table:" ++ table ++ "⟩"

def parseNames (j : Json) : Names :=
  { pascal := lookupTable j "pascal", snake := lookupTable j "snake",
    method := lookupTable j "method", collision := lookupTable j "collision",
    devicePascal := match j.getObjVal? "device_pascal" with | .ok (.str s) => s | _ => "⟨missing⟩" }

def parseSyntax (s : String) : P Syntax :=
  match s with
  | "dsl" => pure .dsl | "json" => pure .json | "yaml" => pure .yaml | "toml" => pure .toml
  | _ => throw s!"bad syntax {s}"

/-- The tagged JSON dump of a parser's value tree (harness/src/gen/tree.rs). -/
partial def parseMVal (j : Json) : P MVal :=
  match j with
  | .null => pure .null
  | .bool b => pure (.bool b)
  | .str s => pure (.str s)
  | .arr a => do pure (.arr (← a.toList.mapM parseMVal))
  | .num _ => throw "tree: bare number"
  | .obj _ =>
    match j.getObjVal? "i" with
    | .ok (.str s) => (match s.toInt? with | some n => pure (.int n) | none => throw "tree: bad integer")
    | _ =>
      match j.getObjVal? "m" with
      | .ok (.arr ps) => do
        let kvs ← ps.toList.mapM fun p => match p with
          | .arr #[.str k, v] => do pure (k, ← parseMVal v)
          | _ => throw "tree: bad map entry"
        pure (.map kvs)
      | _ => match j.getObjVal? "f" with
        | .ok _ => pure .float
        | _ => pure .other


/-! ### The DSL tree dumped by harness/src/gen/hir.rs -/

def parseHLit (j : Json) : P HLit := do
  let s ← asStr j
  let (neg, digits) := if s.startsWith "-" then (true, (s.drop 1).toString) else (false, s)
  match digits.toNat? with
  | some n => pure { neg := neg, mag := n }
  | none => throw s!"hir: bad literal {s}"

def parseHAttrs (j : Json) : P (List HAttr) := do
  (← asArr j).mapM fun a =>
    match a.getObjVal? "doc", a.getObjVal? "cfg" with
    | .ok (.str s), _ => pure (HAttr.doc s)
    | _, .ok (.str s) => pure (HAttr.cfg s)
    | _, _ => throw "hir: bad attribute"

def parseHRepeat (j : Json) : P HRepeat := do
  pure { count := ← parseHLit (← reqKey j "count"), stride := ← parseHLit (← reqKey j "stride") }

def parseHBlockItem (j : Json) : P HBlockItem := do
  match ← asStr (← reqKey j "k") with
  | "AddressOffset" => do pure (.addressOffset (← parseHLit (← reqKey j "v")))
  | "Repeat" => do pure (.repeat_ (← parseHRepeat j))
  | k => throw s!"hir: bad block item {k}"

def parseHRegItem (j : Json) : P HRegItem := do
  match ← asStr (← reqKey j "k") with
  | "Access" => do pure (.access (← parseAccess (← asStr (← reqKey j "v"))))
  | "ByteOrder" => do pure (.byteOrder (← parseBo (← asStr (← reqKey j "v"))))
  | "BitOrder" => do pure (.bitOrder (← parseBito (← asStr (← reqKey j "v"))))
  | "Address" => do pure (.address (← parseHLit (← reqKey j "v")))
  | "SizeBits" => do pure (.sizeBits (← parseHLit (← reqKey j "v")))
  | "ResetValueInt" => do pure (.resetInt (← parseHLit (← reqKey j "v")))
  | "ResetValueArray" => do pure (.resetArray (← (← asArr (← reqKey j "v")).mapM asNat))
  | "Repeat" => do pure (.repeat_ (← parseHRepeat j))
  | "AllowBitOverlap" => do pure (.allowBitOverlap (← asBool (← reqKey j "v")))
  | "AllowAddressOverlap" => do pure (.allowAddressOverlap (← asBool (← reqKey j "v")))
  | k => throw s!"hir: bad register item {k}"

def parseHCmdItem (j : Json) : P HCmdItem := do
  match ← asStr (← reqKey j "k") with
  | "ByteOrder" => do pure (.byteOrder (← parseBo (← asStr (← reqKey j "v"))))
  | "BitOrder" => do pure (.bitOrder (← parseBito (← asStr (← reqKey j "v"))))
  | "Address" => do pure (.address (← parseHLit (← reqKey j "v")))
  | "SizeBitsIn" => do pure (.sizeBitsIn (← parseHLit (← reqKey j "v")))
  | "SizeBitsOut" => do pure (.sizeBitsOut (← parseHLit (← reqKey j "v")))
  | "Repeat" => do pure (.repeat_ (← parseHRepeat j))
  | "AllowBitOverlap" => do pure (.allowBitOverlap (← asBool (← reqKey j "v")))
  | "AllowAddressOverlap" => do pure (.allowAddressOverlap (← asBool (← reqKey j "v")))
  | k => throw s!"hir: bad command item {k}"

def parseHVariant (j : Json) : P HVariant := do
  let value ← match optKey j "value" with
    | none => pure none
    | some (.str "default") => pure (some HEnumValue.default)
    | some (.str "catch_all") => pure (some HEnumValue.catchAll)
    | some v => do pure (some (HEnumValue.specified (← parseHLit (← reqKey v "int"))))
  pure { attrs := ← parseHAttrs (← reqKey j "attrs"), name := ← asStr (← reqKey j "name"), value := value }

def parseHField (j : Json) : P HField := do
  let conv ← match optKey j "conv" with
    | none => pure none
    | some c =>
      match optKey c "direct" with
      | some p => do pure (some (HConv.direct (← asStr p) (← asBool (← reqKey c "try"))))
      | none => do
        let vs ← (← asArr (← reqKey c "variants")).mapM parseHVariant
        pure (some (HConv.enum (← asStr (← reqKey c "enum")) vs (← asBool (← reqKey c "try"))))
  let a ← reqKey j "addr"
  let addr ← match ← asStr (← reqKey a "k") with
    | "Integer" => do pure (HFieldAddr.integer (← parseHLit (← reqKey a "v")))
    | "Range" => do pure (HFieldAddr.range (← parseHLit (← reqKey a "start")) (← parseHLit (← reqKey a "end")))
    | "RangeInclusive" => do pure (HFieldAddr.rangeIncl (← parseHLit (← reqKey a "start")) (← parseHLit (← reqKey a "end")))
    | k => throw s!"hir: bad field address {k}"
  pure { attrs := ← parseHAttrs (← reqKey j "attrs"), name := ← asStr (← reqKey j "name"),
         access := ← optWith j "access" parseAccess, base := ← parseBase (← asStr (← reqKey j "base")),
         conv := conv, addr := addr }

def parseHFields (j : Json) (k : String) : P (Option (List HField)) :=
  match optKey j k with
  | none => pure none
  | some fs => do pure (some (← (← asArr fs).mapM parseHField))

partial def parseHObj (j : Json) : P HObj := do
  let attrs ← parseHAttrs (← reqKey j "attrs")
  let name ← asStr (← reqKey j "name")
  match ← asStr (← reqKey j "k") with
  | "block" => do
    pure (.block attrs name (← (← asArr (← reqKey j "items")).mapM parseHBlockItem)
      (← (← asArr (← reqKey j "objects")).mapM parseHObj))
  | "register" => do
    pure (.register attrs name (← (← asArr (← reqKey j "items")).mapM parseHRegItem)
      (← (← asArr (← reqKey j "fields")).mapM parseHField))
  | "command" =>
    match optKey j "value" with
    | none => pure (.command attrs name none)
    | some v =>
      match optKey v "basic" with
      | some l => do pure (.command attrs name (some (.basic (← parseHLit l))))
      | none => do
        pure (.command attrs name (some (.extended (← (← asArr (← reqKey v "items")).mapM parseHCmdItem)
          (← parseHFields v "in") (← parseHFields v "out"))))
  | "buffer" => do
    pure (.buffer attrs name (← optWith j "access" parseAccess) (← (optKey j "address").mapM parseHLit))
  | "ref" => do pure (.ref attrs name (← parseHObj (← reqKey j "object")))
  | k => throw s!"hir: bad object kind {k}"

def parseHConfig (j : Json) : P HConfig := do
  let v ← reqKey j "v"
  match ← asStr (← reqKey j "k") with
  | "DefaultRegisterAccess" => do pure (.defaultRegisterAccess (← parseAccess (← asStr v)))
  | "DefaultFieldAccess" => do pure (.defaultFieldAccess (← parseAccess (← asStr v)))
  | "DefaultBufferAccess" => do pure (.defaultBufferAccess (← parseAccess (← asStr v)))
  | "DefaultByteOrder" => do pure (.defaultByteOrder (← parseBo (← asStr v)))
  | "DefaultBitOrder" => do pure (.defaultBitOrder (← parseBito (← asStr v)))
  | "RegisterAddressType" => do pure (.registerAddressType (← asStr v))
  | "CommandAddressType" => do pure (.commandAddressType (← asStr v))
  | "BufferAddressType" => do pure (.bufferAddressType (← asStr v))
  | "NameWordBoundaries" => do pure (.nameWordBoundaries (← (← asArr v).mapM asStr))
  | "DefmtFeature" => do pure (.defmtFeature (← asStr v))
  | k => throw s!"hir: bad config {k}"

def parseHDevice (j : Json) : P HDevice := do
  pure { configs := ← (← asArr (← reqKey j "configs")).mapM parseHConfig,
         objects := ← (← asArr (← reqKey j "objects")).mapM parseHObj }

/-- The DSL lowering on the generator's own tree, when the case carries one (`none`: not a DSL case, or
    a text the grammar rejected). -/
def hirRoute (syn : Syntax) (j : Json) : P (Option (M Device)) :=
  match syn, optKey j "hir" with
  | .dsl, some t =>
    match t.getObjVal? "$parse_error" with
    | .ok _ => pure none
    | _ => do pure (some (hirTransform (← parseHDevice t)))
  | _, _ => pure none

/-- The manifest front end on the parser's own tree, when the case carries one the model can read
    (`none`: DSL case, no tree, a text the parser rejected, or a map with a non-string key). -/
def treeRoute (syn : Syntax) (j : Json) : P (Option (M Device)) :=
  match syn, optKey j "tree" with
  | .dsl, _ => pure none
  | _, none => pure none
  | _, some t =>
    match t.getObjVal? "$parse_error", t.getObjVal? "$badkey" with
    | .ok _, _ => pure none
    | _, .ok _ => pure none
    | _, _ => do pure (some (manTransform syn (← parseMVal t)))

def runCase (j : Json) : P Json := do
  let id := (j.getObjVal? "id").toOption.getD Json.null
  let syn ← parseSyntax (← asStr (← reqKey j "syntax"))
  let dev ← asStr (← reqKey j "device_name")
  let names := parseNames (← reqKey j "names")
  let treeOnly := match optKey j "tree_only" with | some (.bool true) => true | _ => false
  let tree ← match ← treeRoute syn j with
    | some t => pure (some t)
    | none => hirRoute syn j
  -- the abstract route (ADEF lowered by `lowerManifest` / `lowerDsl`) and, for manifests, the key-level route
  -- (`manTransform` on the tree the real parser built); the answer is the key-level one when there is one
  let viaTree : Option (M Lir) := tree.map fun d => d >>= transformMir names dev
  if treeOnly then
    match viaTree with
    | some r => pure (Json.mkObj [("id", id), ("facts", facts names r), ("route", Json.str "tree")])
    | none => throw "tree_only case without a readable tree"
  else
    let adef ← parseADef (← reqKey j "adef")
    let viaAdef := generate names syn dev adef
    match viaTree with
    | none => pure (Json.mkObj [("id", id), ("facts", facts names viaAdef), ("route", Json.str "adef")])
    | some r =>
      let fa := (facts names viaAdef).compress
      let ft := (facts names r).compress
      pure (Json.mkObj [("id", id), ("facts", facts names r), ("route", Json.str (if syn == .dsl then "hir" else "tree")),
                        ("routes_agree", Json.bool (fa == ft)),
                        ("adef_route_facts", if fa == ft then Json.null else facts names viaAdef)])

def step (line : String) : String :=
  match Json.parse line with
  | .error e => (Json.mkObj [("bad", Json.str e)]).compress
  | .ok j => match runCase j with
    | .ok out => out.compress
    | .error e => (Json.mkObj [("id", (j.getObjVal? "id").toOption.getD Json.null), ("bad", Json.str e)]).compress

end DDV.Driver.GenDrv
