/-
  Small text helpers for the line-protocol driver (no JSON here: the codec and protocol cases are
  flat, so a space-separated line is both faster and simpler to canonicalise).
-/
namespace DDV.Driver

def hexDigit? (c : Char) : Option Nat :=
  if '0' ≤ c ∧ c ≤ '9' then some (c.toNat - '0'.toNat)
  else if 'a' ≤ c ∧ c ≤ 'f' then some (c.toNat - 'a'.toNat + 10)
  else if 'A' ≤ c ∧ c ≤ 'F' then some (c.toNat - 'A'.toNat + 10)
  else none

/-- `"0a1b"` → `[0x0a, 0x1b]`; `"-"` is the empty array. -/
def parseHexBytes (s : String) : Option (List (BitVec 8)) :=
  if s = "-" then some [] else
  let rec go : List Char → List (BitVec 8) → Option (List (BitVec 8))
    | [], acc => some acc.reverse
    | [_], _ => none
    | a :: b :: rest, acc =>
      match hexDigit? a, hexDigit? b with
      | some x, some y => go rest (BitVec.ofNat 8 (16 * x + y) :: acc)
      | _, _ => none
  go s.toList []

def hexNibble (n : Nat) : Char :=
  if n < 10 then Char.ofNat ('0'.toNat + n) else Char.ofNat ('a'.toNat + n - 10)

def hexOfBytes (bs : List (BitVec 8)) : String :=
  if bs.isEmpty then "-" else
  String.ofList (bs.flatMap fun b => [hexNibble (b.toNat / 16), hexNibble (b.toNat % 16)])

def words (line : String) : List String :=
  (line.trimAscii.toString.splitOn " ").filter (· ≠ "")

end DDV.Driver
