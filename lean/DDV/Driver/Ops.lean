import DDV.Bits.Spec
import DDV.Driver.Util
import DDV.Props.C06Ops

/-!
  `ddv-driver ops` — evaluates the codec model and the documented-numbering spec.

  Lines (pointer width is the first token so other targets can be evaluated too):
  * `L ptr bits signed bo bito s e hexdata`            → `ok <model> <spec>` | `fail <spec>`
  * `S ptr bits signed bo bito s e hexdata value`      → `ok <modelhex> <spechex>` | `fail <spechex>`
  * `H ptr bo bito hexdata n (bits signed s e value)*n bits signed s e`
        → `ok <model> <spec>` — a history of stores followed by one load; the spec value is the
          last value stored to exactly that range, reduced, if no later store overlaps it,
          else `na`.
  Values are the carrier's bit pattern as an unsigned decimal.
-/
namespace DDV.Driver.Ops
open DDV.Bits DDV.Driver

def parseBo : String → Option ByteOrder
  | "LE" => some .le | "BE" => some .be | _ => none
def parseBito : String → Option BitOrder
  | "LSB0" => some .lsb0 | "MSB0" => some .msb0 | _ => none

/-- The spec's reduction (C02): unsigned → zero-extend the `w` low bits, signed → sign-extend. -/
def specReduce (c : Carrier) (w : Nat) (v : Nat) : Nat :=
  let low := v % 2 ^ w
  if c.signed ∧ 0 < w ∧ w ≤ c.bits ∧ low / 2 ^ (w - 1) % 2 = 1 then
    low + (2 ^ c.bits - 2 ^ w)
  else low

/-- What the property requires `load` to return: the field's bits, read as unsigned for
    unsigned carriers and as two's complement (sign-extended into the carrier) for signed. -/
def specLoad (c : Carrier) (bo : ByteOrder) (bito : BitOrder) (data : List Byte) (s e : Nat) : Nat :=
  specReduce c (e - s) (specLoadNat bo bito data s e)

def inBounds (c : Carrier) (data : List Byte) (s e : Nat) : Bool :=
  s ≤ e && e ≤ 8 * data.length && e - s ≤ c.bits

def doLoad (ptr : Nat) (c : Carrier) (bo : ByteOrder) (bito : BitOrder) (data : List Byte)
    (s e : Nat) : String :=
  let spec := if inBounds c data s e then toString (specLoad c bo bito data s e) else "na"
  match load ptr c bito bo data s e with
  | some v => s!"ok {v.toNat} {spec}"
  | none => s!"fail {spec}"

def doStore (ptr : Nat) (c : Carrier) (bo : ByteOrder) (bito : BitOrder) (data : List Byte)
    (s e : Nat) (value : Nat) : String :=
  let v : BitVec c.bits := BitVec.ofNat c.bits value
  let spec := if inBounds c data s e
    then hexOfBytes (specStoreBytes bo bito data s e v.getLsbD) else "na"
  match store ptr c bito bo v s e data with
  | some d => s!"ok {hexOfBytes d} {spec}"
  | none => s!"fail {spec}"

structure HOp where
  c : Carrier
  s : Nat
  e : Nat
  value : Nat

def parseHOps : Nat → List String → Option (List HOp × List String)
  | 0, rest => some ([], rest)
  | n + 1, b :: sg :: s :: e :: v :: rest => do
    let op : HOp := ⟨⟨← b.toNat?, sg = "1"⟩, ← s.toNat?, ← e.toNat?, ← v.toNat?⟩
    let (ops, rest') ← parseHOps n rest
    some (op :: ops, rest')
  | _, _ => none

def runHist (ptr : Nat) (bo : ByteOrder) (bito : BitOrder) : List HOp → List Byte → Option (List Byte)
  | [], d => some d
  | op :: ops, d =>
    match store ptr op.c bito bo (BitVec.ofNat op.c.bits op.value) op.s op.e d with
    | none => none
    | some d' => runHist ptr bo bito ops d'

/-- Spec verdict for a history: the last store to exactly `[s,e)` with no later overlapping store
    determines the read; otherwise no verdict. -/
def histSpec (c : Carrier) (s e : Nat) (ops : List HOp) : Option Nat :=
  let rec go : List HOp → Option Nat → Option Nat
    | [], acc => acc
    | op :: rest, acc =>
      if op.s = s ∧ op.e = e then go rest (some op.value)
      else if op.e ≤ s ∨ e ≤ op.s then go rest acc
      else go rest none
  (go ops none).map (specReduce c (e - s))

def step (line : String) : String :=
  match words line with
  | ["L", ptr, bits, sg, bo, bito, s, e, hex] =>
    match ptr.toNat?, bits.toNat?, parseBo bo, parseBito bito, s.toNat?, e.toNat?, parseHexBytes hex with
    | some ptr, some bits, some bo, some bito, some s, some e, some data =>
      doLoad ptr ⟨bits, sg = "1"⟩ bo bito data s e
    | _, _, _, _, _, _, _ => "bad-op"
  | ["S", ptr, bits, sg, bo, bito, s, e, hex, value] =>
    match ptr.toNat?, bits.toNat?, parseBo bo, parseBito bito, s.toNat?, e.toNat?, parseHexBytes hex, value.toNat? with
    | some ptr, some bits, some bo, some bito, some s, some e, some data, some value =>
      doStore ptr ⟨bits, sg = "1"⟩ bo bito data s e value
    | _, _, _, _, _, _, _, _ => "bad-op"
  | "H" :: ptr :: bo :: bito :: hex :: n :: rest =>
    match ptr.toNat?, parseBo bo, parseBito bito, parseHexBytes hex, n.toNat? with
    | some ptr, some bo, some bito, some data, some n =>
      match parseHOps n rest with
      | some (ops, [bits, sg, s, e]) =>
        match bits.toNat?, s.toNat?, e.toNat? with
        | some bits, some s, some e =>
          let c : Carrier := ⟨bits, sg = "1"⟩
          let spec := match histSpec c s e ops with | some v => toString v | none => "na"
          match runHist ptr bo bito ops data with
          | none => s!"fail {spec}"
          | some d =>
            match load ptr c bito bo d s e with
            | some v => s!"ok {v.toNat} {spec}"
            | none => s!"fail {spec}"
        | _, _, _ => "bad-op"
      | _ => "bad-op"
    | _, _, _, _, _ => "bad-op"
  | ["F", hexa, hexb] =>
    -- the value operations of a generated field set (DDV.Props.C06Ops): & | ^ ! and the byte-array round trip
    match parseHexBytes hexa, parseHexBytes hexb with
    | some a, some b =>
      let h := hexOfBytes
      s!"ok {h (DDV.Props.C06Ops.fsAnd a b)} {h (DDV.Props.C06Ops.fsOr a b)} {h (DDV.Props.C06Ops.fsXor a b)} {h (DDV.Props.C06Ops.fsNot a)} {h (DDV.Props.C06Ops.intoBytes (DDV.Props.C06Ops.fromBytes a))}"
    | _, _ => "bad-op"
  | _ => "bad-op"

end DDV.Driver.Ops
