import DDV.Bits.Spec

namespace DDV.Bits
set_option linter.unusedVariables false
set_option linter.unusedSimpArgs false

/-! ## Segment arithmetic -/

theorem nextMultipleOf8_eq (n : Nat) : nextMultipleOf8 n = 8 * ((n + 7) / 8) := by
  unfold nextMultipleOf8; split <;> omega

/-- The reachable loop positions of the MSB0 walk: in the start byte, byte aligned, or inside a
    final partial byte. -/
def WalkPos (s e i : Nat) : Prop := i / 8 = s / 8 ∨ i % 8 = 0 ∨ e < 8 * (i / 8) + 8

theorem pivotTail_eq (lo n i : Nat) (h1 : lo ≤ i) (h2 : i < lo + n) :
    pivotTail n (lo + n / 2) i = some (lo + (lo + n) - 1 - i) := by
  unfold pivotTail
  rcases Nat.mod_two_eq_zero_or_one n with h | h
  · simp only [h, if_true]
    by_cases hd : ((lo + n / 2 : Nat) : Int) - (i : Int) ≤ 0
    · simp only [hd, if_true]
      have h3 : ¬ ((↑(lo + n / 2) : Int) - ↑i - 1 > 0) := by omega
      simp only [h3, if_false]
      have h4 : ¬ ((i : Int) + (↑(lo + n / 2) - ↑i - 1) * 2 + 1 < 0) := by omega
      simp only [h4, if_false, Option.some.injEq]
      omega
    · simp only [hd, if_false]
      have h3 : ((↑(lo + n / 2) : Int) - ↑i > 0) := by omega
      simp only [h3, if_true]
      have h4 : ¬ ((i : Int) + (↑(lo + n / 2) - ↑i) * 2 - 1 < 0) := by omega
      simp only [h4, if_false, Option.some.injEq]
      omega
  · have h0 : ¬ (n % 2 = 0) := by omega
    simp only [h0, if_false, Int.sub_zero, Int.add_zero, ite_self]
    have h4 : ¬ ((i : Int) + (↑(lo + n / 2) - ↑i) * 2 < 0) := by omega
    simp only [h4, if_false, Option.some.injEq]
    omega

theorem pivot_is_segment_reversal (s e i : Nat) (hs : s ≤ i) (hi : i < e)
    (hw : WalkPos s e i) (hslow : ¬ (i % 8 = 0 ∧ i + 8 ≤ e)) :
    pivotMsb0 s e i = some (segLo s i + segHi e i - 1 - i) := by
  unfold pivotMsb0 segLo segHi
  simp only [nextMultipleOf8_eq, divCeil2]
  by_cases hb : i / 8 = s / 8
  · simp only [hb, if_true]
    have hm : ¬ (min (8 * ((s + 1 + 7) / 8)) e < s) := by omega
    simp only [hm, if_false]
    generalize hn : min (8 * ((s + 1 + 7) / 8)) e - s = n
    have hlo : max s (8 * (s / 8)) = s := by omega
    have hhi : min e (8 * (s / 8) + 8) = s + n := by omega
    rw [hlo, hhi]
    exact pivotTail_eq s n i hs (by omega)
  · simp only [hb, if_false]
    have he8 : ¬ e < 8 := by omega
    have hfin : e < 8 * (i / 8) + 8 := by
      rcases hw with h | h | h
      · exact absurd h hb
      · omega
      · exact h
    have ha : 8 * ((e - 8 + 7) / 8) = 8 * (i / 8) := by omega
    simp only [he8, if_false, ha]
    have h1 : ¬ e < 8 * (i / 8) := by omega
    simp only [h1, if_false]
    generalize hn : e - 8 * (i / 8) = n
    have h2 : ¬ e < (n + 1) / 2 := by omega
    simp only [h2, if_false]
    have hlo : max s (8 * (i / 8)) = 8 * (i / 8) := by omega
    have hhi : min e (8 * (i / 8) + 8) = 8 * (i / 8) + n := by omega
    rw [hlo, hhi]
    have hp : e - (n + 1) / 2 = 8 * (i / 8) + n / 2 := by omega
    rw [hp]
    exact pivotTail_eq (8 * (i / 8)) n i (by omega) (by omega)

/-! ## Bytes -/

theorem byteAt_congr (bo : ByteOrder) (data : List Byte) (k k' : Nat) (h : k / 8 = k' / 8) :
    byteAt bo data k = byteAt bo data k' := by
  unfold byteAt specByteIndex; cases bo <;> simp only [h]

theorem getByte?_eq (bo : ByteOrder) (data : List Byte) (k : Nat) (h : k < 8 * data.length) :
    getByte? bo data k = some (byteAt bo data k) := by
  unfold getByte? byteIndex? byteAt specByteIndex
  cases bo
  · simp only
    have : k / 8 < data.length := by omega
    simp [List.getD_eq_getElem?_getD, List.getElem?_eq_getElem this]
  · have h1 : k / 8 + 1 ≤ data.length := by omega
    simp only [h1, if_true]
    have h2 : data.length - k / 8 - 1 < data.length := by omega
    have h3 : data.length - k / 8 - 1 = data.length - 1 - k / 8 := by omega
    simp [List.getD_eq_getElem?_getD, h3, List.getElem?_eq_getElem (h3 ▸ h2)]

/-! ## The value-bit ↔ set-bit correspondence -/

theorem src_range (bito : BitOrder) (s e p : Nat) (hp : p < e - s) :
    s ≤ srcOfValueBit bito s e p ∧ srcOfValueBit bito s e p < e ∧
    srcOfValueBit bito s e p / 8 = (s + p) / 8 := by
  unfold srcOfValueBit segLo segHi
  cases bito <;> simp only <;> refine ⟨?_, ?_, ?_⟩ <;> first | trivial | omega

theorem value_src (bito : BitOrder) (s e p : Nat) (hp : p < e - s) :
    valueBitOfSrc bito s e (srcOfValueBit bito s e p) = p := by
  have := src_range bito s e p hp
  unfold valueBitOfSrc srcOfValueBit segLo segHi at *
  cases bito <;> simp only at * <;> omega

theorem src_value (bito : BitOrder) (s e k : Nat) (h1 : s ≤ k) (h2 : k < e) :
    valueBitOfSrc bito s e k < e - s ∧ srcOfValueBit bito s e (valueBitOfSrc bito s e k) = k := by
  unfold valueBitOfSrc srcOfValueBit segLo segHi
  cases bito <;> simp only <;> omega

/-! ## The load loop -/


theorem bit_getLsbD (byte : Byte) (b t : Nat) :
    ((byte >>> b) &&& 1#8).getLsbD t = (decide (t = 0) && byte.getLsbD b) := by
  simp only [BitVec.getLsbD_and, BitVec.getLsbD_ushiftRight, BitVec.getLsbD_one]
  by_cases h : t = 0
  · subst h; simp
  · simp [h]

theorem or_shift_getLsbD {D : Nat} (out : BitVec D) (x : Byte) (q p : Nat) :
    (out ||| (x.setWidth D <<< q)).getLsbD p =
      (out.getLsbD p || (decide (p < D) && decide (q ≤ p) && x.getLsbD (p - q))) := by
  simp only [BitVec.getLsbD_or, BitVec.getLsbD_shiftLeft, BitVec.getLsbD_setWidth]
  by_cases h1 : p < D
  · by_cases h2 : p < q
    · have h4 : ¬ q ≤ p := by omega
      simp [h1, h2, h4]
    · have h3 : p - q < D := by omega
      have h4 : q ≤ p := by omega
      simp [h1, h2, h3, h4]
  · simp [h1]



def LoadInv (bo : ByteOrder) (bito : BitOrder) (data : List Byte) (s e : Nat) {D : Nat}
    (i : Nat) (out : BitVec D) : Prop :=
  ∀ p, out.getLsbD p = (decide (p < e - s) && decide (srcOfValueBit bito s e p < i) &&
        physBit bo bito data (srcOfValueBit bito s e p))

theorem loadInv_slow (bo : ByteOrder) (bito : BitOrder) (data : List Byte) (s e D i : Nat)
    (out : BitVec D) (hD : e - s ≤ D) (hs : s ≤ i) (hi : i < e)
    (hinv : LoadInv bo bito data s e i out) :
    LoadInv bo bito data s e (i + 1)
      (out ||| ((((byteAt bo data i) >>> (specBitInByte bito i)) &&& 1#8).setWidth D
                  <<< (valueBitOfSrc bito s e i))) := by
  intro p
  have hq := src_value bito s e i hs hi
  rw [or_shift_getLsbD, bit_getLsbD, hinv p]
  by_cases hp : p < e - s
  · have hr := src_range bito s e p hp
    by_cases hpq : p = valueBitOfSrc bito s e i
    · subst hpq
      simp only [hq.2, physBit]
      have : valueBitOfSrc bito s e i < D := by omega
      simp [this, hp]
    · have hne : srcOfValueBit bito s e p ≠ i := by
        intro h; apply hpq; rw [← h, value_src bito s e p hp]
      have h1 : (srcOfValueBit bito s e p < i + 1) = (srcOfValueBit bito s e p < i) := by
        apply propext; omega
      have h2 : ¬ (p - valueBitOfSrc bito s e i = 0 ∧ valueBitOfSrc bito s e i ≤ p) := by omega
      simp only [h1]
      by_cases h3 : valueBitOfSrc bito s e i ≤ p
      · have : ¬ (p - valueBitOfSrc bito s e i = 0) := by omega
        simp [this]
      · simp [h3]
  · have : ¬ (p = valueBitOfSrc bito s e i) := by omega
    by_cases h3 : valueBitOfSrc bito s e i ≤ p
    · have : ¬ (p - valueBitOfSrc bito s e i = 0) := by omega
      simp [this, hp]
    · simp [h3, hp]

theorem specBit_fast (bito : BitOrder) (s e i p : Nat) (h8 : i % 8 = 0) (he : i + 8 ≤ e)
    (hs : s ≤ i) (h1 : i ≤ s + p) (h2 : s + p < i + 8) :
    specBitInByte bito (srcOfValueBit bito s e p) = p - (i - s) := by
  unfold specBitInByte srcOfValueBit segLo segHi
  cases bito <;> simp only <;> omega

theorem byte_getLsbD_ge (x : Byte) (t : Nat) (h : 8 ≤ t) : x.getLsbD t = false :=
  BitVec.getLsbD_of_ge x t h

theorem loadInv_fast (bo : ByteOrder) (bito : BitOrder) (data : List Byte) (s e D i : Nat)
    (out : BitVec D) (hD : e - s ≤ D) (hs : s ≤ i) (h8 : i % 8 = 0) (he : i + 8 ≤ e)
    (hinv : LoadInv bo bito data s e i out) :
    LoadInv bo bito data s e (i + 8)
      (out ||| ((byteAt bo data i).setWidth D <<< (i - s))) := by
  intro p
  rw [or_shift_getLsbD, hinv p]
  by_cases hp : p < e - s
  · have hr := src_range bito s e p hp
    by_cases hin : i ≤ s + p ∧ s + p < i + 8
    · have hb : byteAt bo data (srcOfValueBit bito s e p) = byteAt bo data i :=
        byteAt_congr bo data _ _ (by omega)
      have h1 : ¬ (srcOfValueBit bito s e p < i) := by omega
      have h2 : srcOfValueBit bito s e p < i + 8 := by omega
      have h3 : p < D := by omega
      have h4 : i - s ≤ p := by omega
      simp only [physBit, hb, specBit_fast bito s e i p h8 he hs hin.1 hin.2]
      simp [h1, h2, h3, h4, hp]
    · have h1 : (srcOfValueBit bito s e p < i + 8) = (srcOfValueBit bito s e p < i) := by
        apply propext; omega
      simp only [h1]
      by_cases h4 : i - s ≤ p
      · have : 8 ≤ p - (i - s) := by omega
        simp [byte_getLsbD_ge _ _ this]
      · simp [h4]
  · have : 8 ≤ p - (i - s) := by omega
    simp [byte_getLsbD_ge _ _ this, hp]

theorem walkPos_fast (s e i : Nat) (h8 : i % 8 = 0) : WalkPos s e (i + 8) := by
  unfold WalkPos; omega

theorem walkPos_slow (s e i : Nat) (hw : WalkPos s e i) (hslow : ¬ (i % 8 = 0 ∧ i + 8 ≤ e)) :
    WalkPos s e (i + 1) := by
  unfold WalkPos at *; omega

theorem loadLoop_spec (D : Nat) (bito : BitOrder) (bo : ByteOrder) (data : List Byte) (s e : Nat)
    (hD : e - s ≤ D) (hlen : e ≤ 8 * data.length) :
    ∀ (n i : Nat) (out : BitVec D), e - i = n → s ≤ i → i ≤ e → WalkPos s e i →
      LoadInv bo bito data s e i out →
      ∃ v, loadLoop D bito bo data s e i out = some v ∧ LoadInv bo bito data s e e v := by
  intro n
  induction n using Nat.strongRecOn with
  | _ n ih =>
    intro i out hn hs hie hw hinv
    unfold loadLoop
    by_cases hlt : i < e
    · simp only [hlt, dite_true, getByte?_eq bo data i (by omega)]
      by_cases hfast : i % 8 = 0 ∧ i + 8 ≤ e
      · have hg : ¬ (i < s ∨ D ≤ i - s) := by omega
        simp only [hfast, and_self, if_true, hg, if_false]
        exact ih (e - (i + 8)) (by omega) (i + 8) _ rfl (by omega) hfast.2
          (walkPos_fast s e i hfast.1)
          (loadInv_fast bo bito data s e D i out hD hs hfast.1 hfast.2 hinv)
      · simp only [hfast, if_false]
        cases bito with
        | lsb0 =>
          have hg : ¬ (i < s ∨ D ≤ i - s) := by omega
          simp only [hg, if_false]
          exact ih (e - (i + 1)) (by omega) (i + 1) _ rfl (by omega) (by omega)
            (walkPos_slow s e i hw hfast)
            (loadInv_slow bo .lsb0 data s e D i out hD hs hlt hinv)
        | msb0 =>
          have hpv := pivot_is_segment_reversal s e i hs hlt hw hfast
          have hq := src_value .msb0 s e i hs hlt
          simp only [hpv]
          have hjs : segLo s i + segHi e i - 1 - i - s = valueBitOfSrc .msb0 s e i := rfl
          have hg : ¬ (segLo s i + segHi e i - 1 - i < s ∨ D ≤ valueBitOfSrc .msb0 s e i) := by
            unfold segLo segHi; omega
          simp only [hjs, hg, if_false]
          exact ih (e - (i + 1)) (by omega) (i + 1) _ rfl (by omega) (by omega)
            (walkPos_slow s e i hw hfast)
            (loadInv_slow bo .msb0 data s e D i out hD hs hlt hinv)
    · have : i = e := by omega
      subst this
      simp only [Nat.lt_irrefl, dite_false]
      exact ⟨out, rfl, hinv⟩



/-! ## The store loop -/

theorem setByte?_eq (bo : ByteOrder) (data : List Byte) (k : Nat) (b : Byte)
    (h : k < 8 * data.length) :
    setByte? bo data k b = some (data.set (specByteIndex bo data.length k) b) := by
  unfold setByte? byteIndex? specByteIndex
  cases bo
  · have : k / 8 < data.length := by omega
    simp [this]
  · have h1 : k / 8 + 1 ≤ data.length := by omega
    have h2 : data.length - k / 8 - 1 < data.length := by omega
    have h3 : data.length - k / 8 - 1 = data.length - 1 - k / 8 := by omega
    have h4 : data.length - 1 - k / 8 < data.length := by omega
    simp only [h1, if_true, h3, h4]

theorem specByteIndex_inj (bo : ByteOrder) (len k k' : Nat) (h : k < 8 * len) (h' : k' < 8 * len) :
    specByteIndex bo len k = specByteIndex bo len k' ↔ k / 8 = k' / 8 := by
  unfold specByteIndex; cases bo <;> simp only <;> omega

theorem specByteIndex_lt (bo : ByteOrder) (len k : Nat) (h : k < 8 * len) :
    specByteIndex bo len k < len := by
  unfold specByteIndex; cases bo <;> simp only <;> omega

theorem byteAt_set (bo : ByteOrder) (data : List Byte) (k k' : Nat) (b : Byte)
    (h : k < 8 * data.length) (h' : k' < 8 * data.length) :
    byteAt bo (data.set (specByteIndex bo data.length k) b) k' =
      if k' / 8 = k / 8 then b else byteAt bo data k' := by
  unfold byteAt
  simp only [List.length_set]
  have hlt := specByteIndex_lt bo data.length k h
  have hlt' := specByteIndex_lt bo data.length k' h'
  by_cases hk : k' / 8 = k / 8
  · have := (specByteIndex_inj bo data.length k' k h' h).2 hk
    simp [hk, this, List.getD_eq_getElem?_getD, hlt]
  · have : specByteIndex bo data.length k ≠ specByteIndex bo data.length k' := by
      intro heq; exact hk ((specByteIndex_inj bo data.length k k' h h').1 heq).symm
    simp [hk, List.getD_eq_getElem?_getD, List.getElem?_set_ne this]

theorem shr_trunc_getLsbD {D : Nat} (signed : Bool) (V : BitVec D) (n t : Nat) (h : n + t < D)
    (ht : t < 8) : ((shr signed V n).setWidth 8).getLsbD t = V.getLsbD (n + t) := by
  unfold shr
  cases signed
  · simp [BitVec.getLsbD_setWidth, BitVec.getLsbD_ushiftRight, ht]
  · have : ¬ D ≤ t := by omega
    simp [BitVec.getLsbD_setWidth, BitVec.getLsbD_sshiftRight, ht, h, this]

theorem setbit_getLsbD (byte bit : Byte) (b t : Nat) (hb : b < 8) (ht : t < 8)
    (hbit : ∀ u, bit.getLsbD u = (decide (u = 0) && bit.getLsbD 0)) :
    ((byte &&& ~~~(1#8 <<< b)) ||| (bit <<< b)).getLsbD t =
      if t = b then bit.getLsbD 0 else byte.getLsbD t := by
  simp only [BitVec.getLsbD_or, BitVec.getLsbD_and, BitVec.getLsbD_not, BitVec.getLsbD_shiftLeft,
    BitVec.getLsbD_one]
  by_cases h : t = b
  · subst h; simp [ht]
  · simp only [h, if_false, ht, decide_true, Bool.true_and]
    by_cases h2 : t < b
    · simp [h2]
    · have h3 : ¬ (t - b = 0) := by omega
      have h4 : ¬ (0 = t - b) := by omega
      rw [hbit (t - b)]
      simp [h2, h3, h4]


/-- State of the byte array after the store walk has passed set-bits `[s,i)`. -/
def StoreInv (bo : ByteOrder) (bito : BitOrder) (data0 : List Byte) (s e : Nat) {D : Nat}
    (V : BitVec D) (i : Nat) (data : List Byte) : Prop :=
  data.length = data0.length ∧
  ∀ k, k < 8 * data0.length →
    physBit bo bito data k =
      if s ≤ k ∧ k < i then V.getLsbD (valueBitOfSrc bito s e k) else physBit bo bito data0 k

theorem specBit_lt (bito : BitOrder) (k : Nat) : specBitInByte bito k < 8 := by
  unfold specBitInByte; cases bito <;> simp only <;> omega

theorem specBit_eq_iff (bito : BitOrder) (k i : Nat) (h : k / 8 = i / 8) :
    specBitInByte bito k = specBitInByte bito i ↔ k = i := by
  unfold specBitInByte; cases bito <;> simp only <;> omega

theorem value_fast (bito : BitOrder) (s e i k : Nat) (h8 : i % 8 = 0) (he : i + 8 ≤ e)
    (hs : s ≤ i) (hk : k / 8 = i / 8) :
    i - s + specBitInByte bito k = valueBitOfSrc bito s e k := by
  unfold specBitInByte valueBitOfSrc segLo segHi
  cases bito <;> simp only <;> omega

theorem storeInv_fast (bo : ByteOrder) (bito : BitOrder) (data0 data : List Byte) (s e D i : Nat)
    (signed : Bool) (V : BitVec D) (hD : e - s ≤ D) (hlen : e ≤ 8 * data0.length)
    (hs : s ≤ i) (h8 : i % 8 = 0) (he : i + 8 ≤ e)
    (hinv : StoreInv bo bito data0 s e V i data) :
    StoreInv bo bito data0 s e V (i + 8)
      (data.set (specByteIndex bo data.length i) ((shr signed V (i - s)).setWidth 8)) := by
  obtain ⟨hl, hb⟩ := hinv
  refine ⟨by simp [hl], ?_⟩
  intro k hk
  have hi' : i < 8 * data.length := by omega
  have hk' : k < 8 * data.length := by omega
  unfold physBit
  rw [byteAt_set bo data i k _ hi' hk']
  by_cases hki : k / 8 = i / 8
  · have h1 : s ≤ k ∧ k < i + 8 := by omega
    simp only [hki, if_true, h1, and_self]
    rw [shr_trunc_getLsbD signed V (i - s) _ (by have := specBit_lt bito k; omega) (specBit_lt bito k)]
    rw [value_fast bito s e i k h8 he hs hki]
  · simp only [hki, if_false]
    have := hb k hk
    unfold physBit at this
    rw [this]
    have h2 : (s ≤ k ∧ k < i + 8) = (s ≤ k ∧ k < i) := by apply propext; omega
    simp only [h2]

theorem storeInv_slow (bo : ByteOrder) (bito : BitOrder) (data0 data : List Byte) (s e D i : Nat)
    (signed : Bool) (V : BitVec D) (hD : e - s ≤ D) (hlen : e ≤ 8 * data0.length)
    (hs : s ≤ i) (hi : i < e)
    (hinv : StoreInv bo bito data0 s e V i data) :
    StoreInv bo bito data0 s e V (i + 1)
      (data.set (specByteIndex bo data.length i)
        ((byteAt bo data i &&& ~~~(1#8 <<< specBitInByte bito i)) |||
          (((shr signed V (valueBitOfSrc bito s e i)).setWidth 8 &&& 1#8) <<< specBitInByte bito i))) := by
  obtain ⟨hl, hb⟩ := hinv
  refine ⟨by simp [hl], ?_⟩
  intro k hk
  have hi' : i < 8 * data.length := by omega
  have hk' : k < 8 * data.length := by omega
  have hq := src_value bito s e i hs hi
  unfold physBit
  rw [byteAt_set bo data i k _ hi' hk']
  by_cases hki : k / 8 = i / 8
  · simp only [hki, if_true]
    rw [setbit_getLsbD _ _ _ _ (specBit_lt bito i) (specBit_lt bito k)
      (by intro u; simp only [BitVec.getLsbD_and, BitVec.getLsbD_one]
          by_cases hu : u = 0
          · subst hu; simp
          · have : ¬ (0 = u) := by omega
            simp [hu, this])]
    by_cases hkeq : k = i
    · subst hkeq
      have h1 : s ≤ k ∧ k < k + 1 := by omega
      simp only [if_true, h1, and_self, BitVec.getLsbD_and, BitVec.getLsbD_one]
      rw [shr_trunc_getLsbD signed V _ 0 (by omega) (by omega)]
      simp
    · have hne : ¬ specBitInByte bito k = specBitInByte bito i := by
        rw [specBit_eq_iff bito k i hki]; exact hkeq
      simp only [hne, if_false]
      have := hb k hk
      unfold physBit at this
      rw [byteAt_congr bo data i k hki.symm, this]
      have h2 : (s ≤ k ∧ k < i + 1) = (s ≤ k ∧ k < i) := by apply propext; omega
      simp only [h2]
  · simp only [hki, if_false]
    have := hb k hk
    unfold physBit at this
    rw [this]
    have h2 : (s ≤ k ∧ k < i + 1) = (s ≤ k ∧ k < i) := by apply propext; omega
    simp only [h2]


theorem storeLoop_spec (D : Nat) (signed : Bool) (bito : BitOrder) (bo : ByteOrder)
    (V : BitVec D) (data0 : List Byte) (s e : Nat)
    (hD : e - s ≤ D) (hlen : e ≤ 8 * data0.length) :
    ∀ (n i : Nat) (data : List Byte), e - i = n → s ≤ i → i ≤ e → WalkPos s e i →
      StoreInv bo bito data0 s e V i data →
      ∃ d, storeLoop D signed bito bo V s e i data = some d ∧ StoreInv bo bito data0 s e V e d := by
  intro n
  induction n using Nat.strongRecOn with
  | _ n ih =>
    intro i data hn hs hie hw hinv
    have hl := hinv.1
    unfold storeLoop
    by_cases hlt : i < e
    · have hi' : i < 8 * data.length := by omega
      simp only [hlt, dite_true, getByte?_eq bo data i hi']
      by_cases hfast : i % 8 = 0 ∧ i + 8 ≤ e
      · have hg : ¬ (i < s ∨ D ≤ i - s) := by omega
        simp only [hfast, and_self, if_true, hg, if_false, setByte?_eq bo data i _ hi']
        exact ih (e - (i + 8)) (by omega) (i + 8) _ rfl (by omega) hfast.2
          (walkPos_fast s e i hfast.1)
          (storeInv_fast bo bito data0 data s e D i signed V hD hlen hs hfast.1 hfast.2 hinv)
      · simp only [hfast, if_false]
        cases bito with
        | lsb0 =>
          have hg : ¬ (i < s ∨ D ≤ i - s) := by omega
          simp only [hg, if_false, setByte?_eq bo data i _ hi']
          exact ih (e - (i + 1)) (by omega) (i + 1) _ rfl (by omega) (by omega)
            (walkPos_slow s e i hw hfast)
            (storeInv_slow bo .lsb0 data0 data s e D i signed V hD hlen hs hlt hinv)
        | msb0 =>
          have hpv := pivot_is_segment_reversal s e i hs hlt hw hfast
          have hq := src_value .msb0 s e i hs hlt
          simp only [hpv]
          have hjs : segLo s i + segHi e i - 1 - i - s = valueBitOfSrc .msb0 s e i := rfl
          have hg : ¬ (segLo s i + segHi e i - 1 - i < s ∨ D ≤ valueBitOfSrc .msb0 s e i) := by
            unfold segLo segHi; omega
          simp only [hjs, hg, if_false, setByte?_eq bo data i _ hi']
          exact ih (e - (i + 1)) (by omega) (i + 1) _ rfl (by omega) (by omega)
            (walkPos_slow s e i hw hfast)
            (storeInv_slow bo .msb0 data0 data s e D i signed V hD hlen hs hlt hinv)
    · have : i = e := by omega
      subst this
      simp only [Nat.lt_irrefl, dite_false]
      exact ⟨data, rfl, hinv⟩




/-! ## Whole-function statements -/

theorem dedupWidth_ge (ptr bits : Nat) : bits ≤ dedupWidth ptr bits := by
  unfold dedupWidth; split <;> omega

theorem load_spec (ptr : Nat) (c : Carrier) (bito : BitOrder) (bo : ByteOrder) (data : List Byte)
    (s e : Nat) (hse : s ≤ e) (hlen : e ≤ 8 * data.length) (hw : e - s ≤ c.bits) :
    ∃ v, load ptr c bito bo data s e = some v ∧
      ∀ j, v.getLsbD j = specLoadBit bo bito data s e j := by
  have hD : e - s ≤ dedupWidth ptr c.bits := Nat.le_trans hw (dedupWidth_ge ptr c.bits)
  have hinit : LoadInv bo bito data s e s (0 : BitVec (dedupWidth ptr c.bits)) := by
    intro p
    by_cases hp : p < e - s
    · have := src_range bito s e p hp
      have h1 : ¬ (srcOfValueBit bito s e p < s) := by omega
      simp [h1]
    · simp [hp]
  obtain ⟨v, hv, hinv⟩ := loadLoop_spec (dedupWidth ptr c.bits) bito bo data s e hD hlen
    (e - s) s 0 rfl (Nat.le_refl _) hse (Or.inl rfl) hinit
  refine ⟨v.setWidth c.bits, by unfold load; rw [hv]; rfl, ?_⟩
  intro j
  rw [BitVec.getLsbD_setWidth, hinv j]
  unfold specLoadBit
  by_cases hp : j < e - s
  · have := src_range bito s e j hp
    have h1 : j < c.bits := by omega
    simp [hp, h1, this.2.1]
  · simp [hp]

theorem castUp_getLsbD (D : Nat) (c : Carrier) (v : BitVec c.bits) (t : Nat) (h1 : t < c.bits)
    (h2 : c.bits ≤ D) : (castUp D c v).getLsbD t = v.getLsbD t := by
  unfold castUp
  have : t < D := by omega
  split
  · rw [BitVec.getLsbD_signExtend]; simp [this, h1]
  · simp [BitVec.getLsbD_setWidth, this]

theorem store_spec (ptr : Nat) (c : Carrier) (bito : BitOrder) (bo : ByteOrder)
    (v : BitVec c.bits) (data : List Byte)
    (s e : Nat) (hse : s ≤ e) (hlen : e ≤ 8 * data.length) (hw : e - s ≤ c.bits) :
    ∃ d, store ptr c bito bo v s e data = some d ∧ d.length = data.length ∧
      ∀ k, k < 8 * data.length →
        physBit bo bito d k = specStoreBit bo bito data s e v.getLsbD k := by
  have hge := dedupWidth_ge ptr c.bits
  have hD : e - s ≤ dedupWidth ptr c.bits := Nat.le_trans hw hge
  have hinit : StoreInv bo bito data s e (castUp (dedupWidth ptr c.bits) c v) s data := by
    refine ⟨rfl, ?_⟩
    intro k hk
    have : ¬ (s ≤ k ∧ k < s) := by omega
    simp [this]
  obtain ⟨d, hd, hl, hb⟩ := storeLoop_spec (dedupWidth ptr c.bits) c.signed bito bo
    (castUp (dedupWidth ptr c.bits) c v) data s e hD hlen (e - s) s data rfl (Nat.le_refl _) hse
    (Or.inl rfl) hinit
  refine ⟨d, by simp [store, hd], hl, ?_⟩
  intro k hk
  rw [hb k hk]
  unfold specStoreBit
  by_cases hin : s ≤ k ∧ k < e
  · have := src_value bito s e k hin.1 hin.2
    simp only [hin, and_self, if_true]
    exact castUp_getLsbD _ c v _ (by omega) hge
  · simp only [hin, if_false]




/-! ## Round trip, isolation, locality -/

theorem load_congr (ptr : Nat) (c : Carrier) (bito : BitOrder) (bo : ByteOrder)
    (d1 d2 : List Byte) (s e : Nat) (hse : s ≤ e) (hl : d1.length = d2.length)
    (hlen : e ≤ 8 * d1.length) (hw : e - s ≤ c.bits)
    (hagree : ∀ k, s ≤ k → k < e → physBit bo bito d1 k = physBit bo bito d2 k) :
    load ptr c bito bo d1 s e = load ptr c bito bo d2 s e := by
  obtain ⟨v1, h1, b1⟩ := load_spec ptr c bito bo d1 s e hse hlen hw
  obtain ⟨v2, h2, b2⟩ := load_spec ptr c bito bo d2 s e hse (hl ▸ hlen) hw
  rw [h1, h2]
  congr 1
  apply BitVec.eq_of_getLsbD_eq
  intro j hj
  rw [b1 j, b2 j]
  unfold specLoadBit
  by_cases hp : j < e - s
  · have := src_range bito s e j hp
    rw [hagree _ this.1 this.2.1]
  · simp [hp]

theorem load_store_bits (ptr : Nat) (c : Carrier) (bito : BitOrder) (bo : ByteOrder)
    (v : BitVec c.bits) (data : List Byte) (s e : Nat)
    (hse : s ≤ e) (hlen : e ≤ 8 * data.length) (hw : e - s ≤ c.bits) :
    ∃ d, store ptr c bito bo v s e data = some d ∧
      ∃ r, load ptr c bito bo d s e = some r ∧
        ∀ j, r.getLsbD j = (decide (j < e - s) && v.getLsbD j) := by
  obtain ⟨d, hd, hl, hb⟩ := store_spec ptr c bito bo v data s e hse hlen hw
  obtain ⟨r, hr, hrb⟩ := load_spec ptr c bito bo d s e hse (hl ▸ hlen) hw
  refine ⟨d, hd, r, hr, ?_⟩
  intro j
  rw [hrb j]
  unfold specLoadBit
  by_cases hp : j < e - s
  · have hs := src_range bito s e j hp
    rw [hb _ (by omega)]
    unfold specStoreBit
    simp only [hs.1, hs.2.1, and_self, if_true, value_src bito s e j hp, hp, decide_true,
      Bool.true_and]
  · simp [hp]

theorem zeroReduce_getLsbD {n : Nat} (v : BitVec n) (w j : Nat) (hw : w ≤ n) :
    ((v.setWidth w).setWidth n).getLsbD j = (decide (j < w) && v.getLsbD j) := by
  simp only [BitVec.getLsbD_setWidth]
  by_cases h1 : j < w
  · have : j < n := by omega
    simp [h1, this]
  · simp [h1]


/-! ## Histories of setter calls on one field set -/

structure FieldRef where
  c : Carrier
  s : Nat
  e : Nat

def FieldRef.Valid (f : FieldRef) (len : Nat) : Prop :=
  f.s ≤ f.e ∧ f.e ≤ 8 * len ∧ f.e - f.s ≤ f.c.bits

def FieldRef.Disjoint (f g : FieldRef) : Prop := f.e ≤ g.s ∨ g.e ≤ f.s

/-- One setter call: a field and the carrier-typed value handed to it. -/
structure SetCall where
  f : FieldRef
  v : BitVec f.c.bits

/-- A sequence of setter calls on one byte array (one field set: fixed byte and bit order). -/
def applySets (ptr : Nat) (bito : BitOrder) (bo : ByteOrder) : List SetCall → List Byte → Option (List Byte)
  | [], d => some d
  | x :: xs, d =>
    match store ptr x.f.c bito bo x.v x.f.s x.f.e d with
    | none => none
    | some d' => applySets ptr bito bo xs d'

theorem store_other_field (ptr : Nat) (bito : BitOrder) (bo : ByteOrder) (x : SetCall)
    (a : FieldRef) (data : List Byte) (hx : x.f.Valid data.length) (ha : a.Valid data.length)
    (hdis : x.f.Disjoint a) :
    ∃ d, store ptr x.f.c bito bo x.v x.f.s x.f.e data = some d ∧ d.length = data.length ∧
      load ptr a.c bito bo d a.s a.e = load ptr a.c bito bo data a.s a.e := by
  obtain ⟨d, hd, hl, hb⟩ := store_spec ptr x.f.c bito bo x.v data x.f.s x.f.e hx.1 hx.2.1 hx.2.2
  refine ⟨d, hd, hl, ?_⟩
  apply load_congr ptr a.c bito bo d data a.s a.e ha.1 hl (hl ▸ ha.2.1) ha.2.2
  intro k h1 h2
  rw [hb k (by have := ha.2.1; omega)]
  unfold specStoreBit
  have : ¬ (x.f.s ≤ k ∧ k < x.f.e) := by
    unfold FieldRef.Disjoint at hdis; omega
  simp only [this, if_false]

theorem applySets_preserves (ptr : Nat) (bito : BitOrder) (bo : ByteOrder) (a : FieldRef) :
    ∀ (xs : List SetCall) (data : List Byte), a.Valid data.length →
      (∀ x ∈ xs, x.f.Valid data.length ∧ x.f.Disjoint a) →
      ∃ d, applySets ptr bito bo xs data = some d ∧ d.length = data.length ∧
        load ptr a.c bito bo d a.s a.e = load ptr a.c bito bo data a.s a.e := by
  intro xs
  induction xs with
  | nil => intro data _ _; exact ⟨data, rfl, rfl, rfl⟩
  | cons x xs ih =>
    intro data ha hall
    have hx := hall x (List.mem_cons_self ..)
    obtain ⟨d, hd, hl, hload⟩ := store_other_field ptr bito bo x a data hx.1 ha hx.2
    obtain ⟨d2, hd2, hl2, hload2⟩ := ih d (hl ▸ ha)
      (fun y hy => hl ▸ hall y (List.mem_cons_of_mem _ hy))
    refine ⟨d2, ?_, by omega, by rw [hload2, hload]⟩
    simp only [applySets, hd, hd2]

theorem applySets_total (ptr : Nat) (bito : BitOrder) (bo : ByteOrder) :
    ∀ (xs : List SetCall) (data : List Byte), (∀ x ∈ xs, x.f.Valid data.length) →
      ∃ d, applySets ptr bito bo xs data = some d ∧ d.length = data.length := by
  intro xs
  induction xs with
  | nil => intro data _; exact ⟨data, rfl, rfl⟩
  | cons x xs ih =>
    intro data hall
    have hx := hall x (List.mem_cons_self ..)
    obtain ⟨d, hd, hl, _⟩ := store_spec ptr x.f.c bito bo x.v data x.f.s x.f.e hx.1 hx.2.1 hx.2.2
    obtain ⟨d2, hd2, hl2⟩ := ih d (fun y hy => hl ▸ hall y (List.mem_cons_of_mem _ hy))
    exact ⟨d2, by simp only [applySets, hd, hd2], by omega⟩

theorem applySets_append (ptr : Nat) (bito : BitOrder) (bo : ByteOrder) :
    ∀ (xs ys : List SetCall) (data : List Byte),
      applySets ptr bito bo (xs ++ ys) data =
        match applySets ptr bito bo xs data with
        | none => none
        | some d => applySets ptr bito bo ys d := by
  intro xs
  induction xs with
  | nil => intro ys data; rfl
  | cons x xs ih =>
    intro ys data
    simp only [List.cons_append, applySets]
    cases store ptr x.f.c bito bo x.v x.f.s x.f.e data with
    | none => rfl
    | some d => exact ih ys d




/-! ## Byte-level footprint of a store -/

theorem exists_setbit (bo : ByteOrder) (bito : BitOrder) (len idx u : Nat) (hidx : idx < len)
    (hu : u < 8) :
    ∃ k, k < 8 * len ∧ specByteIndex bo len k = idx ∧ specBitInByte bito k = u := by
  unfold specByteIndex specBitInByte
  cases bo <;> cases bito
  · exact ⟨8 * idx + u, by omega, by simp only; omega, by simp only; omega⟩
  · exact ⟨8 * idx + (7 - u), by omega, by simp only; omega, by simp only; omega⟩
  · exact ⟨8 * (len - 1 - idx) + u, by omega, by simp only; omega, by simp only; omega⟩
  · exact ⟨8 * (len - 1 - idx) + (7 - u), by omega, by simp only; omega, by simp only; omega⟩

theorem store_untouched_byte (ptr : Nat) (c : Carrier) (bito : BitOrder) (bo : ByteOrder)
    (v : BitVec c.bits) (data : List Byte)
    (s e : Nat) (hse : s ≤ e) (hlen : e ≤ 8 * data.length) (hw : e - s ≤ c.bits) :
    ∃ d, store ptr c bito bo v s e data = some d ∧ d.length = data.length ∧
      ∀ idx, idx < data.length →
        (∀ k, s ≤ k → k < e → specByteIndex bo data.length k ≠ idx) →
        d.getD idx 0#8 = data.getD idx 0#8 := by
  obtain ⟨d, hd, hl, hb⟩ := store_spec ptr c bito bo v data s e hse hlen hw
  refine ⟨d, hd, hl, ?_⟩
  intro idx hidx hcov
  apply BitVec.eq_of_getLsbD_eq
  intro u hu
  obtain ⟨k, hk1, hk2, hk3⟩ := exists_setbit bo bito data.length idx u hidx hu
  have hout : ¬ (s ≤ k ∧ k < e) := by
    intro h; exact hcov _ h.1 h.2 hk2
  have := hb k hk1
  unfold specStoreBit at this
  simp only [hout, if_false] at this
  unfold physBit byteAt at this
  rw [hl, hk2, hk3] at this
  exact this



end DDV.Bits
