/-
  DDV.Bits.Spec — the documented bit numbering (`book/src/memory.md`), written independently of
  the loops in `ops.rs`.

  "Bit k of a field set is bit (k mod 8) of byte (k div 8), where bits are counted from the
   least-significant end under LSB0 and from the most-significant end under MSB0, and bytes are
   counted from the front of the transferred byte array under LE and from its back under BE."
-/
import DDV.Bits.Model

namespace DDV.Bits

/-- The byte (as an index into the transferred array) holding set-bit `k`. Only meaningful for
    `k < 8 * len`. -/
def specByteIndex (bo : ByteOrder) (len k : Nat) : Nat :=
  match bo with
  | .le => k / 8
  | .be => len - 1 - k / 8

/-- The position, counted from the least-significant end, of set-bit `k` inside its byte. -/
def specBitInByte (bito : BitOrder) (k : Nat) : Nat :=
  match bito with
  | .lsb0 => k % 8
  | .msb0 => 7 - k % 8

/-- The byte holding set-bit `k`. -/
def byteAt (bo : ByteOrder) (data : List Byte) (k : Nat) : Byte :=
  data.getD (specByteIndex bo data.length k) 0#8

/-- Set-bit `k` of the byte array `data` under the given orders. -/
def physBit (bo : ByteOrder) (bito : BitOrder) (data : List Byte) (k : Nat) : Bool :=
  (byteAt bo data k).getLsbD (specBitInByte bito k)

/-- The byte segment of the field `[s,e)` that contains set-bit `k`: `[lo, hi)` with
    `lo = max s (8*(k/8))`, `hi = min e (8*(k/8)+8)`. -/
def segLo (s k : Nat) : Nat := max s (8 * (k / 8))
def segHi (e k : Nat) : Nat := min e (8 * (k / 8) + 8)

/-- Which set-bit supplies value bit `j` of a field over `[s,e)`.
    LSB0: `s + j`.  MSB0: "the part of the field inside one byte keeps its natural significance
    and the parts in successive bytes are concatenated least-significant first" — i.e. inside
    each byte segment the order is reversed (the MSB0 set-bit numbering runs against
    significance), while segments are taken in increasing set-bit order. -/
def srcOfValueBit (bito : BitOrder) (s e j : Nat) : Nat :=
  match bito with
  | .lsb0 => s + j
  | .msb0 => segLo s (s + j) + segHi e (s + j) - 1 - (s + j)

/-- The inverse direction: which value bit a set-bit `k ∈ [s,e)` carries. -/
def valueBitOfSrc (bito : BitOrder) (s e k : Nat) : Nat :=
  match bito with
  | .lsb0 => k - s
  | .msb0 => segLo s k + segHi e k - 1 - k - s

/-- The field value required by the property, bit by bit. -/
def specLoadBit (bo : ByteOrder) (bito : BitOrder) (data : List Byte) (s e j : Nat) : Bool :=
  decide (j < e - s) && physBit bo bito data (srcOfValueBit bito s e j)

/-- The field value required by the property as a number (used by the driver). -/
def specLoadNat (bo : ByteOrder) (bito : BitOrder) (data : List Byte) (s e : Nat) : Nat :=
  (List.range (e - s)).foldl (fun acc j => acc + (if specLoadBit bo bito data s e j then 2 ^ j else 0)) 0

/-- The byte array required after a store, set-bit by set-bit. -/
def specStoreBit (bo : ByteOrder) (bito : BitOrder) (data : List Byte) (s e : Nat)
    (vbit : Nat → Bool) (k : Nat) : Bool :=
  if s ≤ k ∧ k < e then vbit (valueBitOfSrc bito s e k) else physBit bo bito data k

/-! ### The "bytewise concatenation" reading of MSB0, as a fold

  For MSB0 the property says: the part of the field inside one byte keeps its natural
  significance, and the parts in successive bytes are concatenated least-significant first.
  `msb0Parts` lists, for each byte the field touches (in increasing set-bit order), the pair
  (number of bits, numeric value of that part with natural significance inside the byte).
-/

/-- Natural-significance value of the MSB0 set-bits `[lo,hi)` (all in one byte) of `data`. -/
def partValueMsb0 (bo : ByteOrder) (data : List Byte) (lo hi : Nat) : Nat :=
  -- set-bit k (MSB0) is byte bit 7 - k%8; the part occupies byte bits [8 - hi', 8 - lo') where
  -- lo' = lo - 8*(lo/8), hi' = hi - 8*(lo/8); its value is the byte shifted right by 8 - hi'
  -- and cut to hi - lo bits.
  let byte := (byteAt bo data lo).toNat
  (byte / 2 ^ (8 * (lo / 8) + 8 - hi)) % 2 ^ (hi - lo)

/-- Concatenate the parts least-significant first, walking the bytes the field touches.
    `fuel` bounds the number of bytes (any value `≥ e - lo` works). -/
def concatPartsMsb0 (bo : ByteOrder) (data : List Byte) (e : Nat) : Nat → Nat → Nat
  | 0, _ => 0
  | fuel + 1, lo =>
    if lo < e then
      let hi := min e (8 * (lo / 8) + 8)
      partValueMsb0 bo data lo hi + 2 ^ (hi - lo) * concatPartsMsb0 bo data e fuel hi
    else 0

def fieldValueMsb0Spec (bo : ByteOrder) (data : List Byte) (s e : Nat) : Nat :=
  concatPartsMsb0 bo data e (e - s) s

end DDV.Bits

namespace DDV.Bits

/-- The byte array required after a store, assembled from `specStoreBit` (executable form used
    by the driver): byte `idx`, bit `u` (from the least-significant end) is the set-bit that the
    numbering places there. -/
def specStoreBytes (bo : ByteOrder) (bito : BitOrder) (data : List Byte) (s e : Nat)
    (vbit : Nat → Bool) : List Byte :=
  (List.range data.length).map fun idx =>
    let byteNo := match bo with | .le => idx | .be => data.length - 1 - idx
    let n := (List.range 8).foldl (fun acc u =>
      let t := match bito with | .lsb0 => u | .msb0 => 7 - u
      if specStoreBit bo bito data s e vbit (8 * byteNo + t) then acc + 2 ^ u else acc) 0
    BitVec.ofNat 8 n

end DDV.Bits
