/-
  DDV.Bits.Model — executable model of `device-driver/src/ops.rs`.

  The four codec functions are transcribed statement by statement:
  * the `while i < end` loop becomes well-founded recursion on `e - i`;
  * `get_unchecked(ByteO::get_byte_index(len, i))` becomes `getByte?`, which is `none`
    exactly when the Rust would be out of bounds (or the `usize` subtraction of the BE
    index would wrap) — i.e. undefined behaviour;
  * shifts by `>= width` (a debug panic / release mask in Rust) are explicit failures;
  * the `usize`/`isize` arithmetic of `pivot_msb0` is done in `Int` with explicit failure on
    `usize` underflow;
  * `DedupCast::cast` / `cast_back` are `signExtend`/`zeroExtend` to the dedup width and
    truncation back.
  Nothing is defaulted: every failure is `none`.
-/

namespace DDV.Bits

inductive ByteOrder | le | be
  deriving DecidableEq, Repr, Inhabited

inductive BitOrder | lsb0 | msb0
  deriving DecidableEq, Repr, Inhabited

abbrev Byte := BitVec 8

/-- `ByteOrder::get_byte_index`; `none` is `usize` underflow in the BE subtraction. -/
def byteIndex? (bo : ByteOrder) (len k : Nat) : Option Nat :=
  match bo with
  | .le => some (k / 8)
  | .be => if k / 8 + 1 ≤ len then some (len - k / 8 - 1) else none

/-- `ByteO::get_byte_from_index(data, k)`; `none` = out-of-bounds `get_unchecked` (UB). -/
def getByte? (bo : ByteOrder) (data : List Byte) (k : Nat) : Option Byte :=
  match byteIndex? bo data.length k with
  | none => none
  | some idx => data[idx]?

/-- `*ByteO::get_byte_from_index_mut(data, k) = b`; `none` = out of bounds. -/
def setByte? (bo : ByteOrder) (data : List Byte) (k : Nat) (b : Byte) : Option (List Byte) :=
  match byteIndex? bo data.length k with
  | none => none
  | some idx => if idx < data.length then some (data.set idx b) else none

/-- `usize::next_multiple_of(8)`. -/
def nextMultipleOf8 (n : Nat) : Nat := if n % 8 = 0 then n else n + (8 - n % 8)

/-- `usize::div_ceil(2)`. -/
def divCeil2 (n : Nat) : Nat := (n + 1) / 2

/-- The `isize` part of `pivot_msb0` (ops.rs:223-246). `none` is a negative `j as usize`. -/
def pivotTail (numBits pivot i : Nat) : Option Nat :=
  let even : Int := if numBits % 2 = 0 then 1 else 0
  let diff0 : Int := (pivot : Int) - (i : Int)
  let diff : Int := if diff0 ≤ 0 then diff0 - even else diff0
  let j0 : Int := (i : Int) + diff * 2
  let j : Int := if diff > 0 then j0 - even else j0 + even
  if j < 0 then none else some j.toNat

/-- `pivot_msb0(start, end, i)` (ops.rs:196-247).  `none` is a `usize` underflow
    (`end - 8` with `end < 8`, a subtraction going negative) or a negative `j as usize`. -/
def pivotMsb0 (s e i : Nat) : Option Nat :=
  if i / 8 = s / 8 then
    let m := min (nextMultipleOf8 (s + 1)) e
    if m < s then none else
    let numBits := m - s
    pivotTail numBits (s + numBits / 2) i
  else
    if e < 8 then none else
    let a := nextMultipleOf8 (e - 8)
    if e < a then none else
    let numBits := e - a
    if e < divCeil2 numBits then none else
    pivotTail numBits (e - divCeil2 numBits) i

/-- One step of the load loop: which value-bit position receives which data. -/
def loadLoop (D : Nat) (bito : BitOrder) (bo : ByteOrder) (data : List Byte) (s e : Nat)
    (i : Nat) (out : BitVec D) : Option (BitVec D) :=
  if _h : i < e then
    match getByte? bo data i with
    | none => none
    | some byte =>
      if i % 8 = 0 ∧ i + 8 ≤ e then
        if i < s ∨ D ≤ i - s then none else
        loadLoop D bito bo data s e (i + 8) (out ||| (byte.setWidth D <<< (i - s)))
      else
        match bito with
        | .lsb0 =>
          let bit : Byte := (byte >>> (i % 8)) &&& 1#8
          if i < s ∨ D ≤ i - s then none else
          loadLoop D bito bo data s e (i + 1) (out ||| (bit.setWidth D <<< (i - s)))
        | .msb0 =>
          match pivotMsb0 s e i with
          | none => none
          | some j =>
            let bit : Byte := (byte >>> (7 - i % 8)) &&& 1#8
            if j < s ∨ D ≤ j - s then none else
            loadLoop D bito bo data s e (i + 1) (out ||| (bit.setWidth D <<< (j - s)))
  else some out
termination_by e - i
decreasing_by all_goals omega

/-- `value >> n` on the dedup type: arithmetic for signed, logical for unsigned. -/
def shr {D : Nat} (signed : Bool) (v : BitVec D) (n : Nat) : BitVec D :=
  if signed then v.sshiftRight n else v >>> n

def storeLoop (D : Nat) (signed : Bool) (bito : BitOrder) (bo : ByteOrder) (v : BitVec D)
    (s e : Nat) (i : Nat) (data : List Byte) : Option (List Byte) :=
  if _h : i < e then
    match getByte? bo data i with
    | none => none
    | some byte =>
      if i % 8 = 0 ∧ i + 8 ≤ e then
        if i < s ∨ D ≤ i - s then none else
        match setByte? bo data i ((shr signed v (i - s)).setWidth 8) with
        | none => none
        | some data' => storeLoop D signed bito bo v s e (i + 8) data'
      else
        match bito with
        | .lsb0 =>
          if i < s ∨ D ≤ i - s then none else
          let bit : Byte := (shr signed v (i - s)).setWidth 8 &&& 1#8
          let b1 : Byte := byte &&& ~~~(1#8 <<< (i % 8))
          let b2 : Byte := b1 ||| (bit <<< (i % 8))
          match setByte? bo data i b2 with
          | none => none
          | some data' => storeLoop D signed bito bo v s e (i + 1) data'
        | .msb0 =>
          match pivotMsb0 s e i with
          | none => none
          | some j =>
            if j < s ∨ D ≤ j - s then none else
            let bit : Byte := (shr signed v (j - s)).setWidth 8 &&& 1#8
            let b1 : Byte := byte &&& ~~~(1#8 <<< (7 - i % 8))
            let b2 : Byte := b1 ||| (bit <<< (7 - i % 8))
            match setByte? bo data i b2 with
            | none => none
            | some data' => storeLoop D signed bito bo v s e (i + 1) data'
  else some data
termination_by e - i
decreasing_by all_goals omega

/-- A carrier integer type of the generated code. -/
structure Carrier where
  bits : Nat
  signed : Bool
  deriving DecidableEq, Repr, Inhabited

/-- `DedupCast::DedupType` width for a carrier of `bits` bits on a target with `ptr`-bit
    pointers, as tabulated by the `impl_dedup_cast!` lines (checked against the source by the
    extractor: `DDV.Extracted.Dedup`). `usize/isize` carriers are passed with `bits = ptr`. -/
def dedupWidth (ptr : Nat) (bits : Nat) : Nat :=
  if bits ≤ ptr then ptr else bits

/-- `load_{lsb0,msb0}::<T, ByteO>(data, start, end)`: `T::cast_back(inner::<T::DedupType>(..))`. -/
def load (ptr : Nat) (c : Carrier) (bito : BitOrder) (bo : ByteOrder) (data : List Byte)
    (s e : Nat) : Option (BitVec c.bits) :=
  (loadLoop (dedupWidth ptr c.bits) bito bo data s e s 0).map (·.setWidth c.bits)

/-- `value.cast()`: `self as DedupType` — sign extension for signed carriers. -/
def castUp (D : Nat) (c : Carrier) (v : BitVec c.bits) : BitVec D :=
  if c.signed then v.signExtend D else v.setWidth D

/-- `store_{lsb0,msb0}::<T, ByteO>(value, start, end, data)`. -/
def store (ptr : Nat) (c : Carrier) (bito : BitOrder) (bo : ByteOrder) (v : BitVec c.bits)
    (s e : Nat) (data : List Byte) : Option (List Byte) :=
  let D := dedupWidth ptr c.bits
  storeLoop D c.signed bito bo (castUp D c v) s e s data

end DDV.Bits
