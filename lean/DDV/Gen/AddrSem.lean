/-
  DDV.Gen.AddrSem — what the emitted accessors and `read_all_registers` compute
  (`block_transform.rs:51-95,221-258`), over exact integers and over the internal type.
-/
import DDV.Gen.Addr

namespace DDV.Gen

/-- The accessor `fn name(&mut self[, index: usize])`: `assert!(index < count)` then
    `self.base_address + ADDRESS (+|-) index as T * |STRIDE|` (the operator is chosen from the sign
    of the stride, the literal is its absolute value). `none` = the assertion panics, before any
    operation object exists. A non-repeated accessor takes no index (`idx = 0`). -/
def Method.addrAt (m : Method) (base : Int) (idx : Nat) : Option Int :=
  match m.repeat_ with
  | none => if idx = 0 then some (base + m.address) else none
  | some r =>
    if idx < r.count then
      some (if r.stride < 0 then base + m.address - (idx : Int) * (r.stride.natAbs : Int)
            else base + m.address + (idx : Int) * (r.stride.natAbs : Int))
    else none

/-- The stride of a method (0 when it is not repeated). -/
def Method.strideOr0 (m : Method) : Int := match m.repeat_ with | some r => r.stride | none => 0

/-- A chain of accessor calls from the root block: each step is a method and the index passed. -/
def evalChain : List (Method × Nat) → Int → Option Int
  | [], base => some base
  | (m, i) :: rest, base =>
    match m.addrAt base i with
    | none => none
    | some a => evalChain rest a

/-- The mathematically defined address of the same chain. -/
def specChain : List (Method × Nat) → Int → Int
  | [], base => base
  | (m, i) :: rest, base =>
    specChain rest (base + m.address + (i : Int) * m.strideOr0)

/-- What `read_all_registers` reports for register `m` at index `idx`: `ADDRESS + idx * STRIDE`. -/
def Method.reportedAt (m : Method) (idx : Nat) : Int :=
  m.address + (idx : Int) * m.strideOr0

/-- The same arithmetic in the internal type `T` (`lo ≤ x ≤ hi`): `none` = an intermediate value
    (literal, `index as T`, the product, a sum) leaves the type — overflow panic / wrap. -/
def fitsT (lo hi x : Int) : Bool := decide (lo ≤ x ∧ x ≤ hi)

def Method.addrAtT (lo hi : Int) (m : Method) (base : Int) (idx : Nat) : Option Int :=
  if !fitsT lo hi m.address then none else
  let s0 := base + m.address
  if !fitsT lo hi s0 then none else
  match m.repeat_ with
  | none => if idx = 0 then some s0 else none
  | some r =>
    if idx < r.count then
      let st : Int := r.stride.natAbs
      if !fitsT lo hi (idx : Int) || !fitsT lo hi st then none else
      let prod := (idx : Int) * st
      if !fitsT lo hi prod then none else
      let v := if r.stride < 0 then s0 - prod else s0 + prod
      if fitsT lo hi v then some v else none
    else none

/-- A chain of accessor calls with every step computed in the internal type. -/
def evalChainT (lo hi : Int) : List (Method × Nat) → Int → Option Int
  | [], base => some base
  | (m, i) :: rest, base =>
    match m.addrAtT lo hi base i with
    | none => none
    | some a => evalChainT lo hi rest a

end DDV.Gen
