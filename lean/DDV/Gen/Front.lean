/-
  DDV.Gen.Front — the abstract definition `ADef` (what a user writes, every optional key an
  `Option`) and the two front-end lowerings to MIR:
  * `lowerDsl`      mirrors `dsl_hir/mir_transform.rs`
  * `lowerManifest` mirrors `manifest/mod.rs` (shared by JSON / YAML / TOML)
  Which defaults are applied where, the range forms, what a ref override may contain and where
  descriptions go are transcribed from the respective Rust.
-/
import DDV.Gen.Passes

namespace DDV.Gen
open DDV.Bits (ByteOrder BitOrder)

structure AConfig where
  defaultRegisterAccess : Option Access := none
  defaultFieldAccess : Option Access := none
  defaultBufferAccess : Option Access := none
  defaultByteOrder : Option ByteOrder := none
  defaultBitOrder : Option BitOrder := none
  registerAddressType : Option Integer := none
  commandAddressType : Option Integer := none
  bufferAddressType : Option Integer := none
  nameWordBoundaries : Option (List String) := none
  defmtFeature : Option String := none
  deriving Repr, Inhabited

structure AVariant where
  name : String
  cfg : Option String := none
  description : Option String := none
  value : EnumValue
  deriving Repr, Inhabited

structure AEnum where
  name : String
  description : Option String := none
  variants : List AVariant
  deriving Repr, Inhabited

inductive AConv
  | ty (path : String) (useTry : Bool)
  | enum (e : AEnum) (useTry : Bool)
  deriving Repr, Inhabited

structure AField where
  name : String
  cfg : Option String := none
  description : Option String := none
  access : Option Access := none
  base : BaseType
  start : Nat
  stop : Option Nat        -- `none`: the single-address form
  conv : Option AConv := none
  deriving Repr, Inhabited

structure AOverride where
  kind : String                 -- block | register | command | buffer | ref
  address : Option Int := none  -- `address` / `address_offset`
  repeat_ : Option Repeat := none
  access : Option Access := none
  reset : Option ResetValue := none
  allowAddressOverlap : Option Bool := none
  illegal : List String := []
  deriving Repr, Inhabited

structure ACommon where
  name : String
  cfg : Option String := none
  description : Option String := none
  deriving Repr, Inhabited

inductive AObj
  | block (c : ACommon) (addressOffset : Option Int) (repeat_ : Option Repeat) (objects : List AObj)
  | register (c : ACommon) (access : Option Access) (byteOrder : Option ByteOrder)
      (bitOrder : Option BitOrder) (address : Int) (sizeBits : Nat) (reset : Option ResetValue)
      (repeat_ : Option Repeat) (allowBitOverlap allowAddressOverlap : Option Bool) (fields : List AField)
  | command (c : ACommon) (basic : Bool) (address : Int) (byteOrder : Option ByteOrder)
      (bitOrder : Option BitOrder) (sizeBitsIn sizeBitsOut : Option Nat) (repeat_ : Option Repeat)
      (allowBitOverlap allowAddressOverlap : Option Bool) (fieldsIn fieldsOut : Option (List AField))
  | buffer (c : ACommon) (access : Option Access) (address : Int)
  | ref (c : ACommon) (target : String) (ov : AOverride)
  deriving Repr, Inhabited

structure ADef where
  config : AConfig
  objects : List AObj
  deriving Repr, Inhabited

inductive Syntax | dsl | json | yaml | toml
  deriving DecidableEq, Repr, Inhabited

def frontErr (kind : String) : Stop := .error { stage := "front", kind := kind }

/-! ### Value ranges the concrete parsers accept -/

def fitsI64 (n : Int) : Bool := decide (-9223372036854775808 ≤ n ∧ n ≤ 9223372036854775807)
def fitsU64 (n : Nat) : Bool := decide (n < 18446744073709551616)
def fitsU32 (n : Nat) : Bool := decide (n < 4294967296)

def checkRepeat (r : Option Repeat) : M (Option Repeat) :=
  match r with
  | none => pure none
  | some r => if fitsU64 r.count && fitsI64 r.stride then pure (some r) else throw (frontErr "front_bad_value")

def checkAddr (a : Int) : M Int := if fitsI64 a then pure a else throw (frontErr "front_bad_value")
def checkU32 (n : Nat) : M Nat := if fitsU32 n then pure n else throw (frontErr "front_bad_value")

/-! ### Global config (identical in both front ends) -/

def lowerConfig (c : AConfig) : GlobalConfig :=
  { defaultRegisterAccess := c.defaultRegisterAccess.getD .rw
    defaultFieldAccess := c.defaultFieldAccess.getD .rw
    defaultBufferAccess := c.defaultBufferAccess.getD .rw
    defaultByteOrder := c.defaultByteOrder
    defaultBitOrder := c.defaultBitOrder.getD .lsb0
    registerAddressType := c.registerAddressType
    commandAddressType := c.commandAddressType
    bufferAddressType := c.bufferAddressType
    nameWordBoundaries := c.nameWordBoundaries
    defmtFeature := c.defmtFeature }

/-! ### DSL lowering -/

def lowerVariant (v : AVariant) : EnumVariant :=
  { cfg := v.cfg, description := v.description.getD "", name := v.name, value := v.value }

/-- `Path::to_token_stream().to_string().replace(char::is_whitespace, "")`: the renderer writes
    paths without whitespace, so this is the identity on what it emits. -/
def stripWs (s : String) : String := String.ofList (s.toList.filter fun c => !c.isWhitespace)

def dslField (g : GlobalConfig) (f : AField) : M Field := do
  let descr := f.description.getD ""
  let conv : Option FieldConversion := f.conv.map fun
    | .ty p t => .direct (stripWs p) t
    | .enum e t => .enum { cfg := none, description := descr, name := e.name,
                           variants := e.variants.map lowerVariant } t
  -- `transform_field`: a single-bit address on a non-bool field is refused before any number is read
  let (s, e) ← match f.stop with
    | none =>
      if f.base == .bool then do
        let start ← checkU32 f.start
        pure (start, start)
      else throw (frontErr "front_field_needs_range")
    | some e => do
      let start ← checkU32 f.start
      pure (start, ← checkU32 e)
  pure { cfg := f.cfg, description := descr, name := f.name,
         access := f.access.getD g.defaultFieldAccess, base := f.base, conv := conv, start := s, stop := e }

def dslReset (r : Option ResetValue) : M (Option ResetValue) :=
  match r with
  | some (.int n) => if n < 2 ^ 128 then pure r else throw (frontErr "front_bad_value")
  | some (.array a) => if a.all (· < 256) then pure r else throw (frontErr "front_bad_value")
  | none => pure none

def dslOverride (target : String) (ov : AOverride) : M ObjectOverride := do
  -- `transform_ref` looks at the kind first, the override transforms then reject layout items
  -- before any value is parsed
  match ov.kind with
  | "buffer" => throw (frontErr "front_ref_buffer")
  | "block" | "register" | "command" => pure ()
  | _ => throw (frontErr "front_ref_ref")
  if !ov.illegal.isEmpty then throw (frontErr "front_override_layout")
  let address ← ov.address.mapM checkAddr
  match ov.kind with
  | "block" =>
    let rep ← checkRepeat ov.repeat_
    pure (.block { name := target, addressOffset := address, repeat_ := rep })
  | "register" =>
    -- `transform_register_override`: access, address, overlap flag, reset value, repeat - in that order
    let reset ← dslReset ov.reset
    let rep ← checkRepeat ov.repeat_
    pure (.register { name := target, access := ov.access, address := address,
                      allowAddressOverlap := ov.allowAddressOverlap.getD false,
                      reset := reset, repeat_ := rep })
  | _ =>
    let rep ← checkRepeat ov.repeat_
    pure (.command { name := target, address := address,
                     allowAddressOverlap := ov.allowAddressOverlap.getD false, repeat_ := rep })

mutual
def dslObj (g : GlobalConfig) : AObj → M Object
  | .block c off rep os => do
    let off ← off.mapM checkAddr
    let rep ← checkRepeat rep
    let os' ← dslObjs g os
    let h : BlockHead :=
      { cfg := c.cfg, description := c.description.getD "", name := c.name,
        addressOffset := off.getD 0, repeat_ := rep }
    pure (.block h os')
  | .register c access bo bito address size reset rep abo aao fields => do
    -- `transform_register`: address, size, reset value, repeat, then the fields
    let address ← checkAddr address
    let size ← checkU32 size
    let reset ← dslReset reset
    let rep ← checkRepeat rep
    let fs ← fields.mapM (dslField g)
    let r : Register :=
      { cfg := c.cfg, description := c.description.getD "", name := c.name,
        access := access.getD g.defaultRegisterAccess, byteOrder := bo,
        bitOrder := bito.getD g.defaultBitOrder, allowBitOverlap := abo.getD false,
        allowAddressOverlap := aao.getD false, address := address, sizeBits := size,
        reset := reset, repeat_ := rep, fields := fs }
    pure (.register r)
  | .command c basic address bo bito si so rep abo aao fin fout => do
    let address ← checkAddr address
    if basic then
      let x : Command :=
        { cfg := c.cfg, description := c.description.getD "", name := c.name,
          address := address, byteOrder := none, bitOrder := g.defaultBitOrder,
          allowBitOverlap := false, allowAddressOverlap := false, sizeBitsIn := 0,
          sizeBitsOut := 0, repeat_ := none, inFields := [], outFields := [] }
      pure (.command x)
    else do
      -- `transform_command`: address, sizes, repeat, then the two field lists
      let si ← checkU32 (si.getD 0)
      let so ← checkU32 (so.getD 0)
      let rep ← checkRepeat rep
      let i ← (fin.getD []).mapM (dslField g)
      let o ← (fout.getD []).mapM (dslField g)
      let x : Command :=
        { cfg := c.cfg, description := c.description.getD "", name := c.name,
          address := address, byteOrder := bo, bitOrder := bito.getD g.defaultBitOrder,
          allowBitOverlap := abo.getD false, allowAddressOverlap := aao.getD false,
          sizeBitsIn := si, sizeBitsOut := so, repeat_ := rep, inFields := i, outFields := o }
      pure (.command x)
  | .buffer c access address => do
    let address ← checkAddr address
    let b : Buffer :=
      { cfg := c.cfg, description := c.description.getD "", name := c.name,
        access := access.getD g.defaultBufferAccess, address := address }
    pure (.buffer b)
  | .ref c target ov => do
    let ov' ← dslOverride target ov
    let r : RefObject :=
      { cfg := c.cfg, description := c.description.getD "", name := c.name, override := ov' }
    pure (.ref r)
def dslObjs (g : GlobalConfig) : List AObj → M (List Object)
  | [] => pure []
  | o :: os => do
    let o' ← dslObj g o
    let os' ← dslObjs g os
    pure (o' :: os')
end

def lowerDsl (d : ADef) : M Device := do
  let g := lowerConfig d.config
  let os ← dslObjs g d.objects
  pure { config := g, objects := os }

/-! ### Manifest lowering -/

/-- Manifest integers: JSON numbers are read as `u64`; TOML integers are `i64`, so an unsigned value
    must stay below 2^63 there. YAML integers are `i64` too, but its reader also converts a `0b…`
    string with `u64::from_str_radix`, so every `u64` can be written (the renderer spells
    2^63 … 2^64-1 that way). -/
def manUintOk (s : Syntax) (n : Nat) : Bool :=
  match s with
  | .json => fitsU64 n
  | .yaml => fitsU64 n
  | _ => decide (n < 9223372036854775808)

def manReset (s : Syntax) (r : Option ResetValue) : M (Option ResetValue) :=
  match r with
  | some (.int n) => if manUintOk s n then pure r else throw (frontErr "front_bad_value")
  | some (.array a) => if a.all (· < 256) then pure r else throw (frontErr "front_bad_value")
  | none => pure none

/-- Fields start from `default_field_access` and are overwritten by their own keys. -/
def manField (g : GlobalConfig) (f : AField) : M Field := do
  let start ← checkU32 f.start
  let stop ← match f.stop with
    | none => pure start
    | some e => checkU32 e
  let conv : Option FieldConversion := f.conv.map fun
    | .ty p t => .direct p t
    | .enum e t => .enum { cfg := none, description := e.description.getD "", name := e.name,
                           variants := e.variants.map lowerVariant } t
  pure { cfg := f.cfg, description := f.description.getD "", name := f.name,
         access := f.access.getD g.defaultFieldAccess, base := f.base, conv := conv, start := start, stop := stop }

def manOverride (syn : Syntax) (target : String) (ov : AOverride) : M ObjectOverride := do
  match ov.kind with
  | "buffer" => throw (frontErr "front_ref_buffer")
  | "ref" => throw (frontErr "front_ref_ref")
  | _ => pure ()
  if !ov.illegal.isEmpty then throw (frontErr "front_override_layout")
  let address ← ov.address.mapM checkAddr
  let rep ← checkRepeat ov.repeat_
  match ov.kind with
  | "block" => pure (.block { name := target, addressOffset := address, repeat_ := rep })
  | "register" =>
    let reset ← manReset syn ov.reset
    pure (.register { name := target, access := ov.access, address := address,
                            allowAddressOverlap := ov.allowAddressOverlap.getD false,
                            reset := reset, repeat_ := rep })
  | _ =>
    pure (.command { name := target, address := address,
                            allowAddressOverlap := ov.allowAddressOverlap.getD false, repeat_ := rep })

mutual
def manObj (syn : Syntax) (g : GlobalConfig) : AObj → M Object
  | .block c off rep os => do
    let off ← off.mapM checkAddr
    let rep ← checkRepeat rep
    let os' ← manObjs syn g os
    let h : BlockHead :=
      { cfg := c.cfg, description := c.description.getD "", name := c.name,
        addressOffset := off.getD 0, repeat_ := rep }
    pure (.block h os')
  | .register c access bo bito address size reset rep abo aao fields => do
    let fs ← fields.mapM (manField g)
    let address ← checkAddr address
    let size ← checkU32 size
    let reset ← manReset syn reset
    let rep ← checkRepeat rep
    let r : Register :=
      { cfg := c.cfg, description := c.description.getD "", name := c.name,
        access := access.getD g.defaultRegisterAccess, byteOrder := bo,
        bitOrder := bito.getD g.defaultBitOrder,
        allowBitOverlap := abo.getD false, allowAddressOverlap := aao.getD false,
        address := address, sizeBits := size, reset := reset, repeat_ := rep, fields := fs }
    pure (.register r)
  | .command c _ address bo bito si so rep abo aao fin fout => do
    let address ← checkAddr address
    let i ← (fin.getD []).mapM (manField g)
    let o ← (fout.getD []).mapM (manField g)
    let si ← checkU32 (si.getD 0)
    let so ← checkU32 (so.getD 0)
    let rep ← checkRepeat rep
    let x : Command :=
      { cfg := c.cfg, description := c.description.getD "", name := c.name,
        address := address, byteOrder := bo, bitOrder := bito.getD g.defaultBitOrder,
        allowBitOverlap := abo.getD false, allowAddressOverlap := aao.getD false,
        sizeBitsIn := si, sizeBitsOut := so, repeat_ := rep, inFields := i, outFields := o }
    pure (.command x)
  | .buffer c access address => do
    let address ← checkAddr address
    let b : Buffer :=
      { cfg := c.cfg, description := c.description.getD "", name := c.name,
        access := access.getD g.defaultBufferAccess, address := address }
    pure (.buffer b)
  | .ref c target ov => do
    let ov' ← manOverride syn target ov
    let r : RefObject :=
      { cfg := c.cfg, description := c.description.getD "", name := c.name, override := ov' }
    pure (.ref r)
def manObjs (syn : Syntax) (g : GlobalConfig) : List AObj → M (List Object)
  | [] => pure []
  | o :: os => do
    let o' ← manObj syn g o
    let os' ← manObjs syn g os
    pure (o' :: os')
end

def lowerManifest (syn : Syntax) (d : ADef) : M Device := do
  let g := lowerConfig d.config
  let os ← manObjs syn g d.objects
  pure { config := g, objects := os }

def lowerFront (s : Syntax) (d : ADef) : M Device :=
  match s with
  | .dsl => lowerDsl d
  | s => lowerManifest s d

end DDV.Gen
