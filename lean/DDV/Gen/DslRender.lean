/-
  DDV.Gen.DslRender — the DSL tree of an abstract definition: what the grammar of
  `dsl_hir/mod.rs` builds from the canonical DSL text of an `ADef` (items in the renderer's
  order, one doc attribute for a description, one cfg attribute for a cfg, exclusive ranges).
  It is the counterpart of `DDV.Gen.ManRender` for the DSL and is only used in theorems: the
  driver reads the tree the real grammar built.
-/
import DDV.Gen.DslHir

namespace DDV.Gen.Dsl
open DDV.Bits (ByteOrder BitOrder)

def hLit (n : Int) : HLit := { neg := decide (n < 0), mag := n.natAbs }
def hNat (n : Nat) : HLit := { neg := false, mag := n }

def optItem {α β : Type} (o : Option α) (f : α → β) : List β :=
  match o with
  | none => []
  | some a => [f a]

def rAttrs (cfg : Option String) (descr : Option String) : List HAttr :=
  optItem descr HAttr.doc ++ optItem cfg HAttr.cfg

def rRepeat (r : Repeat) : HRepeat := { count := hNat r.count, stride := hLit r.stride }

def rVariant (v : AVariant) : HVariant :=
  { attrs := rAttrs v.cfg v.description, name := v.name,
    value := match v.value with
      | .unspecified => none
      | .specified n => some (.specified (hLit n))
      | .default => some .default
      | .catchAll => some .catchAll }

def rConv : AConv → HConv
  | .ty p t => .direct p t
  | .enum e t => .enum e.name (e.variants.map rVariant) t

def rField (f : AField) : HField :=
  { attrs := rAttrs f.cfg f.description, name := f.name, access := f.access, base := f.base,
    conv := f.conv.map rConv,
    addr := match f.stop with
      | none => .integer (hNat f.start)
      | some e => .range (hNat f.start) (hNat e) }

def rResetItem : Option ResetValue → List HRegItem
  | none => []
  | some (.int n) => [.resetInt (hNat n)]
  | some (.array a) => [.resetArray a]

def rBlockItems (off : Option Int) (rep : Option Repeat) : List HBlockItem :=
  optItem off (fun a => .addressOffset (hLit a)) ++ optItem rep (fun r => .repeat_ (rRepeat r))

def rRegItems (access : Option Access) (bo : Option ByteOrder) (bito : Option BitOrder) (address : Int)
    (size : Nat) (reset : Option ResetValue) (rep : Option Repeat) (abo aao : Option Bool) : List HRegItem :=
  optItem access HRegItem.access ++ optItem bo HRegItem.byteOrder ++ optItem bito HRegItem.bitOrder ++
  [.address (hLit address), .sizeBits (hNat size)] ++ rResetItem reset ++
  optItem rep (fun r => .repeat_ (rRepeat r)) ++ optItem abo HRegItem.allowBitOverlap ++
  optItem aao HRegItem.allowAddressOverlap

def rCmdItems (address : Int) (bo : Option ByteOrder) (bito : Option BitOrder) (si so : Option Nat)
    (rep : Option Repeat) (abo aao : Option Bool) : List HCmdItem :=
  [.address (hLit address)] ++ optItem bo HCmdItem.byteOrder ++ optItem bito HCmdItem.bitOrder ++
  optItem si (fun n => .sizeBitsIn (hNat n)) ++ optItem so (fun n => .sizeBitsOut (hNat n)) ++
  optItem rep (fun r => .repeat_ (rRepeat r)) ++ optItem abo HCmdItem.allowBitOverlap ++
  optItem aao HCmdItem.allowAddressOverlap

def rOvRegItems (ov : AOverride) : List HRegItem :=
  optItem ov.access HRegItem.access ++ optItem ov.address (fun a => .address (hLit a)) ++
  rResetItem ov.reset ++ optItem ov.repeat_ (fun r => .repeat_ (rRepeat r)) ++
  optItem ov.allowAddressOverlap HRegItem.allowAddressOverlap

def rOvCmdItems (ov : AOverride) : List HCmdItem :=
  optItem ov.address (fun a => HCmdItem.address (hLit a)) ++
  optItem ov.repeat_ (fun r => .repeat_ (rRepeat r)) ++
  optItem ov.allowAddressOverlap HCmdItem.allowAddressOverlap

/-- The override object of a ref (`ref X = <kind> Target { … }`), without layout items. -/
def rOverride (target : String) (ov : AOverride) : HObj :=
  match ov.kind with
  | "block" => .block [] target (rBlockItems ov.address ov.repeat_) []
  | "register" =>
    .register [] target (rOvRegItems ov) []
  | "command" =>
    .command [] target (some (.extended (rOvCmdItems ov) none none))
  | "buffer" => .buffer [] target none none
  | _ => .ref [] target (.buffer [] target none none)

mutual
def rObj : AObj → HObj
  | .block c off rep os => .block (rAttrs c.cfg c.description) c.name (rBlockItems off rep) (rObjs os)
  | .register c access bo bito address size reset rep abo aao fields =>
    .register (rAttrs c.cfg c.description) c.name
      (rRegItems access bo bito address size reset rep abo aao) (fields.map rField)
  | .command c basic address bo bito si so rep abo aao fin fout =>
    match basic with
    | true => .command (rAttrs c.cfg c.description) c.name (some (.basic (hLit address)))
    | false => .command (rAttrs c.cfg c.description) c.name (some (.extended
        (rCmdItems address bo bito si so rep abo aao) (fin.map (·.map rField)) (fout.map (·.map rField))))
  | .buffer c access address => .buffer (rAttrs c.cfg c.description) c.name access (some (hLit address))
  | .ref c target ov => .ref (rAttrs c.cfg c.description) c.name (rOverride target ov)
def rObjs : List AObj → List HObj
  | [] => []
  | o :: os => rObj o :: rObjs os
end

def rConfig (c : AConfig) : List HConfig :=
  optItem c.defaultRegisterAccess HConfig.defaultRegisterAccess ++
  optItem c.defaultFieldAccess HConfig.defaultFieldAccess ++
  optItem c.defaultBufferAccess HConfig.defaultBufferAccess ++
  optItem c.defaultByteOrder HConfig.defaultByteOrder ++
  optItem c.defaultBitOrder HConfig.defaultBitOrder ++
  optItem c.registerAddressType (fun i => .registerAddressType i.name) ++
  optItem c.commandAddressType (fun i => .commandAddressType i.name) ++
  optItem c.bufferAddressType (fun i => .bufferAddressType i.name) ++
  optItem c.nameWordBoundaries HConfig.nameWordBoundaries ++
  optItem c.defmtFeature HConfig.defmtFeature

def renderHir (d : ADef) : HDevice := { configs := rConfig d.config, objects := rObjs d.objects }

end DDV.Gen.Dsl
