/-
  DDV.Gen.Passes — the eleven MIR passes of `generation/src/mir/passes/*`, in the order of
  `run_passes`, as functions `Device → Except Stop Device`.

  The traversals follow the code as it walks (`recurse_objects_with_depth`: pre-order, the
  callback sees an object before its children; depth-tracked stacks are modelled as stacks, not as
  the tree recursion one would write). `expect`/`assert!`/arithmetic panics are the outcome
  `Stop.panic`, distinct from a reported error.
-/
import DDV.Gen.Mir

namespace DDV.Gen
open DDV.Bits (ByteOrder BitOrder)

/-- A reported error: the stage, a canonical kind, the quoted names of the message in order, the
    numbers the message states. `alts` lists the other name lists the implementation may print
    when it iterates a hash map (C20). -/
structure Err where
  stage : String
  kind : String
  names : List String := []
  numbers : List Int := []
  alts : List (List String) := []
  deriving Repr, DecidableEq, Inhabited

inductive Stop
  | error (e : Err)
  | panic (site : String)
  | abort (why : String)
  deriving Repr, DecidableEq, Inhabited

abbrev M := Except Stop

def passErr (kind : String) (names : List String := []) (numbers : List Int := []) : Stop :=
  .error { stage := "pass", kind := kind, names := names, numbers := numbers }

/-- The `convert_case` oracle (opaque functions; the driver instantiates them with the graph the
    real crate computed for the names of the case). -/
structure Names where
  pascal : String → String
  snake : String → String
  method : String → String
  collision : String → String
  devicePascal : String

/-! ### Generic pre-order traversal with depth and state -/

mutual
/-- `recurse_objects_with_depth(_mut)`: the callback is applied to an object (for a block: to its
    head) before its children are visited at `depth + 1`. -/
def visitObj {σ : Type} (fb : σ → Nat → BlockHead → M (BlockHead × σ))
    (fl : σ → Nat → Object → M (Object × σ)) (depth : Nat) (s : σ) : Object → M (Object × σ)
  | .block h os => do
    let (h', s1) ← fb s depth h
    let (os', s2) ← visitList fb fl (depth + 1) s1 os
    pure (.block h' os', s2)
  | .register r => fl s depth (.register r)
  | .command c => fl s depth (.command c)
  | .buffer b => fl s depth (.buffer b)
  | .ref r => fl s depth (.ref r)
def visitList {σ : Type} (fb : σ → Nat → BlockHead → M (BlockHead × σ))
    (fl : σ → Nat → Object → M (Object × σ)) (depth : Nat) (s : σ) : List Object → M (List Object × σ)
  | [] => pure ([], s)
  | o :: os => do
    let (o', s1) ← visitObj fb fl depth s o
    let (os', s2) ← visitList fb fl depth s1 os
    pure (o' :: os', s2)
end

/- Stateless pre-order map over all objects (the traversal of `recurse_objects_mut` when the
   callback keeps no state): block heads through `fb`, every other object through `fl`; the first
   failure in pre-order stops the walk. -/
mutual
def mapObj (fb : BlockHead → M BlockHead) (fl : Object → M Object) : Object → M Object
  | .block h os =>
    match fb h with
    | .error e => .error e
    | .ok h' =>
      match mapObjs fb fl os with
      | .error e => .error e
      | .ok os' => .ok (.block h' os')
  | .register r => fl (.register r)
  | .command c => fl (.command c)
  | .buffer b => fl (.buffer b)
  | .ref r => fl (.ref r)
def mapObjs (fb : BlockHead → M BlockHead) (fl : Object → M Object) : List Object → M (List Object)
  | [] => .ok []
  | o :: os =>
    match mapObj fb fl o with
    | .error e => .error e
    | .ok o' =>
      match mapObjs fb fl os with
      | .error e => .error e
      | .ok os' => .ok (o' :: os')
end

def mapObjects (fb : BlockHead → M BlockHead) (fl : Object → M Object) (os : List Object) :
    M (List Object) := mapObjs fb fl os

/- Pre-order list of all objects with their depth (a block appears before its children). -/
mutual
def flattenObj (depth : Nat) : Object → List (Object × Nat)
  | .block h os => (.block h os, depth) :: flattenList (depth + 1) os
  | o => [(o, depth)]
def flattenList (depth : Nat) : List Object → List (Object × Nat)
  | [] => []
  | o :: os => flattenObj depth o ++ flattenList depth os
end

def allObjects (os : List Object) : List Object := (flattenList 0 os).map (·.1)

/-- `search_object` (passes/mod.rs:144-159): first object of that name in pre-order. -/
def searchObject (name : String) (os : List Object) : Option Object :=
  (allObjects os).find? (fun o => o.name == name)

/-! ### 1. propagate_cfg (propagate_cfg.rs) -/

structure CfgWalk where
  currentDepth : Nat
  stack : List Cfg        -- top of the stack is the head of the list

def enumCfgOfField (objCfg : Cfg) (f : Field) : Field :=
  match f.conv with
  | some (.enum e t) => { f with conv := some (.enum { e with cfg := Cfg.combine f.cfg objCfg } t) }
  | _ => f

/-- The step the callback performs at one object: `while depth < current_depth { pop; current_depth -= 1 }`,
    then combine the object's own cfg with the top of the stack. -/
def cfgStep (w : CfgWalk) (depth : Nat) (own : Cfg) : M (Cfg × CfgWalk) :=
  let w1 : CfgWalk :=
    if depth < w.currentDepth then
      { currentDepth := depth, stack := w.stack.drop (w.currentDepth - depth) }
    else w
  match w1.stack.head? with
  | none => .error (.panic "cfg_stack_empty")
  | some top => .ok (Cfg.combine own top, w1)

/-- What the callback does to a non-block object once its combined cfg `c` is known. -/
def applyLeafCfg (c : Cfg) : Object → Object
  | .register r => .register { r with cfg := c, fields := r.fields.map (enumCfgOfField c) }
  | .command x => .command { x with cfg := c, inFields := x.inFields.map (enumCfgOfField c),
                                      outFields := x.outFields.map (enumCfgOfField c) }
  | other => other.setCfg c

/- The depth-tracked walk of `propagate_cfg.rs` over `recurse_objects_with_depth_mut`. -/
mutual
def cfgWalkObj (depth : Nat) (w : CfgWalk) : Object → M (Object × CfgWalk)
  | .block h os =>
    match cfgStep w depth h.cfg with
    | .error e => .error e
    | .ok (c, w1) =>
      match cfgWalkList (depth + 1) { currentDepth := w1.currentDepth + 1, stack := c :: w1.stack } os with
      | .error e => .error e
      | .ok (os', w2) => .ok (.block { h with cfg := c } os', w2)
  | .register r =>
    match cfgStep w depth r.cfg with
    | .error e => .error e
    | .ok (c, w1) => .ok (applyLeafCfg c (.register r), w1)
  | .command x =>
    match cfgStep w depth x.cfg with
    | .error e => .error e
    | .ok (c, w1) => .ok (applyLeafCfg c (.command x), w1)
  | .buffer b =>
    match cfgStep w depth b.cfg with
    | .error e => .error e
    | .ok (c, w1) => .ok (applyLeafCfg c (.buffer b), w1)
  | .ref r =>
    match cfgStep w depth r.cfg with
    | .error e => .error e
    | .ok (c, w1) => .ok (applyLeafCfg c (.ref r), w1)
def cfgWalkList (depth : Nat) (w : CfgWalk) : List Object → M (List Object × CfgWalk)
  | [] => .ok ([], w)
  | o :: os =>
    match cfgWalkObj depth w o with
    | .error e => .error e
    | .ok (o', w1) =>
      match cfgWalkList depth w1 os with
      | .error e => .error e
      | .ok (os', w2) => .ok (o' :: os', w2)
end

def propagateCfg (d : Device) : M Device :=
  match cfgWalkList 0 ⟨0, [none]⟩ d.objects with
  | .error e => .error e
  | .ok (os, _) => .ok { d with objects := os }

/-! ### 2. names_normalized -/

def normField (n : Names) (f : Field) : Field :=
  let conv := match f.conv with
    | some (.enum e t) =>
      some (.enum { e with name := n.pascal e.name,
                           variants := e.variants.map fun v => { v with name := n.pascal v.name } } t)
    | c => c
  { f with name := n.snake f.name, conv := conv }

def namesNormalized (n : Names) (d : Device) : M Device := do
  let os ← mapObjects (fun h => pure { h with name := n.pascal h.name })
    (fun o => pure (match o with
      | .register r => .register { r with name := n.pascal r.name, fields := r.fields.map (normField n) }
      | .command c => .command { c with name := n.pascal c.name, inFields := c.inFields.map (normField n),
                                         outFields := c.outFields.map (normField n) }
      | .buffer b => .buffer { b with name := n.pascal b.name }
      | .ref r =>
        let ov := match r.override with
          | .block o => ObjectOverride.block { o with name := n.pascal o.name }
          | .register o => .register { o with name := n.pascal o.name }
          | .command o => .command { o with name := n.pascal o.name }
        .ref { r with name := n.pascal r.name, override := ov }
      | other => other)) d.objects
  pure { d with objects := os }

/-! ### 3. names_unique -/

structure Seen where
  objects : List (String × Cfg) := []
  enums : List (String × Cfg) := []

def checkVariants (enumName objName fieldName : String) : List EnumVariant → List (String × Cfg) → M Unit
  | [], _ => pure ()
  | v :: vs, seen =>
    if seen.contains (v.name, v.cfg) then
      throw (passErr "dup_variant" [v.name, enumName, objName, fieldName])
    else checkVariants enumName objName fieldName vs ((v.name, v.cfg) :: seen)

def checkFields (objName : String) : List Field → List String → Seen → M Seen
  | [], _, s => pure s
  | f :: fs, seenNames, s => do
    if seenNames.contains f.name then throw (passErr "dup_field" [objName, f.name])
    let s' ← match f.conv with
      | some (.enum e _) => do
        if s.enums.contains (e.name, e.cfg) then throw (passErr "dup_enum" [e.name, objName, f.name])
        checkVariants e.name objName f.name e.variants []
        pure { s with enums := (e.name, e.cfg) :: s.enums }
      | _ => pure s
    checkFields objName fs (f.name :: seenNames) s'

def checkFieldSets (objName : String) : List (List Field) → Seen → M Seen
  | [], s => pure s
  | fs :: rest, s => do
    let s' ← checkFields objName fs [] s
    checkFieldSets objName rest s'

def namesStep (s : Seen) (o : Object) : M Seen :=
  if s.objects.contains (o.name, o.cfg) then throw (passErr "dup_object" [o.name])
  else checkFieldSets o.name o.fieldSets { s with objects := (o.name, o.cfg) :: s.objects }

def namesUnique (d : Device) : M Device :=
  match (allObjects d.objects).foldlM namesStep ({} : Seen) with
  | .ok _ => .ok d
  | .error e => .error e

/-! ### 4. enum_values_checked -/

/-- Number assignment of the analysis (enum_values_checked.rs:38-58): implicit values continue one
    above the previously *seen* value whatever the previous variant's kind; `default` and
    `catch_all` are assigned a number too but keep their kind. Returns the rewritten variants and
    the `seen_values` list (value, id display). -/
def assignValues : List EnumVariant → Option Int → List EnumVariant × List (Int × String × Cfg)
  | [], _ => ([], [])
  | v :: vs, last =>
    let next : Int := match last with | some l => l + 1 | none => 0
    let (v', val) : EnumVariant × Int := match v.value with
      | .unspecified => ({ v with value := .specified next }, next)
      | .specified n => (v, n)
      | .default => (v, next)
      | .catchAll => (v, next)
    let (rest, seen) := assignValues vs (some val)
    (v' :: rest, (val, v.name, v.cfg) :: seen)

/-- `Itertools::duplicates_by(key)`: every element whose key occurred before, once per key, in the
    order in which the second occurrence of the key appears. -/
def duplicatesBy {α κ : Type} [BEq κ] (key : α → κ) : List α → List κ → List κ → List α
  | [], _, _ => []
  | x :: xs, seenOnce, reported =>
    if reported.contains (key x) then duplicatesBy key xs seenOnce reported
    else if seenOnce.contains (key x) then x :: duplicatesBy key xs seenOnce (key x :: reported)
    else duplicatesBy key xs (key x :: seenOnce) reported

/-- `(0..=highest).all(|val| seen.any(|s| s == val))`, literally (so it iterates 2^w values, as
    the real pass does — wide enum fields make both take forever). -/
def bitsCovered (highest : Int) (seen : List Int) : Bool :=
  (List.range (highest + 1).toNat).all fun v => seen.contains (v : Int)

def hasFallback (vs : List EnumVariant) : Bool :=
  vs.any fun v => v.value == .default || v.value == .catchAll

def countDefault (vs : List EnumVariant) : Nat := (vs.filter (·.value == .default)).length
def countCatchAll (vs : List EnumVariant) : Nat := (vs.filter (·.value == .catchAll)).length

def dupKey (x : Int × String × Cfg) : Int × Cfg := (x.1, x.2.2)

/-- The analysis of one inline enum (enum_values_checked.rs:17-133), check by check in the order of
    the code. -/
def checkEnum (objName : String) (f : Field) (e : Enum) (useTry : Bool) : M Field :=
  let bits := f.width
  -- `(1 << field_bits) - 1` in i128: shift overflow at >= 128, subtraction overflow at 127
  if bits ≥ 128 then .error (.panic "shift_overflow")
  else if bits = 127 then .error (.panic "arith_overflow")
  else
    let highest : Int := 2 ^ bits - 1
    if e.variants.isEmpty then .error (passErr "enum_empty" [e.name])
    else
      let variants := (assignValues e.variants none).1
      let seen := (assignValues e.variants none).2
      -- two variants clash when they get the same number under the same cfg
      let dups := duplicatesBy dupKey seen [] []
      if !dups.isEmpty then
        .error (passErr "enum_dup_value"
          ([e.name, objName, f.name] ++ dups.map fun (num, name, cfg) => s!"{uniqueIdDisplay name cfg}: {num}"))
      else
        let style : GenStyle :=
          if hasFallback e.variants || bitsCovered highest (seen.map (·.1)) then .infallible bits else .fallible
        match seen.find? (fun x => x.1 > highest) with
        | some (v, name, cfg) =>
          .error (passErr "enum_value_too_high" [uniqueIdDisplay name cfg, e.name, objName, f.name] [v, highest])
        | none =>
          match (if f.base != .int then seen.find? (fun x => x.1 < 0) else none) with
          | some (v, name, cfg) =>
            .error (passErr "enum_value_too_low" [uniqueIdDisplay name cfg, e.name, objName, f.name] [v, 0])
          | none =>
            if countDefault e.variants ≥ 2 then .error (passErr "enum_multi_default" [e.name, objName, f.name])
            else if countCatchAll e.variants ≥ 2 then .error (passErr "enum_multi_catch_all" [e.name, objName, f.name])
            else if style == .fallible && !useTry then .error (passErr "enum_not_total" [e.name, objName, f.name])
            else .ok { f with conv := some (.enum { e with variants := variants, style := some style } useTry) }

def checkEnumField (objName : String) (f : Field) : M Field :=
  match f.conv with
  | some (.enum e useTry) => checkEnum objName f e useTry
  | _ => .ok f

def enumValuesChecked (d : Device) : M Device := do
  let os ← mapObjects (fun h => .ok h) (fun o => match o with
    | .register r => do pure (.register { r with fields := ← r.fields.mapM (checkEnumField r.name) })
    | .command c => do
      let i ← c.inFields.mapM (checkEnumField c.name)
      let o ← c.outFields.mapM (checkEnumField c.name)
      pure (.command { c with inFields := i, outFields := o })
    | other => pure other) d.objects
  pure { d with objects := os }

/-! ### 5. byte_order_specified -/

def byteOrderObj (dflt : Option ByteOrder) (o : Object) : M Object :=
  match dflt with
  | some bo =>
    match o with
    | .register r => if r.byteOrder.isNone then .ok (.register { r with byteOrder := some bo }) else .ok o
    | .command c => if c.byteOrder.isNone then .ok (.command { c with byteOrder := some bo }) else .ok o
    | other => .ok other
  | none =>
    match o with
    | .register r =>
      if r.byteOrder.isNone then
        if r.sizeBits > 8 then .error (passErr "no_byte_order_register" [r.name])
        else .ok (.register { r with byteOrder := some .le })
      else .ok o
    | .command c =>
      if c.byteOrder.isNone then
        if c.sizeBitsIn > 8 || c.sizeBitsOut > 8 then .error (passErr "no_byte_order_command" [c.name])
        else .ok (.command { c with byteOrder := some .le })
      else .ok o
    | other => .ok other

def byteOrderSpecified (d : Device) : M Device :=
  match mapObjects (fun h => .ok h) (byteOrderObj d.config.defaultByteOrder) d.objects with
  | .error e => .error e
  | .ok os => .ok { d with objects := os }

/-! ### 6. reset_values_converted -/

def reverseBits8 (b : Nat) : Nat :=
  (List.range 8).foldl (fun acc i => if b.testBit i then acc + 2 ^ (7 - i) else acc) 0

/-- `u128::to_le_bytes`. -/
def toLeBytes16 (n : Nat) : List Nat := (List.range 16).map fun i => (n / 2 ^ (8 * i)) % 256

/-- bit `k` of a byte list in bitvec's `Lsb0` view. -/
def lsb0Bit (bytes : List Nat) (k : Nat) : Bool := (bytes.getD (k / 8) 0).testBit (k % 8)
/-- bit `k` in bitvec's `Msb0` view. -/
def msb0Bit (bytes : List Nat) (k : Nat) : Bool := (bytes.getD (k / 8) 0).testBit (7 - k % 8)

def anyBitFrom (bit : Nat → Bool) (from_ upto : Nat) : Bool :=
  (List.range (upto - from_)).any fun i => bit (from_ + i)

/-- `convert_reset_value` (reset_values_converted.rs:119-204). -/
def convertResetValue (rv : ResetValue) (bito : BitOrder) (sizeBits : Nat) (objectName : String)
    (bo : ByteOrder) : M ResetValue := do
  let targetBytes := (sizeBits + 7) / 8
  match rv with
  | .int n =>
    let arr0 := toLeBytes16 n
    let arr := if bito == .msb0 then arr0.map reverseBits8 else arr0
    if sizeBits > 128 then throw (.panic "slice_index")
    if anyBitFrom (lsb0Bit arr) sizeBits 128 then
      throw (passErr "reset_bits_above_size" [objectName] [sizeBits])
    let fin0 := arr.take targetBytes
    let fin1 := if bito == .msb0 then fin0.map reverseBits8 else fin0
    let fin := if bo == .be then fin1.reverse else fin1
    pure (.array fin)
  | .array a =>
    if a.length ≠ targetBytes then
      throw (passErr "reset_wrong_length" [objectName] [targetBytes, a.length])
    let le := if bo == .be then a.reverse else a
    let bad := match bito with
      | .lsb0 => anyBitFrom (lsb0Bit le) sizeBits (8 * le.length)
      | .msb0 => anyBitFrom (msb0Bit le) sizeBits (8 * le.length)
    if bad then throw (passErr "reset_bits_above_size" [objectName] [sizeBits])
    pure (.array a)

/-- `get_target_byte_order` (reset_values_converted.rs:112-117). -/
def targetByteOrder (r : Register) (cfg : GlobalConfig) : M ByteOrder :=
  match r.byteOrder with
  | some bo => pure bo
  | none => match cfg.defaultByteOrder with
    | some bo => pure bo
    | none => if r.sizeBits ≤ 8 then pure .le else throw (.panic "byte_order_expect")

def resetValuesConverted (d : Device) : M Device := do
  let os ← mapObjects (fun h => .ok h) (fun o => match o with
    | .register r => match r.reset with
      | some rv => do
        let bo ← targetByteOrder r d.config
        let rv' ← convertResetValue rv r.bitOrder r.sizeBits r.name bo
        pure (.register { r with reset := some rv' })
      | none => pure o
    | .ref rf => match rf.override with
      | .register ov => match ov.reset with
        | some rv => do
          -- `search_object(..).expect(..).as_register().expect(..)` (refs_validated has run before)
          let base ← match searchObject ov.name d.objects with
            | some (.register b) => pure b
            | _ => throw (.panic "reset_expect_ref")
          let bo ← targetByteOrder base d.config
          let rv' ← convertResetValue rv base.bitOrder base.sizeBits rf.name bo
          pure (.ref { rf with override := .register { ov with reset := some rv' } })
        | none => pure o
      | _ => pure o
    | other => pure other) d.objects
  pure { d with objects := os }

/-! ### 7. bool_fields_checked -/

def checkBoolField (objName : String) (f : Field) : M Field :=
  if f.base == .bool then
    let f1 := if f.start = f.stop then { f with stop := f.stop + 1 } else f
    if f1.width ≠ 1 then .error (passErr "bool_too_wide" [objName, f.name])
    else if f1.conv.isSome then .error (passErr "bool_conversion" [objName, f.name])
    else .ok f1
  else .ok f

def checkBoolFields (objName : String) : List Field → M (List Field)
  | [] => .ok []
  | f :: fs =>
    match checkBoolField objName f with
    | .error e => .error e
    | .ok f' =>
      match checkBoolFields objName fs with
      | .error e => .error e
      | .ok fs' => .ok (f' :: fs')

def boolObj (o : Object) : M Object :=
  match o with
  | .register r =>
    match checkBoolFields r.name r.fields with
    | .error e => .error e
    | .ok fs => .ok (.register { r with fields := fs })
  | .command c =>
    match checkBoolFields c.name c.inFields with
    | .error e => .error e
    | .ok i =>
      match checkBoolFields c.name c.outFields with
      | .error e => .error e
      | .ok o => .ok (.command { c with inFields := i, outFields := o })
  | other => .ok other

def boolFieldsChecked (d : Device) : M Device :=
  match mapObjects (fun h => .ok h) boolObj d.objects with
  | .error e => .error e
  | .ok os => .ok { d with objects := os }

/-! ### 8. bit_ranges_validated -/

def validateLen (sizeBits : Nat) (objName : String) : List Field → M Unit
  | [] => .ok ()
  | f :: fs =>
    if ¬ (f.stop ≤ sizeBits) then .error (passErr "field_exceeds_size" [objName, f.name])
    else if ¬ (f.width > 0) then .error (passErr "field_zero_bits" [objName, f.name])
    else validateLen sizeBits objName fs

def rangesOverlap (a b : Field) : Bool := a.start < b.stop && b.start < a.stop

def validateOverlap (objName : String) : List Field → M Unit
  | [] => .ok ()
  | f :: rest =>
    match rest.find? (rangesOverlap f) with
    | some g => .error (passErr "fields_overlap" [objName, f.name, g.name])
    | none => validateOverlap objName rest

def validateSet (allowOverlap : Bool) (sizeBits : Nat) (objName : String) (fields : List Field) : M Unit :=
  match validateLen sizeBits objName fields with
  | .error e => .error e
  | .ok () => if allowOverlap then .ok () else validateOverlap objName fields

def bitRangesObj (o : Object) : M Object :=
  match o with
  | .register r =>
    match validateSet r.allowBitOverlap r.sizeBits r.name r.fields with
    | .error e => .error e
    | .ok () => .ok o
  | .command c =>
    match validateSet c.allowBitOverlap c.sizeBitsIn s!"{c.name} (in)" c.inFields with
    | .error e => .error e
    | .ok () =>
      match validateSet c.allowBitOverlap c.sizeBitsOut s!"{c.name} (out)" c.outFields with
      | .error e => .error e
      | .ok () => .ok o
  | other => .ok other

def bitRangesValidated (d : Device) : M Device :=
  match mapObjects (fun h => .ok h) bitRangesObj d.objects with
  | .error e => .error e
  | .ok _ => .ok d

/-! ### 9. refs_validated -/

inductive RefKind | block | register | command
  deriving DecidableEq, Repr

def RefKind.name : RefKind → String
  | .block => "block" | .register => "register" | .command => "command"

def overrideKind : ObjectOverride → RefKind
  | .block _ => .block | .register _ => .register | .command _ => .command

/-- `(target, reffer)` of every ref of kind `k`, in pre-order. -/
def refsOfKind (objs : List Object) (k : RefKind) : List (String × String) :=
  objs.filterMap fun o => match o with
    | .ref r => if overrideKind r.override = k then some (r.override.name, r.name) else none
    | _ => none

/-- names of the real objects of kind `k` -/
def realsOfKind (objs : List Object) (k : RefKind) : List String :=
  objs.filterMap fun o => match o, k with
    | .block h _, .block => some h.name
    | .register r, .register => some r.name
    | .command c, .command => some c.name
    | _, _ => none

/-- One of the three loops of `refs_validated`: the refs are kept in a `BTreeMap` keyed by target
    (a later ref to the same target replaces the earlier one), iterated by increasing target name;
    the first target that is not a real object of that kind is reported with its (last) reffer. -/
def reportBadRefs (refs bad : List (String × String)) (k : RefKind) : M Unit :=
  match bad with
  | [] => .ok ()
  | b :: bs =>
    let target := (bs.foldl (fun m x => if x.1 < m.1 then x else m) b).1
    let reffer := ((refs.filter (fun x => x.1 == target)).getLast?.map (·.2)).getD b.2
    .error (.error { stage := "pass", kind := s!"unknown_ref_{k.name}", names := [reffer, target] })

def checkRefKind (objs : List Object) (k : RefKind) : M Unit :=
  reportBadRefs (refsOfKind objs k)
    ((refsOfKind objs k).filter (fun x => !(realsOfKind objs k).contains x.1)) k

def refsValidated (d : Device) : M Device :=
  let objs := allObjects d.objects
  match checkRefKind objs .block with
  | .error e => .error e
  | .ok () =>
    match checkRefKind objs .register with
    | .error e => .error e
    | .ok () =>
      match checkRefKind objs .command with
      | .error e => .error e
      | .ok () => .ok d

/-! ### 10. address_types_specified -/

def addressTypesSpecified (d : Device) : M Device := do
  (allObjects d.objects).forM fun o => match o with
    | .register _ => if d.config.registerAddressType.isNone then throw (passErr "no_addr_type_register") else pure ()
    | .command _ => if d.config.commandAddressType.isNone then throw (passErr "no_addr_type_command") else pure ()
    | .buffer _ => if d.config.bufferAddressType.isNone then throw (passErr "no_addr_type_buffer") else pure ()
    | _ => pure ()
  pure d

/-! ### 11. address_types_big_enough — `find_min_max_addresses` (passes/mod.rs:91-142) -/

structure MinMax where
  min : Int := 0
  max : Int := 0
  lastDepth : Nat := 0
  /-- per enclosing block: the lowest and the highest offset any of its repeats adds; head = most
      recently pushed -/
  offsets : List (Int × Int) := [(0, 0)]

def popWhile (depth : Nat) (mm : MinMax) : MinMax :=
  -- `while depth < last_depth { pop; last_depth -= 1 }`
  let n := mm.lastDepth - depth
  if depth < mm.lastDepth then { mm with offsets := mm.offsets.drop n, lastDepth := depth } else mm

def i64Min : Int := -9223372036854775808
def i64Max : Int := 9223372036854775807
def fitsI64' (n : Int) : Bool := decide (i64Min ≤ n ∧ n ≤ i64Max)

/-- `i64` arithmetic of the analysis: with overflow checks on (how `cargo build` compiles the
    generator) an overflow is a panic. -/
def ck (n : Int) : M Int := if fitsI64' n then .ok n else .error (.panic "arith_overflow")

/-- `count.saturating_sub(1) as i64`: a `u64 → i64` cast wraps. -/
def countMinus1AsI64 (count : Nat) : Int :=
  let c := count - 1
  if c < 2 ^ 63 then (c : Int) else (c : Int) - 2 ^ 64

def sumChecked : List Int → Int → M Int
  | [], acc => .ok acc
  | x :: xs, acc =>
    match ck (acc + x) with
    | .error e => .error e
    | .ok v => sumChecked xs v

/-- The min/max update for one addressed object: the lowest and the highest address its own repeat
    reaches, on top of the lowest resp. highest sum of what the enclosing blocks' repeats add.
    Returns the new state and the object's own (lowest, highest) — what a block pushes. -/
def updMinMax (mm : MinMax) (address : Int) (rep : Repeat) : M (MinMax × Int × Int) :=
  -- `address_offsets.iter().map(..).sum()` adds in insertion order (the stack is stored newest first)
  match sumChecked (mm.offsets.map (·.1)).reverse 0 with
  | .error e => .error e
  | .ok minOff =>
    match sumChecked (mm.offsets.map (·.2)).reverse 0 with
    | .error e => .error e
    | .ok maxOff =>
      match ck (countMinus1AsI64 rep.count * rep.stride) with
      | .error e => .error e
      | .ok span =>
        match ck (address + Min.min span 0) with
        | .error e => .error e
        | .ok lowest =>
          match ck (address + Max.max span 0) with
          | .error e => .error e
          | .ok highest =>
            match ck (minOff + lowest) with
            | .error e => .error e
            | .ok lo =>
              match ck (maxOff + highest) with
              | .error e => .error e
              | .ok hi =>
                .ok ({ mm with min := Min.min mm.min lo, max := Max.max mm.max hi }, lowest, highest)

/-- "Push the offsets because the next objects are gonna be deeper". -/
def pushBlock (o : Object) (lowest highest : Int) (mm : MinMax) : MinMax :=
  match o with
  | .block _ _ => { mm with offsets := (lowest, highest) :: mm.offsets, lastDepth := mm.lastDepth + 1 }
  | _ => mm

def minMaxStep (filter : Object → Bool) (mm : MinMax) (od : Object × Nat) : M MinMax :=
  let mm1 := popWhile od.2 mm
  if !filter od.1 then .ok mm1 else
  match od.1.address with
  | some address =>
    match updMinMax mm1 address (od.1.repeat_.getD ⟨1, 0⟩) with
    | .error e => .error e
    | .ok (mm2, lowest, highest) => .ok (pushBlock od.1 lowest highest mm2)
  | none => .ok mm1

/- `recurse_objects_with_depth` with the `find_min_max_addresses` callback: the callback sees an
   object (at its depth) before the object's children are visited one level deeper. -/
mutual
def mmWalkObj (filter : Object → Bool) (depth : Nat) (mm : MinMax) : Object → M MinMax
  | .block h os =>
    match minMaxStep filter mm (.block h os, depth) with
    | .error e => .error e
    | .ok mm1 => mmWalkList filter (depth + 1) mm1 os
  | .register r => minMaxStep filter mm (.register r, depth)
  | .command c => minMaxStep filter mm (.command c, depth)
  | .buffer b => minMaxStep filter mm (.buffer b, depth)
  | .ref r => minMaxStep filter mm (.ref r, depth)
def mmWalkList (filter : Object → Bool) (depth : Nat) (mm : MinMax) : List Object → M MinMax
  | [] => .ok mm
  | o :: os =>
    match mmWalkObj filter depth mm o with
    | .error e => .error e
    | .ok mm1 => mmWalkList filter depth mm1 os
end

/-- The analysed (min, max) address over the objects selected by `filter`. Enclosing blocks
    contribute the lowest / highest of `address_offset + index × stride` over their repeat;
    children behind a block `ref` are not visited. Arithmetic is `i64` with overflow = panic. -/
def findMinMax (os : List Object) (filter : Object → Bool) : M (Int × Int) :=
  match mmWalkList filter 0 {} os with
  | .error e => .error e
  | .ok mm => .ok (mm.min, mm.max)

def isBlock : Object → Bool | .block _ _ => true | _ => false

/-- The three selections of `address_types_big_enough`: blocks are always walked (their offsets
    count), plus the objects of one kind and the refs to that kind. -/
def selRegister (o : Object) : Bool := isBlock o || match o with
    | .register _ => true
    | .ref r => (match r.override with | .register _ => true | _ => false)
    | _ => false
def selCommand (o : Object) : Bool := isBlock o || match o with
    | .command _ => true
    | .ref r => (match r.override with | .command _ => true | _ => false)
    | _ => false
def selBuffer (o : Object) : Bool := isBlock o || match o with
    | .buffer _ => true
    | _ => false

/-- One of the three checks of the pass (address_types_big_enough.rs:9-76). -/
def checkAddrKind (os : List Object) (kind : String) (t : Option Integer) (filter : Object → Bool) : M Unit :=
  match t with
  | none => .ok ()
  | some ty =>
    match findMinMax os filter with
    | .error e => .error e
    | .ok (mn, mx) =>
      if ¬ (mn ≥ ty.minValue) then .error (passErr s!"addr_too_low_{kind}" [] [mn, ty.minValue])
      else if ¬ (mx ≤ ty.maxValue) then .error (passErr s!"addr_too_high_{kind}" [] [mx, ty.maxValue])
      else .ok ()

def addressTypesBigEnough (d : Device) : M Device :=
  match checkAddrKind d.objects "register" d.config.registerAddressType selRegister with
  | .error e => .error e
  | .ok _ =>
    match checkAddrKind d.objects "command" d.config.commandAddressType selCommand with
    | .error e => .error e
    | .ok _ =>
      match checkAddrKind d.objects "buffer" d.config.bufferAddressType selBuffer with
      | .error e => .error e
      | .ok _ => .ok d

/-! ### run_passes -/

/-- The passes in the order of `run_passes` (passes/mod.rs:15-29). The order is also read from
    the source by the extractor and compared with `passOrder`. -/
def passOrder : List String :=
  ["propagate_cfg", "names_normalized", "names_unique", "enum_values_checked",
   "byte_order_specified", "refs_validated", "reset_values_converted", "bool_fields_checked",
   "bit_ranges_validated", "address_types_specified", "address_types_big_enough"]

def runPasses (n : Names) (d : Device) : M Device := do
  let d ← propagateCfg d
  let d ← namesNormalized n d
  let d ← namesUnique d
  let d ← enumValuesChecked d
  let d ← byteOrderSpecified d
  let d ← refsValidated d
  let d ← resetValuesConverted d
  let d ← boolFieldsChecked d
  let d ← bitRangesValidated d
  let d ← addressTypesSpecified d
  let d ← addressTypesBigEnough d
  pure d

end DDV.Gen
