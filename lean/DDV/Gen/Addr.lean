/-
  DDV.Gen.Addr — `lir/passes/addresses_non_overlapping.rs`: expansion of every (object, index)
  to an absolute address, pairwise comparison within a kind.
-/
import DDV.Gen.Lower

namespace DDV.Gen

structure Claimed where
  name : String
  repeatIndex : Option Nat
  address : Int
  allowOverlap : Bool
  kind : MethodKind
  deriving Repr, Inhabited

def lirErr (kind : String) (names : List String := []) (numbers : List Int := []) : Stop :=
  .error { stage := "lir", kind := kind, names := names, numbers := numbers }

/-- `(count, stride, repeated)` of a method (`method.repeat` or one instance, stride 0). -/
def Method.repTriple (m : Method) : Nat × Int × Bool :=
  match m.repeat_ with
  | none => (1, 0, false)
  | some r => (r.count, r.stride, true)

/-- `device.blocks.iter().find(|b| b.name == *name)` for a block accessor. -/
def lookupBlock (blocks : List LBlock) (m : Method) : Option LBlock :=
  blocks.find? (fun b => b.name == m.target.getD "")

/-- One claimed instance of a register / command / buffer accessor: `cur + i * stride` in `i64`. -/
def leafEntry (name : String) (repeated allow : Bool) (k : MethodKind) (cur stride : Int) (i : Nat) : M Claimed := do
  let step ← ck ((i : Int) * stride)
  let address ← ck (cur + step)
  pure { name := name, repeatIndex := if repeated then some i else none,
         address := address, allowOverlap := allow, kind := k }

mutual
/-- `get_block_claimed_addresses`. Sub-blocks are looked up **by name** among all collected blocks
    (`device.blocks.iter().find(|b| b.name == *name)`), so the recursion is not structural: `fuel`
    runs out only when a block resolves to one of its own ancestors (a block named like the
    device resolves to the root block), where the real code overflows its stack. -/
def claimedOfBlock (n : Names) (blocks : List LBlock) :
    Nat → LBlock → Int → List String → M (List Claimed)
  | 0, _, _, _ => throw (.abort "block_lookup_cycle")
  | fuel + 1, b, offset, stack => claimedOfMethods n blocks fuel b.methods offset stack

def claimedOfMethods (n : Names) (blocks : List LBlock) (fuel : Nat) :
    List Method → Int → List String → M (List Claimed)
  | [], _, _ => pure []
  | m :: ms, offset, stack => do
    let cur ← ck (offset + m.address)
    let here ← claimedHere n blocks fuel m cur stack
    let rest ← claimedOfMethods n blocks fuel ms offset stack
    pure (here ++ rest)

/-- the instances of one method: a block accessor expands its target block once per index, any
    other accessor claims one address per index -/
def claimedHere (n : Names) (blocks : List LBlock) (fuel : Nat) (m : Method) (cur : Int) (stack : List String) :
    M (List Claimed) :=
  match m.kind with
  | .block =>
    match lookupBlock blocks m with
    | none => throw (.panic "block_expect")
    | some sub =>
      claimedOfRepeats n blocks fuel sub cur m.repTriple.2.1 (n.collision (m.target.getD "")) stack m.repTriple.1 0
  | k =>
    (List.range m.repTriple.1).mapM
      (leafEntry ("::".intercalate (stack ++ [n.collision m.name])) m.repTriple.2.2 m.allowAddressOverlap k cur m.repTriple.2.1)

def claimedOfRepeats (n : Names) (blocks : List LBlock) (fuel : Nat) (sub : LBlock) (cur stride : Int)
    (display : String) (stack : List String) : Nat → Nat → M (List Claimed)
  | 0, _ => pure []
  | remaining + 1, i => do
    let step ← ck ((i : Int) * stride)
    let base ← ck (cur + step)
    let here ← match fuel with
      | 0 => throw (.abort "block_lookup_cycle")
      | f + 1 => claimedOfMethods n blocks f sub.methods base
                   (stack ++ [s!"{display} (index: {i})"])
    let rest ← claimedOfRepeats n blocks fuel sub cur stride display stack remaining (i + 1)
    pure (here ++ rest)
end

def displayName (c : Claimed) : String :=
  match c.repeatIndex with
  | some i => s!"{c.name} (index: {i})"
  | none => c.name

def firstCollision : List Claimed → Option (Claimed × Claimed)
  | [] => none
  | c :: rest =>
    match rest.find? (fun o => o.address == c.address && o.kind == c.kind && !(c.allowOverlap && o.allowOverlap)) with
    | some o => some (c, o)
    | none => firstCollision rest

/-- The pairwise comparison and the error it raises (addresses_non_overlapping.rs:14-38). -/
def reportCollision {α : Type} (claimed : List Claimed) (ok : α) : M α :=
  match firstCollision claimed with
  | some (a, b) => .error (lirErr "address_collision" [displayName a, displayName b] [a.address])
  | none => .ok ok

def addressesNonOverlapping (n : Names) (l : Lir) : M Lir := do
  let root ← match l.blocks.find? (·.root) with
    | some b => pure b | none => throw (.panic "root_expect")
  let fuel := 2 * l.blocks.length + 4
  let claimed ← claimedOfBlock n l.blocks fuel root 0 []
  reportCollision claimed l

end DDV.Gen
