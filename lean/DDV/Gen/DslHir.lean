/-
  DDV.Gen.DslHir — the DSL front end below the grammar: the tree `dsl_hir::Device` that the `syn`
  grammar of `generation/src/dsl_hir/mod.rs` builds, and its lowering to the MIR,
  `generation/src/dsl_hir/mir_transform.rs`, function by function and in the order the Rust
  evaluates (struct-literal fields are evaluated top to bottom, `?` leaves at the first error).

  Input is the tree exactly as the real parser produced it (the harness walks the generator's own
  typed tree, public under the `verif-hooks` feature, and dumps it); output the MIR device. Errors
  carry the kind the harness' classifier assigns to the real message. Only the grammar (token
  stream → tree) stays outside the model.
-/
import DDV.Gen.Front

namespace DDV.Gen
open DDV.Bits (ByteOrder BitOrder)

/-- A `syn::LitInt` as `base10_parse` sees it: `base10_digits()` is an optional `-` followed by
    decimal digits (radix prefix, `_` and suffix are gone). `"-0"` is `neg = true, mag = 0`. -/
structure HLit where
  neg : Bool := false
  mag : Nat
  deriving Repr, DecidableEq, Inhabited

def HLit.toInt (l : HLit) : Int := if l.neg then -(l.mag : Int) else l.mag

/-- `str::parse::<i64>` on the digits. -/
def litI64 (l : HLit) : M Int := if fitsI64 l.toInt then pure l.toInt else throw (frontErr "front_bad_value")
/-- `str::parse::<u32>`: an unsigned parse refuses a leading `-` (also `-0`). -/
def litU32 (l : HLit) : M Nat := if !l.neg && fitsU32 l.mag then pure l.mag else throw (frontErr "front_bad_value")
def litU64 (l : HLit) : M Nat := if !l.neg && fitsU64 l.mag then pure l.mag else throw (frontErr "front_bad_value")
def fitsI128 (n : Int) : Bool := decide (-(2 ^ 127 : Int) ≤ n ∧ n < (2 ^ 127 : Int))
def litI128 (l : HLit) : M Int := if fitsI128 l.toInt then pure l.toInt else throw (frontErr "front_bad_value")

/-- `int.base10_parse::<i128>().map(|v| v as u128).or_else(|_| int.base10_parse::<u128>())`
    (mir_transform.rs:334-344, 779-789). -/
def litReset (l : HLit) : M Nat :=
  if fitsI128 l.toInt then
    pure (if l.toInt < 0 then (l.toInt + (2 ^ 128 : Int)).toNat else l.toInt.toNat)
  else if !l.neg && decide (l.mag < 2 ^ 128) then pure l.mag
  else throw (frontErr "front_bad_value")

inductive HAttr
  | doc (s : String)
  | cfg (s : String)
  deriving Repr, DecidableEq, Inhabited

/-- `[&str]::join("\n")`. -/
def joinLines : List String → String
  | [] => ""
  | [s] => s
  | s :: t :: rest => s ++ "\n" ++ joinLines (t :: rest)

/-- `get_description` (mir_transform.rs:145-157). -/
def hirDescription (attrs : List HAttr) : Option String :=
  let s := joinLines (attrs.filterMap fun | .doc s => some s | .cfg _ => none)
  if s.isEmpty then none else some s

/-- `get_cfg_attr` (mir_transform.rs:159-177). -/
def hirCfg (attrs : List HAttr) : M Cfg :=
  match attrs.filterMap (fun | .cfg s => some s | .doc _ => none) with
  | [] => pure none
  | [c] => pure (some c)
  | _ => throw (frontErr "front_multi_cfg")

structure HRepeat where
  count : HLit
  stride : HLit
  deriving Repr, DecidableEq, Inhabited

/-- `impl TryFrom<dsl_hir::Repeat> for mir::Repeat` (mir_transform.rs:64-73). -/
def hirRepeat (r : HRepeat) : M Repeat := do
  let c ← litU64 r.count
  let s ← litI64 r.stride
  pure { count := c, stride := s }

inductive HBlockItem
  | addressOffset (l : HLit)
  | repeat_ (r : HRepeat)
  deriving Repr, DecidableEq, Inhabited

inductive HRegItem
  | access (a : Access)
  | byteOrder (b : ByteOrder)
  | bitOrder (b : BitOrder)
  | address (l : HLit)
  | sizeBits (l : HLit)
  | resetInt (l : HLit)
  | resetArray (bytes : List Nat)
  | repeat_ (r : HRepeat)
  | allowBitOverlap (b : Bool)
  | allowAddressOverlap (b : Bool)
  deriving Repr, Inhabited

inductive HCmdItem
  | byteOrder (b : ByteOrder)
  | bitOrder (b : BitOrder)
  | address (l : HLit)
  | sizeBitsIn (l : HLit)
  | sizeBitsOut (l : HLit)
  | repeat_ (r : HRepeat)
  | allowBitOverlap (b : Bool)
  | allowAddressOverlap (b : Bool)
  deriving Repr, Inhabited

inductive HEnumValue
  | specified (l : HLit)
  | default
  | catchAll
  deriving Repr, Inhabited

structure HVariant where
  attrs : List HAttr
  name : String
  value : Option HEnumValue
  deriving Repr, Inhabited

inductive HConv
  | direct (path : String) (useTry : Bool)
  | enum (name : String) (variants : List HVariant) (useTry : Bool)
  deriving Repr, Inhabited

inductive HFieldAddr
  | integer (l : HLit)
  | range (s e : HLit)
  | rangeIncl (s e : HLit)
  deriving Repr, Inhabited

structure HField where
  attrs : List HAttr
  name : String
  access : Option Access
  base : BaseType
  conv : Option HConv
  addr : HFieldAddr
  deriving Repr, Inhabited

inductive HCmdValue
  | basic (l : HLit)
  | extended (items : List HCmdItem) (fin fout : Option (List HField))
  deriving Repr, Inhabited

inductive HObj
  | block (attrs : List HAttr) (name : String) (items : List HBlockItem) (objects : List HObj)
  | register (attrs : List HAttr) (name : String) (items : List HRegItem) (fields : List HField)
  | command (attrs : List HAttr) (name : String) (value : Option HCmdValue)
  | buffer (attrs : List HAttr) (name : String) (access : Option Access) (address : Option HLit)
  | ref (attrs : List HAttr) (name : String) (object : HObj)
  deriving Repr, Inhabited

inductive HConfig
  | defaultRegisterAccess (a : Access)
  | defaultFieldAccess (a : Access)
  | defaultBufferAccess (a : Access)
  | defaultByteOrder (b : ByteOrder)
  | defaultBitOrder (b : BitOrder)
  | registerAddressType (ident : String)
  | commandAddressType (ident : String)
  | bufferAddressType (ident : String)
  | nameWordBoundaries (names : List String)
  | defmtFeature (s : String)
  deriving Repr, Inhabited

structure HDevice where
  configs : List HConfig
  objects : List HObj
  deriving Repr, Inhabited


/-! ### Item selectors (the closures handed to `find_map`) -/

def HBlockItem.offset? : HBlockItem → Option HLit
  | .addressOffset l => some l | .repeat_ _ => none
def HBlockItem.repeat? : HBlockItem → Option HRepeat
  | .repeat_ r => some r | .addressOffset _ => none

def HRegItem.access? : HRegItem → Option Access
  | .access a => some a
  | .byteOrder _ | .bitOrder _ | .address _ | .sizeBits _ | .resetInt _ | .resetArray _ | .repeat_ _
  | .allowBitOverlap _ | .allowAddressOverlap _ => none
def HRegItem.byteOrder? : HRegItem → Option ByteOrder
  | .byteOrder b => some b
  | .access _ | .bitOrder _ | .address _ | .sizeBits _ | .resetInt _ | .resetArray _ | .repeat_ _
  | .allowBitOverlap _ | .allowAddressOverlap _ => none
def HRegItem.bitOrder? : HRegItem → Option BitOrder
  | .bitOrder b => some b
  | .access _ | .byteOrder _ | .address _ | .sizeBits _ | .resetInt _ | .resetArray _ | .repeat_ _
  | .allowBitOverlap _ | .allowAddressOverlap _ => none
def HRegItem.address? : HRegItem → Option HLit
  | .address l => some l
  | .access _ | .byteOrder _ | .bitOrder _ | .sizeBits _ | .resetInt _ | .resetArray _ | .repeat_ _
  | .allowBitOverlap _ | .allowAddressOverlap _ => none
def HRegItem.sizeBits? : HRegItem → Option HLit
  | .sizeBits l => some l
  | .access _ | .byteOrder _ | .bitOrder _ | .address _ | .resetInt _ | .resetArray _ | .repeat_ _
  | .allowBitOverlap _ | .allowAddressOverlap _ => none
def HRegItem.repeat? : HRegItem → Option HRepeat
  | .repeat_ r => some r
  | .access _ | .byteOrder _ | .bitOrder _ | .address _ | .sizeBits _ | .resetInt _ | .resetArray _
  | .allowBitOverlap _ | .allowAddressOverlap _ => none
def HRegItem.allowBitOverlap? : HRegItem → Option Bool
  | .allowBitOverlap b => some b
  | .access _ | .byteOrder _ | .bitOrder _ | .address _ | .sizeBits _ | .resetInt _ | .resetArray _
  | .repeat_ _ | .allowAddressOverlap _ => none
def HRegItem.allowAddressOverlap? : HRegItem → Option Bool
  | .allowAddressOverlap b => some b
  | .access _ | .byteOrder _ | .bitOrder _ | .address _ | .sizeBits _ | .resetInt _ | .resetArray _
  | .repeat_ _ | .allowBitOverlap _ => none

def HCmdItem.byteOrder? : HCmdItem → Option ByteOrder
  | .byteOrder b => some b
  | .bitOrder _ | .address _ | .sizeBitsIn _ | .sizeBitsOut _ | .repeat_ _ | .allowBitOverlap _
  | .allowAddressOverlap _ => none
def HCmdItem.bitOrder? : HCmdItem → Option BitOrder
  | .bitOrder b => some b
  | .byteOrder _ | .address _ | .sizeBitsIn _ | .sizeBitsOut _ | .repeat_ _ | .allowBitOverlap _
  | .allowAddressOverlap _ => none
def HCmdItem.address? : HCmdItem → Option HLit
  | .address l => some l
  | .byteOrder _ | .bitOrder _ | .sizeBitsIn _ | .sizeBitsOut _ | .repeat_ _ | .allowBitOverlap _
  | .allowAddressOverlap _ => none
def HCmdItem.sizeBitsIn? : HCmdItem → Option HLit
  | .sizeBitsIn l => some l
  | .byteOrder _ | .bitOrder _ | .address _ | .sizeBitsOut _ | .repeat_ _ | .allowBitOverlap _
  | .allowAddressOverlap _ => none
def HCmdItem.sizeBitsOut? : HCmdItem → Option HLit
  | .sizeBitsOut l => some l
  | .byteOrder _ | .bitOrder _ | .address _ | .sizeBitsIn _ | .repeat_ _ | .allowBitOverlap _
  | .allowAddressOverlap _ => none
def HCmdItem.repeat? : HCmdItem → Option HRepeat
  | .repeat_ r => some r
  | .byteOrder _ | .bitOrder _ | .address _ | .sizeBitsIn _ | .sizeBitsOut _ | .allowBitOverlap _
  | .allowAddressOverlap _ => none
def HCmdItem.allowBitOverlap? : HCmdItem → Option Bool
  | .allowBitOverlap b => some b
  | .byteOrder _ | .bitOrder _ | .address _ | .sizeBitsIn _ | .sizeBitsOut _ | .repeat_ _
  | .allowAddressOverlap _ => none
def HCmdItem.allowAddressOverlap? : HCmdItem → Option Bool
  | .allowAddressOverlap b => some b
  | .byteOrder _ | .bitOrder _ | .address _ | .sizeBitsIn _ | .sizeBitsOut _ | .repeat_ _
  | .allowBitOverlap _ => none

/-! ### Global config (mir_transform.rs:85-143) -/

/-- `std::mem::discriminant`. -/
def HConfig.tag : HConfig → Nat
  | .defaultRegisterAccess _ => 0 | .defaultFieldAccess _ => 1 | .defaultBufferAccess _ => 2
  | .defaultByteOrder _ => 3 | .defaultBitOrder _ => 4 | .registerAddressType _ => 5
  | .commandAddressType _ => 6 | .bufferAddressType _ => 7 | .nameWordBoundaries _ => 8
  | .defmtFeature _ => 9

/-- `impl TryFrom<syn::Ident> for mir::Integer` (mir_transform.rs:44-62). -/
def hirInteger (ident : String) : M Integer :=
  match ident with
  | "u8" => pure .u8 | "u16" => pure .u16 | "u32" => pure .u32
  | "i8" => pure .i8 | "i16" => pure .i16 | "i32" => pure .i32 | "i64" => pure .i64
  | _ => throw (frontErr "front_bad_value")

def hirConfigStep (all : List HConfig) (g : GlobalConfig) (c : HConfig) : M GlobalConfig := do
  if (all.filter fun c' => c'.tag == c.tag).length > 1 then throw (frontErr "front_dup_config")
  match c with
  | .defaultRegisterAccess a => pure { g with defaultRegisterAccess := a }
  | .defaultFieldAccess a => pure { g with defaultFieldAccess := a }
  | .defaultBufferAccess a => pure { g with defaultBufferAccess := a }
  | .defaultByteOrder b => pure { g with defaultByteOrder := some b }
  | .defaultBitOrder b => pure { g with defaultBitOrder := b }
  | .registerAddressType i => do pure { g with registerAddressType := some (← hirInteger i) }
  | .commandAddressType i => do pure { g with commandAddressType := some (← hirInteger i) }
  | .bufferAddressType i => do pure { g with bufferAddressType := some (← hirInteger i) }
  | .nameWordBoundaries ns => pure { g with nameWordBoundaries := some ns }
  | .defmtFeature s => pure { g with defmtFeature := some s }

def hirConfig (cs : List HConfig) : M GlobalConfig := cs.foldlM (hirConfigStep cs) {}

/-! ### Fields (mir_transform.rs:502-589) -/

def hirVariant (v : HVariant) : M EnumVariant := do
  let cfg ← hirCfg v.attrs
  let descr := (hirDescription v.attrs).getD ""
  let value ← match v.value with
    | none => pure EnumValue.unspecified
    | some (.specified l) => do pure (EnumValue.specified (← litI128 l))
    | some .default => pure EnumValue.default
    | some .catchAll => pure EnumValue.catchAll
  pure { cfg := cfg, description := descr, name := v.name, value := value }

def hirConv (fieldDescr : String) : HConv → M FieldConversion
  | .direct path t => pure (.direct (stripWs path) t)
  | .enum name variants t => do
    let vs ← variants.mapM hirVariant
    pure (.enum { cfg := none, description := fieldDescr, name := name, variants := vs } t)

/-- `u32 + 1` in `start..(end + 1)`: the generator is built with overflow checks in the harness (and
    in a debug build of a user's proc macro), so `..=4294967295` panics. -/
def hirInclEnd (e : Nat) : M Nat :=
  if fitsU32 (e + 1) then pure (e + 1) else throw (.panic "add_overflow")

def hirField (g : GlobalConfig) (f : HField) : M Field := do
  let cfg ← hirCfg f.attrs
  let descr := (hirDescription f.attrs).getD ""
  let access := f.access.getD g.defaultFieldAccess
  let conv ← f.conv.mapM (hirConv descr)
  let (s, e) ← match f.addr with
    | .integer l =>
      if f.base == .bool then do
        let a ← litU32 l
        let b ← litU32 l
        pure (a, b)
      else throw (frontErr "front_field_needs_range")
    | .range s e => do
      let a ← litU32 s
      let b ← litU32 e
      pure (a, b)
    | .rangeIncl s e => do
      let a ← litU32 s
      let b ← litU32 e
      let b' ← hirInclEnd b
      pure (a, b')
  pure { cfg := cfg, description := descr, name := f.name, access := access, base := f.base,
         conv := conv, start := s, stop := e }

/-! ### Objects -/

/-- `find_map(..).transpose()?` for an item carrying a literal. -/
def findLit {α β : Type} (items : List α) (sel : α → Option HLit) (p : HLit → M β) : M (Option β) :=
  (items.findSome? sel).mapM p

def hirResetOf : HRegItem → Option (M ResetValue)
  | .resetArray a => some (pure (.array a))
  | .resetInt l => some (do pure (.int (← litReset l)))
  | .access _ | .byteOrder _ | .bitOrder _ | .address _ | .sizeBits _ | .repeat_ _
  | .allowBitOverlap _ | .allowAddressOverlap _ => none

def hirFindReset (items : List HRegItem) : M (Option ResetValue) :=
  match items.findSome? hirResetOf with
  | none => pure none
  | some r => do pure (some (← r))

def hirRegRepeat (items : List HRegItem) : M (Option Repeat) :=
  (items.findSome? HRegItem.repeat?).mapM hirRepeat

def hirCmdRepeat (items : List HCmdItem) : M (Option Repeat) :=
  (items.findSome? HCmdItem.repeat?).mapM hirRepeat

def hirBlockRepeat (items : List HBlockItem) : M (Option Repeat) :=
  (items.findSome? HBlockItem.repeat?).mapM hirRepeat

def hirBlockOffset (items : List HBlockItem) : M (Option Int) :=
  findLit items HBlockItem.offset? litI64

/-- `transform_register` (mir_transform.rs:241-365). -/
def hirRegister (g : GlobalConfig) (attrs : List HAttr) (name : String) (items : List HRegItem)
    (fields : List HField) : M Register := do
  let cfg ← hirCfg attrs
  let descr := (hirDescription attrs).getD ""
  let access := (items.findSome? HRegItem.access?).getD g.defaultRegisterAccess
  let bo := items.findSome? HRegItem.byteOrder?
  let bito := (items.findSome? HRegItem.bitOrder?).getD g.defaultBitOrder
  let abo := (items.findSome? HRegItem.allowBitOverlap?).getD false
  let aao := (items.findSome? HRegItem.allowAddressOverlap?).getD false
  let address ← match ← findLit items HRegItem.address? litI64 with
    | some a => pure a
    | none => throw (frontErr "front_missing_key")
  let size ← match ← findLit items HRegItem.sizeBits? litU32 with
    | some s => pure s
    | none => throw (frontErr "front_missing_key")
  let reset ← hirFindReset items
  let rep ← hirRegRepeat items
  let fs ← fields.mapM (hirField g)
  pure { cfg := cfg, description := descr, name := name, access := access, byteOrder := bo,
         bitOrder := bito, allowBitOverlap := abo, allowAddressOverlap := aao, address := address,
         sizeBits := size, reset := reset, repeat_ := rep, fields := fs }

/-- `transform_command` (mir_transform.rs:367-500). -/
def hirCommand (g : GlobalConfig) (attrs : List HAttr) (name : String) (value : Option HCmdValue) :
    M Command := do
  let v ← match value with
    | some v => pure v
    | none => throw (frontErr "front_missing_key")
  let cfg ← hirCfg attrs
  let descr := (hirDescription attrs).getD ""
  match v with
  | .basic l => do
    let address ← litI64 l
    pure { cfg := cfg, description := descr, name := name, address := address, byteOrder := none,
           bitOrder := g.defaultBitOrder, allowBitOverlap := false, allowAddressOverlap := false,
           sizeBitsIn := 0, sizeBitsOut := 0, repeat_ := none, inFields := [], outFields := [] }
  | .extended items fin fout => do
    let address ← match items.findSome? HCmdItem.address? with
      | some l => litI64 l
      | none => throw (frontErr "front_missing_key")
    let bo := items.findSome? HCmdItem.byteOrder?
    let bito := (items.findSome? HCmdItem.bitOrder?).getD g.defaultBitOrder
    let abo := (items.findSome? HCmdItem.allowBitOverlap?).getD false
    let aao := (items.findSome? HCmdItem.allowAddressOverlap?).getD false
    let si ← match items.findSome? HCmdItem.sizeBitsIn? with
      | some l => litU32 l
      | none => pure 0
    let so ← match items.findSome? HCmdItem.sizeBitsOut? with
      | some l => litU32 l
      | none => pure 0
    let rep ← hirCmdRepeat items
    let i ← (fin.getD []).mapM (hirField g)
    let o ← (fout.getD []).mapM (hirField g)
    pure { cfg := cfg, description := descr, name := name, address := address, byteOrder := bo,
           bitOrder := bito, allowBitOverlap := abo, allowAddressOverlap := aao, sizeBitsIn := si,
           sizeBitsOut := so, repeat_ := rep, inFields := i, outFields := o }

/-- `transform_buffer` (mir_transform.rs:591-613). -/
def hirBuffer (g : GlobalConfig) (attrs : List HAttr) (name : String) (access : Option Access)
    (address : Option HLit) : M Buffer := do
  let cfg ← hirCfg attrs
  let descr := (hirDescription attrs).getD ""
  let a ← match address with
    | some l => litI64 l
    | none => throw (frontErr "front_missing_key")
  pure { cfg := cfg, description := descr, name := name, access := access.getD g.defaultBufferAccess,
         address := a }

def overrideLayout : Stop := frontErr "front_override_layout"

/-- `transform_block_override` (mir_transform.rs:649-689). -/
def hirBlockOverride (attrs : List HAttr) (name : String) (items : List HBlockItem)
    (objects : List HObj) : M BlockOverride := do
  if !attrs.isEmpty then throw overrideLayout
  if !objects.isEmpty then throw overrideLayout
  let off ← hirBlockOffset items
  let rep ← hirBlockRepeat items
  pure { name := name, addressOffset := off, repeat_ := rep }

def HRegItem.layout : HRegItem → Bool
  | .byteOrder _ | .bitOrder _ | .sizeBits _ | .allowBitOverlap _ => true
  | _ => false

/-- `transform_register_override` (mir_transform.rs:691-804). -/
def hirRegisterOverride (attrs : List HAttr) (name : String) (items : List HRegItem)
    (fields : List HField) : M RegisterOverride := do
  if !attrs.isEmpty then throw overrideLayout
  if !fields.isEmpty then throw overrideLayout
  if items.any HRegItem.layout then throw overrideLayout
  let access := items.findSome? HRegItem.access?
  let address ← findLit items HRegItem.address? litI64
  let aao := (items.findSome? HRegItem.allowAddressOverlap?).getD false
  let reset ← hirFindReset items
  let rep ← hirRegRepeat items
  pure { name := name, access := access, address := address, allowAddressOverlap := aao,
         reset := reset, repeat_ := rep }

def HCmdItem.layout : HCmdItem → Bool
  | .byteOrder _ | .bitOrder _ | .sizeBitsIn _ | .sizeBitsOut _ | .allowBitOverlap _ => true
  | _ => false

/-- `transform_command_override` (mir_transform.rs:806-922). -/
def hirCommandOverride (attrs : List HAttr) (name : String) (value : Option HCmdValue) :
    M CommandOverride := do
  if !attrs.isEmpty then throw overrideLayout
  match value with
  | some (.extended _ (some _) _) => throw overrideLayout
  | some (.extended _ none (some _)) => throw overrideLayout
  | some (.basic _) => throw overrideLayout
  | none => throw overrideLayout
  | some (.extended items none none) => do
    if items.any HCmdItem.layout then throw overrideLayout
    let address ← findLit items HCmdItem.address? litI64
    let aao := (items.findSome? HCmdItem.allowAddressOverlap?).getD false
    let rep ← hirCmdRepeat items
    pure { name := name, address := address, allowAddressOverlap := aao, repeat_ := rep }

/-- `transform_ref` (mir_transform.rs:615-647). -/
def hirRef (attrs : List HAttr) (name : String) (object : HObj) : M RefObject := do
  let cfg ← hirCfg attrs
  let descr := (hirDescription attrs).getD ""
  let ov ← match object with
    | .block a n items objects => do pure (ObjectOverride.block (← hirBlockOverride a n items objects))
    | .register a n items fields => do pure (ObjectOverride.register (← hirRegisterOverride a n items fields))
    | .command a n value => do pure (ObjectOverride.command (← hirCommandOverride a n value))
    | .buffer .. => throw (frontErr "front_ref_buffer")
    | .ref .. => throw (frontErr "front_ref_ref")
  pure { cfg := cfg, description := descr, name := name, override := ov }

mutual
/-- `transform_object_list` / `transform_block` (mir_transform.rs:179-239). -/
def hirObj (g : GlobalConfig) : HObj → M Object
  | .block attrs name items objects => do
    let cfg ← hirCfg attrs
    let descr := (hirDescription attrs).getD ""
    let off ← hirBlockOffset items
    let rep ← hirBlockRepeat items
    let os ← hirObjs g objects
    pure (.block { cfg := cfg, description := descr, name := name, addressOffset := off.getD 0,
                   repeat_ := rep } os)
  | .register attrs name items fields => do pure (.register (← hirRegister g attrs name items fields))
  | .command attrs name value => do pure (.command (← hirCommand g attrs name value))
  | .buffer attrs name access address => do pure (.buffer (← hirBuffer g attrs name access address))
  | .ref attrs name object => do pure (.ref (← hirRef attrs name object))
def hirObjs (g : GlobalConfig) : List HObj → M (List Object)
  | [] => pure []
  | o :: os => do
    let o' ← hirObj g o
    let os' ← hirObjs g os
    pure (o' :: os')
end

/-- `dsl_hir::mir_transform::transform` (mir_transform.rs:6-14). -/
def hirTransform (d : HDevice) : M Device := do
  let g ← hirConfig d.configs
  let os ← hirObjs g d.objects
  pure { config := g, objects := os }

end DDV.Gen
