/-
  DDV.Gen.Pipeline — `transform_mir` (generation/src/lib.rs:110-131): passes, lowering, the LIR
  pass; and the whole generator `generate` = front end ∘ transform_mir.
-/
import DDV.Gen.Front
import DDV.Gen.Addr

namespace DDV.Gen

def transformMir (n : Names) (deviceName : String) (d : Device) : M Lir := do
  let d ← runPasses n d
  let l ← lower n deviceName d
  addressesNonOverlapping n l

def generate (n : Names) (s : Syntax) (deviceName : String) (a : ADef) : M Lir := do
  let d ← lowerFront s a
  transformMir n deviceName d

end DDV.Gen
