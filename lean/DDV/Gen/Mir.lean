/-
  DDV.Gen.Mir — the MIR of `generation/src/mir/mod.rs`, one-to-one.
-/
import DDV.Bits.Model

namespace DDV.Gen
open DDV.Bits (ByteOrder BitOrder)

inductive Integer | u8 | u16 | u32 | i8 | i16 | i32 | i64
  deriving DecidableEq, Repr, Inhabited

/-- `Integer::min_value` / `max_value` (mir/mod.rs:61-83). The table is re-read from the source by
    the extractor (`DDV.Extracted.Tables`) and proved equal to this definition. -/
def Integer.minValue : Integer → Int
  | .u8 => 0 | .u16 => 0 | .u32 => 0
  | .i8 => -128 | .i16 => -32768 | .i32 => -2147483648 | .i64 => -9223372036854775808
def Integer.maxValue : Integer → Int
  | .u8 => 255 | .u16 => 65535 | .u32 => 4294967295
  | .i8 => 127 | .i16 => 32767 | .i32 => 2147483647 | .i64 => 9223372036854775807
def Integer.name : Integer → String
  | .u8 => "u8" | .u16 => "u16" | .u32 => "u32" | .i8 => "i8" | .i16 => "i16" | .i32 => "i32" | .i64 => "i64"

inductive Access | rw | ro | wo
  deriving DecidableEq, Repr, Inhabited
def Access.name : Access → String | .rw => "RW" | .ro => "RO" | .wo => "WO"
def Access.readable : Access → Bool | .rw => true | .ro => true | .wo => false
def Access.writable : Access → Bool | .rw => true | .ro => false | .wo => true

/-- `Cfg` (mir/mod.rs:568-602): an optional predicate string. -/
abbrev Cfg := Option String

/-- `Cfg::combine` (mir/mod.rs:581-597). -/
def Cfg.combine (self other : Cfg) : Cfg :=
  match self, other with
  | none, none => none
  | none, some v => some v
  | some v, none => some v
  | some v1, some v2 => if v1 = v2 then some v1 else some s!"all({v1}, {v2})"

structure Repeat where
  count : Nat
  stride : Int
  deriving DecidableEq, Repr, Inhabited

inductive EnumValue
  | unspecified
  | specified (n : Int)
  | default
  | catchAll
  deriving DecidableEq, Repr, Inhabited

structure EnumVariant where
  cfg : Cfg := none
  description : String := ""
  name : String
  value : EnumValue
  deriving DecidableEq, Repr, Inhabited

inductive GenStyle
  | fallible
  | infallible (bitSize : Nat)
  deriving DecidableEq, Repr, Inhabited

structure Enum where
  cfg : Cfg := none
  description : String := ""
  name : String
  variants : List EnumVariant
  style : Option GenStyle := none
  deriving DecidableEq, Repr, Inhabited

inductive FieldConversion
  | direct (typeName : String) (useTry : Bool)
  | enum (e : Enum) (useTry : Bool)
  deriving DecidableEq, Repr, Inhabited

def FieldConversion.useTry : FieldConversion → Bool
  | .direct _ t => t
  | .enum _ t => t
def FieldConversion.typeName : FieldConversion → String
  | .direct n _ => n
  | .enum e _ => e.name

inductive BaseType | bool | uint | int
  deriving DecidableEq, Repr, Inhabited

structure Field where
  cfg : Cfg := none
  description : String := ""
  name : String
  access : Access
  base : BaseType
  conv : Option FieldConversion := none
  start : Nat
  stop : Nat
  deriving DecidableEq, Repr, Inhabited

/-- `field.field_address.clone().count()` of a `Range<u32>`: empty when reversed. -/
def Field.width (f : Field) : Nat := f.stop - f.start

inductive ResetValue
  | int (n : Nat)
  | array (bytes : List Nat)
  deriving DecidableEq, Repr, Inhabited

structure Register where
  cfg : Cfg := none
  description : String := ""
  name : String
  access : Access
  byteOrder : Option ByteOrder
  bitOrder : BitOrder
  allowBitOverlap : Bool
  allowAddressOverlap : Bool
  address : Int
  sizeBits : Nat
  reset : Option ResetValue
  repeat_ : Option Repeat
  fields : List Field
  deriving DecidableEq, Repr, Inhabited

structure Command where
  cfg : Cfg := none
  description : String := ""
  name : String
  address : Int
  byteOrder : Option ByteOrder
  bitOrder : BitOrder
  allowBitOverlap : Bool
  allowAddressOverlap : Bool
  sizeBitsIn : Nat
  sizeBitsOut : Nat
  repeat_ : Option Repeat
  inFields : List Field
  outFields : List Field
  deriving DecidableEq, Repr, Inhabited

structure Buffer where
  cfg : Cfg := none
  description : String := ""
  name : String
  access : Access
  address : Int
  deriving DecidableEq, Repr, Inhabited

structure BlockOverride where
  name : String
  addressOffset : Option Int
  repeat_ : Option Repeat
  deriving DecidableEq, Repr, Inhabited

structure RegisterOverride where
  name : String
  access : Option Access
  address : Option Int
  allowAddressOverlap : Bool
  reset : Option ResetValue
  repeat_ : Option Repeat
  deriving DecidableEq, Repr, Inhabited

structure CommandOverride where
  name : String
  address : Option Int
  allowAddressOverlap : Bool
  repeat_ : Option Repeat
  deriving DecidableEq, Repr, Inhabited

inductive ObjectOverride
  | block (o : BlockOverride)
  | register (o : RegisterOverride)
  | command (o : CommandOverride)
  deriving DecidableEq, Repr, Inhabited

def ObjectOverride.name : ObjectOverride → String
  | .block o => o.name | .register o => o.name | .command o => o.name

structure RefObject where
  cfg : Cfg := none
  description : String := ""
  name : String
  override : ObjectOverride
  deriving DecidableEq, Repr, Inhabited

/-- Header of a block (everything but its children). -/
structure BlockHead where
  cfg : Cfg := none
  description : String := ""
  name : String
  addressOffset : Int
  repeat_ : Option Repeat
  deriving DecidableEq, Repr, Inhabited

inductive Object
  | block (h : BlockHead) (objects : List Object)
  | register (r : Register)
  | command (c : Command)
  | buffer (b : Buffer)
  | ref (r : RefObject)
  deriving Repr, Inhabited

def Object.name : Object → String
  | .block h _ => h.name | .register r => r.name | .command c => c.name
  | .buffer b => b.name | .ref r => r.name

def Object.cfg : Object → Cfg
  | .block h _ => h.cfg | .register r => r.cfg | .command c => c.cfg
  | .buffer b => b.cfg | .ref r => r.cfg

def Object.setCfg (c : Cfg) : Object → Object
  | .block h os => .block { h with cfg := c } os
  | .register r => .register { r with cfg := c }
  | .command x => .command { x with cfg := c }
  | .buffer b => .buffer { b with cfg := c }
  | .ref r => .ref { r with cfg := c }

/-- `Object::address` (mir/mod.rs:246-258). -/
def Object.address : Object → Option Int
  | .block h _ => some h.addressOffset
  | .register r => some r.address
  | .command c => some c.address
  | .buffer b => some b.address
  | .ref r => match r.override with
    | .block o => o.addressOffset
    | .register o => o.address
    | .command o => o.address

/-- `Object::repeat` (mir/mod.rs:261-273). -/
def Object.repeat_ : Object → Option Repeat
  | .block h _ => h.repeat_
  | .register r => r.repeat_
  | .command c => c.repeat_
  | .buffer _ => none
  | .ref r => match r.override with
    | .block o => o.repeat_
    | .register o => o.repeat_
    | .command o => o.repeat_

/-- `Object::field_sets` (mir/mod.rs:202-210). -/
def Object.fieldSets : Object → List (List Field)
  | .register r => [r.fields]
  | .command c => [c.inFields, c.outFields]
  | _ => []

/-- `convert_case::Boundary` by name; the model never interprets them (the conversions are an
    oracle), it only carries them. -/
structure GlobalConfig where
  defaultRegisterAccess : Access := .rw
  defaultFieldAccess : Access := .rw
  defaultBufferAccess : Access := .rw
  defaultByteOrder : Option ByteOrder := none
  defaultBitOrder : BitOrder := .lsb0
  registerAddressType : Option Integer := none
  commandAddressType : Option Integer := none
  bufferAddressType : Option Integer := none
  nameWordBoundaries : Option (List String) := none
  defmtFeature : Option String := none
  deriving Repr, Inhabited

structure Device where
  config : GlobalConfig
  objects : List Object
  deriving Repr, Inhabited

/-- `UniqueId` display (mir/mod.rs:610-617). -/
def uniqueIdDisplay (name : String) (cfg : Cfg) : String :=
  match cfg with
  | some c => s!"{name}(cfg=`{c}`)"
  | none => name

end DDV.Gen
