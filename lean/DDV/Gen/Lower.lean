/-
  DDV.Gen.Lower — `mir/lir_transform.rs`: device-name check, enum numbering, field-set lowering
  (carrier and conversion-method selection, reset constructors), ref resolution and block
  collection, internal address type. The result `Lir` is the data the emitters print verbatim.
-/
import DDV.Gen.Passes

namespace DDV.Gen
open DDV.Bits (ByteOrder BitOrder)

def lowerErr (kind : String) (names : List String := []) (numbers : List Int := []) : Stop :=
  .error { stage := "lower", kind := kind, names := names, numbers := numbers }

inductive MethodKind | block | register | command | buffer
  deriving DecidableEq, Repr, Inhabited

structure Method where
  cfg : Cfg
  name : String
  address : Int
  allowAddressOverlap : Bool
  repeat_ : Option Repeat
  kind : MethodKind
  target : Option String := none         -- block type name / register field-set name
  addressType : Option Integer := none
  access : Option Access := none
  resetFn : Option String := none
  inSet : Option String := none
  outSet : Option String := none
  deriving Repr, Inhabited

structure LBlock where
  cfg : Cfg
  root : Bool
  name : String
  methods : List Method
  deriving Repr, Inhabited

inductive ConvMethod
  | none
  | into (ty : String)
  | unsafeInto (ty : String)
  | tryInto (ty : String)
  | bool
  deriving DecidableEq, Repr, Inhabited

structure LField where
  cfg : Cfg
  name : String
  start : Nat
  stop : Nat
  signed : Bool
  carrierBits : Nat
  conv : ConvMethod
  access : Access
  deriving Repr, Inhabited

structure LFieldSet where
  cfg : Cfg
  name : String
  byteOrder : ByteOrder
  bitOrder : BitOrder
  sizeBits : Nat
  reset : List Nat
  refResets : List (String × List Nat)
  fields : List LField
  deriving Repr, Inhabited

structure LVariant where
  cfg : Cfg
  name : String
  number : Int
  default : Bool
  catchAll : Bool
  deriving Repr, Inhabited

structure LEnum where
  cfg : Cfg
  name : String
  signed : Bool
  reprBits : Nat
  variants : List LVariant
  deriving Repr, Inhabited

structure Lir where
  internalSigned : Bool
  internalBits : Nat
  registerAddressType : Integer
  blocks : List LBlock
  fieldSets : List LFieldSet
  enums : List LEnum
  defmt : Option String
  deriving Repr, Inhabited

/-- `usize::next_power_of_two`. -/
def nextPow2 (n : Nat) : Nat :=
  if n ≤ 1 then 1 else 2 ^ (Nat.log2 (n - 1) + 1)

/-- `val.max(8).next_power_of_two()` — the carrier width for a field of `w` bits. -/
def carrierBitsOf (w : Nat) : Nat := nextPow2 (Nat.max w 8)

/-! ### Enums (collect_enums, transform_enum) -/

def collectEnums (os : List Object) : List (Enum × BaseType × Nat) :=
  (allObjects os).flatMap fun o =>
    o.fieldSets.flatten.filterMap fun f => match f.conv with
      | some (.enum e _) => some (e, f.base, f.width)
      | _ => none

/-- The second, independent numbering (lir_transform.rs:539-564). -/
def numberVariants : List EnumVariant → Option Int → List LVariant
  | [], _ => []
  | v :: vs, next =>
    let (num, next') : Int × Option Int := match v.value with
      | .specified n => (n, some (n + 1))
      | _ => let val := next.getD 0; (val, some (val + 1))
    { cfg := v.cfg, name := v.name, number := num, default := v.value == .default,
      catchAll := v.value == .catchAll } :: numberVariants vs next'

def transformEnum (e : Enum) (base : BaseType) (w : Nat) : LEnum :=
  { cfg := e.cfg, name := e.name, signed := base == .int,
    reprBits := if base == .bool then 8 else carrierBitsOf w,
    variants := numberVariants e.variants none }

/-! ### Field sets -/

/-- A very small check standing in for `syn::parse_str::<syn::Path>(..).unwrap()`: the generators
    only produce well-formed paths; an empty string is the one malformed value they use. -/
def validTypePath (s : String) : Bool := !s.isEmpty

/-- Conversion-method selection (lir_transform.rs:450-469): `try` always wins; the unchecked
    conversion only when an enum generated under that name was analysed infallible for at least
    this field's width; else `Into`. -/
def selectConv (enums : List Enum) (w : Nat) (fc : FieldConversion) : ConvMethod :=
  if fc.useTry then .tryInto fc.typeName
  else match enums.find? (fun e => e.name == fc.typeName) with
    | some e => (match e.style with
      | some (.infallible bitSize) => if w ≤ bitSize then .unsafeInto fc.typeName else .into fc.typeName
      | _ => .into fc.typeName)
    | none => .into fc.typeName

def transformField (enums : List Enum) (f : Field) : M LField := do
  let w := f.width
  let (signed, bits, conv) ← match f.base, f.conv with
    | .bool, none => if w = 1 then pure (false, 8, ConvMethod.bool) else throw (.panic "unreachable_bool")
    | .bool, some _ => throw (.panic "unreachable_bool")
    | b, none => pure (b == .int, carrierBitsOf w, ConvMethod.none)
    | b, some fc => do
      if !validTypePath fc.typeName then throw (.panic "invalid_type_path")
      pure (b == .int, carrierBitsOf w, selectConv enums w fc)
  pure { cfg := f.cfg, name := f.name, start := f.start, stop := f.stop, signed := signed,
         carrierBits := bits, conv := conv, access := f.access }

def resetBytes : Option ResetValue → M (Option (List Nat))
  | none => pure none
  | some (.array a) => pure (some a)
  | some (.int _) => throw (.panic "reset_not_array")

def transformFieldSet (enums : List Enum) (fields : List Field) (name : String) (cfg : Cfg)
    (bo : ByteOrder) (bito : BitOrder) (sizeBits : Nat) (reset : Option (List Nat))
    (refResets : List (String × List Nat)) : M LFieldSet := do
  let fs ← fields.mapM (transformField enums)
  pure { cfg := cfg, name := name, byteOrder := bo, bitOrder := bito, sizeBits := sizeBits,
         reset := reset.getD (List.replicate ((sizeBits + 7) / 8) 0), refResets := refResets, fields := fs }

/-- `find_refs`: the refs (of any kind) whose override names `rname`. -/
def refsTo (objs : List Object) (rname : String) : List RefObject :=
  objs.filterMap fun x => match x with
    | .ref rf => if rf.override.name == rname then some rf else none
    | _ => none

/-- The constructor a ref contributes to its target register's field set: `new_as_<ref>` with the
    override's bytes when it overrides the reset value, nothing otherwise. -/
def refResetStep (rf : RefObject) : M (Option (String × List Nat)) :=
  match rf.override with
  | .register ov => do
    match ← resetBytes ov.reset with
    | some a => pure (some (rf.name, a))
    | none => pure none
  | _ => throw (.panic "ref_must_be_register")

/-- The field sets one object contributes (`transform_field_sets`, the body of its loop): a register
    its own set with the `new_as_<ref>` constructors of the refs that override its reset value, a
    command its input and output set, anything else nothing. `objs` is the flattened device. -/
def fieldSetsOfObject (objs : List Object) (enums : List Enum) (o : Object) : M (List LFieldSet) :=
  match o with
  | .register r => do
    let overrides ← (refsTo objs r.name).filterMapM refResetStep
    let bo ← match r.byteOrder with | some b => pure b | none => throw (.panic "byte_order_unwrap")
    let fs ← transformFieldSet enums r.fields r.name r.cfg bo r.bitOrder r.sizeBits
      (← resetBytes r.reset) overrides
    pure [fs]
  | .command c => do
    let bo ← match c.byteOrder with | some b => pure b | none => throw (.panic "byte_order_unwrap")
    let i ← transformFieldSet enums c.inFields s!"{c.name}FieldsIn" c.cfg bo c.bitOrder c.sizeBitsIn none []
    let o ← transformFieldSet enums c.outFields s!"{c.name}FieldsOut" c.cfg bo c.bitOrder c.sizeBitsOut none []
    pure [i, o]
  | _ => pure []

def transformFieldSets (d : Device) (enums : List Enum) : M (List LFieldSet) := do
  let objs := allObjects d.objects
  let sets ← objs.mapM (fieldSetsOfObject objs enums)
  pure sets.flatten

/-! ### Blocks and methods (collect_into_blocks, get_method) -/

/-- What a ref stands for (`get_method`, Ref arm): its target with the override applied — cfg and
    description are the ref's own; address / offset, repeat, access and reset value are the
    override's when it has them, else the target's; the overlap permission is the target's or the
    override's — and the reset constructor its accessor uses. `none`: the override's kind is not the
    target's (`expect` panics). -/
def substRef (n : Names) (rf : RefObject) (resetFn : String) (target : Object) : Option (Object × String) :=
  match rf.override, target with
  | .block ov, .block h os =>
    some (Object.block { h with cfg := rf.cfg, description := rf.description,
                                addressOffset := ov.addressOffset.getD h.addressOffset,
                                repeat_ := match ov.repeat_ with | some r => some r | none => h.repeat_ } os,
          resetFn)
  | .register ov, .register r =>
    some (Object.register { r with cfg := rf.cfg, description := rf.description,
                                   allowAddressOverlap := r.allowAddressOverlap || ov.allowAddressOverlap,
                                   access := ov.access.getD r.access,
                                   address := ov.address.getD r.address,
                                   reset := match ov.reset with | some x => some x | none => r.reset,
                                   repeat_ := match ov.repeat_ with | some x => some x | none => r.repeat_ },
          if ov.reset.isSome then s!"new_as_{n.method rf.name}" else resetFn)
  | .command ov, .command c =>
    some (Object.command { c with cfg := rf.cfg, description := rf.description,
                                  allowAddressOverlap := c.allowAddressOverlap || ov.allowAddressOverlap,
                                  address := ov.address.getD c.address,
                                  repeat_ := match ov.repeat_ with | some x => some x | none => c.repeat_ },
          resetFn)
  | _, _ => none

mutual
/-- `get_method`. `fuel` bounds the recursion through ref resolution (`search_object(..).clone()`
    is not a sub-term); it runs out only when a block ref sits inside its own target, where the
    real code recurses until the stack overflows. Returns the method and the blocks collected on
    the way (in the order they are appended to `blocks`). -/
def getMethod (n : Names) (cfg : GlobalConfig) (all : List Object) (resetFn : String) :
    Nat → Object → M (Method × List LBlock)
  | 0, _ => throw (.abort "block_ref_cycle")
  | fuel + 1, o => match o with
    | .block h os => do
      let bs ← collectIntoBlocks n cfg all fuel h.cfg h.name false os
      pure ({ cfg := h.cfg, name := n.method h.name, address := h.addressOffset,
              allowAddressOverlap := false, repeat_ := h.repeat_, kind := .block,
              target := some h.name }, bs)
    | .register r => do
      let at_ ← match cfg.registerAddressType with
        | some t => pure t | none => throw (.panic "address_type_expect")
      pure ({ cfg := r.cfg, name := n.method r.name, address := r.address,
              allowAddressOverlap := r.allowAddressOverlap, repeat_ := r.repeat_, kind := .register,
              target := some r.name, addressType := some at_, access := some r.access,
              resetFn := some resetFn }, [])
    | .command c => do
      let at_ ← match cfg.commandAddressType with
        | some t => pure t | none => throw (.panic "address_type_expect")
      pure ({ cfg := c.cfg, name := n.method c.name, address := c.address,
              allowAddressOverlap := c.allowAddressOverlap, repeat_ := c.repeat_, kind := .command,
              addressType := some at_,
              inSet := if c.inFields.isEmpty then none else some s!"{c.name}FieldsIn",
              outSet := if c.outFields.isEmpty then none else some s!"{c.name}FieldsOut" }, [])
    | .buffer b => do
      let at_ ← match cfg.bufferAddressType with
        | some t => pure t | none => throw (.panic "address_type_expect")
      pure ({ cfg := b.cfg, name := n.method b.name, address := b.address,
              allowAddressOverlap := false, repeat_ := none, kind := .buffer,
              addressType := some at_, access := some b.access }, [])
    | .ref rf => do
      let target ← match searchObject rf.override.name all with
        | some t => pure t | none => throw (.panic "ref_expect")
      let (reffed, resetFn') ← match substRef n rf resetFn target with
        | some p => pure p | none => throw (.panic "ref_expect")
      let (m, bs) ← getMethod n cfg all resetFn' fuel reffed
      -- a ref to a block reuses the target's block types: what was collected on the way is dropped
      let bs' := match rf.override with | .block _ => [] | _ => bs
      pure ({ m with name := n.method rf.name }, bs')

/-- `collect_into_blocks`: the block itself first, then whatever its methods collected. -/
def collectIntoBlocks (n : Names) (cfg : GlobalConfig) (all : List Object) (fuel : Nat)
    (bcfg : Cfg) (name : String) (root : Bool) (objects : List Object) : M (List LBlock) := do
  let (methods, blocks) ← collectMethods n cfg all fuel objects
  pure ({ cfg := bcfg, root := root, name := name, methods := methods } :: blocks)

def collectMethods (n : Names) (cfg : GlobalConfig) (all : List Object) (fuel : Nat) :
    List Object → M (List Method × List LBlock)
  | [] => pure ([], [])
  | o :: os => do
    let (m, bs) ← getMethod n cfg all "new" fuel o
    let (ms, bs') ← collectMethods n cfg all fuel os
    pure (m :: ms, bs ++ bs')
end

/-! ### Internal address type (find_best_internal_address) -/

def ilog2 (n : Nat) : Nat := Nat.log2 n

def findBestInternalAddress (d : Device) : M (Bool × Nat) := do
  let (mn, mx) ← findMinMax d.objects (fun _ => true)
  let signed := decide (mn < 0)
  let m := Nat.max mn.natAbs mx.natAbs
  -- `(m + 1).next_power_of_two()` in u64: overflows (debug panic) above 2^63
  if m + 1 > 2 ^ 63 then throw (.panic "arith_overflow")
  let bits := Nat.max (nextPow2 (ilog2 (nextPow2 (m + 1)) + (if signed then 1 else 0))) 8
  pure (signed, bits)

/-! ### transform -/

/-- What `format_ident!` / `Ident::new` accept: non-empty, not starting with a digit, made of
    letters, digits and underscores (non-ASCII letters pass). -/
def validIdent (s : String) : Bool :=
  match s.toList with
  | [] => false
  | c :: cs => !c.isDigit && (c :: cs).all (fun x => x.isAlphanum || x == '_' || x.toNat > 127)

/-- every name the lowering turns into an identifier (names are already normalised) -/
def identNames (n : Names) (d : Device) : List String :=
  (allObjects d.objects).flatMap fun o =>
    [o.name, n.method o.name] ++
    (o.fieldSets.flatMap fun fs => fs.flatMap fun f =>
      f.name :: (match f.conv with
        | some (.enum e _) => e.name :: e.variants.map (·.name)
        | _ => []))

def lower (n : Names) (deviceName : String) (d : Device) : M Lir := do
  if deviceName ≠ n.devicePascal then throw (lowerErr "device_name_not_pascal" [n.devicePascal])
  -- `format_ident!` panics on a name that is not an identifier (manifest keys are free strings)
  if (identNames n d).any (fun s => !validIdent s) then throw (.panic "invalid_ident")
  let mirEnums := collectEnums d.objects
  let lirEnums := mirEnums.map fun (e, b, w) => transformEnum e b w
  let fieldSets ← transformFieldSets d (mirEnums.map (·.1))
  let fuel := 2 * (allObjects d.objects).length + 4
  let blocks ← collectIntoBlocks n d.config d.objects fuel none deviceName true d.objects
  let (isg, ibits) ← findBestInternalAddress d
  pure { internalSigned := isg, internalBits := ibits,
         registerAddressType := d.config.registerAddressType.getD .u8,
         blocks := blocks, fieldSets := fieldSets, enums := lirEnums, defmt := d.config.defmtFeature }

end DDV.Gen
