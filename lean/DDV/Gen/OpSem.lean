/-
  DDV.Gen.OpSem — what a generated leaf accessor hands to the runtime crate
  (`block_transform.rs:221-258`): the register accessor builds
  `RegisterOperation::new(interface, address as AddrT, field_sets::<Target>::<reset_fn>)`, the command
  accessor `CommandOperation::<.., In, Out>::new(interface, address as AddrT)` with `In` / `Out` the
  `()` type or a field-set type, the buffer accessor `BufferOperation::new(interface, address)`.
  This joins the generator model (`Lir`) to the runtime model (`DDV.Proto`): the operation the user
  ends up holding is a `RegSpec` / `CmdSpec` computed from the emitted items.
-/
import DDV.Gen.AddrSem
import DDV.Proto.Ops

namespace DDV.Gen
open DDV.Proto (RegSpec)
open DDV.Proto.Command (CmdSpec)

/-- `[u8; N]` literal of an emitted constructor as runtime bytes. -/
def toBytes (l : List Nat) : List DDV.Bits.Byte := l.map (BitVec.ofNat 8)

/-- The name of the constructor emitted for a ref that overrides the reset value
    (`format_ident!("new_as_{}", ref_name.to_case(Snake))`). -/
def refCtorName (n : Names) (ref : String) : String := s!"new_as_{n.method ref}"

/-- The byte array an emitted constructor returns: `new` the register's reset value (zeros when it
    has none), `new_as_<ref>` the ref's override. `none`: no such associated function — the
    generated code would not compile. -/
def LFieldSet.ctorBytes (n : Names) (fs : LFieldSet) (ctor : String) : Option (List Nat) :=
  if ctor = "new" then some fs.reset
  else (fs.refResets.find? fun p => refCtorName n p.1 = ctor).map (·.2)

/-- The field-set type an accessor names, looked up among the emitted ones (`mod field_sets`). -/
def Lir.fieldSet (l : Lir) (name : String) : Option LFieldSet := l.fieldSets.find? (·.name = name)

/-- The `RegisterOperation` a register accessor returns when its address expression evaluated to
    `addr`: `SIZE_BITS` of the named field set and the bytes of the named constructor. -/
def Lir.registerOperation (n : Names) (l : Lir) (m : Method) (addr : Int) : Option RegSpec :=
  match m.target, m.resetFn with
  | some fsName, some ctor =>
    match l.fieldSet fsName with
    | some fs =>
      match fs.ctorBytes n ctor with
      | some bytes => some { addr := addr, sizeBits := fs.sizeBits, reset := toBytes bytes }
      | none => none
    | none => none
  | _, _ => none

/-- `SIZE_BITS` of an optional command side: the unit type has none. -/
def Lir.sideSize (l : Lir) : Option String → Option (Option Nat)
  | none => some none
  | some name => (l.fieldSet name).map fun fs => some fs.sizeBits

/-- The `CommandOperation` a command accessor returns. -/
def Lir.commandOperation (l : Lir) (m : Method) (addr : Int) : Option CmdSpec :=
  match l.sideSize m.inSet, l.sideSize m.outSet with
  | some i, some o => some { addr := addr, sizeIn := i, sizeOut := o }
  | _, _ => none

/-- The names under which the lowering emits field sets for an object. -/
def fieldSetNamesOf : Object → List String
  | .register r => [r.name]
  | .command c => [s!"{c.name}FieldsIn", s!"{c.name}FieldsOut"]
  | _ => []

/-- All field-set type names of a device, in emission order. -/
def fieldSetNames (d : Device) : List String := (allObjects d.objects).flatMap fieldSetNamesOf

/-- The reset value a register declares, as the bytes of its field set: after
    `reset_values_converted` an array, or nothing — then all zero. -/
def declaredReset (r : Register) : List Nat :=
  match r.reset with
  | some (.array a) => a
  | _ => List.replicate ((r.sizeBits + 7) / 8) 0

end DDV.Gen
