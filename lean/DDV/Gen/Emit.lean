/-
  DDV.Gen.Emit — the facts record (GEN_PROTOCOL.md §2.1) of an accepted `Lir`, i.e. what
  `lir/token_transform/*` prints, reduced to the items the properties talk about.
-/
import Lean.Data.Json
import DDV.Gen.Pipeline
import DDV.Gen.EnumSem
import DDV.Gen.AddrSem
import DDV.Gen.OpSem

namespace DDV.Gen
open Lean (Json)
open DDV.Bits (ByteOrder BitOrder)

def jstr (s : String) : Json := Json.str s
def jopt (o : Option String) : Json := match o with | some s => Json.str s | none => Json.null
def jint (n : Int) : Json := Json.str (toString n)
def jnat (n : Nat) : Json := Json.num (n : Int)

/-- Whitespace between tokens removed; what stands inside a string literal is kept (`feature = "rev a"`). -/
def squashChars : List Char → Bool → Bool → List Char
  | [], _, _ => []
  | c :: cs, true, escaped =>
    c :: (if escaped then squashChars cs true false
          else if c == '\\' then squashChars cs true true
          else if c == '"' then squashChars cs false false
          else squashChars cs true false)
  | c :: cs, false, _ =>
    if c == '"' then c :: squashChars cs true false
    else if c.isWhitespace then squashChars cs false false
    else c :: squashChars cs false false

def squash (s : String) : String := String.ofList (squashChars s.toList false false)
def jcfg (c : Cfg) : Json := match c with | some s => Json.str (squash s) | none => Json.null

def carrierName (signed : Bool) (bits : Nat) : String := (if signed then "i" else "u") ++ toString bits

def kindName : MethodKind → String
  | .block => "block" | .register => "register" | .command => "command" | .buffer => "buffer"

def boName : ByteOrder → String | .le => "LE" | .be => "BE"

def methodJson (m : Method) : Json :=
  Json.mkObj [
    ("name", jstr m.name), ("cfg", jcfg m.cfg), ("kind", jstr (kindName m.kind)),
    ("target", jopt m.target), ("address_type", jopt (m.addressType.map (·.name))),
    ("access", jopt (m.access.map (·.name))), ("reset_fn", jopt m.resetFn),
    ("in_set", jopt m.inSet), ("out_set", jopt m.outSet), ("address", jint m.address),
    ("repeat", match m.repeat_ with
      | none => Json.null
      | some r => Json.mkObj [("count", jstr (toString r.count)),
                              ("op", jstr (if r.stride < 0 then "-" else "+")),
                              ("stride_abs", jstr (toString r.stride.natAbs)),
                              -- the emitted sum, evaluated left to right in the internal type:
                              -- `self.base_address + ADDRESS (+|-) index as T * |stride|`
                              ("order", jstr "bai")])]

/-- Whether `read_all_registers` reads this accessor: registers whose access includes reading. -/
def Method.readAllReads (m : Method) : Bool :=
  match m.kind, m.access with
  | .register, some a => a.readable
  | _, _ => false

/-- The reads of the blocking `read_all_registers` (block_transform.rs:51-95), in order:
    (accessor, index). -/
def readAllVisits (ms : List Method) : List (Method × Nat) :=
  ms.flatMap fun m =>
    if m.readAllReads then (List.range m.repTriple.1).map fun i => (m, i) else []

def readAllItem (x : Method × Nat) : Json :=
  let m := x.1
  let i := x.2
  let indexed := m.repTriple.2.2
  Json.mkObj [("method", jstr m.name), ("cfg", jcfg m.cfg),
    ("index", if indexed then jstr (toString i) else Json.null),
    ("address", jint m.address), ("stride", jint m.repTriple.2.1),
    ("display", jstr (if indexed then s!"{m.name}[{i}]" else m.name))]

def readAllJson (ms : List Method) : List Json := (readAllVisits ms).map readAllItem

def blockJson (b : LBlock) : Json :=
  Json.mkObj [("name", jstr b.name), ("root", Json.bool b.root), ("cfg", jcfg b.cfg),
    ("methods", Json.arr (b.methods.map methodJson).toArray),
    ("read_all", Json.arr (readAllJson b.methods).toArray)]

/-- `get_super_token` (field_set_transform.rs:409-423): `super::` unless the path has a leading
    `::` or starts with `crate`. -/
def superPrefix (ty : String) : String :=
  if ty.startsWith "::" then ""
  else if (ty.splitOn "::").head? == some "crate" then ""
  else "super::"

def convTy : ConvMethod → Option String
  | .into t => some t | .unsafeInto t => some t | .tryInto t => some t | _ => none

def getterJson (bo : ByteOrder) (bito : BitOrder) (f : LField) : Json :=
  if !f.access.readable then Json.null else
  let carrier := carrierName f.signed f.carrierBits
  let (conv, ty) : String × String := match f.conv with
    | .none => ("raw", carrier)
    | .bool => ("bool", "bool")
    | .into t => ("into", superPrefix t ++ squash t)
    | .unsafeInto t => ("unsafe_into", superPrefix t ++ squash t)
    | .tryInto t =>
      let p := superPrefix t ++ squash t
      ("try_into", s!"Result<{p},<{p}asTryFrom<{carrier}>>::Error>")
  Json.mkObj [("fn", jstr (match bito with | .lsb0 => "load_lsb0" | .msb0 => "load_msb0")),
    ("carrier", jstr carrier), ("byte_order", jstr (boName bo)), ("start", jnat f.start),
    ("end", jnat f.stop), ("conv", jstr conv), ("type", jstr ty)]

def setterJson (bo : ByteOrder) (bito : BitOrder) (f : LField) : Json :=
  if !f.access.writable then Json.null else
  let carrier := carrierName f.signed f.carrierBits
  let (conv, ty) : String × String := match f.conv with
    | .none => ("raw", carrier)
    | .bool => ("bool", "bool")
    | .into t => ("into", superPrefix t ++ squash t)
    | .unsafeInto t => ("into", superPrefix t ++ squash t)
    | .tryInto t => ("into", superPrefix t ++ squash t)
  Json.mkObj [("fn", jstr (match bito with | .lsb0 => "store_lsb0" | .msb0 => "store_msb0")),
    ("carrier", jstr carrier), ("byte_order", jstr (boName bo)), ("start", jnat f.start),
    ("end", jnat f.stop), ("conv", jstr conv), ("type", jstr ty)]

def fieldJson (bo : ByteOrder) (bito : BitOrder) (f : LField) : Json :=
  Json.mkObj [("name", jstr f.name), ("cfg", jcfg f.cfg), ("getter", getterJson bo bito f),
    ("setter", setterJson bo bito f)]

def fieldSetJson (n : Names) (fs : LFieldSet) : Json :=
  -- the impl prints all read functions, then all write functions: fields appear in order of
  -- first appearance
  let readable := fs.fields.filter (·.access.readable)
  let writeOnly := fs.fields.filter (fun f => !f.access.readable)
  Json.mkObj [("name", jstr fs.name), ("cfg", jcfg fs.cfg), ("size_bytes", jnat ((fs.sizeBits + 7) / 8)),
    ("size_bits", jnat fs.sizeBits), ("new", Json.arr (fs.reset.map jnat).toArray),
    ("new_as", Json.arr (fs.refResets.map fun (r, bytes) =>
        Json.mkObj [("name", jstr s!"new_as_{n.method r}"), ("bytes", Json.arr (bytes.map jnat).toArray)]).toArray),
    ("fields", Json.arr ((readable ++ writeOnly).map (fieldJson fs.byteOrder fs.bitOrder)).toArray),
    ("debug_fields", Json.arr (fs.fields.map (jstr ·.name)).toArray)]

def enumJson (e : LEnum) : Json :=
  let default := e.variants.find? (·.default)
  let catchAll := e.variants.find? (·.catchAll)
  let arms := (e.variants.filter (!·.catchAll)).map fun v =>
    Json.mkObj [("number", jint v.number), ("variant", jstr v.name), ("cfg", jcfg v.cfg)]
  let hasFrom := default.isSome || catchAll.isSome
  Json.mkObj [("name", jstr e.name), ("cfg", jcfg e.cfg), ("repr", jstr (carrierName e.signed e.reprBits)),
    ("variants", Json.arr (e.variants.map fun v =>
        Json.mkObj [("name", jstr v.name), ("cfg", jcfg v.cfg), ("number", jint v.number),
                    ("catch_all", Json.bool v.catchAll)]).toArray),
    ("default", jopt (default.map (·.name))),
    ("from", if hasFrom then
        Json.mkObj [("arms", Json.arr arms.toArray),
          ("fallback", jstr (match catchAll with | some c => s!"catch_all:{c.name}" | none => "default"))]
      else Json.null),
    ("try_from", if hasFrom then Json.null else
        Json.mkObj [("arms", Json.arr arms.toArray), ("target", jstr e.name)]),
    ("into", Json.arr (e.variants.map fun v =>
        Json.mkObj [("variant", jstr v.name),
          ("number", if v.catchAll then Json.null else jint v.number), ("cfg", jcfg v.cfg)]).toArray)]

/-- The conversion functions of `DDV.Gen.EnumSem` tabulated on a few raw values, so that the harness
    can compare them with the match arms the real generator emitted. -/
def enumTableJson (e : LEnum) : Json :=
  let raws : List Int := (List.range 40).map (fun (n : Nat) => (n : Int)) ++ [63, 64, 127, 128, 255, 256, 1000, -1, -2]
  Json.mkObj [("name", jstr e.name),
    ("from", Json.arr (raws.map fun r => match e.fromNum r with
      | .ok v => Json.arr #[jint r, jstr "ok", jstr v.variant, match v.payload with | some p => jint p | none => Json.null]
      | .error er => Json.arr #[jint r, jstr "err", jint er.source, jstr er.target]).toArray),
    ("into", Json.arr (e.variants.map fun v =>
      Json.arr #[jstr v.name, match e.toNum ⟨v.name, some 7⟩ with | some n => jint n | none => Json.null]).toArray)]

def typeRange (signed : Bool) (bits : Nat) : Int × Int :=
  if signed then (-(2 ^ (bits - 1) : Int), 2 ^ (bits - 1) - 1) else (0, 2 ^ bits - 1)

/-- `DDV.Gen.AddrSem` tabulated for every accessor at a few indices (base 1000 for the exact
    version, base 0 and 3 for the internal-type version), to be compared with the arithmetic read
    off the real output. -/
def addrRowJson (lo hi : Int) (m : Method) (i : Nat) : Json :=
  let optJ (o : Option Int) : Json := match o with | some v => jint v | none => Json.null
  Json.arr #[jnat i, optJ (m.addrAt 1000 i), optJ (m.addrAtT lo hi 0 i), optJ (m.addrAtT lo hi 3 i),
             jint (m.reportedAt i)]

def addrMethodJson (lo hi : Int) (m : Method) : Json :=
  let count := match m.repeat_ with | some r => r.count | none => 1
  let idxs := [0, 1, 2, count - 1, count].eraseDups
  Json.mkObj [("name", jstr m.name), ("rows", Json.arr (idxs.map (addrRowJson lo hi m)).toArray)]

def addrTableJson (l : Lir) : Json :=
  let (lo, hi) := typeRange l.internalSigned l.internalBits
  Json.arr (l.blocks.map fun b =>
    Json.mkObj [("block", jstr b.name),
                ("methods", Json.arr (b.methods.map (addrMethodJson lo hi)).toArray)]).toArray

/-- `DDV.Gen.OpSem` tabulated for every leaf accessor: the operation object the accessor returns
    (register: `SIZE_BITS` and the bytes of its reset constructor; command: the sizes of its two
    sides, `null` for the unit type), to be compared with what the compiled driver puts on the wire. -/
def opRowJson (n : Names) (l : Lir) (m : Method) : Json :=
  match m.kind with
  | .register =>
    (match l.registerOperation n m 0 with
     | some s => Json.mkObj [("size_bits", jnat s.sizeBits), ("reset", Json.arr (s.reset.map fun b => jnat b.toNat).toArray)]
     | none => Json.null)
  | .command =>
    (match l.commandOperation m 0 with
     | some s => Json.mkObj [("size_in", match s.sizeIn with | some k => jnat k | none => Json.null),
                             ("size_out", match s.sizeOut with | some k => jnat k | none => Json.null)]
     | none => Json.null)
  | _ => Json.null

def opTableJson (n : Names) (l : Lir) : Json :=
  Json.arr (l.blocks.map fun b =>
    Json.mkObj [("block", jstr b.name), ("ops", Json.arr (b.methods.map (opRowJson n l)).toArray)]).toArray

def factsOk (n : Names) (l : Lir) : Json :=
  Json.mkObj [("outcome", jstr "ok"),
    ("internal_address_type", jstr (carrierName l.internalSigned l.internalBits)),
    ("blocks", Json.arr (l.blocks.map blockJson).toArray),
    ("field_sets", Json.arr ((l.fieldSets.filter (·.sizeBits > 0)).map (fieldSetJson n)).toArray),
    ("enums", Json.arr (l.enums.map enumJson).toArray),
    ("enum_tables", Json.arr (l.enums.map enumTableJson).toArray),
    ("addr_tables", addrTableJson l),
    ("op_tables", opTableJson n l)]

def factsStop : Stop → Json
  | .error e => Json.mkObj [("outcome", jstr "error"), ("stage", jstr e.stage), ("kind", jstr e.kind),
      ("names", Json.arr (e.names.map jstr).toArray),
      ("numbers", Json.arr (e.numbers.map fun n => jstr (toString n)).toArray),
      ("alts", Json.arr (e.alts.map fun a => Json.arr (a.map jstr).toArray).toArray)]
  | .panic site => Json.mkObj [("outcome", jstr "panic"), ("site", jstr site)]
  | .abort why => Json.mkObj [("outcome", jstr "abort"), ("why", jstr why)]

def facts (n : Names) (r : M Lir) : Json :=
  match r with
  | .ok l => factsOk n l
  | .error s => factsStop s

end DDV.Gen
