/-
  DDV.Gen.EnumSem — the conversions `enum_transform.rs` emits for a generated enum, as functions
  over the lowered enum: the `From`/`TryFrom<repr>` match (number arms of the non-catch-all variants
  in order, then the catch-all arm, else `Self::default()`, else the `ConversionError`) and the
  `From<Enum> for repr` match.
-/
import DDV.Gen.Lower

namespace DDV.Gen

/-- A value of the generated enum: the variant's name and, for the catch-all variant, its payload. -/
structure EnumVal where
  variant : String
  payload : Option Int
  deriving DecidableEq, Repr

/-- `ConversionError { source, target }`. -/
structure ConvError where
  source : Int
  target : String
  deriving DecidableEq, Repr

def LEnum.numberArms (e : LEnum) : List LVariant := e.variants.filter (fun v => !v.catchAll)

/-- `impl From<repr>` (when the enum has a catch-all or a default) / `impl TryFrom<repr>` (else). -/
def LEnum.fromNum (e : LEnum) (raw : Int) : Except ConvError EnumVal :=
  match e.numberArms.find? (fun v => v.number == raw) with
  | some v => .ok ⟨v.name, none⟩
  | none =>
    match e.variants.find? (·.catchAll) with
    | some c => .ok ⟨c.name, some raw⟩
    | none =>
      match e.variants.find? (·.default) with
      | some d => .ok ⟨d.name, none⟩
      | none => .error ⟨raw, e.name⟩

/-- `impl From<Enum> for repr`. -/
def LEnum.toNum (e : LEnum) (x : EnumVal) : Option Int :=
  match e.variants.find? (fun v => v.name == x.variant) with
  | some v => if v.catchAll then x.payload else some v.number
  | none => none

end DDV.Gen
