/-
  The DSL lowering (`DDV.Gen.DslHir`, the model of `dsl_hir/mir_transform.rs`) stops, if it stops, with a front-end
  error - never with a panic, the `u32` overflow of an inclusive range end excepted. Proved for every tree by
  going through the functions one by one (`Ben x`: every error `x` can return is benign).
-/
import DDV.Gen.DslHir
namespace DDV.Gen.HirNoPanic
open DDV.Gen

/-- The only ways the lowering can stop: a front-end error (a `syn::Error`, i.e. a compile error) or the `u32`
    overflow of an inclusive range end. -/
def Benign (s : Stop) : Prop := (∃ k, s = frontErr k) ∨ s = .panic "add_overflow"

def Ben {α : Type} (x : M α) : Prop := ∀ s, x = .error s → Benign s

theorem Ben.pure {α : Type} (a : α) : Ben (pure a : M α) := by intro s h; cases h
theorem Ben.ok {α : Type} (a : α) : Ben (.ok a : M α) := by intro s h; cases h
theorem Ben.front {α : Type} (k : String) : Ben (throw (frontErr k) : M α) := by
  intro s h; cases h; exact Or.inl ⟨k, rfl⟩
theorem Ben.bind {α β : Type} {x : M α} {f : α → M β} (hx : Ben x) (hf : ∀ a, Ben (f a)) : Ben (x >>= f) := by
  intro s h
  cases hxx : x with
  | error e => rw [hxx] at h; cases h; exact hx _ hxx
  | ok a => rw [hxx] at h; exact hf a s h
theorem Ben.ite {α : Type} {c : Prop} [Decidable c] {x y : M α} (hx : Ben x) (hy : Ben y) : Ben (if c then x else y) := by
  split <;> assumption
theorem Ben.mapM {α β : Type} (f : α → M β) : ∀ (l : List α), (∀ a, Ben (f a)) → Ben (l.mapM f)
  | [], _ => Ben.pure _
  | a :: l, h => by
    rw [List.mapM_cons]
    exact Ben.bind (h a) (fun b => Ben.bind (Ben.mapM f l h) (fun _ => Ben.pure _))
theorem Ben.optMapM {α β : Type} (f : α → M β) (o : Option α) (h : ∀ a, Ben (f a)) : Ben (o.mapM f) := by
  cases o with
  | none => exact Ben.pure _
  | some a => simp only [Option.mapM_some]; intro s hs; cases hfa : f a with
    | error e => rw [hfa] at hs; cases hs; exact h a _ hfa
    | ok b => rw [hfa] at hs; cases hs

theorem litI64_ben (l : HLit) : Ben (litI64 l) := Ben.ite (Ben.pure _) (Ben.front _)
theorem litU32_ben (l : HLit) : Ben (litU32 l) := Ben.ite (Ben.pure _) (Ben.front _)
theorem litU64_ben (l : HLit) : Ben (litU64 l) := Ben.ite (Ben.pure _) (Ben.front _)
theorem litI128_ben (l : HLit) : Ben (litI128 l) := Ben.ite (Ben.pure _) (Ben.front _)
theorem litReset_ben (l : HLit) : Ben (litReset l) := Ben.ite (Ben.pure _) (Ben.ite (Ben.pure _) (Ben.front _))
theorem hirCfg_ben (a : List HAttr) : Ben (hirCfg a) := by
  unfold hirCfg; split
  · exact Ben.pure _
  · exact Ben.pure _
  · exact Ben.front _
theorem hirRepeat_ben (r : HRepeat) : Ben (hirRepeat r) :=
  Ben.bind (litU64_ben _) (fun _ => Ben.bind (litI64_ben _) (fun _ => Ben.pure _))
theorem hirInclEnd_ben (e : Nat) : Ben (hirInclEnd e) := by
  unfold hirInclEnd; split
  · exact Ben.pure _
  · intro s h; cases h; exact Or.inr rfl

theorem hirVariant_ben (v : HVariant) : Ben (hirVariant v) := by
  unfold hirVariant
  refine Ben.bind (hirCfg_ben _) (fun _ => ?_)
  dsimp only
  split
  · exact Ben.bind (Ben.pure _) (fun _ => Ben.pure _)
  · exact Ben.bind (litI128_ben _) (fun _ => Ben.bind (Ben.pure _) (fun _ => Ben.pure _))
  · exact Ben.bind (Ben.pure _) (fun _ => Ben.pure _)
  · exact Ben.bind (Ben.pure _) (fun _ => Ben.pure _)

theorem hirConv_ben (d : String) (c : HConv) : Ben (hirConv d c) := by
  cases c with
  | direct p t => exact Ben.pure _
  | «enum» n vs t => exact Ben.bind (Ben.mapM _ _ hirVariant_ben) (fun _ => Ben.pure _)

macro "ben" : tactic => `(tactic| (
  repeat' (first
    | exact Ben.pure _ | exact Ben.ok _ | exact Ben.front _
    | exact litI64_ben _ | exact litU32_ben _ | exact litU64_ben _ | exact litI128_ben _ | exact litReset_ben _
    | exact hirCfg_ben _ | exact hirRepeat_ben _ | exact hirInclEnd_ben _
    | exact Ben.optMapM _ _ hirRepeat_ben | exact Ben.optMapM _ _ litI64_ben | exact Ben.optMapM _ _ litU32_ben
    | refine Ben.bind ?_ (fun _ => ?_)
    | refine Ben.ite ?_ ?_
    | split)))

theorem hirField_ben (g : GlobalConfig) (f : HField) : Ben (hirField g f) := by
  unfold hirField
  refine Ben.bind (hirCfg_ben _) (fun _ => ?_)
  dsimp only
  refine Ben.bind (Ben.optMapM _ _ (hirConv_ben _)) (fun _ => ?_)
  ben

theorem hirFindReset_ben (items : List HRegItem) : Ben (hirFindReset items) := by
  unfold hirFindReset
  split
  · exact Ben.pure _
  · rename_i r hr
    refine Ben.bind ?_ (fun _ => Ben.pure _)
    -- whatever item was found, its value is a pure array or a parsed literal
    have : ∀ (l : List HRegItem) (r : M ResetValue), l.findSome? hirResetOf = some r → Ben r := by
      intro l
      induction l with
      | nil => intro r h; cases h
      | cons x xs ih =>
        intro r h
        rw [List.findSome?_cons] at h
        cases x <;> simp only [hirResetOf] at h <;> first | exact ih r h | (cases h; ben)
    exact this _ _ hr

theorem hirRegister_ben (g : GlobalConfig) (a : List HAttr) (n : String) (items : List HRegItem) (fs : List HField) :
    Ben (hirRegister g a n items fs) := by
  unfold hirRegister findLit hirRegRepeat
  refine Ben.bind (hirCfg_ben _) (fun _ => ?_)
  dsimp only
  repeat' (first
    | exact hirFindReset_ben _ | exact Ben.mapM _ _ (hirField_ben g)
    | (ben; done)
    | refine Ben.bind ?_ (fun _ => ?_)
    | split)

macro "ben2" : tactic => `(tactic| (
  repeat' (first
    | exact hirFindReset_ben _ | exact Ben.mapM _ _ (hirField_ben _)
    | (ben; done)
    | refine Ben.bind ?_ (fun _ => ?_)
    | refine Ben.ite ?_ ?_
    | split)))

set_option maxHeartbeats 4000000 in
theorem hirCommand_ben (g : GlobalConfig) (a : List HAttr) (n : String) (v : Option HCmdValue) :
    Ben (hirCommand g a n v) := by
  unfold hirCommand hirCmdRepeat
  ben2

theorem hirBuffer_ben (g : GlobalConfig) (a : List HAttr) (n : String) (acc : Option Access) (addr : Option HLit) :
    Ben (hirBuffer g a n acc addr) := by
  unfold hirBuffer
  ben2

theorem overrideLayout_ben {α : Type} : Ben (throw overrideLayout : M α) := Ben.front _

theorem hirBlockOverride_ben (a : List HAttr) (n : String) (items : List HBlockItem) (os : List HObj) :
    Ben (hirBlockOverride a n items os) := by
  unfold hirBlockOverride hirBlockOffset hirBlockRepeat findLit overrideLayout
  ben2

theorem hirRegisterOverride_ben (a : List HAttr) (n : String) (items : List HRegItem) (fs : List HField) :
    Ben (hirRegisterOverride a n items fs) := by
  unfold hirRegisterOverride hirRegRepeat findLit overrideLayout
  ben2

theorem hirCommandOverride_ben (a : List HAttr) (n : String) (v : Option HCmdValue) :
    Ben (hirCommandOverride a n v) := by
  unfold hirCommandOverride hirCmdRepeat findLit overrideLayout
  ben2

theorem hirRef_ben (a : List HAttr) (n : String) (o : HObj) : Ben (hirRef a n o) := by
  unfold hirRef
  refine Ben.bind (hirCfg_ben _) (fun _ => ?_)
  dsimp only
  cases o with
  | block a n items objects => refine Ben.bind (hirBlockOverride_ben _ _ _ _) (fun _ => ?_); ben
  | register a n items fields => refine Ben.bind (hirRegisterOverride_ben _ _ _ _) (fun _ => ?_); ben
  | command a n value => refine Ben.bind (hirCommandOverride_ben _ _ _) (fun _ => ?_); ben
  | buffer => ben
  | ref => ben

mutual
theorem hirObj_ben (g : GlobalConfig) : ∀ (o : HObj), Ben (hirObj g o)
  | .block attrs name items objects => by
    unfold hirObj hirBlockOffset hirBlockRepeat findLit
    refine Ben.bind (hirCfg_ben _) (fun _ => ?_)
    dsimp only
    refine Ben.bind (by ben) (fun _ => Ben.bind (by ben) (fun _ => Ben.bind (hirObjs_ben g objects) (fun _ => Ben.pure _)))
  | .register attrs name items fields => by
    unfold hirObj; exact Ben.bind (hirRegister_ben _ _ _ _ _) (fun _ => Ben.pure _)
  | .command attrs name value => by
    unfold hirObj; exact Ben.bind (hirCommand_ben _ _ _ _) (fun _ => Ben.pure _)
  | .buffer attrs name access address => by
    unfold hirObj; exact Ben.bind (hirBuffer_ben _ _ _ _ _) (fun _ => Ben.pure _)
  | .ref attrs name object => by
    unfold hirObj; exact Ben.bind (hirRef_ben _ _ _) (fun _ => Ben.pure _)
theorem hirObjs_ben (g : GlobalConfig) : ∀ (os : List HObj), Ben (hirObjs g os)
  | [] => by unfold hirObjs; exact Ben.pure _
  | o :: os => by
    unfold hirObjs
    exact Ben.bind (hirObj_ben g o) (fun _ => Ben.bind (hirObjs_ben g os) (fun _ => Ben.pure _))
end

theorem hirInteger_ben (i : String) : Ben (hirInteger i) := by
  unfold hirInteger
  repeat' (first | exact Ben.pure _ | exact Ben.front _ | split)

theorem hirConfigStep_ben (all : List HConfig) (g : GlobalConfig) (c : HConfig) : Ben (hirConfigStep all g c) := by
  unfold hirConfigStep
  dsimp only
  split
  · exact Ben.bind (Ben.front _) (fun _ => by
      cases c <;> first | exact Ben.pure _ | exact Ben.bind (hirInteger_ben _) (fun _ => Ben.pure _))
  · cases c <;> first | exact Ben.pure _ | exact Ben.bind (Ben.pure _) (fun _ => Ben.pure _) | exact Ben.bind (hirInteger_ben _) (fun _ => Ben.pure _) | exact Ben.bind (Ben.pure _) (fun _ => Ben.bind (hirInteger_ben _) (fun _ => Ben.pure _))

theorem foldlM_ben {α β : Type} (f : β → α → M β) (h : ∀ b a, Ben (f b a)) : ∀ (l : List α) (b : β), Ben (l.foldlM f b)
  | [], b => Ben.pure _
  | a :: l, b => by
    rw [List.foldlM_cons]
    exact Ben.bind (h b a) (fun b' => foldlM_ben f h l b')

/-- **The DSL lowering reports every problem as an error**: whatever tree the grammar hands it, `transform` either
    succeeds or stops with a `syn::Error` (a compile error in the user's build) - never with a panic, the one
    exception being the `u32` overflow of an inclusive range that ends at 4294967295. -/
theorem hirTransform_benign (d : HDevice) (s : Stop) (h : hirTransform d = .error s) : Benign s := by
  have : Ben (hirTransform d) := by
    unfold hirTransform hirConfig
    exact Ben.bind (foldlM_ben _ (hirConfigStep_ben _) _ _) (fun _ => Ben.bind (hirObjs_ben _ _) (fun _ => Ben.pure _))
  exact this s h
end DDV.Gen.HirNoPanic
