/-
  The instance expansion of the address-collision pass (`claimedOfBlock`) claims exactly the
  addresses of the accessor chains of the lowered device (C12 ⇄ C04).
-/
import DDV.Gen.AddrSem
import DDV.Gen.Lemmas.MinMax

namespace DDV.Gen
set_option linter.unusedVariables false
set_option linter.unusedSimpArgs false

theorem mapM_ok_mem {α β : Type} (f : α → M β) :
    ∀ (l : List α) (r : List β), l.mapM f = .ok r →
      (∀ y ∈ r, ∃ x ∈ l, f x = .ok y) ∧ (∀ x ∈ l, ∃ y ∈ r, f x = .ok y)
  | [], r, h => by
    simp only [List.mapM_nil, pure, Except.pure, Except.ok.injEq] at h
    subst h
    simp
  | a :: as, r, h => by
    rw [List.mapM_cons] at h
    simp only [bind, Except.bind, pure, Except.pure] at h
    cases ha : f a with
    | error e => rw [ha] at h; cases h
    | ok b =>
      rw [ha] at h
      simp only at h
      cases hs : as.mapM f with
      | error e => rw [hs] at h; cases h
      | ok bs =>
        rw [hs] at h
        simp only [Except.ok.injEq] at h
        subst h
        have ih := mapM_ok_mem f as bs hs
        constructor
        · intro y hy
          rcases List.mem_cons.1 hy with rfl | hy
          · exact ⟨a, List.mem_cons_self .., ha⟩
          · obtain ⟨x, hx, hfx⟩ := ih.1 y hy
            exact ⟨x, List.mem_cons_of_mem _ hx, hfx⟩
        · intro x hx
          rcases List.mem_cons.1 hx with rfl | hx
          · exact ⟨b, List.mem_cons_self .., ha⟩
          · obtain ⟨y, hy, hfx⟩ := ih.2 x hx
            exact ⟨y, List.mem_cons_of_mem _ hy, hfx⟩

def Method.count (m : Method) : Nat := match m.repeat_ with | none => 1 | some r => r.count

/-- A chain of accessor calls that starts in a block with methods `ms`, follows block accessors
    through the by-name lookup of the lowered device, ends at a register / command / buffer
    accessor, and passes a valid index at every step. -/
inductive LeafChain (blocks : List LBlock) : List Method → List (Method × Nat) → Prop
  | leaf {ms : List Method} {m : Method} {i : Nat} :
      m ∈ ms → m.kind ≠ .block → i < m.count → LeafChain blocks ms [(m, i)]
  | step {ms : List Method} {m : Method} {i : Nat} {b : LBlock} {rest : List (Method × Nat)} :
      m ∈ ms → m.kind = .block → lookupBlock blocks m = some b → i < m.count →
      LeafChain blocks b.methods rest → LeafChain blocks ms ((m, i) :: rest)

/-- the last accessor of a chain -/
def chainLeaf : List (Method × Nat) → Option Method
  | [] => none
  | [(m, _)] => some m
  | _ :: rest => chainLeaf rest

/-- what an entry of the claimed list says about an instance -/
def Claims (c : Claimed) (chain : List (Method × Nat)) (offset : Int) : Prop :=
  c.address = specChain chain offset ∧
  ∃ m, chainLeaf chain = some m ∧ c.kind = m.kind ∧ c.allowOverlap = m.allowAddressOverlap

theorem leafChain_ne_nil {blocks : List LBlock} {ms : List Method} {ch : List (Method × Nat)}
    (h : LeafChain blocks ms ch) : ch ≠ [] := by
  cases h <;> simp

theorem chainLeaf_cons {x : Method × Nat} {rest : List (Method × Nat)} (h : rest ≠ []) :
    chainLeaf (x :: rest) = chainLeaf rest := by
  cases rest with
  | nil => exact absurd rfl h
  | cons y ys => cases x; rfl

theorem claims_cons {c : Claimed} {m : Method} {j : Nat} {rest : List (Method × Nat)} {offset : Int}
    (hne : rest ≠ []) (h : Claims c rest (offset + m.address + (j : Int) * m.strideOr0)) :
    Claims c ((m, j) :: rest) offset := by
  obtain ⟨h1, h2⟩ := h
  refine ⟨?_, ?_⟩
  · rw [h1]; rfl
  · rw [chainLeaf_cons hne]; exact h2

theorem repTriple_count (m : Method) : m.repTriple.1 = m.count := by
  unfold Method.repTriple Method.count; cases m.repeat_ <;> rfl
theorem repTriple_stride (m : Method) : m.repTriple.2.1 = m.strideOr0 := by
  unfold Method.repTriple Method.strideOr0; cases m.repeat_ <;> rfl

theorem leafEntry_ok {name : String} {repeated allow : Bool} {k : MethodKind} {cur stride : Int} {i : Nat} {c : Claimed}
    (h : leafEntry name repeated allow k cur stride i = .ok c) :
    c.address = cur + (i : Int) * stride ∧ c.kind = k ∧ c.allowOverlap = allow := by
  unfold leafEntry at h
  simp only [bind, Except.bind, pure, Except.pure] at h
  cases h1 : ck ((i : Int) * stride) with
  | error e => rw [h1] at h; cases h
  | ok st =>
    rw [h1] at h
    simp only at h
    cases h2 : ck (cur + st) with
    | error e => rw [h2] at h; cases h
    | ok a =>
      rw [h2] at h
      simp only [Except.ok.injEq] at h
      subst h
      exact ⟨by rw [(ck_ok h2).1, (ck_ok h1).1], rfl, rfl⟩

/-- The result of one block's methods, for every offset: sound and complete w.r.t. accessor chains. -/
def ClaimedSpec (blocks : List LBlock) (ms : List Method) (offset : Int) (cs : List Claimed) : Prop :=
  (∀ c ∈ cs, ∃ ch, LeafChain blocks ms ch ∧ Claims c ch offset) ∧
  (∀ ch, LeafChain blocks ms ch → ∃ c ∈ cs, Claims c ch offset)

theorem claimedOfRepeats_spec (n : Names) (blocks : List LBlock) (fuel : Nat) (sub : LBlock) (cur stride : Int)
    (display : String) (stack : List String)
    (ih : ∀ f, fuel = f + 1 → ∀ ms offset stack cs,
            claimedOfMethods n blocks f ms offset stack = .ok cs → ClaimedSpec blocks ms offset cs) :
    ∀ (remaining i : Nat) (cs : List Claimed),
      claimedOfRepeats n blocks fuel sub cur stride display stack remaining i = .ok cs →
      (∀ c ∈ cs, ∃ j, i ≤ j ∧ j < i + remaining ∧
          ∃ ch, LeafChain blocks sub.methods ch ∧ Claims c ch (cur + (j : Int) * stride)) ∧
      (∀ j, i ≤ j → j < i + remaining → ∀ ch, LeafChain blocks sub.methods ch →
          ∃ c ∈ cs, Claims c ch (cur + (j : Int) * stride))
  | 0, i, cs, h => by
    unfold claimedOfRepeats at h
    simp only [pure, Except.pure, Except.ok.injEq] at h
    subst h
    exact ⟨(fun c hc => by cases hc), fun j h1 h2 => by omega⟩
  | remaining + 1, i, cs, h => by
    unfold claimedOfRepeats at h
    simp only [bind, Except.bind, pure, Except.pure] at h
    cases h1 : ck ((i : Int) * stride) with
    | error e => rw [h1] at h; cases h
    | ok st =>
      rw [h1] at h
      simp only at h
      cases h2 : ck (cur + st) with
      | error e => rw [h2] at h; cases h
      | ok base =>
        rw [h2] at h
        simp only at h
        have hbase : base = cur + (i : Int) * stride := by rw [(ck_ok h2).1, (ck_ok h1).1]
        cases fuel with
        | zero => simp only [throw, throwThe, MonadExceptOf.throw] at h; cases h
        | succ f =>
          simp only at h
          cases h3 : claimedOfMethods n blocks f sub.methods base (stack ++ [s!"{display} (index: {i})"]) with
          | error e => rw [h3] at h; cases h
          | ok here =>
            rw [h3] at h
            simp only at h
            cases h4 : claimedOfRepeats n blocks (f + 1) sub cur stride display stack remaining (i + 1) with
            | error e => rw [h4] at h; cases h
            | ok rest =>
              rw [h4] at h
              simp only [Except.ok.injEq] at h
              subst h
              have hhere := ih f rfl _ _ _ _ h3
              have hrest := claimedOfRepeats_spec n blocks (f + 1) sub cur stride display stack ih remaining (i + 1) rest h4
              rw [hbase] at hhere
              constructor
              · intro c hc
                rcases List.mem_append.1 hc with hc | hc
                · obtain ⟨ch, l1, l2⟩ := hhere.1 c hc
                  exact ⟨i, Nat.le_refl _, by omega, ch, l1, l2⟩
                · obtain ⟨j, j1, j2, ch, l1, l2⟩ := hrest.1 c hc
                  exact ⟨j, by omega, by omega, ch, l1, l2⟩
              · intro j j1 j2 ch hch
                by_cases hj : j = i
                · subst hj
                  obtain ⟨c, hc, l⟩ := hhere.2 ch hch
                  exact ⟨c, List.mem_append_left _ hc, l⟩
                · obtain ⟨c, hc, l⟩ := hrest.2 j (by omega) (by omega) ch hch
                  exact ⟨c, List.mem_append_right _ hc, l⟩

theorem leaf_here_spec {name : String} {repeated allow : Bool} {k : MethodKind} {cur stride : Int} {count : Nat}
    {here : List Claimed}
    (h : (List.range count).mapM (leafEntry name repeated allow k cur stride) = .ok here) :
    (∀ c ∈ here, ∃ i, i < count ∧ c.address = cur + (i : Int) * stride ∧ c.kind = k ∧ c.allowOverlap = allow) ∧
    (∀ i, i < count → ∃ c ∈ here, c.address = cur + (i : Int) * stride ∧ c.kind = k ∧ c.allowOverlap = allow) := by
  have := mapM_ok_mem _ _ _ h
  constructor
  · intro c hc
    obtain ⟨i, hi, hf⟩ := this.1 c hc
    exact ⟨i, List.mem_range.1 hi, leafEntry_ok hf⟩
  · intro i hi
    obtain ⟨c, hc, hf⟩ := this.2 i (List.mem_range.2 hi)
    exact ⟨c, hc, leafEntry_ok hf⟩

/-- cons-ing a method in front keeps the chains of the tail -/
theorem leafChain_cons_of_tail {blocks : List LBlock} {m : Method} {ms : List Method} {ch : List (Method × Nat)}
    (h : LeafChain blocks ms ch) : LeafChain blocks (m :: ms) ch := by
  cases h with
  | leaf h1 h2 h3 => exact .leaf (List.mem_cons_of_mem _ h1) h2 h3
  | step h1 h2 h3 h4 h5 => exact .step (List.mem_cons_of_mem _ h1) h2 h3 h4 h5

theorem claimedHere_spec (n : Names) (blocks : List LBlock) (fuel : Nat)
    (ih : ∀ f, fuel = f + 1 → ∀ ms offset stack cs,
            claimedOfMethods n blocks f ms offset stack = .ok cs → ClaimedSpec blocks ms offset cs)
    (m : Method) (ms : List Method) (offset cur : Int) (hcur : cur = offset + m.address) (stack : List String)
    (here : List Claimed) (hh : claimedHere n blocks fuel m cur stack = .ok here) :
    (∀ c ∈ here, ∃ ch, LeafChain blocks (m :: ms) ch ∧ Claims c ch offset) ∧
    (∀ ch, LeafChain blocks (m :: ms) ch → (∃ i rest, ch = (m, i) :: rest) → ∃ c ∈ here, Claims c ch offset) := by
  unfold claimedHere at hh
  cases hk : m.kind with
  | block =>
    rw [hk] at hh
    simp only at hh
    cases hl : lookupBlock blocks m with
    | none => rw [hl] at hh; simp only [throw, throwThe, MonadExceptOf.throw] at hh; cases hh
    | some sub =>
      rw [hl] at hh
      simp only at hh
      have hr := claimedOfRepeats_spec n blocks fuel sub cur m.repTriple.2.1 _ stack ih m.repTriple.1 0 here hh
      rw [repTriple_count, repTriple_stride, hcur] at hr
      constructor
      · intro c hc
        obtain ⟨j, _, j2, ch, l1, l2⟩ := hr.1 c hc
        exact ⟨(m, j) :: ch, .step (List.mem_cons_self ..) hk hl (by omega) l1, claims_cons (leafChain_ne_nil l1) l2⟩
      · intro ch hch ⟨i, rest, hshape⟩
        subst hshape
        cases hch with
        | leaf _ h2 _ => exact absurd hk h2
        | step _ _ h3 h4 h5 =>
          rw [hl] at h3
          cases h3
          obtain ⟨c, hc, l⟩ := hr.2 i (Nat.zero_le _) (by omega) rest h5
          exact ⟨c, hc, claims_cons (leafChain_ne_nil h5) l⟩
  | register | command | buffer =>
    rw [hk] at hh
    simp only at hh
    have hr := leaf_here_spec hh
    rw [repTriple_count, repTriple_stride, hcur] at hr
    constructor
    · intro c hc
      obtain ⟨i, hi, ha, hkk, hal⟩ := hr.1 c hc
      refine ⟨[(m, i)], .leaf (List.mem_cons_self ..) (by rw [hk]; intro hx; cases hx) hi, ?_, m, rfl, ?_, hal⟩
      · rw [ha]; simp [specChain]
      · rw [hkk, hk]
    · intro ch hch ⟨i, rest, hshape⟩
      subst hshape
      cases hch with
      | leaf _ _ h3 =>
        obtain ⟨c, hc, ha, hkk, hal⟩ := hr.2 i h3
        refine ⟨c, hc, ?_, m, rfl, ?_, hal⟩
        · rw [ha]; simp [specChain]
        · rw [hkk, hk]
      | step _ h2 _ _ _ => rw [hk] at h2; cases h2

theorem claimedOfMethods_step (n : Names) (blocks : List LBlock) (fuel : Nat)
    (ih : ∀ f, fuel = f + 1 → ∀ ms offset stack cs,
            claimedOfMethods n blocks f ms offset stack = .ok cs → ClaimedSpec blocks ms offset cs) :
    ∀ (ms : List Method) (offset : Int) (stack : List String) (cs : List Claimed),
      claimedOfMethods n blocks fuel ms offset stack = .ok cs → ClaimedSpec blocks ms offset cs
  | [], offset, stack, cs, h => by
    unfold claimedOfMethods at h
    simp only [pure, Except.pure, Except.ok.injEq] at h
    subst h
    refine ⟨(fun c hc => by cases hc), fun ch hch => ?_⟩
    cases hch with
    | leaf h1 _ _ => cases h1
    | step h1 _ _ _ _ => cases h1
  | m :: ms, offset, stack, cs, h => by
    unfold claimedOfMethods at h
    simp only [bind, Except.bind, pure, Except.pure] at h
    cases h1 : ck (offset + m.address) with
    | error e => rw [h1] at h; cases h
    | ok cur =>
      rw [h1] at h
      simp only at h
      have hcur : cur = offset + m.address := (ck_ok h1).1
      cases hh : claimedHere n blocks fuel m cur stack with
      | error e => rw [hh] at h; cases h
      | ok here =>
        rw [hh] at h
        simp only at h
        cases h5 : claimedOfMethods n blocks fuel ms offset stack with
        | error e => rw [h5] at h; cases h
        | ok rest =>
          rw [h5] at h
          simp only [Except.ok.injEq] at h
          subst h
          have hk := claimedHere_spec n blocks fuel ih m ms offset cur hcur stack here hh
          have hrest := claimedOfMethods_step n blocks fuel ih ms offset stack rest h5
          constructor
          · intro c hc
            rcases List.mem_append.1 hc with hc | hc
            · exact hk.1 c hc
            · obtain ⟨ch, l1, l2⟩ := hrest.1 c hc
              exact ⟨ch, leafChain_cons_of_tail l1, l2⟩
          · intro ch hch
            -- the first accessor of the chain is `m` itself or a method of the tail
            have split : (∃ i rest', ch = (m, i) :: rest') ∨ LeafChain blocks ms ch := by
              cases hch with
              | leaf h1 h2 h3 =>
                rcases List.mem_cons.1 h1 with rfl | h1
                · exact Or.inl ⟨_, _, rfl⟩
                · exact Or.inr (.leaf h1 h2 h3)
              | step h1 h2 h3 h4 h5' =>
                rcases List.mem_cons.1 h1 with rfl | h1
                · exact Or.inl ⟨_, _, rfl⟩
                · exact Or.inr (.step h1 h2 h3 h4 h5')
            rcases split with hs | hs
            · obtain ⟨c, hc, l⟩ := hk.2 ch hch hs
              exact ⟨c, List.mem_append_left _ hc, l⟩
            · obtain ⟨c, hc, l⟩ := hrest.2 ch hs
              exact ⟨c, List.mem_append_right _ hc, l⟩

/-- **The expansion is exact**, for every amount of fuel that lets it finish. -/
theorem claimedOfMethods_spec (n : Names) (blocks : List LBlock) :
    ∀ (fuel : Nat) (ms : List Method) (offset : Int) (stack : List String) (cs : List Claimed),
      claimedOfMethods n blocks fuel ms offset stack = .ok cs → ClaimedSpec blocks ms offset cs
  | 0 => claimedOfMethods_step n blocks 0 (fun f hf => by omega)
  | fuel + 1 => claimedOfMethods_step n blocks (fuel + 1) (fun f hf => by
      have : f = fuel := by omega
      subst this
      exact claimedOfMethods_spec n blocks f)

theorem claimedOfBlock_spec (n : Names) (blocks : List LBlock) (fuel : Nat) (b : LBlock) (offset : Int)
    (stack : List String) (cs : List Claimed) (h : claimedOfBlock n blocks fuel b offset stack = .ok cs) :
    ClaimedSpec blocks b.methods offset cs := by
  cases fuel with
  | zero => unfold claimedOfBlock at h; simp only [throw, throwThe, MonadExceptOf.throw] at h; cases h
  | succ f => unfold claimedOfBlock at h; exact claimedOfMethods_spec n blocks f _ _ _ _ h

end DDV.Gen
