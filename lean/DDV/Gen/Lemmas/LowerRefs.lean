/-
  The MIR → LIR lowering of an object tree *with refs* (register, command and block refs), and the
  correspondence between the instances of the definition — paths through the tree in which a ref
  stands for its target with the override applied — and the accessor chains of the lowered blocks.
  Extends `LowerTree` (ref-free trees).
-/
import DDV.Gen.Lemmas.LowerTree

namespace DDV.Gen
set_option linter.unusedVariables false
set_option linter.unusedSimpArgs false

/-- The accessor of a non-ref object when the reset constructor handed down is `rfn`. -/
def methodOfWith (n : Names) (cfg : GlobalConfig) (rfn : String) : Object → Method
  | .register r => { cfg := r.cfg, name := n.method r.name, address := r.address,
                     allowAddressOverlap := r.allowAddressOverlap, repeat_ := r.repeat_, kind := .register,
                     target := some r.name, addressType := cfg.registerAddressType, access := some r.access,
                     resetFn := some rfn }
  | o => methodOf n cfg o

/-- What an object stands for: itself, or for a ref its target (first object of that name in
    pre-order) with the override applied, and the reset constructor. -/
def resolveWith (n : Names) (all : List Object) (rfn : String) : Object → Option (Object × String)
  | .ref rf => match searchObject rf.override.name all with
    | some t => substRef n rf rfn t
    | none => none
  | o => some (o, rfn)

def resolve (n : Names) (all : List Object) (o : Object) : Option Object :=
  (resolveWith n all "new" o).map (·.1)

/-- The accessor the lowering emits for any object: a ref gets the accessor of what it stands
    for, under the ref's own name. -/
def methodOfR (n : Names) (cfg : GlobalConfig) (all : List Object) (rfn : String) (o : Object) : Method :=
  match o with
  | .ref rf => match resolveWith n all rfn (.ref rf) with
    | some (t, rfn') => { methodOfWith n cfg rfn' t with name := n.method rf.name }
    | none => methodOf n cfg (.ref rf)
  | o => methodOfWith n cfg rfn o

mutual
/-- The blocks collected below an object: a ref collects nothing (a block ref reuses its target's
    block types). -/
def blocksOfObjR (n : Names) (cfg : GlobalConfig) (all : List Object) : Object → List LBlock
  | .block h os => { cfg := h.cfg, root := false, name := h.name, methods := methodsOfListR n cfg all os } :: blocksOfListR n cfg all os
  | _ => []
def blocksOfListR (n : Names) (cfg : GlobalConfig) (all : List Object) : List Object → List LBlock
  | [] => []
  | o :: os => blocksOfObjR n cfg all o ++ blocksOfListR n cfg all os
def methodsOfListR (n : Names) (cfg : GlobalConfig) (all : List Object) : List Object → List Method
  | [] => []
  | o :: os => methodOfR n cfg all "new" o :: methodsOfListR n cfg all os
end

theorem methodsOfListR_eq_map (n : Names) (cfg : GlobalConfig) (all : List Object) :
    ∀ os, methodsOfListR n cfg all os = os.map (methodOfR n cfg all "new")
  | [] => by simp [methodsOfListR]
  | o :: os => by simp [methodsOfListR, methodsOfListR_eq_map n cfg all os]

def isRefObj : Object → Bool | .ref _ => true | _ => false

theorem substRef_not_ref (n : Names) (rf : RefObject) (rfn : String) (t : Object) (p : Object × String)
    (h : substRef n rf rfn t = some p) : isRefObj p.1 = false := by
  unfold substRef at h
  split at h <;> first | (cases h; rfl) | cases h

mutual
/-- every ref in the tree (not looking through refs) stands for something -/
def ResolvesObj (n : Names) (all : List Object) : Object → Prop
  | .block _ os => ResolvesList n all os
  | .ref rf => (resolve n all (.ref rf)).isSome
  | _ => True
def ResolvesList (n : Names) (all : List Object) : List Object → Prop
  | [] => True
  | o :: os => ResolvesObj n all o ∧ ResolvesList n all os
end

theorem methodOfR_nonref (n : Names) (cfg : GlobalConfig) (all : List Object) (rfn : String) (o : Object)
    (h : isRefObj o = false) : methodOfR n cfg all rfn o = methodOfWith n cfg rfn o := by
  cases o <;> first | rfl | cases h

theorem resolveWith_isSome (n : Names) (all : List Object) (rfn rfn' : String) (o : Object) :
    (resolveWith n all rfn o).isSome = (resolveWith n all rfn' o).isSome := by
  cases o with
  | ref rf =>
    simp only [resolveWith]
    cases searchObject rf.override.name all with
    | none => rfl
    | some t =>
      simp only
      cases hov : rf.override <;> cases t <;> simp [substRef, hov]
  | _ => rfl

/-- **Structure of the lowering, refs included**: whenever it succeeds (for any fuel and any reset
    constructor handed down), the method is the object's accessor — for a ref, the accessor of
    its target with the override applied, under the ref's name —, the collected blocks are the
    tree's own blocks in pre-order (refs contribute none), and every ref in the tree resolves. -/
theorem lowering_structure_refs (n : Names) (cfg : GlobalConfig) (all : List Object) :
    ∀ (fuel : Nat),
      (∀ (rfn : String) (o : Object) (m : Method) (bs : List LBlock),
          getMethod n cfg all rfn fuel o = .ok (m, bs) →
          m = methodOfR n cfg all rfn o ∧ bs = blocksOfObjR n cfg all o ∧ ResolvesObj n all o) ∧
      (∀ (os : List Object) (ms : List Method) (bs : List LBlock),
          collectMethods n cfg all fuel os = .ok (ms, bs) →
          ms = methodsOfListR n cfg all os ∧ bs = blocksOfListR n cfg all os ∧ ResolvesList n all os)
  | 0 => by
    constructor
    · intro rfn o m bs h
      unfold getMethod at h
      simp only [throw, throwThe, MonadExceptOf.throw] at h
      cases h
    · intro os
      cases os with
      | nil =>
        intro ms bs h
        unfold collectMethods at h
        simp only [pure, Except.pure, Except.ok.injEq, Prod.mk.injEq] at h
        rw [← h.1, ← h.2]
        exact ⟨rfl, rfl, by unfold ResolvesList; trivial⟩
      | cons o os =>
        intro ms bs h
        unfold collectMethods at h
        simp only [bind, Except.bind] at h
        unfold getMethod at h
        simp only [throw, throwThe, MonadExceptOf.throw] at h
        cases h
  | fuel + 1 => by
    have ihf := lowering_structure_refs n cfg all fuel
    have hget : ∀ (rfn : String) (o : Object) (m : Method) (bs : List LBlock),
        getMethod n cfg all rfn (fuel + 1) o = .ok (m, bs) →
        m = methodOfR n cfg all rfn o ∧ bs = blocksOfObjR n cfg all o ∧ ResolvesObj n all o := by
      intro rfn o m bs h
      unfold getMethod at h
      cases o with
      | block hd os =>
        simp only [bind, Except.bind, pure, Except.pure] at h
        unfold collectIntoBlocks at h
        simp only [bind, Except.bind, pure, Except.pure] at h
        cases hc : collectMethods n cfg all fuel os with
        | error e => rw [hc] at h; cases h
        | ok p =>
          obtain ⟨ms', bs'⟩ := p
          rw [hc] at h
          simp only [Except.ok.injEq, Prod.mk.injEq] at h
          obtain ⟨e1, e2, e3⟩ := ihf.2 os ms' bs' hc
          rw [← h.1, ← h.2, e1, e2]
          exact ⟨rfl, by simp [blocksOfObjR], by unfold ResolvesObj; exact e3⟩
      | register r =>
        simp only [bind, Except.bind, pure, Except.pure] at h
        cases ht : cfg.registerAddressType with
        | none => rw [ht] at h; simp only [throw, throwThe, MonadExceptOf.throw] at h; cases h
        | some t =>
          rw [ht] at h
          simp only [Except.ok.injEq, Prod.mk.injEq] at h
          rw [← h.1, ← h.2]
          exact ⟨by simp [methodOfR, methodOfWith, ht], by simp [blocksOfObjR], by unfold ResolvesObj; trivial⟩
      | command c =>
        simp only [bind, Except.bind, pure, Except.pure] at h
        cases ht : cfg.commandAddressType with
        | none => rw [ht] at h; simp only [throw, throwThe, MonadExceptOf.throw] at h; cases h
        | some t =>
          rw [ht] at h
          simp only [Except.ok.injEq, Prod.mk.injEq] at h
          rw [← h.1, ← h.2]
          exact ⟨by simp [methodOfR, methodOfWith, methodOf, ht], by simp [blocksOfObjR], by unfold ResolvesObj; trivial⟩
      | buffer b =>
        simp only [bind, Except.bind, pure, Except.pure] at h
        cases ht : cfg.bufferAddressType with
        | none => rw [ht] at h; simp only [throw, throwThe, MonadExceptOf.throw] at h; cases h
        | some t =>
          rw [ht] at h
          simp only [Except.ok.injEq, Prod.mk.injEq] at h
          rw [← h.1, ← h.2]
          exact ⟨by simp [methodOfR, methodOfWith, methodOf, ht], by simp [blocksOfObjR], by unfold ResolvesObj; trivial⟩
      | ref rf =>
        simp only [bind, Except.bind, pure, Except.pure] at h
        cases hs : searchObject rf.override.name all with
        | none => rw [hs] at h; simp only [throw, throwThe, MonadExceptOf.throw] at h; cases h
        | some t =>
          rw [hs] at h
          simp only at h
          cases hsub : substRef n rf rfn t with
          | none => rw [hsub] at h; simp only [throw, throwThe, MonadExceptOf.throw] at h; cases h
          | some p =>
            obtain ⟨reffed, rfn'⟩ := p
            rw [hsub] at h
            simp only at h
            cases hg : getMethod n cfg all rfn' fuel reffed with
            | error e => rw [hg] at h; cases h
            | ok q =>
              obtain ⟨m', bs''⟩ := q
              rw [hg] at h
              simp only [Except.ok.injEq, Prod.mk.injEq] at h
              obtain ⟨e1, e2, _⟩ := ihf.1 rfn' reffed m' bs'' hg
              have hnr := substRef_not_ref n rf rfn t _ hsub
              rw [methodOfR_nonref n cfg all rfn' reffed hnr] at e1
              have hres : resolveWith n all rfn (.ref rf) = some (reffed, rfn') := by
                simp only [resolveWith, hs]; exact hsub
              refine ⟨?_, ?_, ?_⟩
              · rw [← h.1, e1]
                simp only [methodOfR, hres]
              · rw [← h.2]
                unfold blocksOfObjR
                cases hov : rf.override with
                | block ov => rfl
                | register ov =>
                  simp only
                  unfold substRef at hsub
                  rw [hov] at hsub
                  cases t <;> simp at hsub
                  rw [e2, ← hsub.1]; rfl
                | command ov =>
                  simp only
                  unfold substRef at hsub
                  rw [hov] at hsub
                  cases t <;> simp at hsub
                  rw [e2, ← hsub.1]; rfl
              · unfold ResolvesObj resolve
                have := resolveWith_isSome n all "new" rfn (.ref rf)
                rw [hres] at this
                simpa using this
    refine ⟨hget, ?_⟩
    intro os
    induction os with
    | nil =>
      intro ms bs h
      unfold collectMethods at h
      simp only [pure, Except.pure, Except.ok.injEq, Prod.mk.injEq] at h
      rw [← h.1, ← h.2]
      exact ⟨rfl, rfl, by unfold ResolvesList; trivial⟩
    | cons o os ih =>
      intro ms bs h
      unfold collectMethods at h
      simp only [bind, Except.bind, pure, Except.pure] at h
      cases hg : getMethod n cfg all "new" (fuel + 1) o with
      | error e => rw [hg] at h; cases h
      | ok p =>
        obtain ⟨m, b1⟩ := p
        rw [hg] at h
        simp only at h
        cases hc : collectMethods n cfg all (fuel + 1) os with
        | error e => rw [hc] at h; cases h
        | ok q =>
          obtain ⟨ms', b2⟩ := q
          rw [hc] at h
          simp only [Except.ok.injEq, Prod.mk.injEq] at h
          obtain ⟨e1, e2, e5⟩ := hget "new" o m b1 hg
          obtain ⟨e3, e4, e6⟩ := ih ms' b2 hc
          rw [← h.1, ← h.2, e1, e2, e3, e4]
          exact ⟨rfl, rfl, by unfold ResolvesList; exact ⟨e5, e6⟩⟩

/-! ### Sub-objects of the definition -/

/-- `o` occurs in the tree below `all` (through real blocks; refs are leaves of the tree). -/
inductive SubObj (all : List Object) : Object → Prop
  | top {o : Object} : o ∈ all → SubObj all o
  | child {h : BlockHead} {cs : List Object} {o : Object} : SubObj all (.block h cs) → o ∈ cs → SubObj all o

theorem subObj_trans {all cs : List Object} {h : BlockHead} {x : Object}
    (hx : SubObj cs x) (hb : SubObj all (.block h cs)) : SubObj all x := by
  induction hx with
  | top hm => exact SubObj.child hb hm
  | child _ hm ih => exact SubObj.child ih hm

theorem subObj_cons {os : List Object} (o : Object) {x : Object} (hx : SubObj os x) : SubObj (o :: os) x := by
  induction hx with
  | top hm => exact SubObj.top (List.mem_cons_of_mem _ hm)
  | child _ hm ih => exact SubObj.child ih hm

mutual
theorem mem_flattenObj_subObj : ∀ (o : Object) (d : Nat) (x : Object × Nat), x ∈ flattenObj d o →
    x.1 = o ∨ ∃ h cs, o = .block h cs ∧ SubObj cs x.1
  | .block h cs, d, x, hx => by
    unfold flattenObj at hx
    rcases List.mem_cons.1 hx with rfl | hx
    · exact Or.inl rfl
    · exact Or.inr ⟨h, cs, rfl, mem_flattenList_subObj cs (d + 1) x hx⟩
  | .register r, d, x, hx => by
    simp only [flattenObj, List.mem_singleton] at hx; subst hx; exact Or.inl rfl
  | .command c, d, x, hx => by
    simp only [flattenObj, List.mem_singleton] at hx; subst hx; exact Or.inl rfl
  | .buffer b, d, x, hx => by
    simp only [flattenObj, List.mem_singleton] at hx; subst hx; exact Or.inl rfl
  | .ref r, d, x, hx => by
    simp only [flattenObj, List.mem_singleton] at hx; subst hx; exact Or.inl rfl
theorem mem_flattenList_subObj : ∀ (os : List Object) (d : Nat) (x : Object × Nat), x ∈ flattenList d os →
    SubObj os x.1
  | [], d, x, hx => by simp [flattenList] at hx
  | o :: os, d, x, hx => by
    unfold flattenList at hx
    rcases List.mem_append.1 hx with hx | hx
    · rcases mem_flattenObj_subObj o d x hx with he | ⟨h, cs, rfl, hs⟩
      · rw [he]; exact SubObj.top (List.mem_cons_self ..)
      · exact subObj_trans hs (SubObj.top (List.mem_cons_self ..))
    · exact subObj_cons o (mem_flattenList_subObj os d x hx)
end

/-- what `search_object` finds is an object of the tree -/
theorem searchObject_subObj (name : String) (all : List Object) (t : Object)
    (h : searchObject name all = some t) : SubObj all t := by
  unfold searchObject allObjects at h
  have hm := List.mem_of_find?_eq_some h
  obtain ⟨x, hx, rfl⟩ := List.mem_map.1 hm
  exact mem_flattenList_subObj all 0 x hx

/-! ### Paths through the definition, a ref standing for its target with the override applied -/

/-- An *instance* of the definition: enclosing blocks (real ones or block refs) from the outside
    in, each with one of its repeat indices, ending at a register / command / buffer (or a ref to
    one) with one of its own indices. Counts, offsets and strides are those of what the object
    stands for (`resolve`): a ref's own where overridden, else its target's. -/
inductive TreeChainR (n : Names) (all : List Object) : List Object → List (Object × Nat) → Prop
  | leaf {os : List Object} {o t : Object} {i : Nat} :
      o ∈ os → resolve n all o = some t → isBlockObj t = false → i < objCount t → TreeChainR n all os [(o, i)]
  | step {os : List Object} {o : Object} {h : BlockHead} {cs : List Object} {i : Nat} {rest : List (Object × Nat)} :
      o ∈ os → resolve n all o = some (.block h cs) → i < objCount (.block h cs) → TreeChainR n all cs rest →
      TreeChainR n all os ((o, i) :: rest)

def liftStepR (n : Names) (cfg : GlobalConfig) (all : List Object) (x : Object × Nat) : Method × Nat :=
  (methodOfR n cfg all "new" x.1, x.2)

/-- Σ (offset + index × stride) over the path, with each object's own (overridden) address and
    repeat where it is a ref. -/
def treeAddressR (n : Names) (all : List Object) : List (Object × Nat) → Int → Int
  | [], base => base
  | (o, i) :: rest, base =>
    treeAddressR n all rest (base + (((resolve n all o).getD o).address.getD 0) + (i : Int) * objStride ((resolve n all o).getD o))

theorem resolve_nonref_obj (n : Names) (all : List Object) (o : Object) (h : isRefObj o = false) :
    resolve n all o = some o := by
  cases o <;> first | rfl | cases h

theorem resolve_not_ref (n : Names) (all : List Object) (o t : Object) (h : resolve n all o = some t) :
    isRefObj t = false := by
  cases o with
  | ref rf =>
    simp only [resolve, resolveWith] at h
    cases hs : searchObject rf.override.name all with
    | none => rw [hs] at h; cases h
    | some x =>
      rw [hs] at h
      simp only at h
      cases hsub : substRef n rf "new" x with
      | none => rw [hsub] at h; cases h
      | some p =>
        rw [hsub] at h
        simp only [Option.map_some, Option.some.injEq] at h
        rw [← h]
        exact substRef_not_ref n rf "new" x p hsub
  | block hd os => simp only [resolve, resolveWith, Option.map_some, Option.some.injEq] at h; rw [← h]; rfl
  | register r => simp only [resolve, resolveWith, Option.map_some, Option.some.injEq] at h; rw [← h]; rfl
  | command c => simp only [resolve, resolveWith, Option.map_some, Option.some.injEq] at h; rw [← h]; rfl
  | buffer b => simp only [resolve, resolveWith, Option.map_some, Option.some.injEq] at h; rw [← h]; rfl

/-- The accessor of an object is the accessor of what it stands for, under the object's own name. -/
theorem methodOfR_resolve (n : Names) (cfg : GlobalConfig) (all : List Object) (o t : Object)
    (h : resolve n all o = some t) :
    ∃ rfn', methodOfR n cfg all "new" o = { methodOfWith n cfg rfn' t with name := n.method o.name } := by
  cases o with
  | ref rf =>
    simp only [resolve] at h
    cases hr : resolveWith n all "new" (.ref rf) with
    | none => rw [hr] at h; cases h
    | some p =>
      obtain ⟨t', rfn'⟩ := p
      rw [hr] at h
      simp only [Option.map_some, Option.some.injEq] at h
      subst h
      exact ⟨rfn', by simp only [methodOfR, hr, Object.name]⟩
  | block hd os =>
    simp only [resolve, resolveWith, Option.map_some, Option.some.injEq] at h; subst h
    exact ⟨"new", rfl⟩
  | register r =>
    simp only [resolve, resolveWith, Option.map_some, Option.some.injEq] at h; subst h
    exact ⟨"new", rfl⟩
  | command c =>
    simp only [resolve, resolveWith, Option.map_some, Option.some.injEq] at h; subst h
    exact ⟨"new", rfl⟩
  | buffer b =>
    simp only [resolve, resolveWith, Option.map_some, Option.some.injEq] at h; subst h
    exact ⟨"new", rfl⟩

theorem methodOfWith_count (n : Names) (cfg : GlobalConfig) (rfn : String) (t : Object) (h : isRefObj t = false) :
    (methodOfWith n cfg rfn t).count = objCount t := by
  cases t with
  | ref r => cases h
  | block hd os => simp only [methodOfWith, methodOf, Method.count, objCount, Object.repeat_]; cases hd.repeat_ <;> rfl
  | register r => simp only [methodOfWith, Method.count, objCount, Object.repeat_]; cases r.repeat_ <;> rfl
  | command c => simp only [methodOfWith, methodOf, Method.count, objCount, Object.repeat_]; cases c.repeat_ <;> rfl
  | buffer b => rfl

theorem methodOfWith_kind_block (n : Names) (cfg : GlobalConfig) (rfn : String) (t : Object) (h : isRefObj t = false) :
    (methodOfWith n cfg rfn t).kind = .block ↔ isBlockObj t = true := by
  cases t with
  | ref r => cases h
  | block hd os => simp [methodOfWith, methodOf, isBlockObj]
  | register r => simp [methodOfWith, isBlockObj]
  | command c => simp [methodOfWith, methodOf, isBlockObj]
  | buffer b => simp [methodOfWith, methodOf, isBlockObj]

theorem methodOfWith_addr (n : Names) (cfg : GlobalConfig) (rfn : String) (t : Object) (h : isRefObj t = false) :
    (methodOfWith n cfg rfn t).address = t.address.getD 0 ∧ (methodOfWith n cfg rfn t).strideOr0 = objStride t := by
  cases t with
  | ref r => cases h
  | block hd os => simp [methodOfWith, methodOf, Method.strideOr0, objStride, Object.address, Object.repeat_]; cases hd.repeat_ <;> rfl
  | register r => simp [methodOfWith, Method.strideOr0, objStride, Object.address, Object.repeat_]; cases r.repeat_ <;> rfl
  | command c => simp [methodOfWith, methodOf, Method.strideOr0, objStride, Object.address, Object.repeat_]; cases c.repeat_ <;> rfl
  | buffer b => simp [methodOfWith, methodOf, Method.strideOr0, objStride, Object.address, Object.repeat_]

/-- every real block of the tree is found under its own name among the collected blocks -/
def BlocksFound (n : Names) (cfg : GlobalConfig) (all : List Object) (blocks : List LBlock) : Prop :=
  ∀ (h : BlockHead) (cs : List Object), SubObj all (.block h cs) →
    blocks.find? (fun b => b.name == h.name) =
      some { cfg := h.cfg, root := false, name := h.name, methods := methodsOfListR n cfg all cs }

/-- A block, or a block ref, stands for a block whose children are those of a real block of the
    tree with the same name. -/
theorem resolve_block (n : Names) (all : List Object) (o : Object) (h' : BlockHead) (cs : List Object)
    (hs : SubObj all o) (h : resolve n all o = some (.block h' cs)) :
    ∃ hd, SubObj all (.block hd cs) ∧ hd.name = h'.name := by
  cases o with
  | ref rf =>
    simp only [resolve, resolveWith] at h
    cases hso : searchObject rf.override.name all with
    | none => rw [hso] at h; cases h
    | some x =>
      rw [hso] at h
      simp only at h
      have hx := searchObject_subObj _ _ _ hso
      unfold substRef at h
      cases hov : rf.override <;> cases x <;> simp [hov] at h
      rename_i ov hd os
      obtain ⟨h1, h2⟩ := h
      subst h2
      exact ⟨hd, hx, by rw [← h1]⟩
  | block hd os =>
    simp only [resolve, resolveWith, Option.map_some, Option.some.injEq, Object.block.injEq] at h
    obtain ⟨h1, h2⟩ := h
    subst h1 h2
    exact ⟨hd, hs, rfl⟩
  | register r => simp [resolve, resolveWith] at h
  | command c => simp [resolve, resolveWith] at h
  | buffer b => simp [resolve, resolveWith] at h

theorem mem_methodsOfListR (n : Names) (cfg : GlobalConfig) (all : List Object) (os : List Object) (m : Method) :
    m ∈ methodsOfListR n cfg all os ↔ ∃ o ∈ os, m = methodOfR n cfg all "new" o := by
  rw [methodsOfListR_eq_map]
  simp only [List.mem_map]
  constructor
  · intro ⟨o, h1, h2⟩; exact ⟨o, h1, h2.symm⟩
  · intro ⟨o, h1, h2⟩; exact ⟨o, h1, h2.symm⟩

/-- **Every instance of the definition is an accessor chain** of the lowered blocks. -/
theorem tree_chain_is_accessor_chain_refs (n : Names) (cfg : GlobalConfig) (all : List Object) (blocks : List LBlock)
    (hbf : BlocksFound n cfg all blocks) :
    ∀ {os : List Object} {tch : List (Object × Nat)}, TreeChainR n all os tch →
      (∀ o ∈ os, SubObj all o) →
      LeafChain blocks (methodsOfListR n cfg all os) (tch.map (liftStepR n cfg all)) := by
  intro os tch h
  induction h with
  | @leaf os o t i hm hr hb hi =>
    intro hsub
    obtain ⟨rfn', he⟩ := methodOfR_resolve n cfg all o t hr
    have hnr := resolve_not_ref n all o t hr
    refine LeafChain.leaf ((mem_methodsOfListR n cfg all _ _).2 ⟨_, hm, rfl⟩) ?_ ?_
    · intro hk
      rw [he] at hk
      have : (methodOfWith n cfg rfn' t).kind = .block := hk
      rw [(methodOfWith_kind_block n cfg rfn' t hnr).1 this] at hb
      cases hb
    · rw [he]
      show i < (methodOfWith n cfg rfn' t).count
      rw [methodOfWith_count n cfg rfn' t hnr]; exact hi
  | @step os o hd cs i rest hm hr hi hrest ih =>
    intro hsub
    obtain ⟨rfn', he⟩ := methodOfR_resolve n cfg all o _ hr
    obtain ⟨hd0, hs0, hname⟩ := resolve_block n all o hd cs (hsub o hm) hr
    have hfound := hbf hd0 cs hs0
    have hchildren : ∀ c ∈ cs, SubObj all c := fun c hc => SubObj.child hs0 hc
    have := ih hchildren
    refine LeafChain.step (b := { cfg := hd0.cfg, root := false, name := hd0.name, methods := methodsOfListR n cfg all cs })
      ((mem_methodsOfListR n cfg all _ _).2 ⟨_, hm, rfl⟩) ?_ ?_ ?_ this
    · rw [he]; rfl
    · unfold lookupBlock
      rw [he]
      simp only [methodOfWith, methodOf, Option.getD_some]
      rw [← hname]
      exact hfound
    · rw [he]
      show i < (methodOfWith n cfg rfn' (.block hd cs)).count
      rw [methodOfWith_count n cfg rfn' _ rfl]; exact hi

/-- **Every accessor chain is an instance of the definition.** -/
theorem accessor_chain_is_tree_chain_refs (n : Names) (cfg : GlobalConfig) (all : List Object) (blocks : List LBlock)
    (hbf : BlocksFound n cfg all blocks)
    (hres : ∀ o, SubObj all o → (resolve n all o).isSome) :
    ∀ (ch : List (Method × Nat)) (os : List Object), (∀ o ∈ os, SubObj all o) →
      LeafChain blocks (methodsOfListR n cfg all os) ch →
      ∃ tch, TreeChainR n all os tch ∧ ch = tch.map (liftStepR n cfg all)
  | [], os, _, h => absurd rfl (leafChain_ne_nil h)
  | (m, i) :: rest, os, hsub, h => by
    cases h with
    | leaf hm hk hi =>
      obtain ⟨o, ho, rfl⟩ := (mem_methodsOfListR n cfg all os m).1 hm
      obtain ⟨t, hr⟩ := Option.isSome_iff_exists.1 (hres o (hsub o ho))
      obtain ⟨rfn', he⟩ := methodOfR_resolve n cfg all o t hr
      have hnr := resolve_not_ref n all o t hr
      refine ⟨[(o, i)], TreeChainR.leaf ho hr ?_ ?_, rfl⟩
      · cases hb : isBlockObj t with
        | false => rfl
        | true =>
          have := (methodOfWith_kind_block n cfg rfn' t hnr).2 hb
          rw [he] at hk
          exact absurd this hk
      · rw [he] at hi
        have hi' : i < (methodOfWith n cfg rfn' t).count := hi
        rw [methodOfWith_count n cfg rfn' t hnr] at hi'; exact hi'
    | step hm hk hl hi hrest =>
      obtain ⟨o, ho, rfl⟩ := (mem_methodsOfListR n cfg all os m).1 hm
      obtain ⟨t, hr⟩ := Option.isSome_iff_exists.1 (hres o (hsub o ho))
      obtain ⟨rfn', he⟩ := methodOfR_resolve n cfg all o t hr
      have hnr := resolve_not_ref n all o t hr
      rw [he] at hk
      have hb := (methodOfWith_kind_block n cfg rfn' t hnr).1 hk
      cases t with
      | block hd cs =>
        obtain ⟨hd0, hs0, hname⟩ := resolve_block n all o hd cs (hsub o ho) hr
        have hfound := hbf hd0 cs hs0
        unfold lookupBlock at hl
        rw [he] at hl
        simp only [methodOfWith, methodOf, Option.getD_some] at hl
        rw [← hname, hfound] at hl
        cases hl
        have hchildren : ∀ c ∈ cs, SubObj all c := fun c hc => SubObj.child hs0 hc
        obtain ⟨tch, t1, t2⟩ := accessor_chain_is_tree_chain_refs n cfg all blocks hbf hres rest cs hchildren hrest
        refine ⟨(o, i) :: tch, TreeChainR.step ho hr ?_ t1, by rw [t2]; rfl⟩
        rw [he] at hi
        have hi' : i < (methodOfWith n cfg rfn' (.block hd cs)).count := hi
        rw [methodOfWith_count n cfg rfn' _ rfl] at hi'; exact hi'
      | register r => cases hb
      | command c => cases hb
      | buffer b => cases hb
      | ref r => cases hb

theorem treeChainR_resolves (n : Names) (all : List Object) {os : List Object} {tch : List (Object × Nat)}
    (ht : TreeChainR n all os tch) : ∀ x ∈ tch, (resolve n all x.1).isSome := by
  induction ht with
  | leaf hm hr hb hi =>
    intro x hx
    simp only [List.mem_singleton] at hx
    subst hx
    simp [hr]
  | step hm hr hi hrest ih =>
    intro x hx
    rcases List.mem_cons.1 hx with rfl | hx
    · simp [hr]
    · exact ih x hx

/-- The address of the lifted chain is the mathematically defined address of the instance, with
    each ref's own (overridden) address and repeat. -/
theorem specChain_liftR (n : Names) (cfg : GlobalConfig) (all : List Object) :
    ∀ (tch : List (Object × Nat)) (base : Int), (∀ x ∈ tch, (resolve n all x.1).isSome) →
      specChain (tch.map (liftStepR n cfg all)) base = treeAddressR n all tch base
  | [], base, _ => rfl
  | (o, i) :: rest, base, h => by
    obtain ⟨t, hr⟩ := Option.isSome_iff_exists.1 (h (o, i) (List.mem_cons_self ..))
    obtain ⟨rfn', he⟩ := methodOfR_resolve n cfg all o t hr
    have hnr := resolve_not_ref n all o t hr
    have ih := specChain_liftR n cfg all rest (base + (t.address.getD 0) + (i : Int) * objStride t)
      (fun x hx => h x (List.mem_cons_of_mem _ hx))
    simp only [List.map_cons, liftStepR, specChain, treeAddressR, hr, Option.getD_some]
    rw [← ih]
    congr 1
    rw [he]
    have := methodOfWith_addr n cfg rfn' t hnr
    show base + (methodOfWith n cfg rfn' t).address + (i : Int) * (methodOfWith n cfg rfn' t).strideOr0 = _
    rw [this.1, this.2]

/-! ### From a successful lowering with distinct block names -/

theorem subObj_blocks_mem (n : Names) (cfg : GlobalConfig) (all : List Object) :
    ∀ {os : List Object} {o : Object}, SubObj os o → ∀ b ∈ blocksOfObjR n cfg all o, b ∈ blocksOfListR n cfg all os := by
  intro os o h
  induction h with
  | @top o hm =>
    intro b hb
    induction os with
    | nil => cases hm
    | cons x xs ih =>
      unfold blocksOfListR
      rcases List.mem_cons.1 hm with rfl | hm
      · exact List.mem_append_left _ hb
      · exact List.mem_append_right _ (ih hm)
  | @child hd cs o hp hm ih =>
    intro b hb
    apply ih
    unfold blocksOfObjR
    apply List.mem_cons_of_mem
    clear ih hp
    induction cs with
    | nil => cases hm
    | cons x xs ih2 =>
      unfold blocksOfListR
      rcases List.mem_cons.1 hm with rfl | hm
      · exact List.mem_append_left _ hb
      · exact List.mem_append_right _ (ih2 hm)

theorem blocksFound_of_nodup (n : Names) (cfg : GlobalConfig) (all : List Object) (root : LBlock)
    (hn : ((root :: blocksOfListR n cfg all all).map (·.name)).Nodup) :
    BlocksFound n cfg all (root :: blocksOfListR n cfg all all) := by
  intro h cs hs
  have hmem : ({ cfg := h.cfg, root := false, name := h.name, methods := methodsOfListR n cfg all cs } : LBlock) ∈
      blocksOfListR n cfg all all :=
    subObj_blocks_mem n cfg all hs _ (by unfold blocksOfObjR; exact List.mem_cons_self ..)
  exact find_by_name _ _ (List.mem_cons_of_mem _ hmem) hn

theorem resolves_subObj (n : Names) (all : List Object) :
    ∀ {os : List Object} {o : Object}, SubObj os o → ResolvesList n all os → ResolvesObj n all o := by
  intro os o h
  induction h with
  | @top o hm =>
    intro hr
    induction os with
    | nil => cases hm
    | cons x xs ih =>
      unfold ResolvesList at hr
      rcases List.mem_cons.1 hm with rfl | hm
      · exact hr.1
      · exact ih hm hr.2
  | @child hd cs o hp hm ih =>
    intro hr
    have := ih hr
    unfold ResolvesObj at this
    clear ih hp
    induction cs with
    | nil => cases hm
    | cons x xs ih2 =>
      unfold ResolvesList at this
      rcases List.mem_cons.1 hm with rfl | hm
      · exact this.1
      · exact ih2 hm this.2

theorem resolvesObj_isSome (n : Names) (all : List Object) (o : Object) (h : ResolvesObj n all o) :
    (resolve n all o).isSome := by
  cases o with
  | ref rf => unfold ResolvesObj at h; exact h
  | block hd os => rfl
  | register r => rfl
  | command c => rfl
  | buffer b => rfl

/-- **The instances of the definition are exactly the accessor chains of the lowered device —
    refs included.** For any object tree (register, command and block refs at any depth) whose
    lowering succeeds and whose block names are distinct from each other and from the device name:
    the root block's methods are the top-level objects' accessors; every instance — a path through
    real blocks and block refs with valid indices, each ref standing for its target with the
    override applied — is an accessor chain and vice versa; and the address the chain is specified
    to reach is Σ (offset + index × stride), each taken from the ref's override where it has one. -/
theorem instances_of_the_definition_refs (n : Names) (cfg : GlobalConfig) (fuel : Nat)
    (deviceName : String) (os : List Object) (blocks : List LBlock)
    (hl : collectIntoBlocks n cfg os fuel none deviceName true os = .ok blocks)
    (hn : (blocks.map (·.name)).Nodup) :
    ∃ root rest, blocks = root :: rest ∧ root.root = true ∧ root.name = deviceName ∧
      root.methods = methodsOfListR n cfg os os ∧
      (∀ tch, TreeChainR n os os tch → LeafChain blocks root.methods (tch.map (liftStepR n cfg os))) ∧
      (∀ ch, LeafChain blocks root.methods ch → ∃ tch, TreeChainR n os os tch ∧ ch = tch.map (liftStepR n cfg os)) ∧
      (∀ tch, TreeChainR n os os tch → ∀ base,
        specChain (tch.map (liftStepR n cfg os)) base = treeAddressR n os tch base) := by
  unfold collectIntoBlocks at hl
  simp only [bind, Except.bind, pure, Except.pure] at hl
  cases hc : collectMethods n cfg os fuel os with
  | error e => rw [hc] at hl; cases hl
  | ok p =>
    obtain ⟨ms, bs⟩ := p
    rw [hc] at hl
    simp only [Except.ok.injEq] at hl
    obtain ⟨e1, e2, e3⟩ := (lowering_structure_refs n cfg os fuel).2 os ms bs hc
    subst hl
    subst e2
    subst e1
    have hbf := blocksFound_of_nodup n cfg os { cfg := none, root := true, name := deviceName, methods := methodsOfListR n cfg os os } hn
    have hres : ∀ o, SubObj os o → (resolve n os o).isSome :=
      fun o ho => resolvesObj_isSome n os o (resolves_subObj n os ho e3)
    have htop : ∀ o ∈ os, SubObj os o := fun o ho => SubObj.top ho
    refine ⟨{ cfg := none, root := true, name := deviceName, methods := methodsOfListR n cfg os os }, _, rfl, rfl, rfl, rfl, ?_, ?_, ?_⟩
    · intro tch ht
      exact tree_chain_is_accessor_chain_refs n cfg os _ hbf ht htop
    · intro ch hch
      exact accessor_chain_is_tree_chain_refs n cfg os _ hbf hres ch os htop hch
    · intro tch ht base
      exact specChain_liftR n cfg os tch base (treeChainR_resolves n os ht)

theorem methodOfR_count (n : Names) (cfg : GlobalConfig) (all : List Object) (o t : Object)
    (hr : resolve n all o = some t) : (methodOfR n cfg all "new" o).count = objCount t := by
  obtain ⟨rfn', he⟩ := methodOfR_resolve n cfg all o t hr
  rw [he]
  show (methodOfWith n cfg rfn' t).count = _
  exact methodOfWith_count n cfg rfn' t (resolve_not_ref n all o t hr)

/-- every step of an instance carries a valid index of what the object stands for -/
theorem treeChainR_valid (n : Names) (all : List Object) {os : List Object} {tch : List (Object × Nat)}
    (ht : TreeChainR n all os tch) : ∀ x ∈ tch, ∃ t, resolve n all x.1 = some t ∧ x.2 < objCount t := by
  induction ht with
  | leaf hm hr hb hi =>
    intro x hx
    simp only [List.mem_singleton] at hx
    subst hx
    exact ⟨_, hr, hi⟩
  | step hm hr hi hrest ih =>
    intro x hx
    rcases List.mem_cons.1 hx with rfl | hx
    · exact ⟨_, hr, hi⟩
    · exact ih x hx

/-- The lowering's blocks are what `collect_into_blocks` returns for the device's objects. -/
theorem lower_blocks (n : Names) (name : String) (d : Device) (l : Lir) (h : lower n name d = .ok l) :
    ∃ fuel, collectIntoBlocks n d.config d.objects fuel none name true d.objects = .ok l.blocks := by
  unfold lower at h
  simp only [bind, Except.bind, pure, Except.pure] at h
  split at h
  · cases h
  split at h
  · cases h
  cases hf : transformFieldSets d ((collectEnums d.objects).map (·.1)) with
  | error e => rw [hf] at h; cases h
  | ok fs =>
    rw [hf] at h
    simp only at h
    cases hc : collectIntoBlocks n d.config d.objects (2 * (allObjects d.objects).length + 4) none name true d.objects with
    | error e => rw [hc] at h; cases h
    | ok bl =>
      rw [hc] at h
      simp only at h
      cases hb : findBestInternalAddress d with
      | error e => rw [hb] at h; cases h
      | ok p =>
        rw [hb] at h
        simp only [Except.ok.injEq] at h
        subst h
        exact ⟨_, hc⟩

/-! ### Block type names are the names of the definition's blocks -/

mutual
theorem blocksOfObjR_names (n : Names) (cfg : GlobalConfig) (all : List Object) :
    ∀ (o : Object) (d : Nat), (blocksOfObjR n cfg all o).map (·.name) =
      (((flattenObj d o).map (·.1)).filter isBlockObj).map (·.name)
  | .block h cs, d => by
    unfold blocksOfObjR flattenObj
    simp only [List.map_cons, List.filter_cons, isBlockObj, if_true]
    rw [blocksOfListR_names n cfg all cs (d + 1)]
    rfl
  | .register r, d => by simp [blocksOfObjR, flattenObj, isBlockObj]
  | .command c, d => by simp [blocksOfObjR, flattenObj, isBlockObj]
  | .buffer b, d => by simp [blocksOfObjR, flattenObj, isBlockObj]
  | .ref r, d => by simp [blocksOfObjR, flattenObj, isBlockObj]
theorem blocksOfListR_names (n : Names) (cfg : GlobalConfig) (all : List Object) :
    ∀ (os : List Object) (d : Nat), (blocksOfListR n cfg all os).map (·.name) =
      (((flattenList d os).map (·.1)).filter isBlockObj).map (·.name)
  | [], d => by simp [blocksOfListR, flattenList]
  | o :: os, d => by
    unfold blocksOfListR flattenList
    simp only [List.map_append, List.filter_append]
    rw [blocksOfObjR_names n cfg all o d, blocksOfListR_names n cfg all os d]
end

/-- In a definition without cfgs whose objects have pairwise distinct names (what `names_unique`
    enforces), the collected block types have pairwise distinct names. -/
theorem block_names_nodup (n : Names) (cfg : GlobalConfig) (os : List Object)
    (hcfg : ∀ o ∈ allObjects os, o.cfg = none)
    (hn : ((allObjects os).map (fun o => (o.name, o.cfg))).Nodup) :
    ((blocksOfListR n cfg os os).map (·.name)).Nodup := by
  rw [blocksOfListR_names n cfg os os 0]
  have hnames : ((allObjects os).map (·.name)).Nodup := by
    have : (allObjects os).map (fun o => (o.name, o.cfg)) = ((allObjects os).map (·.name)).map (fun s => (s, (none : Cfg))) := by
      rw [List.map_map]
      apply List.map_congr_left
      intro o ho
      simp [hcfg o ho]
    rw [this] at hn
    unfold List.Nodup at hn ⊢
    exact List.Pairwise.of_map (fun s => (s, (none : Cfg))) (fun a b hab he => hab (by rw [he])) hn
  unfold allObjects at hnames
  exact List.Nodup.sublist (List.Sublist.map _ List.filter_sublist) hnames

theorem collectIntoBlocks_eq (n : Names) (cfg : GlobalConfig) (fuel : Nat) (deviceName : String)
    (os : List Object) (blocks : List LBlock)
    (hl : collectIntoBlocks n cfg os fuel none deviceName true os = .ok blocks) :
    blocks = { cfg := none, root := true, name := deviceName, methods := methodsOfListR n cfg os os } ::
      blocksOfListR n cfg os os := by
  unfold collectIntoBlocks at hl
  simp only [bind, Except.bind, pure, Except.pure] at hl
  cases hc : collectMethods n cfg os fuel os with
  | error e => rw [hc] at hl; cases hl
  | ok p =>
    obtain ⟨ms, bs⟩ := p
    rw [hc] at hl
    simp only [Except.ok.injEq] at hl
    obtain ⟨e1, e2, _⟩ := (lowering_structure_refs n cfg os fuel).2 os ms bs hc
    rw [← hl, e1, e2]

/-- … and together with a device name that no object bears, all block type names of the lowered
    device are distinct. -/
theorem lowered_block_names_nodup (n : Names) (cfg : GlobalConfig) (fuel : Nat) (deviceName : String)
    (os : List Object) (blocks : List LBlock)
    (hl : collectIntoBlocks n cfg os fuel none deviceName true os = .ok blocks)
    (hcfg : ∀ o ∈ allObjects os, o.cfg = none)
    (hn : ((allObjects os).map (fun o => (o.name, o.cfg))).Nodup)
    (hdev : ∀ o ∈ allObjects os, o.name ≠ deviceName) :
    (blocks.map (·.name)).Nodup := by
  rw [collectIntoBlocks_eq n cfg fuel deviceName os blocks hl]
  simp only [List.map_cons, List.nodup_cons]
  refine ⟨?_, block_names_nodup n cfg os hcfg hn⟩
  rw [blocksOfListR_names n cfg os os 0]
  intro hmem
  obtain ⟨o, ho, he⟩ := List.mem_map.1 hmem
  have ho' : o ∈ allObjects os := by
    unfold allObjects
    exact (List.mem_filter.1 ho).1
  exact hdev o ho' he

end DDV.Gen
