/-
  The rendered item lists carry each kind of item at most once, so (`DDV.Gen.Lemmas.DslPerm`) the lowering of ANY
  reordering of a rendered register / command body is the lowering of the rendered body.
-/
import DDV.Gen.Lemmas.DslHirConfig
import DDV.Gen.Lemmas.DslPerm
set_option linter.unusedSimpArgs false
set_option linter.unusedVariables false

namespace DDV.Gen.HirLemmas
open DDV.Gen DDV.Gen.Dsl DDV.Gen.HirPerm

theorem len_filter_reset_ne (reset : Option ResetValue) (p : HRegItem → Bool)
    (h1 : ∀ x, p (.resetInt x) = false) (h2 : ∀ x, p (.resetArray x) = false) :
    ((rResetItem reset).filter p).length = 0 := by
  cases reset with
  | none => rfl
  | some rv => cases rv <;> simp [rResetItem, h1, h2]
theorem len_filter_reset_le (reset : Option ResetValue) (p : HRegItem → Bool) :
    ((rResetItem reset).filter p).length ≤ 1 := by
  cases reset with
  | none => simp [rResetItem]
  | some rv => cases rv <;> (simp only [rResetItem]; exact List.length_filter_le _ _)

section
variable (access : Option Access) (bo : Option DDV.Bits.ByteOrder) (bito : Option DDV.Bits.BitOrder) (address : Int)
    (size : Nat) (reset : Option ResetValue) (rep : Option Repeat) (abo aao : Option Bool)

theorem regItems_unique_access : Unique HRegItem.access? (rRegItems access bo bito address size reset rep abo aao) := by
  unfold Unique rRegItems
  simp only [List.filter_append, List.length_append]
  have h0 := len_filter_optItem_le access HRegItem.access (fun a => (HRegItem.access? a).isSome)
  have h1 := len_filter_optItem_ne bo HRegItem.byteOrder (fun a => (HRegItem.access? a).isSome) (fun _ => rfl)
  have h2 := len_filter_optItem_ne bito HRegItem.bitOrder (fun a => (HRegItem.access? a).isSome) (fun _ => rfl)
  have h3 : ([HRegItem.address (hLit address), HRegItem.sizeBits (hNat size)].filter (fun a => (HRegItem.access? a).isSome)).length = 0 := rfl
  have h4 := len_filter_reset_ne reset (fun a => (HRegItem.access? a).isSome) (fun _ => rfl) (fun _ => rfl)
  have h5 := len_filter_optItem_ne rep (fun r => HRegItem.repeat_ (rRepeat r)) (fun a => (HRegItem.access? a).isSome) (fun _ => rfl)
  have h6 := len_filter_optItem_ne abo HRegItem.allowBitOverlap (fun a => (HRegItem.access? a).isSome) (fun _ => rfl)
  have h7 := len_filter_optItem_ne aao HRegItem.allowAddressOverlap (fun a => (HRegItem.access? a).isSome) (fun _ => rfl)
  omega

theorem regItems_unique_byteOrder : Unique HRegItem.byteOrder? (rRegItems access bo bito address size reset rep abo aao) := by
  unfold Unique rRegItems
  simp only [List.filter_append, List.length_append]
  have h0 := len_filter_optItem_ne access HRegItem.access (fun a => (HRegItem.byteOrder? a).isSome) (fun _ => rfl)
  have h1 := len_filter_optItem_le bo HRegItem.byteOrder (fun a => (HRegItem.byteOrder? a).isSome)
  have h2 := len_filter_optItem_ne bito HRegItem.bitOrder (fun a => (HRegItem.byteOrder? a).isSome) (fun _ => rfl)
  have h3 : ([HRegItem.address (hLit address), HRegItem.sizeBits (hNat size)].filter (fun a => (HRegItem.byteOrder? a).isSome)).length = 0 := rfl
  have h4 := len_filter_reset_ne reset (fun a => (HRegItem.byteOrder? a).isSome) (fun _ => rfl) (fun _ => rfl)
  have h5 := len_filter_optItem_ne rep (fun r => HRegItem.repeat_ (rRepeat r)) (fun a => (HRegItem.byteOrder? a).isSome) (fun _ => rfl)
  have h6 := len_filter_optItem_ne abo HRegItem.allowBitOverlap (fun a => (HRegItem.byteOrder? a).isSome) (fun _ => rfl)
  have h7 := len_filter_optItem_ne aao HRegItem.allowAddressOverlap (fun a => (HRegItem.byteOrder? a).isSome) (fun _ => rfl)
  omega

theorem regItems_unique_bitOrder : Unique HRegItem.bitOrder? (rRegItems access bo bito address size reset rep abo aao) := by
  unfold Unique rRegItems
  simp only [List.filter_append, List.length_append]
  have h0 := len_filter_optItem_ne access HRegItem.access (fun a => (HRegItem.bitOrder? a).isSome) (fun _ => rfl)
  have h1 := len_filter_optItem_ne bo HRegItem.byteOrder (fun a => (HRegItem.bitOrder? a).isSome) (fun _ => rfl)
  have h2 := len_filter_optItem_le bito HRegItem.bitOrder (fun a => (HRegItem.bitOrder? a).isSome)
  have h3 : ([HRegItem.address (hLit address), HRegItem.sizeBits (hNat size)].filter (fun a => (HRegItem.bitOrder? a).isSome)).length = 0 := rfl
  have h4 := len_filter_reset_ne reset (fun a => (HRegItem.bitOrder? a).isSome) (fun _ => rfl) (fun _ => rfl)
  have h5 := len_filter_optItem_ne rep (fun r => HRegItem.repeat_ (rRepeat r)) (fun a => (HRegItem.bitOrder? a).isSome) (fun _ => rfl)
  have h6 := len_filter_optItem_ne abo HRegItem.allowBitOverlap (fun a => (HRegItem.bitOrder? a).isSome) (fun _ => rfl)
  have h7 := len_filter_optItem_ne aao HRegItem.allowAddressOverlap (fun a => (HRegItem.bitOrder? a).isSome) (fun _ => rfl)
  omega

theorem regItems_unique_address : Unique HRegItem.address? (rRegItems access bo bito address size reset rep abo aao) := by
  unfold Unique rRegItems
  simp only [List.filter_append, List.length_append]
  have h0 := len_filter_optItem_ne access HRegItem.access (fun a => (HRegItem.address? a).isSome) (fun _ => rfl)
  have h1 := len_filter_optItem_ne bo HRegItem.byteOrder (fun a => (HRegItem.address? a).isSome) (fun _ => rfl)
  have h2 := len_filter_optItem_ne bito HRegItem.bitOrder (fun a => (HRegItem.address? a).isSome) (fun _ => rfl)
  have h3 : ([HRegItem.address (hLit address), HRegItem.sizeBits (hNat size)].filter (fun a => (HRegItem.address? a).isSome)).length = 1 := rfl
  have h4 := len_filter_reset_ne reset (fun a => (HRegItem.address? a).isSome) (fun _ => rfl) (fun _ => rfl)
  have h5 := len_filter_optItem_ne rep (fun r => HRegItem.repeat_ (rRepeat r)) (fun a => (HRegItem.address? a).isSome) (fun _ => rfl)
  have h6 := len_filter_optItem_ne abo HRegItem.allowBitOverlap (fun a => (HRegItem.address? a).isSome) (fun _ => rfl)
  have h7 := len_filter_optItem_ne aao HRegItem.allowAddressOverlap (fun a => (HRegItem.address? a).isSome) (fun _ => rfl)
  omega

theorem regItems_unique_sizeBits : Unique HRegItem.sizeBits? (rRegItems access bo bito address size reset rep abo aao) := by
  unfold Unique rRegItems
  simp only [List.filter_append, List.length_append]
  have h0 := len_filter_optItem_ne access HRegItem.access (fun a => (HRegItem.sizeBits? a).isSome) (fun _ => rfl)
  have h1 := len_filter_optItem_ne bo HRegItem.byteOrder (fun a => (HRegItem.sizeBits? a).isSome) (fun _ => rfl)
  have h2 := len_filter_optItem_ne bito HRegItem.bitOrder (fun a => (HRegItem.sizeBits? a).isSome) (fun _ => rfl)
  have h3 : ([HRegItem.address (hLit address), HRegItem.sizeBits (hNat size)].filter (fun a => (HRegItem.sizeBits? a).isSome)).length = 1 := rfl
  have h4 := len_filter_reset_ne reset (fun a => (HRegItem.sizeBits? a).isSome) (fun _ => rfl) (fun _ => rfl)
  have h5 := len_filter_optItem_ne rep (fun r => HRegItem.repeat_ (rRepeat r)) (fun a => (HRegItem.sizeBits? a).isSome) (fun _ => rfl)
  have h6 := len_filter_optItem_ne abo HRegItem.allowBitOverlap (fun a => (HRegItem.sizeBits? a).isSome) (fun _ => rfl)
  have h7 := len_filter_optItem_ne aao HRegItem.allowAddressOverlap (fun a => (HRegItem.sizeBits? a).isSome) (fun _ => rfl)
  omega

theorem regItems_unique_reset : Unique hirResetOf (rRegItems access bo bito address size reset rep abo aao) := by
  unfold Unique rRegItems
  simp only [List.filter_append, List.length_append]
  have h0 := len_filter_optItem_ne access HRegItem.access (fun a => (hirResetOf a).isSome) (fun _ => rfl)
  have h1 := len_filter_optItem_ne bo HRegItem.byteOrder (fun a => (hirResetOf a).isSome) (fun _ => rfl)
  have h2 := len_filter_optItem_ne bito HRegItem.bitOrder (fun a => (hirResetOf a).isSome) (fun _ => rfl)
  have h3 : ([HRegItem.address (hLit address), HRegItem.sizeBits (hNat size)].filter (fun a => (hirResetOf a).isSome)).length = 0 := rfl
  have h4 := len_filter_reset_le reset (fun a => (hirResetOf a).isSome)
  have h5 := len_filter_optItem_ne rep (fun r => HRegItem.repeat_ (rRepeat r)) (fun a => (hirResetOf a).isSome) (fun _ => rfl)
  have h6 := len_filter_optItem_ne abo HRegItem.allowBitOverlap (fun a => (hirResetOf a).isSome) (fun _ => rfl)
  have h7 := len_filter_optItem_ne aao HRegItem.allowAddressOverlap (fun a => (hirResetOf a).isSome) (fun _ => rfl)
  omega

theorem regItems_unique_repeat_ : Unique HRegItem.repeat? (rRegItems access bo bito address size reset rep abo aao) := by
  unfold Unique rRegItems
  simp only [List.filter_append, List.length_append]
  have h0 := len_filter_optItem_ne access HRegItem.access (fun a => (HRegItem.repeat? a).isSome) (fun _ => rfl)
  have h1 := len_filter_optItem_ne bo HRegItem.byteOrder (fun a => (HRegItem.repeat? a).isSome) (fun _ => rfl)
  have h2 := len_filter_optItem_ne bito HRegItem.bitOrder (fun a => (HRegItem.repeat? a).isSome) (fun _ => rfl)
  have h3 : ([HRegItem.address (hLit address), HRegItem.sizeBits (hNat size)].filter (fun a => (HRegItem.repeat? a).isSome)).length = 0 := rfl
  have h4 := len_filter_reset_ne reset (fun a => (HRegItem.repeat? a).isSome) (fun _ => rfl) (fun _ => rfl)
  have h5 := len_filter_optItem_le rep (fun r => HRegItem.repeat_ (rRepeat r)) (fun a => (HRegItem.repeat? a).isSome)
  have h6 := len_filter_optItem_ne abo HRegItem.allowBitOverlap (fun a => (HRegItem.repeat? a).isSome) (fun _ => rfl)
  have h7 := len_filter_optItem_ne aao HRegItem.allowAddressOverlap (fun a => (HRegItem.repeat? a).isSome) (fun _ => rfl)
  omega

theorem regItems_unique_abo : Unique HRegItem.allowBitOverlap? (rRegItems access bo bito address size reset rep abo aao) := by
  unfold Unique rRegItems
  simp only [List.filter_append, List.length_append]
  have h0 := len_filter_optItem_ne access HRegItem.access (fun a => (HRegItem.allowBitOverlap? a).isSome) (fun _ => rfl)
  have h1 := len_filter_optItem_ne bo HRegItem.byteOrder (fun a => (HRegItem.allowBitOverlap? a).isSome) (fun _ => rfl)
  have h2 := len_filter_optItem_ne bito HRegItem.bitOrder (fun a => (HRegItem.allowBitOverlap? a).isSome) (fun _ => rfl)
  have h3 : ([HRegItem.address (hLit address), HRegItem.sizeBits (hNat size)].filter (fun a => (HRegItem.allowBitOverlap? a).isSome)).length = 0 := rfl
  have h4 := len_filter_reset_ne reset (fun a => (HRegItem.allowBitOverlap? a).isSome) (fun _ => rfl) (fun _ => rfl)
  have h5 := len_filter_optItem_ne rep (fun r => HRegItem.repeat_ (rRepeat r)) (fun a => (HRegItem.allowBitOverlap? a).isSome) (fun _ => rfl)
  have h6 := len_filter_optItem_le abo HRegItem.allowBitOverlap (fun a => (HRegItem.allowBitOverlap? a).isSome)
  have h7 := len_filter_optItem_ne aao HRegItem.allowAddressOverlap (fun a => (HRegItem.allowBitOverlap? a).isSome) (fun _ => rfl)
  omega

theorem regItems_unique_aao : Unique HRegItem.allowAddressOverlap? (rRegItems access bo bito address size reset rep abo aao) := by
  unfold Unique rRegItems
  simp only [List.filter_append, List.length_append]
  have h0 := len_filter_optItem_ne access HRegItem.access (fun a => (HRegItem.allowAddressOverlap? a).isSome) (fun _ => rfl)
  have h1 := len_filter_optItem_ne bo HRegItem.byteOrder (fun a => (HRegItem.allowAddressOverlap? a).isSome) (fun _ => rfl)
  have h2 := len_filter_optItem_ne bito HRegItem.bitOrder (fun a => (HRegItem.allowAddressOverlap? a).isSome) (fun _ => rfl)
  have h3 : ([HRegItem.address (hLit address), HRegItem.sizeBits (hNat size)].filter (fun a => (HRegItem.allowAddressOverlap? a).isSome)).length = 0 := rfl
  have h4 := len_filter_reset_ne reset (fun a => (HRegItem.allowAddressOverlap? a).isSome) (fun _ => rfl) (fun _ => rfl)
  have h5 := len_filter_optItem_ne rep (fun r => HRegItem.repeat_ (rRepeat r)) (fun a => (HRegItem.allowAddressOverlap? a).isSome) (fun _ => rfl)
  have h6 := len_filter_optItem_ne abo HRegItem.allowBitOverlap (fun a => (HRegItem.allowAddressOverlap? a).isSome) (fun _ => rfl)
  have h7 := len_filter_optItem_le aao HRegItem.allowAddressOverlap (fun a => (HRegItem.allowAddressOverlap? a).isSome)
  omega

theorem regItems_unique : RegUnique (rRegItems access bo bito address size reset rep abo aao) :=
  ⟨regItems_unique_access .., regItems_unique_byteOrder .., regItems_unique_bitOrder .., regItems_unique_address ..,
   regItems_unique_sizeBits .., regItems_unique_reset .., regItems_unique_repeat_ .., regItems_unique_abo ..,
   regItems_unique_aao ..⟩
end

section
variable (address : Int) (bo : Option DDV.Bits.ByteOrder) (bito : Option DDV.Bits.BitOrder) (si so : Option Nat)
    (rep : Option Repeat) (abo aao : Option Bool)

theorem cmdItems_unique_byteOrder : Unique HCmdItem.byteOrder? (rCmdItems address bo bito si so rep abo aao) := by
  unfold Unique rCmdItems
  simp only [List.filter_append, List.length_append]
  have h0 : ([HCmdItem.address (hLit address)].filter (fun a => (HCmdItem.byteOrder? a).isSome)).length = 0 := rfl
  have h1 := len_filter_optItem_le bo HCmdItem.byteOrder (fun a => (HCmdItem.byteOrder? a).isSome)
  have h2 := len_filter_optItem_ne bito HCmdItem.bitOrder (fun a => (HCmdItem.byteOrder? a).isSome) (fun _ => rfl)
  have h3 := len_filter_optItem_ne si (fun n => HCmdItem.sizeBitsIn (hNat n)) (fun a => (HCmdItem.byteOrder? a).isSome) (fun _ => rfl)
  have h4 := len_filter_optItem_ne so (fun n => HCmdItem.sizeBitsOut (hNat n)) (fun a => (HCmdItem.byteOrder? a).isSome) (fun _ => rfl)
  have h5 := len_filter_optItem_ne rep (fun r => HCmdItem.repeat_ (rRepeat r)) (fun a => (HCmdItem.byteOrder? a).isSome) (fun _ => rfl)
  have h6 := len_filter_optItem_ne abo HCmdItem.allowBitOverlap (fun a => (HCmdItem.byteOrder? a).isSome) (fun _ => rfl)
  have h7 := len_filter_optItem_ne aao HCmdItem.allowAddressOverlap (fun a => (HCmdItem.byteOrder? a).isSome) (fun _ => rfl)
  omega

theorem cmdItems_unique_bitOrder : Unique HCmdItem.bitOrder? (rCmdItems address bo bito si so rep abo aao) := by
  unfold Unique rCmdItems
  simp only [List.filter_append, List.length_append]
  have h0 : ([HCmdItem.address (hLit address)].filter (fun a => (HCmdItem.bitOrder? a).isSome)).length = 0 := rfl
  have h1 := len_filter_optItem_ne bo HCmdItem.byteOrder (fun a => (HCmdItem.bitOrder? a).isSome) (fun _ => rfl)
  have h2 := len_filter_optItem_le bito HCmdItem.bitOrder (fun a => (HCmdItem.bitOrder? a).isSome)
  have h3 := len_filter_optItem_ne si (fun n => HCmdItem.sizeBitsIn (hNat n)) (fun a => (HCmdItem.bitOrder? a).isSome) (fun _ => rfl)
  have h4 := len_filter_optItem_ne so (fun n => HCmdItem.sizeBitsOut (hNat n)) (fun a => (HCmdItem.bitOrder? a).isSome) (fun _ => rfl)
  have h5 := len_filter_optItem_ne rep (fun r => HCmdItem.repeat_ (rRepeat r)) (fun a => (HCmdItem.bitOrder? a).isSome) (fun _ => rfl)
  have h6 := len_filter_optItem_ne abo HCmdItem.allowBitOverlap (fun a => (HCmdItem.bitOrder? a).isSome) (fun _ => rfl)
  have h7 := len_filter_optItem_ne aao HCmdItem.allowAddressOverlap (fun a => (HCmdItem.bitOrder? a).isSome) (fun _ => rfl)
  omega

theorem cmdItems_unique_address : Unique HCmdItem.address? (rCmdItems address bo bito si so rep abo aao) := by
  unfold Unique rCmdItems
  simp only [List.filter_append, List.length_append]
  have h0 : ([HCmdItem.address (hLit address)].filter (fun a => (HCmdItem.address? a).isSome)).length = 1 := rfl
  have h1 := len_filter_optItem_ne bo HCmdItem.byteOrder (fun a => (HCmdItem.address? a).isSome) (fun _ => rfl)
  have h2 := len_filter_optItem_ne bito HCmdItem.bitOrder (fun a => (HCmdItem.address? a).isSome) (fun _ => rfl)
  have h3 := len_filter_optItem_ne si (fun n => HCmdItem.sizeBitsIn (hNat n)) (fun a => (HCmdItem.address? a).isSome) (fun _ => rfl)
  have h4 := len_filter_optItem_ne so (fun n => HCmdItem.sizeBitsOut (hNat n)) (fun a => (HCmdItem.address? a).isSome) (fun _ => rfl)
  have h5 := len_filter_optItem_ne rep (fun r => HCmdItem.repeat_ (rRepeat r)) (fun a => (HCmdItem.address? a).isSome) (fun _ => rfl)
  have h6 := len_filter_optItem_ne abo HCmdItem.allowBitOverlap (fun a => (HCmdItem.address? a).isSome) (fun _ => rfl)
  have h7 := len_filter_optItem_ne aao HCmdItem.allowAddressOverlap (fun a => (HCmdItem.address? a).isSome) (fun _ => rfl)
  omega

theorem cmdItems_unique_sizeBitsIn : Unique HCmdItem.sizeBitsIn? (rCmdItems address bo bito si so rep abo aao) := by
  unfold Unique rCmdItems
  simp only [List.filter_append, List.length_append]
  have h0 : ([HCmdItem.address (hLit address)].filter (fun a => (HCmdItem.sizeBitsIn? a).isSome)).length = 0 := rfl
  have h1 := len_filter_optItem_ne bo HCmdItem.byteOrder (fun a => (HCmdItem.sizeBitsIn? a).isSome) (fun _ => rfl)
  have h2 := len_filter_optItem_ne bito HCmdItem.bitOrder (fun a => (HCmdItem.sizeBitsIn? a).isSome) (fun _ => rfl)
  have h3 := len_filter_optItem_le si (fun n => HCmdItem.sizeBitsIn (hNat n)) (fun a => (HCmdItem.sizeBitsIn? a).isSome)
  have h4 := len_filter_optItem_ne so (fun n => HCmdItem.sizeBitsOut (hNat n)) (fun a => (HCmdItem.sizeBitsIn? a).isSome) (fun _ => rfl)
  have h5 := len_filter_optItem_ne rep (fun r => HCmdItem.repeat_ (rRepeat r)) (fun a => (HCmdItem.sizeBitsIn? a).isSome) (fun _ => rfl)
  have h6 := len_filter_optItem_ne abo HCmdItem.allowBitOverlap (fun a => (HCmdItem.sizeBitsIn? a).isSome) (fun _ => rfl)
  have h7 := len_filter_optItem_ne aao HCmdItem.allowAddressOverlap (fun a => (HCmdItem.sizeBitsIn? a).isSome) (fun _ => rfl)
  omega

theorem cmdItems_unique_sizeBitsOut : Unique HCmdItem.sizeBitsOut? (rCmdItems address bo bito si so rep abo aao) := by
  unfold Unique rCmdItems
  simp only [List.filter_append, List.length_append]
  have h0 : ([HCmdItem.address (hLit address)].filter (fun a => (HCmdItem.sizeBitsOut? a).isSome)).length = 0 := rfl
  have h1 := len_filter_optItem_ne bo HCmdItem.byteOrder (fun a => (HCmdItem.sizeBitsOut? a).isSome) (fun _ => rfl)
  have h2 := len_filter_optItem_ne bito HCmdItem.bitOrder (fun a => (HCmdItem.sizeBitsOut? a).isSome) (fun _ => rfl)
  have h3 := len_filter_optItem_ne si (fun n => HCmdItem.sizeBitsIn (hNat n)) (fun a => (HCmdItem.sizeBitsOut? a).isSome) (fun _ => rfl)
  have h4 := len_filter_optItem_le so (fun n => HCmdItem.sizeBitsOut (hNat n)) (fun a => (HCmdItem.sizeBitsOut? a).isSome)
  have h5 := len_filter_optItem_ne rep (fun r => HCmdItem.repeat_ (rRepeat r)) (fun a => (HCmdItem.sizeBitsOut? a).isSome) (fun _ => rfl)
  have h6 := len_filter_optItem_ne abo HCmdItem.allowBitOverlap (fun a => (HCmdItem.sizeBitsOut? a).isSome) (fun _ => rfl)
  have h7 := len_filter_optItem_ne aao HCmdItem.allowAddressOverlap (fun a => (HCmdItem.sizeBitsOut? a).isSome) (fun _ => rfl)
  omega

theorem cmdItems_unique_repeat_ : Unique HCmdItem.repeat? (rCmdItems address bo bito si so rep abo aao) := by
  unfold Unique rCmdItems
  simp only [List.filter_append, List.length_append]
  have h0 : ([HCmdItem.address (hLit address)].filter (fun a => (HCmdItem.repeat? a).isSome)).length = 0 := rfl
  have h1 := len_filter_optItem_ne bo HCmdItem.byteOrder (fun a => (HCmdItem.repeat? a).isSome) (fun _ => rfl)
  have h2 := len_filter_optItem_ne bito HCmdItem.bitOrder (fun a => (HCmdItem.repeat? a).isSome) (fun _ => rfl)
  have h3 := len_filter_optItem_ne si (fun n => HCmdItem.sizeBitsIn (hNat n)) (fun a => (HCmdItem.repeat? a).isSome) (fun _ => rfl)
  have h4 := len_filter_optItem_ne so (fun n => HCmdItem.sizeBitsOut (hNat n)) (fun a => (HCmdItem.repeat? a).isSome) (fun _ => rfl)
  have h5 := len_filter_optItem_le rep (fun r => HCmdItem.repeat_ (rRepeat r)) (fun a => (HCmdItem.repeat? a).isSome)
  have h6 := len_filter_optItem_ne abo HCmdItem.allowBitOverlap (fun a => (HCmdItem.repeat? a).isSome) (fun _ => rfl)
  have h7 := len_filter_optItem_ne aao HCmdItem.allowAddressOverlap (fun a => (HCmdItem.repeat? a).isSome) (fun _ => rfl)
  omega

theorem cmdItems_unique_abo : Unique HCmdItem.allowBitOverlap? (rCmdItems address bo bito si so rep abo aao) := by
  unfold Unique rCmdItems
  simp only [List.filter_append, List.length_append]
  have h0 : ([HCmdItem.address (hLit address)].filter (fun a => (HCmdItem.allowBitOverlap? a).isSome)).length = 0 := rfl
  have h1 := len_filter_optItem_ne bo HCmdItem.byteOrder (fun a => (HCmdItem.allowBitOverlap? a).isSome) (fun _ => rfl)
  have h2 := len_filter_optItem_ne bito HCmdItem.bitOrder (fun a => (HCmdItem.allowBitOverlap? a).isSome) (fun _ => rfl)
  have h3 := len_filter_optItem_ne si (fun n => HCmdItem.sizeBitsIn (hNat n)) (fun a => (HCmdItem.allowBitOverlap? a).isSome) (fun _ => rfl)
  have h4 := len_filter_optItem_ne so (fun n => HCmdItem.sizeBitsOut (hNat n)) (fun a => (HCmdItem.allowBitOverlap? a).isSome) (fun _ => rfl)
  have h5 := len_filter_optItem_ne rep (fun r => HCmdItem.repeat_ (rRepeat r)) (fun a => (HCmdItem.allowBitOverlap? a).isSome) (fun _ => rfl)
  have h6 := len_filter_optItem_le abo HCmdItem.allowBitOverlap (fun a => (HCmdItem.allowBitOverlap? a).isSome)
  have h7 := len_filter_optItem_ne aao HCmdItem.allowAddressOverlap (fun a => (HCmdItem.allowBitOverlap? a).isSome) (fun _ => rfl)
  omega

theorem cmdItems_unique_aao : Unique HCmdItem.allowAddressOverlap? (rCmdItems address bo bito si so rep abo aao) := by
  unfold Unique rCmdItems
  simp only [List.filter_append, List.length_append]
  have h0 : ([HCmdItem.address (hLit address)].filter (fun a => (HCmdItem.allowAddressOverlap? a).isSome)).length = 0 := rfl
  have h1 := len_filter_optItem_ne bo HCmdItem.byteOrder (fun a => (HCmdItem.allowAddressOverlap? a).isSome) (fun _ => rfl)
  have h2 := len_filter_optItem_ne bito HCmdItem.bitOrder (fun a => (HCmdItem.allowAddressOverlap? a).isSome) (fun _ => rfl)
  have h3 := len_filter_optItem_ne si (fun n => HCmdItem.sizeBitsIn (hNat n)) (fun a => (HCmdItem.allowAddressOverlap? a).isSome) (fun _ => rfl)
  have h4 := len_filter_optItem_ne so (fun n => HCmdItem.sizeBitsOut (hNat n)) (fun a => (HCmdItem.allowAddressOverlap? a).isSome) (fun _ => rfl)
  have h5 := len_filter_optItem_ne rep (fun r => HCmdItem.repeat_ (rRepeat r)) (fun a => (HCmdItem.allowAddressOverlap? a).isSome) (fun _ => rfl)
  have h6 := len_filter_optItem_ne abo HCmdItem.allowBitOverlap (fun a => (HCmdItem.allowAddressOverlap? a).isSome) (fun _ => rfl)
  have h7 := len_filter_optItem_le aao HCmdItem.allowAddressOverlap (fun a => (HCmdItem.allowAddressOverlap? a).isSome)
  omega

theorem cmdItems_unique : CmdUnique (rCmdItems address bo bito si so rep abo aao) :=
  ⟨cmdItems_unique_byteOrder .., cmdItems_unique_bitOrder .., cmdItems_unique_address .., cmdItems_unique_sizeBitsIn ..,
   cmdItems_unique_sizeBitsOut .., cmdItems_unique_repeat_ .., cmdItems_unique_abo .., cmdItems_unique_aao ..⟩
end

end DDV.Gen.HirLemmas
