/-
  Helper lemmas for `DDV.Props.C16Hir`: the global-config loop of `dsl_hir/mir_transform.rs` (with its duplicate
  check) on the rendered config list.
-/
import DDV.Gen.Lemmas.DslHir
set_option linter.unusedSimpArgs false
set_option linter.unusedVariables false

namespace DDV.Gen.HirLemmas
open DDV.Gen DDV.Gen.Dsl DDV.Gen.FrontCases

/-! ### Global config -/

theorem len_filter_optItem_ne {α β : Type} (o : Option α) (f : α → β) (p : β → Bool) (h : ∀ a, p (f a) = false) :
    ((optItem o f).filter p).length = 0 := by
  cases o <;> simp [optItem, h]
theorem len_filter_optItem_le {α β : Type} (o : Option α) (f : α → β) (p : β → Bool) :
    ((optItem o f).filter p).length ≤ 1 := by
  cases o with
  | none => simp [optItem]
  | some a => simp only [optItem]; cases h : p (f a) <;> simp [List.filter, h]

theorem config_count (c : AConfig) (k : Nat) : ((rConfig c).filter fun c' => c'.tag == k).length ≤ 1 := by
  unfold rConfig
  simp only [List.filter_append, List.length_append]
  by_cases hk : k < 10
  · have : k = 0 ∨ k = 1 ∨ k = 2 ∨ k = 3 ∨ k = 4 ∨ k = 5 ∨ k = 6 ∨ k = 7 ∨ k = 8 ∨ k = 9 := by omega
    rcases this with rfl | rfl | rfl | rfl | rfl | rfl | rfl | rfl | rfl | rfl
    · have h0 := len_filter_optItem_le c.defaultRegisterAccess HConfig.defaultRegisterAccess (fun c' => c'.tag == 0)
      have h1 := len_filter_optItem_ne c.defaultFieldAccess HConfig.defaultFieldAccess (fun c' => c'.tag == 0) (fun _ => rfl)
      have h2 := len_filter_optItem_ne c.defaultBufferAccess HConfig.defaultBufferAccess (fun c' => c'.tag == 0) (fun _ => rfl)
      have h3 := len_filter_optItem_ne c.defaultByteOrder HConfig.defaultByteOrder (fun c' => c'.tag == 0) (fun _ => rfl)
      have h4 := len_filter_optItem_ne c.defaultBitOrder HConfig.defaultBitOrder (fun c' => c'.tag == 0) (fun _ => rfl)
      have h5 := len_filter_optItem_ne c.registerAddressType (fun i => HConfig.registerAddressType i.name) (fun c' => c'.tag == 0) (fun _ => rfl)
      have h6 := len_filter_optItem_ne c.commandAddressType (fun i => HConfig.commandAddressType i.name) (fun c' => c'.tag == 0) (fun _ => rfl)
      have h7 := len_filter_optItem_ne c.bufferAddressType (fun i => HConfig.bufferAddressType i.name) (fun c' => c'.tag == 0) (fun _ => rfl)
      have h8 := len_filter_optItem_ne c.nameWordBoundaries HConfig.nameWordBoundaries (fun c' => c'.tag == 0) (fun _ => rfl)
      have h9 := len_filter_optItem_ne c.defmtFeature HConfig.defmtFeature (fun c' => c'.tag == 0) (fun _ => rfl)
      omega
    · have h0 := len_filter_optItem_ne c.defaultRegisterAccess HConfig.defaultRegisterAccess (fun c' => c'.tag == 1) (fun _ => rfl)
      have h1 := len_filter_optItem_le c.defaultFieldAccess HConfig.defaultFieldAccess (fun c' => c'.tag == 1)
      have h2 := len_filter_optItem_ne c.defaultBufferAccess HConfig.defaultBufferAccess (fun c' => c'.tag == 1) (fun _ => rfl)
      have h3 := len_filter_optItem_ne c.defaultByteOrder HConfig.defaultByteOrder (fun c' => c'.tag == 1) (fun _ => rfl)
      have h4 := len_filter_optItem_ne c.defaultBitOrder HConfig.defaultBitOrder (fun c' => c'.tag == 1) (fun _ => rfl)
      have h5 := len_filter_optItem_ne c.registerAddressType (fun i => HConfig.registerAddressType i.name) (fun c' => c'.tag == 1) (fun _ => rfl)
      have h6 := len_filter_optItem_ne c.commandAddressType (fun i => HConfig.commandAddressType i.name) (fun c' => c'.tag == 1) (fun _ => rfl)
      have h7 := len_filter_optItem_ne c.bufferAddressType (fun i => HConfig.bufferAddressType i.name) (fun c' => c'.tag == 1) (fun _ => rfl)
      have h8 := len_filter_optItem_ne c.nameWordBoundaries HConfig.nameWordBoundaries (fun c' => c'.tag == 1) (fun _ => rfl)
      have h9 := len_filter_optItem_ne c.defmtFeature HConfig.defmtFeature (fun c' => c'.tag == 1) (fun _ => rfl)
      omega
    · have h0 := len_filter_optItem_ne c.defaultRegisterAccess HConfig.defaultRegisterAccess (fun c' => c'.tag == 2) (fun _ => rfl)
      have h1 := len_filter_optItem_ne c.defaultFieldAccess HConfig.defaultFieldAccess (fun c' => c'.tag == 2) (fun _ => rfl)
      have h2 := len_filter_optItem_le c.defaultBufferAccess HConfig.defaultBufferAccess (fun c' => c'.tag == 2)
      have h3 := len_filter_optItem_ne c.defaultByteOrder HConfig.defaultByteOrder (fun c' => c'.tag == 2) (fun _ => rfl)
      have h4 := len_filter_optItem_ne c.defaultBitOrder HConfig.defaultBitOrder (fun c' => c'.tag == 2) (fun _ => rfl)
      have h5 := len_filter_optItem_ne c.registerAddressType (fun i => HConfig.registerAddressType i.name) (fun c' => c'.tag == 2) (fun _ => rfl)
      have h6 := len_filter_optItem_ne c.commandAddressType (fun i => HConfig.commandAddressType i.name) (fun c' => c'.tag == 2) (fun _ => rfl)
      have h7 := len_filter_optItem_ne c.bufferAddressType (fun i => HConfig.bufferAddressType i.name) (fun c' => c'.tag == 2) (fun _ => rfl)
      have h8 := len_filter_optItem_ne c.nameWordBoundaries HConfig.nameWordBoundaries (fun c' => c'.tag == 2) (fun _ => rfl)
      have h9 := len_filter_optItem_ne c.defmtFeature HConfig.defmtFeature (fun c' => c'.tag == 2) (fun _ => rfl)
      omega
    · have h0 := len_filter_optItem_ne c.defaultRegisterAccess HConfig.defaultRegisterAccess (fun c' => c'.tag == 3) (fun _ => rfl)
      have h1 := len_filter_optItem_ne c.defaultFieldAccess HConfig.defaultFieldAccess (fun c' => c'.tag == 3) (fun _ => rfl)
      have h2 := len_filter_optItem_ne c.defaultBufferAccess HConfig.defaultBufferAccess (fun c' => c'.tag == 3) (fun _ => rfl)
      have h3 := len_filter_optItem_le c.defaultByteOrder HConfig.defaultByteOrder (fun c' => c'.tag == 3)
      have h4 := len_filter_optItem_ne c.defaultBitOrder HConfig.defaultBitOrder (fun c' => c'.tag == 3) (fun _ => rfl)
      have h5 := len_filter_optItem_ne c.registerAddressType (fun i => HConfig.registerAddressType i.name) (fun c' => c'.tag == 3) (fun _ => rfl)
      have h6 := len_filter_optItem_ne c.commandAddressType (fun i => HConfig.commandAddressType i.name) (fun c' => c'.tag == 3) (fun _ => rfl)
      have h7 := len_filter_optItem_ne c.bufferAddressType (fun i => HConfig.bufferAddressType i.name) (fun c' => c'.tag == 3) (fun _ => rfl)
      have h8 := len_filter_optItem_ne c.nameWordBoundaries HConfig.nameWordBoundaries (fun c' => c'.tag == 3) (fun _ => rfl)
      have h9 := len_filter_optItem_ne c.defmtFeature HConfig.defmtFeature (fun c' => c'.tag == 3) (fun _ => rfl)
      omega
    · have h0 := len_filter_optItem_ne c.defaultRegisterAccess HConfig.defaultRegisterAccess (fun c' => c'.tag == 4) (fun _ => rfl)
      have h1 := len_filter_optItem_ne c.defaultFieldAccess HConfig.defaultFieldAccess (fun c' => c'.tag == 4) (fun _ => rfl)
      have h2 := len_filter_optItem_ne c.defaultBufferAccess HConfig.defaultBufferAccess (fun c' => c'.tag == 4) (fun _ => rfl)
      have h3 := len_filter_optItem_ne c.defaultByteOrder HConfig.defaultByteOrder (fun c' => c'.tag == 4) (fun _ => rfl)
      have h4 := len_filter_optItem_le c.defaultBitOrder HConfig.defaultBitOrder (fun c' => c'.tag == 4)
      have h5 := len_filter_optItem_ne c.registerAddressType (fun i => HConfig.registerAddressType i.name) (fun c' => c'.tag == 4) (fun _ => rfl)
      have h6 := len_filter_optItem_ne c.commandAddressType (fun i => HConfig.commandAddressType i.name) (fun c' => c'.tag == 4) (fun _ => rfl)
      have h7 := len_filter_optItem_ne c.bufferAddressType (fun i => HConfig.bufferAddressType i.name) (fun c' => c'.tag == 4) (fun _ => rfl)
      have h8 := len_filter_optItem_ne c.nameWordBoundaries HConfig.nameWordBoundaries (fun c' => c'.tag == 4) (fun _ => rfl)
      have h9 := len_filter_optItem_ne c.defmtFeature HConfig.defmtFeature (fun c' => c'.tag == 4) (fun _ => rfl)
      omega
    · have h0 := len_filter_optItem_ne c.defaultRegisterAccess HConfig.defaultRegisterAccess (fun c' => c'.tag == 5) (fun _ => rfl)
      have h1 := len_filter_optItem_ne c.defaultFieldAccess HConfig.defaultFieldAccess (fun c' => c'.tag == 5) (fun _ => rfl)
      have h2 := len_filter_optItem_ne c.defaultBufferAccess HConfig.defaultBufferAccess (fun c' => c'.tag == 5) (fun _ => rfl)
      have h3 := len_filter_optItem_ne c.defaultByteOrder HConfig.defaultByteOrder (fun c' => c'.tag == 5) (fun _ => rfl)
      have h4 := len_filter_optItem_ne c.defaultBitOrder HConfig.defaultBitOrder (fun c' => c'.tag == 5) (fun _ => rfl)
      have h5 := len_filter_optItem_le c.registerAddressType (fun i => HConfig.registerAddressType i.name) (fun c' => c'.tag == 5)
      have h6 := len_filter_optItem_ne c.commandAddressType (fun i => HConfig.commandAddressType i.name) (fun c' => c'.tag == 5) (fun _ => rfl)
      have h7 := len_filter_optItem_ne c.bufferAddressType (fun i => HConfig.bufferAddressType i.name) (fun c' => c'.tag == 5) (fun _ => rfl)
      have h8 := len_filter_optItem_ne c.nameWordBoundaries HConfig.nameWordBoundaries (fun c' => c'.tag == 5) (fun _ => rfl)
      have h9 := len_filter_optItem_ne c.defmtFeature HConfig.defmtFeature (fun c' => c'.tag == 5) (fun _ => rfl)
      omega
    · have h0 := len_filter_optItem_ne c.defaultRegisterAccess HConfig.defaultRegisterAccess (fun c' => c'.tag == 6) (fun _ => rfl)
      have h1 := len_filter_optItem_ne c.defaultFieldAccess HConfig.defaultFieldAccess (fun c' => c'.tag == 6) (fun _ => rfl)
      have h2 := len_filter_optItem_ne c.defaultBufferAccess HConfig.defaultBufferAccess (fun c' => c'.tag == 6) (fun _ => rfl)
      have h3 := len_filter_optItem_ne c.defaultByteOrder HConfig.defaultByteOrder (fun c' => c'.tag == 6) (fun _ => rfl)
      have h4 := len_filter_optItem_ne c.defaultBitOrder HConfig.defaultBitOrder (fun c' => c'.tag == 6) (fun _ => rfl)
      have h5 := len_filter_optItem_ne c.registerAddressType (fun i => HConfig.registerAddressType i.name) (fun c' => c'.tag == 6) (fun _ => rfl)
      have h6 := len_filter_optItem_le c.commandAddressType (fun i => HConfig.commandAddressType i.name) (fun c' => c'.tag == 6)
      have h7 := len_filter_optItem_ne c.bufferAddressType (fun i => HConfig.bufferAddressType i.name) (fun c' => c'.tag == 6) (fun _ => rfl)
      have h8 := len_filter_optItem_ne c.nameWordBoundaries HConfig.nameWordBoundaries (fun c' => c'.tag == 6) (fun _ => rfl)
      have h9 := len_filter_optItem_ne c.defmtFeature HConfig.defmtFeature (fun c' => c'.tag == 6) (fun _ => rfl)
      omega
    · have h0 := len_filter_optItem_ne c.defaultRegisterAccess HConfig.defaultRegisterAccess (fun c' => c'.tag == 7) (fun _ => rfl)
      have h1 := len_filter_optItem_ne c.defaultFieldAccess HConfig.defaultFieldAccess (fun c' => c'.tag == 7) (fun _ => rfl)
      have h2 := len_filter_optItem_ne c.defaultBufferAccess HConfig.defaultBufferAccess (fun c' => c'.tag == 7) (fun _ => rfl)
      have h3 := len_filter_optItem_ne c.defaultByteOrder HConfig.defaultByteOrder (fun c' => c'.tag == 7) (fun _ => rfl)
      have h4 := len_filter_optItem_ne c.defaultBitOrder HConfig.defaultBitOrder (fun c' => c'.tag == 7) (fun _ => rfl)
      have h5 := len_filter_optItem_ne c.registerAddressType (fun i => HConfig.registerAddressType i.name) (fun c' => c'.tag == 7) (fun _ => rfl)
      have h6 := len_filter_optItem_ne c.commandAddressType (fun i => HConfig.commandAddressType i.name) (fun c' => c'.tag == 7) (fun _ => rfl)
      have h7 := len_filter_optItem_le c.bufferAddressType (fun i => HConfig.bufferAddressType i.name) (fun c' => c'.tag == 7)
      have h8 := len_filter_optItem_ne c.nameWordBoundaries HConfig.nameWordBoundaries (fun c' => c'.tag == 7) (fun _ => rfl)
      have h9 := len_filter_optItem_ne c.defmtFeature HConfig.defmtFeature (fun c' => c'.tag == 7) (fun _ => rfl)
      omega
    · have h0 := len_filter_optItem_ne c.defaultRegisterAccess HConfig.defaultRegisterAccess (fun c' => c'.tag == 8) (fun _ => rfl)
      have h1 := len_filter_optItem_ne c.defaultFieldAccess HConfig.defaultFieldAccess (fun c' => c'.tag == 8) (fun _ => rfl)
      have h2 := len_filter_optItem_ne c.defaultBufferAccess HConfig.defaultBufferAccess (fun c' => c'.tag == 8) (fun _ => rfl)
      have h3 := len_filter_optItem_ne c.defaultByteOrder HConfig.defaultByteOrder (fun c' => c'.tag == 8) (fun _ => rfl)
      have h4 := len_filter_optItem_ne c.defaultBitOrder HConfig.defaultBitOrder (fun c' => c'.tag == 8) (fun _ => rfl)
      have h5 := len_filter_optItem_ne c.registerAddressType (fun i => HConfig.registerAddressType i.name) (fun c' => c'.tag == 8) (fun _ => rfl)
      have h6 := len_filter_optItem_ne c.commandAddressType (fun i => HConfig.commandAddressType i.name) (fun c' => c'.tag == 8) (fun _ => rfl)
      have h7 := len_filter_optItem_ne c.bufferAddressType (fun i => HConfig.bufferAddressType i.name) (fun c' => c'.tag == 8) (fun _ => rfl)
      have h8 := len_filter_optItem_le c.nameWordBoundaries HConfig.nameWordBoundaries (fun c' => c'.tag == 8)
      have h9 := len_filter_optItem_ne c.defmtFeature HConfig.defmtFeature (fun c' => c'.tag == 8) (fun _ => rfl)
      omega
    · have h0 := len_filter_optItem_ne c.defaultRegisterAccess HConfig.defaultRegisterAccess (fun c' => c'.tag == 9) (fun _ => rfl)
      have h1 := len_filter_optItem_ne c.defaultFieldAccess HConfig.defaultFieldAccess (fun c' => c'.tag == 9) (fun _ => rfl)
      have h2 := len_filter_optItem_ne c.defaultBufferAccess HConfig.defaultBufferAccess (fun c' => c'.tag == 9) (fun _ => rfl)
      have h3 := len_filter_optItem_ne c.defaultByteOrder HConfig.defaultByteOrder (fun c' => c'.tag == 9) (fun _ => rfl)
      have h4 := len_filter_optItem_ne c.defaultBitOrder HConfig.defaultBitOrder (fun c' => c'.tag == 9) (fun _ => rfl)
      have h5 := len_filter_optItem_ne c.registerAddressType (fun i => HConfig.registerAddressType i.name) (fun c' => c'.tag == 9) (fun _ => rfl)
      have h6 := len_filter_optItem_ne c.commandAddressType (fun i => HConfig.commandAddressType i.name) (fun c' => c'.tag == 9) (fun _ => rfl)
      have h7 := len_filter_optItem_ne c.bufferAddressType (fun i => HConfig.bufferAddressType i.name) (fun c' => c'.tag == 9) (fun _ => rfl)
      have h8 := len_filter_optItem_ne c.nameWordBoundaries HConfig.nameWordBoundaries (fun c' => c'.tag == 9) (fun _ => rfl)
      have h9 := len_filter_optItem_le c.defmtFeature HConfig.defmtFeature (fun c' => c'.tag == 9)
      omega
  · have h0 := len_filter_optItem_ne c.defaultRegisterAccess HConfig.defaultRegisterAccess (fun c' => c'.tag == k) (fun _ => by simp [HConfig.tag]; omega)
    have h1 := len_filter_optItem_ne c.defaultFieldAccess HConfig.defaultFieldAccess (fun c' => c'.tag == k) (fun _ => by simp [HConfig.tag]; omega)
    have h2 := len_filter_optItem_ne c.defaultBufferAccess HConfig.defaultBufferAccess (fun c' => c'.tag == k) (fun _ => by simp [HConfig.tag]; omega)
    have h3 := len_filter_optItem_ne c.defaultByteOrder HConfig.defaultByteOrder (fun c' => c'.tag == k) (fun _ => by simp [HConfig.tag]; omega)
    have h4 := len_filter_optItem_ne c.defaultBitOrder HConfig.defaultBitOrder (fun c' => c'.tag == k) (fun _ => by simp [HConfig.tag]; omega)
    have h5 := len_filter_optItem_ne c.registerAddressType (fun i => HConfig.registerAddressType i.name) (fun c' => c'.tag == k) (fun _ => by simp [HConfig.tag]; omega)
    have h6 := len_filter_optItem_ne c.commandAddressType (fun i => HConfig.commandAddressType i.name) (fun c' => c'.tag == k) (fun _ => by simp [HConfig.tag]; omega)
    have h7 := len_filter_optItem_ne c.bufferAddressType (fun i => HConfig.bufferAddressType i.name) (fun c' => c'.tag == k) (fun _ => by simp [HConfig.tag]; omega)
    have h8 := len_filter_optItem_ne c.nameWordBoundaries HConfig.nameWordBoundaries (fun c' => c'.tag == k) (fun _ => by simp [HConfig.tag]; omega)
    have h9 := len_filter_optItem_ne c.defmtFeature HConfig.defmtFeature (fun c' => c'.tag == k) (fun _ => by simp [HConfig.tag]; omega)
    omega

theorem hirInteger_name (i : Integer) : hirInteger i.name = pure i := by cases i <;> rfl

theorem foldlM_optItem_append {α β γ : Type} (o : Option α) (f : α → β) (step : γ → β → M γ) (g : γ) (l : List β) :
    (optItem o f ++ l).foldlM step g =
      (match o with
       | none => l.foldlM step g
       | some a => step g (f a) >>= fun g' => l.foldlM step g') := by
  cases o <;> simp [optItem, List.foldlM_cons]

theorem config_step (all : List HConfig) (hall : ∀ k, (all.filter fun c' => c'.tag == k).length ≤ 1)
    (g : GlobalConfig) (x : HConfig) :
    hirConfigStep all g x = (match x with
      | .defaultRegisterAccess a => pure { g with defaultRegisterAccess := a }
      | .defaultFieldAccess a => pure { g with defaultFieldAccess := a }
      | .defaultBufferAccess a => pure { g with defaultBufferAccess := a }
      | .defaultByteOrder b => pure { g with defaultByteOrder := some b }
      | .defaultBitOrder b => pure { g with defaultBitOrder := b }
      | .registerAddressType i => do pure { g with registerAddressType := some (← hirInteger i) }
      | .commandAddressType i => do pure { g with commandAddressType := some (← hirInteger i) }
      | .bufferAddressType i => do pure { g with bufferAddressType := some (← hirInteger i) }
      | .nameWordBoundaries ns => pure { g with nameWordBoundaries := some ns }
      | .defmtFeature s => pure { g with defmtFeature := some s }) := by
  unfold hirConfigStep
  have := hall x.tag
  have hn : ¬ ((all.filter fun c' => c'.tag == x.tag).length > 1) := by omega
  simp only [hn, if_false]
  cases x <;> rfl

theorem config_render (c : AConfig) : hirConfig (rConfig c) = pure (lowerConfig c) := by
  unfold hirConfig
  have hall := config_count c
  generalize hstep : hirConfigStep (rConfig c) = step
  have hs : ∀ g x, step g x = _ := fun g x => hstep ▸ config_step (rConfig c) hall g x
  unfold rConfig
  simp only [List.append_assoc, foldlM_optItem_append]
  rw [show (optItem c.defmtFeature HConfig.defmtFeature) = optItem c.defmtFeature HConfig.defmtFeature ++ [] by simp]
  simp only [foldlM_optItem_append, List.foldlM_nil]
  obtain ⟨o0, o1, o2, o3, o4, o5, o6, o7, o8, o9⟩ := c
  cases o0 <;> cases o1 <;> cases o2 <;> cases o3 <;> cases o4 <;> cases o5 <;> cases o6 <;> cases o7 <;>
    cases o8 <;> cases o9 <;>
    simp [hs, hirInteger_name, lowerConfig, bind, Except.bind, pure, Except.pure]

end DDV.Gen.HirLemmas
