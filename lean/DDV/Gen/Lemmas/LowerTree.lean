/-
  The MIR → LIR lowering of a ref-free object tree, and the correspondence between the instances
  of the *definition* (objects × own index × indices of the enclosing blocks) and the accessor
  chains of the lowered blocks.
-/
import DDV.Gen.Lemmas.Claimed

namespace DDV.Gen
set_option linter.unusedVariables false
set_option linter.unusedSimpArgs false

mutual
def RefFree : Object → Prop
  | .block _ os => RefFreeList os
  | .ref _ => False
  | _ => True
def RefFreeList : List Object → Prop
  | [] => True
  | o :: os => RefFree o ∧ RefFreeList os
end

/-- The accessor the lowering emits for a (non-ref) object. -/
def methodOf (n : Names) (cfg : GlobalConfig) : Object → Method
  | .block h _ => { cfg := h.cfg, name := n.method h.name, address := h.addressOffset,
                    allowAddressOverlap := false, repeat_ := h.repeat_, kind := .block, target := some h.name }
  | .register r => { cfg := r.cfg, name := n.method r.name, address := r.address,
                     allowAddressOverlap := r.allowAddressOverlap, repeat_ := r.repeat_, kind := .register,
                     target := some r.name, addressType := cfg.registerAddressType, access := some r.access,
                     resetFn := some "new" }
  | .command c => { cfg := c.cfg, name := n.method c.name, address := c.address,
                    allowAddressOverlap := c.allowAddressOverlap, repeat_ := c.repeat_, kind := .command,
                    addressType := cfg.commandAddressType,
                    inSet := if c.inFields.isEmpty then none else some s!"{c.name}FieldsIn",
                    outSet := if c.outFields.isEmpty then none else some s!"{c.name}FieldsOut" }
  | .buffer b => { cfg := b.cfg, name := n.method b.name, address := b.address,
                   allowAddressOverlap := false, repeat_ := none, kind := .buffer,
                   addressType := cfg.bufferAddressType, access := some b.access }
  | .ref r => { cfg := r.cfg, name := n.method r.name, address := 0, allowAddressOverlap := false,
                repeat_ := none, kind := .buffer }

mutual
/-- The blocks the lowering collects below an object, in the order it appends them. -/
def blocksOfObj (n : Names) (cfg : GlobalConfig) : Object → List LBlock
  | .block h os => { cfg := h.cfg, root := false, name := h.name, methods := methodsOfList n cfg os } :: blocksOfList n cfg os
  | _ => []
def blocksOfList (n : Names) (cfg : GlobalConfig) : List Object → List LBlock
  | [] => []
  | o :: os => blocksOfObj n cfg o ++ blocksOfList n cfg os
def methodsOfList (n : Names) (cfg : GlobalConfig) : List Object → List Method
  | [] => []
  | o :: os => methodOf n cfg o :: methodsOfList n cfg os
end

theorem methodsOfList_eq_map (n : Names) (cfg : GlobalConfig) : ∀ os, methodsOfList n cfg os = os.map (methodOf n cfg)
  | [] => by simp [methodsOfList]
  | o :: os => by simp [methodsOfList, methodsOfList_eq_map n cfg os]

/-- **Structure of the lowering** on ref-free trees: whenever it succeeds (for any fuel), the
    methods are the objects' accessors in declaration order and the collected blocks are the
    tree's blocks in pre-order. -/
theorem lowering_structure (n : Names) (cfg : GlobalConfig) (all : List Object) :
    ∀ (fuel : Nat),
      (∀ (o : Object) (m : Method) (bs : List LBlock), RefFree o →
          getMethod n cfg all "new" fuel o = .ok (m, bs) → m = methodOf n cfg o ∧ bs = blocksOfObj n cfg o) ∧
      (∀ (os : List Object) (ms : List Method) (bs : List LBlock), RefFreeList os →
          collectMethods n cfg all fuel os = .ok (ms, bs) → ms = methodsOfList n cfg os ∧ bs = blocksOfList n cfg os)
  | 0 => by
    constructor
    · intro o m bs _ h
      unfold getMethod at h
      simp only [throw, throwThe, MonadExceptOf.throw] at h
      cases h
    · intro os
      induction os with
      | nil =>
        intro ms bs _ h
        unfold collectMethods at h
        simp only [pure, Except.pure, Except.ok.injEq, Prod.mk.injEq] at h
        rw [← h.1, ← h.2]
        exact ⟨rfl, rfl⟩
      | cons o os ih =>
        intro ms bs _ h
        unfold collectMethods at h
        simp only [bind, Except.bind] at h
        unfold getMethod at h
        simp only [throw, throwThe, MonadExceptOf.throw] at h
        cases h
  | fuel + 1 => by
    have ihf := lowering_structure n cfg all fuel
    have hget : ∀ (o : Object) (m : Method) (bs : List LBlock), RefFree o →
        getMethod n cfg all "new" (fuel + 1) o = .ok (m, bs) → m = methodOf n cfg o ∧ bs = blocksOfObj n cfg o := by
      intro o m bs hrf h
      unfold getMethod at h
      cases o with
      | block hd os =>
        simp only [bind, Except.bind, pure, Except.pure] at h
        unfold collectIntoBlocks at h
        simp only [bind, Except.bind, pure, Except.pure] at h
        cases hc : collectMethods n cfg all fuel os with
        | error e => rw [hc] at h; cases h
        | ok p =>
          obtain ⟨ms', bs'⟩ := p
          rw [hc] at h
          simp only [Except.ok.injEq, Prod.mk.injEq] at h
          unfold RefFree at hrf
          obtain ⟨e1, e2⟩ := ihf.2 os ms' bs' hrf hc
          rw [← h.1, ← h.2, e1, e2]
          exact ⟨rfl, by simp [blocksOfObj]⟩
      | register r =>
        simp only [bind, Except.bind, pure, Except.pure] at h
        cases ht : cfg.registerAddressType with
        | none => rw [ht] at h; simp only [throw, throwThe, MonadExceptOf.throw] at h; cases h
        | some t =>
          rw [ht] at h
          simp only [Except.ok.injEq, Prod.mk.injEq] at h
          rw [← h.1, ← h.2]
          exact ⟨by simp [methodOf, ht], by simp [blocksOfObj]⟩
      | command c =>
        simp only [bind, Except.bind, pure, Except.pure] at h
        cases ht : cfg.commandAddressType with
        | none => rw [ht] at h; simp only [throw, throwThe, MonadExceptOf.throw] at h; cases h
        | some t =>
          rw [ht] at h
          simp only [Except.ok.injEq, Prod.mk.injEq] at h
          rw [← h.1, ← h.2]
          exact ⟨by simp [methodOf, ht], by simp [blocksOfObj]⟩
      | buffer b =>
        simp only [bind, Except.bind, pure, Except.pure] at h
        cases ht : cfg.bufferAddressType with
        | none => rw [ht] at h; simp only [throw, throwThe, MonadExceptOf.throw] at h; cases h
        | some t =>
          rw [ht] at h
          simp only [Except.ok.injEq, Prod.mk.injEq] at h
          rw [← h.1, ← h.2]
          exact ⟨by simp [methodOf, ht], by simp [blocksOfObj]⟩
      | ref r => unfold RefFree at hrf; exact absurd hrf id
    refine ⟨hget, ?_⟩
    intro os
    induction os with
    | nil =>
      intro ms bs _ h
      unfold collectMethods at h
      simp only [pure, Except.pure, Except.ok.injEq, Prod.mk.injEq] at h
      rw [← h.1, ← h.2]
      exact ⟨rfl, rfl⟩
    | cons o os ih =>
      intro ms bs hrf h
      unfold RefFreeList at hrf
      unfold collectMethods at h
      simp only [bind, Except.bind, pure, Except.pure] at h
      cases hg : getMethod n cfg all "new" (fuel + 1) o with
      | error e => rw [hg] at h; cases h
      | ok p =>
        obtain ⟨m, b1⟩ := p
        rw [hg] at h
        simp only at h
        cases hc : collectMethods n cfg all (fuel + 1) os with
        | error e => rw [hc] at h; cases h
        | ok q =>
          obtain ⟨ms', b2⟩ := q
          rw [hc] at h
          simp only [Except.ok.injEq, Prod.mk.injEq] at h
          obtain ⟨e1, e2⟩ := hget o m b1 hrf.1 hg
          obtain ⟨e3, e4⟩ := ih ms' b2 hrf.2 hc
          rw [← h.1, ← h.2, e1, e2, e3, e4]
          exact ⟨rfl, rfl⟩

/-! ### Paths through the definition tree -/

def objCount (o : Object) : Nat := (o.repeat_.getD ⟨1, 0⟩).count
def objStride (o : Object) : Int := (o.repeat_.getD ⟨1, 0⟩).stride

def isBlockObj : Object → Bool | .block _ _ => true | _ => false

/-- A path through the definition: enclosing blocks from the outside in, each with one of its
    repeat indices, ending at a register / command / buffer with one of its own repeat indices —
    the property's notion of an *instance*. -/
inductive TreeChain : List Object → List (Object × Nat) → Prop
  | leaf {os : List Object} {o : Object} {i : Nat} :
      o ∈ os → isBlockObj o = false → i < objCount o → TreeChain os [(o, i)]
  | step {os : List Object} {h : BlockHead} {cs : List Object} {i : Nat} {rest : List (Object × Nat)} :
      Object.block h cs ∈ os → i < objCount (.block h cs) → TreeChain cs rest →
      TreeChain os ((Object.block h cs, i) :: rest)

/-- the accessor call that corresponds to one step of a path -/
def liftStep (n : Names) (cfg : GlobalConfig) (x : Object × Nat) : Method × Nat := (methodOf n cfg x.1, x.2)

/-- The mathematically defined address of an instance:
    Σ (block offset + block index × block stride) + object address + object index × object stride. -/
def treeAddress : List (Object × Nat) → Int → Int
  | [], base => base
  | (o, i) :: rest, base => treeAddress rest (base + (o.address.getD 0) + (i : Int) * objStride o)

mutual
/-- every block of the tree is found under its own name among the collected blocks -/
def LooksUp (n : Names) (cfg : GlobalConfig) (blocks : List LBlock) : Object → Prop
  | .block h cs =>
    (∃ b, lookupBlock blocks (methodOf n cfg (.block h cs)) = some b ∧ b.methods = methodsOfList n cfg cs) ∧
    LooksUpList n cfg blocks cs
  | _ => True
def LooksUpList (n : Names) (cfg : GlobalConfig) (blocks : List LBlock) : List Object → Prop
  | [] => True
  | o :: os => LooksUp n cfg blocks o ∧ LooksUpList n cfg blocks os
end

theorem refFree_of_mem : ∀ {os : List Object} {o : Object}, RefFreeList os → o ∈ os → RefFree o
  | [], _, _, h => by cases h
  | x :: xs, o, hr, h => by
    unfold RefFreeList at hr
    rcases List.mem_cons.1 h with rfl | h
    · exact hr.1
    · exact refFree_of_mem hr.2 h

theorem looksUp_of_mem {n : Names} {cfg : GlobalConfig} {blocks : List LBlock} :
    ∀ {os : List Object} {o : Object}, LooksUpList n cfg blocks os → o ∈ os → LooksUp n cfg blocks o
  | [], _, _, h => by cases h
  | x :: xs, o, hr, h => by
    unfold LooksUpList at hr
    rcases List.mem_cons.1 h with rfl | h
    · exact hr.1
    · exact looksUp_of_mem hr.2 h

theorem mem_methodsOfList (n : Names) (cfg : GlobalConfig) (os : List Object) (m : Method) :
    m ∈ methodsOfList n cfg os ↔ ∃ o ∈ os, m = methodOf n cfg o := by
  rw [methodsOfList_eq_map]
  simp only [List.mem_map]
  constructor
  · intro ⟨o, h1, h2⟩; exact ⟨o, h1, h2.symm⟩
  · intro ⟨o, h1, h2⟩; exact ⟨o, h1, h2.symm⟩

theorem methodOf_count (n : Names) (cfg : GlobalConfig) (o : Object) (h : RefFree o) :
    (methodOf n cfg o).count = objCount o := by
  cases o with
  | ref r => unfold RefFree at h; exact absurd h id
  | block hd os => simp only [methodOf, Method.count, objCount, Object.repeat_]; cases hd.repeat_ <;> rfl
  | register r => simp only [methodOf, Method.count, objCount, Object.repeat_]; cases r.repeat_ <;> rfl
  | command c => simp only [methodOf, Method.count, objCount, Object.repeat_]; cases c.repeat_ <;> rfl
  | buffer b => rfl

theorem methodOf_kind_block (n : Names) (cfg : GlobalConfig) (o : Object) (h : RefFree o) :
    (methodOf n cfg o).kind = .block ↔ isBlockObj o = true := by
  cases o with
  | ref r => unfold RefFree at h; exact absurd h id
  | block hd os => simp [methodOf, isBlockObj]
  | register r => simp [methodOf, isBlockObj]
  | command c => simp [methodOf, isBlockObj]
  | buffer b => simp [methodOf, isBlockObj]

/-- **Every path through the definition is an accessor chain** of the lowered blocks. -/
theorem tree_chain_is_accessor_chain (n : Names) (cfg : GlobalConfig) (blocks : List LBlock) :
    ∀ {os : List Object} {tch : List (Object × Nat)}, TreeChain os tch →
      RefFreeList os → LooksUpList n cfg blocks os →
      LeafChain blocks (methodsOfList n cfg os) (tch.map (liftStep n cfg)) := by
  intro os tch h
  induction h with
  | leaf hm hb hi =>
    intro hrf hlu
    have hr := refFree_of_mem hrf hm
    refine LeafChain.leaf ((mem_methodsOfList n cfg _ _).2 ⟨_, hm, rfl⟩) ?_ (by rw [methodOf_count n cfg _ hr]; exact hi)
    intro hk
    rw [(methodOf_kind_block n cfg _ hr).1 hk] at hb
    cases hb
  | step hm hi hrest ih =>
    intro hrf hlu
    have hr := refFree_of_mem hrf hm
    have hl := looksUp_of_mem hlu hm
    unfold RefFree at hr
    unfold LooksUp at hl
    obtain ⟨⟨b, hb1, hb2⟩, hl2⟩ := hl
    have := ih hr hl2
    rw [← hb2] at this
    exact LeafChain.step ((mem_methodsOfList n cfg _ _).2 ⟨_, hm, rfl⟩) rfl hb1
      (by rw [methodOf_count n cfg _ (by unfold RefFree; exact hr)]; exact hi) this

/-- **Every accessor chain is a path through the definition.** -/
theorem accessor_chain_is_tree_chain (n : Names) (cfg : GlobalConfig) (blocks : List LBlock) :
    ∀ (ch : List (Method × Nat)) (os : List Object), RefFreeList os → LooksUpList n cfg blocks os →
      LeafChain blocks (methodsOfList n cfg os) ch →
      ∃ tch, TreeChain os tch ∧ ch = tch.map (liftStep n cfg)
  | [], os, _, _, h => absurd rfl (leafChain_ne_nil h)
  | (m, i) :: rest, os, hrf, hlu, h => by
    cases h with
    | leaf hm hk hi =>
      obtain ⟨o, ho, rfl⟩ := (mem_methodsOfList n cfg os m).1 hm
      have hr := refFree_of_mem hrf ho
      refine ⟨[(o, i)], TreeChain.leaf ho ?_ (by rw [← methodOf_count n cfg o hr]; exact hi), rfl⟩
      cases hb : isBlockObj o with
      | false => rfl
      | true => exact absurd ((methodOf_kind_block n cfg o hr).2 hb) hk
    | step hm hk hl hi hrest =>
      obtain ⟨o, ho, rfl⟩ := (mem_methodsOfList n cfg os m).1 hm
      have hr := refFree_of_mem hrf ho
      have hb := (methodOf_kind_block n cfg o hr).1 hk
      cases o with
      | block hd cs =>
        have hlu' := looksUp_of_mem hlu ho
        unfold LooksUp at hlu'
        obtain ⟨⟨b', hb1, hb2⟩, hl2⟩ := hlu'
        rw [hb1] at hl
        cases hl
        rw [hb2] at hrest
        unfold RefFree at hr
        obtain ⟨tch, t1, t2⟩ := accessor_chain_is_tree_chain n cfg blocks rest cs hr hl2 hrest
        refine ⟨(Object.block hd cs, i) :: tch, TreeChain.step ho ?_ t1, by rw [t2]; rfl⟩
        rw [← methodOf_count n cfg _ (by unfold RefFree; exact hr)]; exact hi
      | register r => cases hb
      | command c => cases hb
      | buffer b => cases hb
      | ref r => cases hb

/-- The address of the lifted chain is the mathematically defined address of the instance. -/
theorem specChain_lift (n : Names) (cfg : GlobalConfig) :
    ∀ (tch : List (Object × Nat)) (base : Int), (∀ x ∈ tch, RefFree x.1) →
      specChain (tch.map (liftStep n cfg)) base = treeAddress tch base
  | [], base, _ => rfl
  | (o, i) :: rest, base, h => by
    have hr := h (o, i) (List.mem_cons_self ..)
    have ih := specChain_lift n cfg rest (base + (o.address.getD 0) + (i : Int) * objStride o)
      (fun x hx => h x (List.mem_cons_of_mem _ hx))
    simp only [List.map_cons, liftStep, specChain, treeAddress]
    rw [← ih]
    congr 1
    cases o with
    | ref r => unfold RefFree at hr; exact absurd hr id
    | block hd os => simp [methodOf, Method.strideOr0, objStride, Object.address, Object.repeat_]; cases hd.repeat_ <;> rfl
    | register r => simp [methodOf, Method.strideOr0, objStride, Object.address, Object.repeat_]; cases r.repeat_ <;> rfl
    | command c => simp [methodOf, Method.strideOr0, objStride, Object.address, Object.repeat_]; cases c.repeat_ <;> rfl
    | buffer b => simp [methodOf, Method.strideOr0, objStride, Object.address, Object.repeat_]

/-! ### Blocks are found under their own names when block names are distinct -/

theorem find_by_name : ∀ (bl : List LBlock) (b : LBlock), b ∈ bl → (bl.map (·.name)).Nodup →
    bl.find? (fun x => x.name == b.name) = some b
  | [], b, h, _ => by cases h
  | x :: xs, b, h, hn => by
    simp only [List.map_cons, List.nodup_cons, List.mem_map, not_exists, not_and] at hn
    rcases List.mem_cons.1 h with rfl | h
    · simp [List.find?]
    · have hne : x.name ≠ b.name := fun he => hn.1 b h he.symm
      simp only [List.find?, beq_iff_eq, hne, Bool.false_eq_true]
      have : (x.name == b.name) = false := by simp [hne]
      rw [this]
      exact find_by_name xs b h hn.2

mutual
theorem looksUp_obj (n : Names) (cfg : GlobalConfig) (blocks : List LBlock)
    (hn : (blocks.map (·.name)).Nodup) :
    ∀ (o : Object), (∀ b ∈ blocksOfObj n cfg o, b ∈ blocks) → LooksUp n cfg blocks o
  | .block h cs, hsub => by
    unfold LooksUp
    have hmem : ({ cfg := h.cfg, root := false, name := h.name, methods := methodsOfList n cfg cs } : LBlock) ∈ blocks :=
      hsub _ (by unfold blocksOfObj; exact List.mem_cons_self ..)
    refine ⟨⟨{ cfg := h.cfg, root := false, name := h.name, methods := methodsOfList n cfg cs }, ?_, rfl⟩, looksUp_list n cfg blocks hn cs (fun b hb => hsub b (by unfold blocksOfObj; exact List.mem_cons_of_mem _ hb))⟩
    unfold lookupBlock
    have := find_by_name blocks _ hmem hn
    simpa [methodOf] using this
  | .register _, _ => by unfold LooksUp; trivial
  | .command _, _ => by unfold LooksUp; trivial
  | .buffer _, _ => by unfold LooksUp; trivial
  | .ref _, _ => by unfold LooksUp; trivial
theorem looksUp_list (n : Names) (cfg : GlobalConfig) (blocks : List LBlock)
    (hn : (blocks.map (·.name)).Nodup) :
    ∀ (os : List Object), (∀ b ∈ blocksOfList n cfg os, b ∈ blocks) → LooksUpList n cfg blocks os
  | [], _ => by unfold LooksUpList; trivial
  | o :: os, hsub => by
    unfold LooksUpList
    exact ⟨looksUp_obj n cfg blocks hn o (fun b hb => hsub b (by unfold blocksOfList; exact List.mem_append_left _ hb)),
           looksUp_list n cfg blocks hn os (fun b hb => hsub b (by unfold blocksOfList; exact List.mem_append_right _ hb))⟩
end

/-- **The instances of the definition are exactly the accessor chains of the lowered device.**
    For a ref-free object tree whose lowering succeeds and whose block names are distinct from each
    other and from the device name: the root block's methods are the top-level objects' accessors,
    every path through the tree (with valid indices) is an accessor chain and vice versa, and the
    address of the chain is Σ (block offset + index × stride) + object address + index × stride. -/
theorem instances_of_the_definition (n : Names) (cfg : GlobalConfig) (all : List Object) (fuel : Nat)
    (deviceName : String) (os : List Object) (blocks : List LBlock)
    (hrf : RefFreeList os)
    (hl : collectIntoBlocks n cfg all fuel none deviceName true os = .ok blocks)
    (hn : (blocks.map (·.name)).Nodup) :
    ∃ root rest, blocks = root :: rest ∧ root.root = true ∧ root.name = deviceName ∧
      root.methods = methodsOfList n cfg os ∧
      (∀ tch, TreeChain os tch → LeafChain blocks root.methods (tch.map (liftStep n cfg))) ∧
      (∀ ch, LeafChain blocks root.methods ch → ∃ tch, TreeChain os tch ∧ ch = tch.map (liftStep n cfg)) := by
  unfold collectIntoBlocks at hl
  simp only [bind, Except.bind, pure, Except.pure] at hl
  cases hc : collectMethods n cfg all fuel os with
  | error e => rw [hc] at hl; cases hl
  | ok p =>
    obtain ⟨ms, bs⟩ := p
    rw [hc] at hl
    simp only [Except.ok.injEq] at hl
    obtain ⟨e1, e2⟩ := (lowering_structure n cfg all fuel).2 os ms bs hrf hc
    subst hl
    generalize hbl : ({ cfg := none, root := true, name := deviceName, methods := ms } : LBlock) :: bs = blocks at hn
    have hlu : LooksUpList n cfg blocks os := looksUp_list n cfg blocks hn os (fun b hb => by
      rw [← hbl, e2]; exact List.mem_cons_of_mem _ hb)
    refine ⟨{ cfg := none, root := true, name := deviceName, methods := ms }, bs, hbl.symm, rfl, rfl, e1, ?_, ?_⟩
    · intro tch ht
      have := tree_chain_is_accessor_chain n cfg blocks ht hrf hlu
      simpa [e1] using this
    · intro ch hch
      have hch' : LeafChain blocks (methodsOfList n cfg os) ch := by simpa [e1] using hch
      exact accessor_chain_is_tree_chain n cfg blocks ch os hrf hlu hch'

end DDV.Gen
