/-
  Lemmas about the key-level manifest reader (`DDV.Gen.ManTree`) on rendered trees
  (`DDV.Gen.ManRender`): accessors on rendered numbers, loops over optional keys, variants,
  conversions, fields, repeats, reset values, buffers, registers; and "only known keys succeed".
-/
import DDV.Gen.ManRender

namespace DDV.Gen
set_option linter.unusedSimpArgs false
set_option linter.unusedVariables false

theorem foldlM_rOpt {σ α : Type} (step : σ → String × MVal → M σ) (k : String) (o : Option α) (f : α → MVal)
    (u : α → σ → σ) (h : ∀ a s, step s (k, f a) = pure (u a s)) (rest : MKvs) (s : σ) :
    (rOpt k o f ++ rest).foldlM step s = rest.foldlM step (match o with | some a => u a s | none => s) := by
  cases o with
  | none => simp [rOpt]
  | some a => simp [rOpt, List.foldlM_cons, h]

theorem foldlM_one {σ : Type} (step : σ → String × MVal → M σ) (kv : String × MVal) (s' : σ)
    (rest : MKvs) (s : σ) (h : step s kv = pure s') :
    (kv :: rest).foldlM step s = rest.foldlM step s' := by
  simp [List.foldlM_cons, h]

/-- numbers a manifest can carry in every syntax -/
def u32ok (n : Nat) : Prop := n < 2 ^ 32

theorem asUintV_nat (syn : Syntax) (n : Nat) (h : n < 2 ^ 63) : asUintV syn (.int n) = pure n := by
  unfold asUintV
  have h1 : (n : Int) < 18446744073709551616 := by
    have : (n : Int) < 2 ^ 63 := by exact_mod_cast h
    omega
  have h2 : (n : Int) < 9223372036854775808 := by
    have : (n : Int) < 2 ^ 63 := by exact_mod_cast h
    omega
  cases syn <;> simp [pure, Except.pure, h1, h2]

theorem asU32V_nat (syn : Syntax) (n : Nat) (h : n < 2 ^ 32) : asU32V syn (rNat n) = pure n := by
  unfold asU32V rNat
  rw [asUintV_nat syn n (by omega)]
  have h' : n < 4294967296 := by omega
  simp [bind, Except.bind, pure, Except.pure, h']

theorem asIntV_int (syn : Syntax) (n : Int) (h : fitsI64 n = true) : asIntV syn (.int n) = pure n := by
  unfold asIntV
  simp only [fitsI64, decide_eq_true_eq] at h
  have h1 : -9223372036854775808 ≤ n := h.1
  have h2 : n < 9223372036854775808 := by omega
  cases syn <;> simp [pure, Except.pure, h1, h2]

end DDV.Gen

namespace DDV.Gen
set_option linter.unusedSimpArgs false
set_option linter.unusedVariables false

def ValueOk : EnumValue → Prop
  | .specified n => fitsI64 n = true
  | _ => True

theorem manEnumValue_render (syn : Syntax) (x : EnumValue) (h : ValueOk x) (hx : x ≠ .unspecified ∨ syn ≠ .toml) :
    manEnumValueV syn (rEnumValue syn x) = pure x := by
  cases x with
  | unspecified =>
    have hs : syn ≠ .toml := by rcases hx with h | h; exact absurd rfl h; exact h
    cases syn <;> simp_all [manEnumValueV, rEnumValue, isNullV]
  | specified n =>
    have := asIntV_int syn n h
    cases syn <;> simp_all [manEnumValueV, rEnumValue, isNullV, pure, Except.pure]
  | default =>
    cases syn <;> simp [manEnumValueV, rEnumValue, isNullV, asIntV, yamlBinary, throw, throwThe, MonadExceptOf.throw, pure, Except.pure]
  | catchAll =>
    cases syn <;> simp [manEnumValueV, rEnumValue, isNullV, asIntV, yamlBinary, throw, throwThe, MonadExceptOf.throw, pure, Except.pure]


def VariantOk (v : AVariant) : Prop := ValueOk v.value ∧ v.name ≠ "name" ∧ v.name ≠ "description"

theorem mget_cons_ne (k k' : String) (v : MVal) (rest : MKvs) (h : k ≠ k') : mget ((k, v) :: rest) k' = mget rest k' := by
  simp [mget, List.find?_cons, h]

theorem mget_cons_eq (k : String) (v : MVal) (rest : MKvs) : mget ((k, v) :: rest) k = some v := by
  simp [mget, List.find?_cons]

theorem mget_rOpt_ne {α : Type} (k k' : String) (o : Option α) (f : α → MVal) (rest : MKvs) (h : k ≠ k') :
    mget (rOpt k o f ++ rest) k' = mget rest k' := by
  cases o <;> simp [rOpt, mget_cons_ne, h]

theorem mget_rOpt_eq {α : Type} (k : String) (o : Option α) (f : α → MVal) (rest : MKvs) :
    mget (rOpt k o f ++ rest) k = (match o with | some a => some (f a) | none => mget rest k) := by
  cases o <;> simp [rOpt, mget_cons_eq]

theorem mget_nil (k : String) : mget [] k = none := rfl

theorem manVariant_render (syn : Syntax) (v : AVariant) (h : VariantOk v) :
    manVariantV syn (rVariant syn v).1 (rVariant syn v).2 = pure (lowerVariant v) := by
  obtain ⟨hv, _, _⟩ := h
  unfold rVariant
  by_cases hext : (v.cfg.isSome || v.description.isSome) = true
  · simp only [hext, if_true]
    unfold manVariantV
    cases hval : v.value with
    | unspecified =>
      simp only [List.nil_append, mget_rOpt_eq, mget_rOpt_ne _ _ _ _ _ (show "cfg" ≠ "description" by decide),
        mget_rOpt_ne _ _ _ _ _ (show "cfg" ≠ "value" by decide),
        mget_rOpt_ne _ _ _ _ _ (show "description" ≠ "value" by decide), List.append_nil]
      cases hc : v.cfg <;> cases hd : v.description <;>
        simp [rOpt, mget, asStringV, lowerVariant, hval, hc, hd, bind, Except.bind, pure, Except.pure, Option.mapM, Functor.map, Except.map]
    | specified n =>
      rw [hval] at hv
      have := manEnumValue_render syn (.specified n) hv (Or.inl (by simp))
      cases hc : v.cfg <;> cases hd : v.description <;>
        simp_all [rOpt, mget, asStringV, lowerVariant, bind, Except.bind, pure, Except.pure, Option.mapM, List.find?_cons, Functor.map, Except.map]
    | default =>
      have := manEnumValue_render syn .default trivial (Or.inl (by simp))
      cases hc : v.cfg <;> cases hd : v.description <;>
        simp_all [rOpt, mget, asStringV, lowerVariant, bind, Except.bind, pure, Except.pure, Option.mapM, List.find?_cons, Functor.map, Except.map]
    | catchAll =>
      have := manEnumValue_render syn .catchAll trivial (Or.inl (by simp))
      cases hc : v.cfg <;> cases hd : v.description <;>
        simp_all [rOpt, mget, asStringV, lowerVariant, bind, Except.bind, pure, Except.pure, Option.mapM, List.find?_cons, Functor.map, Except.map]
  · simp only [hext, if_false]
    have hc : v.cfg = none := by cases h1 : v.cfg <;> simp_all
    have hd : v.description = none := by cases h1 : v.description <;> simp_all
    cases hval : v.value with
    | unspecified =>
      cases syn <;> simp [rEnumValue, manVariantV, manEnumValueV, isNullV, lowerVariant, hval, hc, hd, mget, bind, Except.bind, pure, Except.pure, Option.mapM, Functor.map, Except.map]
    | specified n =>
      rw [hval] at hv
      have := manEnumValue_render syn (.specified n) hv (Or.inl (by simp))
      simp only [rEnumValue] at this ⊢
      simp [manVariantV, this, lowerVariant, hval, hc, hd, bind, Except.bind, pure, Except.pure]
    | default =>
      have := manEnumValue_render syn .default trivial (Or.inl (by simp))
      simp only [rEnumValue] at this ⊢
      simp [manVariantV, this, lowerVariant, hval, hc, hd, bind, Except.bind, pure, Except.pure]
    | catchAll =>
      have := manEnumValue_render syn .catchAll trivial (Or.inl (by simp))
      simp only [rEnumValue] at this ⊢
      simp [manVariantV, this, lowerVariant, hval, hc, hd, bind, Except.bind, pure, Except.pure]

end DDV.Gen

namespace DDV.Gen
set_option linter.unusedSimpArgs false
set_option linter.unusedVariables false

theorem mapM_render_variants (syn : Syntax) : ∀ (vs : List AVariant), (∀ v ∈ vs, VariantOk v) →
    (vs.map (rVariant syn)).mapM (fun p => manVariantV syn p.1 p.2) = pure (vs.map lowerVariant) := by
  intro vs
  induction vs with
  | nil => intro _; rfl
  | cons v vs ih =>
    intro h
    have hv := manVariant_render syn v (h v (by simp))
    have ih' := ih (fun x hx => h x (by simp [hx]))
    simp only [List.map_cons, List.mapM_cons, hv, ih', bind, Except.bind, pure, Except.pure]

theorem filter_variants (syn : Syntax) : ∀ (vs : List AVariant), (∀ v ∈ vs, VariantOk v) →
    (vs.map (rVariant syn)).filter (fun p => p.1 != "name" && p.1 != "description") = vs.map (rVariant syn) := by
  intro vs h
  apply List.filter_eq_self.2
  intro p hp
  obtain ⟨v, hv, rfl⟩ := List.mem_map.1 hp
  obtain ⟨_, h1, h2⟩ := h v hv
  have : (rVariant syn v).1 = v.name := by unfold rVariant; split <;> rfl
  simp [this, h1, h2]

theorem mget_variants_none (syn : Syntax) (k : String) : ∀ (vs : List AVariant), (∀ v ∈ vs, v.name ≠ k) →
    mget (vs.map (rVariant syn)) k = none := by
  intro vs
  induction vs with
  | nil => intro _; rfl
  | cons v vs ih =>
    intro h
    have hn : (rVariant syn v).1 = v.name := by unfold rVariant; split <;> rfl
    have hne : (rVariant syn v).1 ≠ k := by rw [hn]; exact h v (by simp)
    simp only [List.map_cons]
    have : mget (rVariant syn v :: vs.map (rVariant syn)) k = mget (vs.map (rVariant syn)) k := by
      have := mget_cons_ne (rVariant syn v).1 k (rVariant syn v).2 (vs.map (rVariant syn)) hne
      simpa using this
    rw [this]
    exact ih (fun x hx => h x (by simp [hx]))

def ConvOk : AConv → Prop
  | .ty _ _ => True
  | .enum e _ => ∀ v ∈ e.variants, VariantOk v

/-- what the abstract manifest lowering makes of a conversion -/
def manEnumOf (e : AEnum) : Enum :=
  { cfg := none, description := e.description.getD "", name := e.name, variants := e.variants.map lowerVariant }
def manConvOf : AConv → FieldConversion
  | .ty p t => .direct p t
  | .enum e t => .enum (manEnumOf e) t

theorem manConversion_render (syn : Syntax) (c : AConv) (h : ConvOk c) (fdescr : String) :
    manConversionV syn (convTry c) (rConv syn c).2 =
      pure (manConvOf c) := by
  cases c with
  | ty p t => simp [rConv, manConversionV, manConvOf, convTry]
  | enum e t =>
    simp only [rConv, manConversionV, convTry]
    have hf : ([("name", MVal.str e.name)] ++ rOpt "description" e.description MVal.str ++ e.variants.map (rVariant syn)).filter
        (fun p => p.1 != "name" && p.1 != "description") = e.variants.map (rVariant syn) := by
      rw [List.filter_append, List.filter_append, filter_variants syn e.variants h]
      cases e.description <;> simp [rOpt]
    rw [hf, mapM_render_variants syn e.variants h]
    have hname : mget ([("name", MVal.str e.name)] ++ rOpt "description" e.description MVal.str ++ e.variants.map (rVariant syn)) "name"
        = some (.str e.name) := by
      simp [mget, List.find?_cons]
    have hdesc : mget ([("name", MVal.str e.name)] ++ rOpt "description" e.description MVal.str ++ e.variants.map (rVariant syn)) "description"
        = e.description.map MVal.str := by
      rw [List.append_assoc, List.singleton_append, mget_cons_ne _ _ _ _ (show "name" ≠ "description" by decide), mget_rOpt_eq]
      cases hd : e.description with
      | some d => rfl
      | none => simp only [Option.map_none]; exact mget_variants_none syn "description" e.variants (fun v hv => (h v hv).2.2)
    rw [hname, hdesc]
    cases hd : e.description <;>
      simp [asStringV, bind, Except.bind, pure, Except.pure, Option.mapM, Functor.map, Except.map, manConvOf, manEnumOf, hd]

end DDV.Gen

namespace DDV.Gen
set_option linter.unusedSimpArgs false
set_option linter.unusedVariables false

def FieldOk (f : AField) : Prop :=
  f.start < 2 ^ 32 ∧ (∀ e, f.stop = some e → e < 2 ^ 32) ∧ (∀ c, f.conv = some c → ConvOk c)

/-- the keys of a rendered field, as a function of what the field has -/
def fieldKvs (syn : Syntax) (f : AField) : MKvs :=
  rOpt "cfg" f.cfg .str ++ rOpt "description" f.description .str ++ rOpt "access" f.access rAccess ++
    [("base", rBase f.base), ("start", rNat f.start)] ++ rOpt "end" f.stop rNat ++
    (match f.conv with | some c => [rConv syn c] | none => [])

theorem rField_eq (syn : Syntax) (f : AField) : rField syn f = (f.name, .map (fieldKvs syn f)) := rfl

theorem convKey_ne (syn : Syntax) (c : AConv) (k : String) (h1 : k ≠ "conversion") (h2 : k ≠ "try_conversion") :
    (rConv syn c).1 ≠ k := by
  cases c with
  | ty p t => cases t <;> simp [rConv, Ne.symm h1, Ne.symm h2]
  | enum e t => cases t <;> simp [rConv, Ne.symm h1, Ne.symm h2]

theorem mhas_field_end (syn : Syntax) (f : AField) : mhas (fieldKvs syn f) "end" = f.stop.isSome := by
  unfold mhas fieldKvs
  simp only [List.append_assoc]
  rw [mget_rOpt_ne _ _ _ _ _ (show "cfg" ≠ "end" by decide), mget_rOpt_ne _ _ _ _ _ (show "description" ≠ "end" by decide),
    mget_rOpt_ne _ _ _ _ _ (show "access" ≠ "end" by decide)]
  simp only [List.cons_append, List.nil_append]
  rw [mget_cons_ne _ _ _ _ (show "base" ≠ "end" by decide), mget_cons_ne _ _ _ _ (show "start" ≠ "end" by decide), mget_rOpt_eq]
  cases hs : f.stop with
  | some e => rfl
  | none =>
    cases hc : f.conv with
    | none => rfl
    | some c =>
      have hne := convKey_ne syn c "end" (by decide) (by decide)
      simp [mget, List.find?_cons, hne]

theorem mhas_field_base_start (syn : Syntax) (f : AField) :
    mhas (fieldKvs syn f) "base" = true ∧ mhas (fieldKvs syn f) "start" = true := by
  unfold mhas fieldKvs
  simp only [List.append_assoc]
  refine ⟨?_, ?_⟩
  · rw [mget_rOpt_ne _ _ _ _ _ (show "cfg" ≠ "base" by decide), mget_rOpt_ne _ _ _ _ _ (show "description" ≠ "base" by decide),
      mget_rOpt_ne _ _ _ _ _ (show "access" ≠ "base" by decide)]
    simp [mget_cons_eq]
  · rw [mget_rOpt_ne _ _ _ _ _ (show "cfg" ≠ "start" by decide), mget_rOpt_ne _ _ _ _ _ (show "description" ≠ "start" by decide),
      mget_rOpt_ne _ _ _ _ _ (show "access" ≠ "start" by decide)]
    simp only [List.cons_append, List.nil_append]
    rw [mget_cons_ne _ _ _ _ (show "base" ≠ "start" by decide)]
    simp [mget_cons_eq]

end DDV.Gen

namespace DDV.Gen
set_option linter.unusedSimpArgs false
set_option linter.unusedVariables false

theorem manAccess_render (a : Access) : manAccessV (rAccess a) = pure a := by
  cases a <;> simp [manAccessV, rAccess, asStringV, bind, Except.bind, pure, Except.pure]

theorem manBase_render (b : BaseType) : manBaseTypeV (rBase b) = pure b := by
  cases b <;> simp [manBaseTypeV, rBase, asStringV, bind, Except.bind, pure, Except.pure]

theorem mhas_conv_none (syn : Syntax) (f : AField) (c : AConv) (t : Bool) (hc : f.conv = some c)
    (hk : (rConv syn c).1 = "try_conversion") : mhas (fieldKvs syn f) "conversion" = false := by
  unfold mhas fieldKvs
  simp only [List.append_assoc]
  rw [mget_rOpt_ne _ _ _ _ _ (show "cfg" ≠ "conversion" by decide), mget_rOpt_ne _ _ _ _ _ (show "description" ≠ "conversion" by decide),
    mget_rOpt_ne _ _ _ _ _ (show "access" ≠ "conversion" by decide)]
  simp only [List.cons_append, List.nil_append]
  rw [mget_cons_ne _ _ _ _ (show "base" ≠ "conversion" by decide), mget_cons_ne _ _ _ _ (show "start" ≠ "conversion" by decide),
    mget_rOpt_ne _ _ _ _ _ (show "end" ≠ "conversion" by decide), hc]
  simp [mget, List.find?_cons, hk]

theorem convKey_cases (syn : Syntax) (c : AConv) :
    ((rConv syn c).1 = "conversion" ∧ (convTry c) = false) ∨
    ((rConv syn c).1 = "try_conversion" ∧ (convTry c) = true) := by
  cases c with
  | ty p t => cases t <;> simp [rConv, convTry]
  | enum e t => cases t <;> simp [rConv, convTry]

/-- The loop over a rendered field's keys, for any `all` that answers the two `contains_key`
    questions as the rendered map does. -/
theorem manFieldKeys_render (syn : Syntax) (g : GlobalConfig) (f : AField) (h : FieldOk f) (all : MKvs)
    (hend : mhas all "end" = f.stop.isSome)
    (hconv : ∀ c, f.conv = some c → (rConv syn c).1 = "try_conversion" → mhas all "conversion" = false) :
    (fieldKvs syn f).foldlM (manFieldStep syn all)
      { cfg := none, description := "", name := f.name, access := g.defaultFieldAccess, base := .uint,
        conv := none, start := 0, stop := 0 } = manField g f := by
  obtain ⟨hs, he, hc⟩ := h
  have hstart := asU32V_nat syn f.start hs
  unfold fieldKvs manField
  have hck : checkU32 f.start = pure f.start := by
    have : f.start < 4294967296 := by omega
    simp [checkU32, fitsU32, pure, Except.pure, this]
  have hstop : ∀ e, f.stop = some e → asU32V syn (rNat e) = pure e ∧ checkU32 e = pure e := by
    intro e h1
    have h2 := he e h1
    have h3 : e < 4294967296 := by omega
    exact ⟨asU32V_nat syn e h2, by simp [checkU32, fitsU32, pure, Except.pure, h3]⟩
  cases hcv : f.conv with
  | none =>
    cases hst : f.stop with
    | none =>
      cases hcfg : f.cfg <;> cases hd : f.description <;> cases ha : f.access <;>
      simp only [rOpt, List.nil_append, List.cons_append, List.append_nil, List.foldlM_cons, List.foldlM_nil, hcfg, hd, ha, hst, hcv] at hend ⊢ <;>
      simp [manFieldStep, asStringV, manAccess_render, manBase_render, hstart, hck, hend, bind, Except.bind, pure, Except.pure]
    | some e =>
      obtain ⟨h1, h2⟩ := hstop e hst
      cases hcfg : f.cfg <;> cases hd : f.description <;> cases ha : f.access <;>
      simp only [rOpt, List.nil_append, List.cons_append, List.append_nil, List.foldlM_cons, List.foldlM_nil, hcfg, hd, ha, hst, hcv] at hend ⊢ <;>
      simp [manFieldStep, asStringV, manAccess_render, manBase_render, hstart, hck, hend, h1, h2, bind, Except.bind, pure, Except.pure]
  | some c =>
    have hcr := manConversion_render syn c (hc c hcv) ""
    have hno := hconv c hcv
    rcases convKey_cases syn c with ⟨hk, ht⟩ | ⟨hk, ht⟩
    · rw [ht] at hcr
      cases hst : f.stop with
      | none =>
        cases hcfg : f.cfg <;> cases hd : f.description <;> cases ha : f.access <;>
        simp only [rOpt, List.nil_append, List.cons_append, List.append_nil, List.foldlM_cons, List.foldlM_nil, hcfg, hd, ha, hst, hcv] at hend ⊢ <;>
        (rw [show rConv syn c = ("conversion", (rConv syn c).2) from by rw [← hk]]) <;>
        simp [manFieldStep, asStringV, manAccess_render, manBase_render, hstart, hck, hend, hcr, bind, Except.bind, pure, Except.pure] <;>
        cases c <;> rfl
      | some e =>
        obtain ⟨h1, h2⟩ := hstop e hst
        cases hcfg : f.cfg <;> cases hd : f.description <;> cases ha : f.access <;>
        simp only [rOpt, List.nil_append, List.cons_append, List.append_nil, List.foldlM_cons, List.foldlM_nil, hcfg, hd, ha, hst, hcv] at hend ⊢ <;>
        (rw [show rConv syn c = ("conversion", (rConv syn c).2) from by rw [← hk]]) <;>
        simp [manFieldStep, asStringV, manAccess_render, manBase_render, hstart, hck, hend, h1, h2, hcr, bind, Except.bind, pure, Except.pure] <;>
        cases c <;> rfl
    · rw [ht] at hcr
      have hno' := hno hk
      cases hst : f.stop with
      | none =>
        cases hcfg : f.cfg <;> cases hd : f.description <;> cases ha : f.access <;>
        simp only [rOpt, List.nil_append, List.cons_append, List.append_nil, List.foldlM_cons, List.foldlM_nil, hcfg, hd, ha, hst, hcv] at hend ⊢ <;>
        (rw [show rConv syn c = ("try_conversion", (rConv syn c).2) from by rw [← hk]]) <;>
        simp [manFieldStep, asStringV, manAccess_render, manBase_render, hstart, hck, hend, hcr, hno', bind, Except.bind, pure, Except.pure] <;>
        cases c <;> rfl
      | some e =>
        obtain ⟨h1, h2⟩ := hstop e hst
        cases hcfg : f.cfg <;> cases hd : f.description <;> cases ha : f.access <;>
        simp only [rOpt, List.nil_append, List.cons_append, List.append_nil, List.foldlM_cons, List.foldlM_nil, hcfg, hd, ha, hst, hcv] at hend ⊢ <;>
        (rw [show rConv syn c = ("try_conversion", (rConv syn c).2) from by rw [← hk]]) <;>
        simp [manFieldStep, asStringV, manAccess_render, manBase_render, hstart, hck, hend, h1, h2, hcr, hno', bind, Except.bind, pure, Except.pure] <;>
        cases c <;> rfl

end DDV.Gen

namespace DDV.Gen
set_option linter.unusedSimpArgs false
set_option linter.unusedVariables false

/-- **A rendered field is read back as the abstract lowering says.** -/
theorem manField_render (syn : Syntax) (g : GlobalConfig) (f : AField) (h : FieldOk f) :
    manFieldV syn g (rField syn f).1 (rField syn f).2 = manField g f := by
  rw [rField_eq]
  unfold manFieldV
  simp only [asMapV, bind, Except.bind, pure, Except.pure]
  obtain ⟨hb1, hb2⟩ := mhas_field_base_start syn f
  simp only [hb1, hb2, Bool.not_true, Bool.false_eq_true, if_false]
  unfold manFieldKeys
  exact manFieldKeys_render syn g f h (fieldKvs syn f) (mhas_field_end syn f)
    (fun c hc hk => mhas_conv_none syn f c true hc hk)

theorem manFields_render (syn : Syntax) (g : GlobalConfig) : ∀ (fs : List AField), (∀ f ∈ fs, FieldOk f) →
    manFieldsV syn g (rFields syn fs) = fs.mapM (manField g) := by
  intro fs h
  unfold manFieldsV rFields
  simp only [asMapV, bind, Except.bind, pure, Except.pure]
  induction fs with
  | nil => rfl
  | cons f fs ih =>
    have hf := manField_render syn g f (h f (by simp))
    have ih' := ih (fun x hx => h x (by simp [hx]))
    simp only [List.map_cons, List.mapM_cons, hf, ih', bind, Except.bind]

end DDV.Gen

namespace DDV.Gen
open DDV.Bits (ByteOrder BitOrder)
set_option linter.unusedSimpArgs false
set_option linter.unusedVariables false

def RepeatOk (syn : Syntax) (r : Repeat) : Prop := r.count < 2 ^ 63 ∧ fitsI64 r.stride = true
def ResetOk (syn : Syntax) : ResetValue → Prop
  | .int n => n < 2 ^ 63
  | .array a => ∀ b ∈ a, b < 256

theorem manRepeat_render (syn : Syntax) (r : Repeat) (h : RepeatOk syn r) : manRepeatV syn (rRepeat r) = pure r := by
  obtain ⟨h1, h2⟩ := h
  have e1 := asUintV_nat syn r.count h1
  have e2 := asIntV_int syn r.stride h2
  simp [manRepeatV, rRepeat, asMapV, mget, List.find?_cons, e1, e2, bind, Except.bind, pure, Except.pure]

theorem checkRepeat_ok (syn : Syntax) (r : Option Repeat) (h : ∀ x, r = some x → RepeatOk syn x) : checkRepeat r = pure r := by
  cases r with
  | none => rfl
  | some x =>
    obtain ⟨h1, h2⟩ := h x rfl
    have : fitsU64 x.count = true := by simp [fitsU64]; omega
    simp [checkRepeat, this, h2]

theorem mapM_bytes (syn : Syntax) : ∀ (a : List Nat), (∀ b ∈ a, b < 256) →
    (a.map fun (b : Nat) => MVal.int (b : Int)).mapM (manByteV syn) = pure a := by
  intro a
  induction a with
  | nil => intro _; rfl
  | cons b bs ih =>
    intro h
    have hb : b < 256 := h b (by simp)
    have e : manByteV syn (MVal.int (b : Int)) = pure b := by
      simp [manByteV, asUintV_nat syn b (by omega), bind, Except.bind, pure, Except.pure, hb]
    have ih' := ih (fun x hx => h x (by simp [hx]))
    simp only [List.map_cons, List.mapM_cons, e, ih', bind, Except.bind, pure, Except.pure]

theorem manReset_render (syn : Syntax) (r : ResetValue) (h : ResetOk syn r) : manResetV syn (rReset r) = pure r := by
  cases r with
  | int n =>
    have e := asUintV_nat syn n h
    simp [manResetV, rReset, e, pure, Except.pure]
  | array a =>
    have e := mapM_bytes syn a h
    have e0 : asUintV syn (MVal.arr (a.map fun (b : Nat) => MVal.int (b : Int))) = .error badValue := by
      cases syn <;> simp [asUintV, throw, throwThe, MonadExceptOf.throw]
    simp only [manResetV, rReset, e0]
    simp only [e, bind, Except.bind, pure, Except.pure]

theorem manReset_abs (syn : Syntax) (r : Option ResetValue) (h : ∀ x, r = some x → ResetOk syn x) : manReset syn r = pure r := by
  cases r with
  | none => rfl
  | some x =>
    cases x with
    | int n =>
      have h1 : n < 2 ^ 63 := h _ rfl
      have : manUintOk syn n = true := by cases syn <;> simp [manUintOk, fitsU64] <;> omega
      simp [manReset, this]
    | array a =>
      have h1 : ∀ b ∈ a, b < 256 := h _ rfl
      have : a.all (· < 256) = true := by simp [List.all_eq_true]; exact h1
      simp [manReset, this]

theorem checkAddr_ok (a : Int) (h : fitsI64 a = true) : checkAddr a = pure a := by simp [checkAddr, h]
theorem checkU32_ok (n : Nat) (h : n < 2 ^ 32) : checkU32 n = pure n := by
  have : n < 4294967296 := by omega
  simp [checkU32, fitsU32, pure, Except.pure, this]

theorem manByteOrder_render (b : ByteOrder) : manByteOrderV (rByteOrder b) = pure b := by
  cases b <;> simp [manByteOrderV, rByteOrder, asStringV, bind, Except.bind, pure, Except.pure]
theorem manBitOrder_render (b : BitOrder) : manBitOrderV (rBitOrder b) = pure b := by
  cases b <;> simp [manBitOrderV, rBitOrder, asStringV, bind, Except.bind, pure, Except.pure]
theorem manInteger_render (b : Integer) : manIntegerV (rInteger b) = pure b := by
  cases b <;> simp [manIntegerV, rInteger, asStringV, bind, Except.bind, pure, Except.pure]

/-- **A rendered buffer is read back as the abstract lowering says.** -/
theorem manBuffer_render (syn : Syntax) (g : GlobalConfig) (c : ACommon) (access : Option Access) (address : Int)
    (h : fitsI64 address = true) :
    manBuffer syn g c.name (bufferKvs c access address) =
      (do let address ← checkAddr address
          pure ({ cfg := c.cfg, description := c.description.getD "", name := c.name,
                  access := access.getD g.defaultBufferAccess, address := address } : Buffer)) := by
  have e := asIntV_int syn address h
  rw [checkAddr_ok address h]
  unfold manBuffer bufferKvs rCommon manBufferKeys
  cases hc : c.cfg <;> cases hd : c.description <;> cases ha : access <;>
    simp [rOpt, mhas, mget, List.find?_cons, List.foldlM_cons, manBufferStep, asStringV, manAccess_render, rIntV, e,
      bind, Except.bind, pure, Except.pure]

end DDV.Gen

namespace DDV.Gen
open DDV.Bits (ByteOrder BitOrder)
set_option linter.unusedSimpArgs false
set_option linter.unusedVariables false

theorem foldlM_rOpt' {σ α : Type} (step : σ → String × MVal → M σ) (k : String) (o : Option α) (f : α → MVal)
    (rest : MKvs) (s s' : σ) (h : ∀ a, o = some a → step s (k, f a) = pure s') (h0 : o = none → s = s') :
    (rOpt k o f ++ rest).foldlM step s = rest.foldlM step s' := by
  cases o with
  | none => simp [rOpt, h0 rfl]
  | some a => simp [rOpt, List.foldlM_cons, h a rfl]

/-- the register under construction after the first `n` keys of the rendered map have been read -/
def regState (g : GlobalConfig) (c : ACommon) (access : Option Access) (bo : Option ByteOrder) (bito : Option BitOrder)
    (address : Int) (size : Nat) (reset : Option ResetValue) (rep : Option Repeat) (abo aao : Option Bool)
    (fs : List Field) (n : Nat) : Register :=
  { cfg := if n ≥ 1 then c.cfg else none,
    description := if n ≥ 2 then c.description.getD "" else "",
    name := c.name,
    access := if n ≥ 3 then access.getD g.defaultRegisterAccess else g.defaultRegisterAccess,
    byteOrder := if n ≥ 4 then bo else none,
    bitOrder := if n ≥ 5 then bito.getD g.defaultBitOrder else g.defaultBitOrder,
    address := if n ≥ 6 then address else 0,
    sizeBits := if n ≥ 7 then size else 0,
    reset := if n ≥ 8 then reset else none,
    repeat_ := if n ≥ 9 then rep else none,
    allowBitOverlap := if n ≥ 10 then abo.getD false else false,
    allowAddressOverlap := if n ≥ 11 then aao.getD false else false,
    fields := if n ≥ 12 then fs else [] }

/-- **A rendered register is read back as the abstract lowering says** (numbers within range). -/
theorem manRegister_render (syn : Syntax) (g : GlobalConfig) (c : ACommon) (access : Option Access)
    (bo : Option ByteOrder) (bito : Option BitOrder) (address : Int) (size : Nat) (reset : Option ResetValue)
    (rep : Option Repeat) (abo aao : Option Bool) (fields : List AField) (fs : List Field)
    (ha : fitsI64 address = true) (hs : size < 2 ^ 32) (hr : ∀ x, reset = some x → ResetOk syn x)
    (hp : ∀ x, rep = some x → RepeatOk syn x) (hf : manFieldsV syn g (rFields syn fields) = pure fs) :
    manRegister syn g c.name (registerKvs syn c access bo bito address size reset rep abo aao fields) =
      pure (regState g c access bo bito address size reset rep abo aao fs 12) := by
  have e1 := asIntV_int syn address ha
  have e2 := asU32V_nat syn size hs
  have hmem : mhas (registerKvs syn c access bo bito address size reset rep abo aao fields) "address" = true ∧
      mhas (registerKvs syn c access bo bito address size reset rep abo aao fields) "size_bits" = true := by
    unfold mhas registerKvs rCommon
    simp only [List.append_assoc, List.cons_append, List.nil_append]
    refine ⟨?_, ?_⟩
    · rw [mget_cons_ne _ _ _ _ (show "type" ≠ "address" by decide), mget_rOpt_ne _ _ _ _ _ (show "cfg" ≠ "address" by decide),
        mget_rOpt_ne _ _ _ _ _ (show "description" ≠ "address" by decide), mget_rOpt_ne _ _ _ _ _ (show "access" ≠ "address" by decide),
        mget_rOpt_ne _ _ _ _ _ (show "byte_order" ≠ "address" by decide), mget_rOpt_ne _ _ _ _ _ (show "bit_order" ≠ "address" by decide),
        mget_cons_eq]
      rfl
    · rw [mget_cons_ne _ _ _ _ (show "type" ≠ "size_bits" by decide), mget_rOpt_ne _ _ _ _ _ (show "cfg" ≠ "size_bits" by decide),
        mget_rOpt_ne _ _ _ _ _ (show "description" ≠ "size_bits" by decide), mget_rOpt_ne _ _ _ _ _ (show "access" ≠ "size_bits" by decide),
        mget_rOpt_ne _ _ _ _ _ (show "byte_order" ≠ "size_bits" by decide), mget_rOpt_ne _ _ _ _ _ (show "bit_order" ≠ "size_bits" by decide),
        mget_cons_ne _ _ _ _ (show "address" ≠ "size_bits" by decide), mget_cons_eq]
      rfl
  unfold manRegister
  simp only [hmem.1, hmem.2, Bool.not_true, Bool.false_eq_true, if_false, bind, Except.bind, pure, Except.pure]
  unfold manRegisterKeys registerKvs rCommon
  simp only [List.append_assoc, List.cons_append, List.nil_append]
  let S := regState g c access bo bito address size reset rep abo aao fs
  change List.foldlM _ (S 0) _ = _
  rw [foldlM_one _ _ (S 0) _ _ (by simp [manRegisterStep, pure, Except.pure])]
  rw [foldlM_rOpt' _ "cfg" c.cfg .str _ (S 0) (S 1) (by intro a h; simp [S, regState, manRegisterStep, asStringV, h, bind, Except.bind, pure, Except.pure])
    (by intro h; simp [S, regState, h])]
  rw [foldlM_rOpt' _ "description" c.description .str _ (S 1) (S 2) (by intro a h; simp [S, regState, manRegisterStep, asStringV, h, bind, Except.bind, pure, Except.pure])
    (by intro h; simp [S, regState, h])]
  rw [foldlM_rOpt' _ "access" access rAccess _ (S 2) (S 3) (by intro a h; simp [S, regState, manRegisterStep, manAccess_render, h, bind, Except.bind, pure, Except.pure])
    (by intro h; simp [S, regState, h])]
  rw [foldlM_rOpt' _ "byte_order" bo rByteOrder _ (S 3) (S 4) (by intro a h; simp [S, regState, manRegisterStep, manByteOrder_render, h, bind, Except.bind, pure, Except.pure])
    (by intro h; simp [S, regState, h])]
  rw [foldlM_rOpt' _ "bit_order" bito rBitOrder _ (S 4) (S 5) (by intro a h; simp [S, regState, manRegisterStep, manBitOrder_render, h, bind, Except.bind, pure, Except.pure])
    (by intro h; simp [S, regState, h])]
  rw [foldlM_one _ _ (S 6) _ _ (by simp [S, regState, manRegisterStep, rIntV, e1, bind, Except.bind, pure, Except.pure])]
  rw [foldlM_one _ _ (S 7) _ _ (by simp [S, regState, manRegisterStep, e2, bind, Except.bind, pure, Except.pure])]
  rw [foldlM_rOpt' _ "reset_value" reset rReset _ (S 7) (S 8) (by intro a h; simp [S, regState, manRegisterStep, manReset_render syn a (hr a h), h, bind, Except.bind, pure, Except.pure])
    (by intro h; simp [S, regState, h])]
  rw [foldlM_rOpt' _ "repeat" rep rRepeat _ (S 8) (S 9) (by intro a h; simp [S, regState, manRegisterStep, manRepeat_render syn a (hp a h), h, bind, Except.bind, pure, Except.pure])
    (by intro h; simp [S, regState, h])]
  rw [foldlM_rOpt' _ "allow_bit_overlap" abo rBool _ (S 9) (S 10) (by intro a h; simp [S, regState, manRegisterStep, asBoolV, rBool, h, bind, Except.bind, pure, Except.pure])
    (by intro h; simp [S, regState, h])]
  rw [foldlM_rOpt' _ "allow_address_overlap" aao rBool _ (S 10) (S 11) (by intro a h; simp [S, regState, manRegisterStep, asBoolV, rBool, h, bind, Except.bind, pure, Except.pure])
    (by intro h; simp [S, regState, h])]
  rw [foldlM_one _ _ (S 12) _ _ (by simp [S, regState, manRegisterStep, hf, bind, Except.bind, pure, Except.pure])]
  rfl

end DDV.Gen

namespace DDV.Gen
set_option linter.unusedSimpArgs false
set_option linter.unusedVariables false

/-- If a step function only succeeds on known keys, a successful loop saw only known keys. -/
theorem foldlM_keys_known {σ : Type} (step : σ → String × MVal → M σ) (known : List String)
    (h : ∀ s kv s', step s kv = .ok s' → kv.1 ∈ known) :
    ∀ (kvs : MKvs) (s s' : σ), kvs.foldlM step s = .ok s' → ∀ p ∈ kvs, p.1 ∈ known := by
  intro kvs
  induction kvs with
  | nil => intro s s' _ p hp; cases hp
  | cons kv rest ih =>
    intro s s' hf p hp
    rw [List.foldlM_cons] at hf
    cases hs : step s kv with
    | error e => rw [hs] at hf; simp [bind, Except.bind] at hf
    | ok s1 =>
      rw [hs] at hf
      simp only [bind, Except.bind] at hf
      rcases List.mem_cons.1 hp with rfl | hp'
      · exact h s p s1 hs
      · exact ih s1 s' hf p hp'

def registerKeys : List String :=
  ["type", "cfg", "description", "access", "byte_order", "bit_order", "address", "size_bits", "reset_value",
   "repeat", "allow_bit_overlap", "allow_address_overlap", "fields"]
def commandKeys : List String :=
  ["type", "cfg", "description", "byte_order", "bit_order", "address", "size_bits_in", "size_bits_out",
   "repeat", "allow_bit_overlap", "allow_address_overlap", "fields_in", "fields_out"]
def bufferKeys : List String := ["type", "cfg", "description", "access", "address"]
def fieldKeys : List String := ["cfg", "description", "access", "base", "conversion", "try_conversion", "start", "end"]
def configKeys : List String :=
  ["default_register_access", "default_field_access", "default_buffer_access", "default_byte_order", "default_bit_order",
   "register_address_type", "command_address_type", "buffer_address_type", "name_word_boundaries", "defmt_feature"]

theorem registerStep_known (syn : Syntax) (g : GlobalConfig) (s : Register) (kv : String × MVal) (s' : Register)
    (h : manRegisterStep syn g s kv = .ok s') : kv.1 ∈ registerKeys := by
  unfold manRegisterStep at h
  simp only at h
  split at h <;> first | (simp [registerKeys, *]; done) | (simp [unexpectedKey, throw, throwThe, MonadExceptOf.throw] at h)

theorem commandStep_known (syn : Syntax) (g : GlobalConfig) (s : Command) (kv : String × MVal) (s' : Command)
    (h : manCommandStep syn g s kv = .ok s') : kv.1 ∈ commandKeys := by
  unfold manCommandStep at h
  simp only at h
  split at h <;> first | (simp [commandKeys, *]; done) | (simp [unexpectedKey, throw, throwThe, MonadExceptOf.throw] at h)

theorem bufferStep_known (syn : Syntax) (s : Buffer) (kv : String × MVal) (s' : Buffer)
    (h : manBufferStep syn s kv = .ok s') : kv.1 ∈ bufferKeys := by
  unfold manBufferStep at h
  simp only at h
  split at h <;> first | (simp [bufferKeys, *]; done) | (simp [unexpectedKey, throw, throwThe, MonadExceptOf.throw] at h)

theorem fieldStep_known (syn : Syntax) (all : MKvs) (s : Field) (kv : String × MVal) (s' : Field)
    (h : manFieldStep syn all s kv = .ok s') : kv.1 ∈ fieldKeys := by
  unfold manFieldStep at h
  simp only at h
  split at h <;> first | (simp [fieldKeys, *]; done) | (simp [unexpectedKey, throw, throwThe, MonadExceptOf.throw] at h)

theorem configStep_known (s : GlobalConfig) (kv : String × MVal) (s' : GlobalConfig)
    (h : manConfigStep s kv = .ok s') : kv.1 ∈ configKeys := by
  unfold manConfigStep at h
  simp only at h
  split at h <;> first | (simp [configKeys, *]; done) | (simp [unexpectedKey, throw, throwThe, MonadExceptOf.throw] at h)

end DDV.Gen
