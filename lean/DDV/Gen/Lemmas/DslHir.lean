/-
  Helper lemmas for `DDV.Props.C16Hir`: the lowering `hirTransform` (model of `dsl_hir/mir_transform.rs`) on the
  rendered DSL tree of an abstract definition, piece by piece (literals, attributes, `find_map` over rendered item
  lists, fields, each object kind, ref overrides, global config). The two lowerings check things in different
  orders; every check fails, if it fails, with the same error, which is what the `_cases` lemmas record.
-/
import DDV.Gen.DslRender
import DDV.Gen.Lemmas.FrontCases
set_option linter.unusedSimpArgs false
set_option linter.unusedVariables false
namespace DDV.Gen.HirLemmas
open DDV.Gen DDV.Gen.Dsl DDV.Gen.FrontCases

theorem toInt_hLit (n : Int) : (hLit n).toInt = n := by
  unfold hLit HLit.toInt
  by_cases h : n < 0 <;> simp [h] <;> omega

theorem toInt_hNat (n : Nat) : (hNat n).toInt = n := by
  simp [hNat, HLit.toInt]

theorem litI64_hLit (n : Int) : litI64 (hLit n) = checkAddr n := by
  simp [litI64, checkAddr, toInt_hLit]

theorem litU32_hNat (n : Nat) : litU32 (hNat n) = checkU32 n := by
  simp [litU32, checkU32, hNat]

theorem isEmpty_eq (s : String) (h : s.isEmpty = true) : s = "" := by
  exact String.isEmpty_iff.mp h

theorem hirCfg_rAttrs (cfg descr : Option String) : hirCfg (rAttrs cfg descr) = pure cfg := by
  cases cfg <;> cases descr <;> simp [hirCfg, rAttrs, optItem]

theorem hirDescr_rAttrs (cfg descr : Option String) :
    (hirDescription (rAttrs cfg descr)).getD "" = descr.getD "" := by
  cases cfg <;> cases descr <;> simp [hirDescription, rAttrs, optItem, joinLines]
  all_goals (split <;> simp_all)

theorem litU64_hNat (n : Nat) : litU64 (hNat n) = (if fitsU64 n then pure n else throw (frontErr "front_bad_value")) := by
  simp [litU64, hNat]

theorem hirRepeat_rRepeat (rep : Option Repeat) :
    (rep.map rRepeat).mapM hirRepeat = checkRepeat rep := by
  cases rep with
  | none => rfl
  | some r =>
    simp only [Option.map_some, Option.mapM_some, hirRepeat, rRepeat, litU64_hNat, litI64_hLit, checkAddr, checkRepeat]
    by_cases h1 : fitsU64 r.count = true <;> by_cases h2 : fitsI64 r.stride = true <;>
      simp [h1, h2, bind, Except.bind, pure, Except.pure, throw, throwThe, MonadExceptOf.throw, Functor.map, Except.map]

theorem litReset_hNat (n : Nat) :
    litReset (hNat n) = (if n < 2 ^ 128 then pure n else throw (frontErr "front_bad_value")) := by
  unfold litReset
  have ht := toInt_hNat n
  have hn : (hNat n).neg = false := rfl
  have hm : (hNat n).mag = n := rfl
  simp only [ht, hn, hm, fitsI128]
  by_cases h1 : (n : Int) < 2 ^ 127
  · have : n < 2 ^ 128 := by omega
    have h0 : ¬ ((n : Int) < 0) := by omega
    have hl : -(2 ^ 127 : Int) ≤ (n : Int) := by omega
    simp [h1, this, h0, hl]
  · have h1' : ¬ ((n : Int) < 170141183460469231731687303715884105728) := by omega
    by_cases h2 : n < 2 ^ 128
    · simp [h1', h2]
    · simp [h1', h2]

/-- What the DSL grammar can hand to the lowering at all: reset arrays are bytes (`Vec<u8>`). The bound on
    enum numbers is the range of the `i128` the lowering parses them into. -/
def VariantOk (v : AVariant) : Prop :=
  match v.value with
  | .specified n => fitsI128 n = true
  | _ => True

theorem hirVariant_rVariant (v : AVariant) (h : VariantOk v) : hirVariant (rVariant v) = pure (lowerVariant v) := by
  unfold hirVariant rVariant lowerVariant
  simp only [hirCfg_rAttrs, hirDescr_rAttrs]
  unfold VariantOk at h
  cases hv : v.value <;> simp [hv, litI128, toInt_hLit, bind, Except.bind, pure, Except.pure] <;> simp_all

theorem C16h.mapM_congr {α β : Type} (f g : α → M β) : ∀ (l : List α), (∀ x ∈ l, f x = g x) → l.mapM f = l.mapM g
  | [], _ => rfl
  | x :: xs, h => by
    rw [List.mapM_cons, List.mapM_cons, h x (List.mem_cons_self ..),
      C16h.mapM_congr f g xs (fun y hy => h y (List.mem_cons_of_mem _ hy))]

theorem mapM_pure_map {α β : Type} (f : α → M β) (g : α → β) :
    ∀ (l : List α), (∀ x ∈ l, f x = pure (g x)) → l.mapM f = pure (l.map g)
  | [], _ => rfl
  | x :: xs, h => by
    rw [List.mapM_cons, h x (List.mem_cons_self ..), mapM_pure_map f g xs (fun y hy => h y (List.mem_cons_of_mem _ hy))]
    rfl

def ConvOk : Option AConv → Prop
  | some (.enum e _) => ∀ v ∈ e.variants, VariantOk v
  | _ => True

def convOf (descr : String) : AConv → FieldConversion
  | .ty p t => .direct (stripWs p) t
  | .enum e t => .enum { cfg := none, description := descr, name := e.name, variants := e.variants.map lowerVariant } t

theorem hirConv_rConv (descr : String) (c : AConv) (h : ConvOk (some c)) :
    hirConv descr (rConv c) = pure (convOf descr c) := by
  cases c with
  | ty p t => rfl
  | «enum» e t =>
    simp only [rConv, hirConv, List.mapM_map]
    have := mapM_pure_map (fun v => hirVariant (rVariant v)) lowerVariant e.variants (fun v hv => hirVariant_rVariant v (h v hv))
    simp only [Function.comp_def] at *
    rw [this]; rfl

theorem hirField_rField (g : GlobalConfig) (f : AField) (h : ConvOk f.conv) : hirField g (rField f) = dslField g f := by
  have hconv : (f.conv.map rConv).mapM (hirConv (f.description.getD "")) = pure (f.conv.map (convOf (f.description.getD ""))) := by
    cases hc : f.conv with
    | none => rfl
    | some c =>
      rw [hc] at h
      simp only [Option.map_some, Option.mapM_some, hirConv_rConv _ c h]
      rfl
  have hmap : f.conv.map (convOf (f.description.getD "")) = f.conv.map (fun
      | .ty p t => FieldConversion.direct (stripWs p) t
      | .enum e t => .enum { cfg := none, description := f.description.getD "", name := e.name,
                             variants := e.variants.map lowerVariant } t) := by
    cases f.conv with
    | none => rfl
    | some c => cases c <;> rfl
  unfold hirField dslField rField
  simp only [hirCfg_rAttrs, hirDescr_rAttrs, hconv, hmap]
  cases hs : f.stop with
  | none =>
    simp only [litU32_hNat]
    cases hb : (f.base == BaseType.bool) <;> cases checkU32 f.start <;> rfl
  | some e =>
    simp only [litU32_hNat]
    cases checkU32 f.start <;> cases checkU32 e <;> rfl

/-! ### `find_map` over a rendered item list -/

theorem findSome?_optItem_append {α β γ : Type} (o : Option α) (f : α → β) (p : β → Option γ) (l : List β) :
    (optItem o f ++ l).findSome? p = (o.bind (fun a => p (f a))).or (l.findSome? p) := by
  cases o with
  | none => simp [optItem]
  | some a =>
    simp only [optItem, List.singleton_append, List.findSome?_cons, Option.bind_some]
    cases p (f a) <;> simp

theorem findSome?_optItem {α β γ : Type} (o : Option α) (f : α → β) (p : β → Option γ) :
    (optItem o f).findSome? p = o.bind (fun a => p (f a)) := by
  cases o with
  | none => simp [optItem]
  | some a =>
    simp only [optItem, List.findSome?_cons, Option.bind_some, List.findSome?_nil]
    cases p (f a) <;> simp

theorem bind_fun_none {α β : Type} (o : Option α) : o.bind (fun _ => (none : Option β)) = none := by
  cases o <;> rfl
theorem bind_fun_some {α : Type} (o : Option α) : o.bind (fun a => some a) = o := by
  cases o <;> rfl

theorem blockOffset_render (off : Option Int) (rep : Option Repeat) :
    hirBlockOffset (rBlockItems off rep) = off.mapM checkAddr := by
  unfold hirBlockOffset findLit rBlockItems
  simp only [findSome?_optItem_append, findSome?_optItem, HBlockItem.offset?, bind_fun_none, bind_fun_some, Option.or_none]
  cases off <;> simp [litI64_hLit]

theorem blockRepeat_render (off : Option Int) (rep : Option Repeat) :
    hirBlockRepeat (rBlockItems off rep) = checkRepeat rep := by
  unfold hirBlockRepeat rBlockItems
  simp only [findSome?_optItem_append, findSome?_optItem, HBlockItem.repeat?, bind_fun_none, Option.none_or]
  rw [← hirRepeat_rRepeat]
  cases rep <;> rfl

theorem findSome?_cons_none {β γ : Type} (b : β) (p : β → Option γ) (l : List β) (h : p b = none) :
    (b :: l).findSome? p = l.findSome? p := by
  simp [List.findSome?_cons, h]

theorem resetItem_sel {γ : Type} (p : HRegItem → Option γ) (reset : Option ResetValue) (l : List HRegItem)
    (h1 : ∀ x, p (.resetInt x) = none) (h2 : ∀ x, p (.resetArray x) = none) :
    (rResetItem reset ++ l).findSome? p = l.findSome? p := by
  cases reset with
  | none => rfl
  | some rv => cases rv <;> simp [rResetItem, List.findSome?_cons, h1, h2]

section RegItems
variable (access : Option Access) (bo : Option DDV.Bits.ByteOrder) (bito : Option DDV.Bits.BitOrder) (address : Int)
    (size : Nat) (reset : Option ResetValue) (rep : Option Repeat) (abo aao : Option Bool)

macro "sel_simp" : tactic => `(tactic| (
  simp only [List.append_assoc, findSome?_optItem_append, findSome?_optItem, bind_fun_none, bind_fun_some,
    Option.none_or, List.cons_append, List.nil_append, List.findSome?_cons, List.findSome?_nil, Option.or_none,
    Option.or_some, Option.some_or,
    HRegItem.access?, HRegItem.byteOrder?, HRegItem.bitOrder?, HRegItem.address?, HRegItem.sizeBits?,
    HRegItem.repeat?, HRegItem.allowBitOverlap?, HRegItem.allowAddressOverlap?,
    HCmdItem.byteOrder?, HCmdItem.bitOrder?, HCmdItem.address?, HCmdItem.sizeBitsIn?, HCmdItem.sizeBitsOut?,
    HCmdItem.repeat?, HCmdItem.allowBitOverlap?, HCmdItem.allowAddressOverlap?]))

theorem reg_access : (rRegItems access bo bito address size reset rep abo aao).findSome? HRegItem.access? = access := by
  unfold rRegItems; sel_simp; rw [resetItem_sel _ _ _ (fun _ => rfl) (fun _ => rfl)]; sel_simp
theorem reg_byteOrder : (rRegItems access bo bito address size reset rep abo aao).findSome? HRegItem.byteOrder? = bo := by
  unfold rRegItems; sel_simp; rw [resetItem_sel _ _ _ (fun _ => rfl) (fun _ => rfl)]; sel_simp
theorem reg_bitOrder : (rRegItems access bo bito address size reset rep abo aao).findSome? HRegItem.bitOrder? = bito := by
  unfold rRegItems; sel_simp; rw [resetItem_sel _ _ _ (fun _ => rfl) (fun _ => rfl)]; sel_simp
theorem reg_address : (rRegItems access bo bito address size reset rep abo aao).findSome? HRegItem.address? = some (hLit address) := by
  unfold rRegItems; sel_simp; rfl
theorem reg_sizeBits : (rRegItems access bo bito address size reset rep abo aao).findSome? HRegItem.sizeBits? = some (hNat size) := by
  unfold rRegItems; sel_simp; rfl
theorem reg_repeat : (rRegItems access bo bito address size reset rep abo aao).findSome? HRegItem.repeat? = rep.map rRepeat := by
  unfold rRegItems; sel_simp; rw [resetItem_sel _ _ _ (fun _ => rfl) (fun _ => rfl)]; sel_simp
  cases rep <;> rfl
theorem reg_abo : (rRegItems access bo bito address size reset rep abo aao).findSome? HRegItem.allowBitOverlap? = abo := by
  unfold rRegItems; sel_simp; rw [resetItem_sel _ _ _ (fun _ => rfl) (fun _ => rfl)]; sel_simp
theorem reg_aao : (rRegItems access bo bito address size reset rep abo aao).findSome? HRegItem.allowAddressOverlap? = aao := by
  unfold rRegItems; sel_simp; rw [resetItem_sel _ _ _ (fun _ => rfl) (fun _ => rfl)]; sel_simp


def ResetOk : Option ResetValue → Prop
  | some (.array a) => a.all (· < 256) = true
  | _ => True

theorem reg_reset (h : ResetOk reset) :
    hirFindReset (rRegItems access bo bito address size reset rep abo aao) = dslReset reset := by
  unfold hirFindReset rRegItems
  have hnone : ∀ {α : Type} (o : Option α) (f : α → HRegItem), (∀ a, hirResetOf (f a) = none) →
      ∀ l, (optItem o f ++ l).findSome? hirResetOf = l.findSome? hirResetOf := by
    intro α o f hf l
    cases o with
    | none => rfl
    | some a => simp [optItem, List.findSome?_cons, hf]
  simp only [List.append_assoc]
  rw [hnone _ _ (fun _ => rfl), hnone _ _ (fun _ => rfl), hnone _ _ (fun _ => rfl)]
  simp only [List.cons_append, List.nil_append, List.findSome?_cons, hirResetOf]
  cases reset with
  | none =>
    simp only [rResetItem, List.nil_append]
    rw [hnone _ _ (fun _ => rfl), hnone _ _ (fun _ => rfl)]
    cases aao <;> rfl
  | some rv =>
    cases rv with
    | int n =>
      simp only [rResetItem, List.cons_append, List.findSome?_cons, hirResetOf, litReset_hNat, dslReset]
      by_cases hn : n < 2 ^ 128 <;> simp [hn] <;> rfl
    | array a =>
      simp only [ResetOk] at h
      simp only [rResetItem, List.cons_append, List.findSome?_cons, hirResetOf, dslReset, h]
      rfl

end RegItems

def FieldOk (f : AField) : Prop := ConvOk f.conv

theorem fields_render (g : GlobalConfig) (fields : List AField) (h : ∀ f ∈ fields, FieldOk f) :
    (fields.map rField).mapM (hirField g) = fields.mapM (dslField g) := by
  rw [List.mapM_map]
  exact C16h.mapM_congr _ _ fields (fun f hf => hirField_rField g f (h f hf))

theorem register_render (g : GlobalConfig) (c : ACommon) (access : Option Access) (bo : Option DDV.Bits.ByteOrder)
    (bito : Option DDV.Bits.BitOrder) (address : Int) (size : Nat) (reset : Option ResetValue) (rep : Option Repeat)
    (abo aao : Option Bool) (fields : List AField) (hres : ResetOk reset) (hf : ∀ f ∈ fields, FieldOk f) :
    hirObj g (rObj (.register c access bo bito address size reset rep abo aao fields)) =
      dslObj g (.register c access bo bito address size reset rep abo aao fields) := by
  unfold rObj hirObj hirRegister dslObj
  simp only [hirCfg_rAttrs, hirDescr_rAttrs, reg_access, reg_byteOrder, reg_bitOrder, reg_abo, reg_aao, findLit,
    reg_address, reg_sizeBits, reg_reset _ _ _ _ _ _ _ _ _ hres, hirRegRepeat, reg_repeat, hirRepeat_rRepeat,
    fields_render g fields hf, Option.mapM_some, litI64_hLit, litU32_hNat]
  cases checkAddr address <;> cases checkU32 size <;> cases dslReset reset <;> cases checkRepeat rep <;>
    cases fields.mapM (dslField g) <;> rfl

section CmdItems
variable (address : Int) (bo : Option DDV.Bits.ByteOrder) (bito : Option DDV.Bits.BitOrder) (si so : Option Nat)
    (rep : Option Repeat) (abo aao : Option Bool)

theorem cmd_address : (rCmdItems address bo bito si so rep abo aao).findSome? HCmdItem.address? = some (hLit address) := by
  unfold rCmdItems; sel_simp
theorem cmd_byteOrder : (rCmdItems address bo bito si so rep abo aao).findSome? HCmdItem.byteOrder? = bo := by
  unfold rCmdItems; sel_simp
theorem cmd_bitOrder : (rCmdItems address bo bito si so rep abo aao).findSome? HCmdItem.bitOrder? = bito := by
  unfold rCmdItems; sel_simp
theorem cmd_si : (rCmdItems address bo bito si so rep abo aao).findSome? HCmdItem.sizeBitsIn? = si.map hNat := by
  unfold rCmdItems; sel_simp; cases si <;> rfl
theorem cmd_so : (rCmdItems address bo bito si so rep abo aao).findSome? HCmdItem.sizeBitsOut? = so.map hNat := by
  unfold rCmdItems; sel_simp; cases so <;> rfl
theorem cmd_repeat : (rCmdItems address bo bito si so rep abo aao).findSome? HCmdItem.repeat? = rep.map rRepeat := by
  unfold rCmdItems; sel_simp; cases rep <;> rfl
theorem cmd_abo : (rCmdItems address bo bito si so rep abo aao).findSome? HCmdItem.allowBitOverlap? = abo := by
  unfold rCmdItems; sel_simp
theorem cmd_aao : (rCmdItems address bo bito si so rep abo aao).findSome? HCmdItem.allowAddressOverlap? = aao := by
  unfold rCmdItems; sel_simp
end CmdItems

theorem optFields_render (g : GlobalConfig) (fs : Option (List AField)) (h : ∀ f ∈ fs.getD [], FieldOk f) :
    ((fs.map (·.map rField)).getD []).mapM (hirField g) = (fs.getD []).mapM (dslField g) := by
  cases fs with
  | none => rfl
  | some l => exact fields_render g l h

theorem command_render (g : GlobalConfig) (c : ACommon) (basic : Bool) (address : Int) (bo : Option DDV.Bits.ByteOrder)
    (bito : Option DDV.Bits.BitOrder) (si so : Option Nat) (rep : Option Repeat) (abo aao : Option Bool)
    (fin fout : Option (List AField)) (hi : ∀ f ∈ fin.getD [], FieldOk f) (ho : ∀ f ∈ fout.getD [], FieldOk f) :
    hirObj g (rObj (.command c basic address bo bito si so rep abo aao fin fout)) =
      dslObj g (.command c basic address bo bito si so rep abo aao fin fout) := by
  cases basic with
  | true =>
    unfold rObj hirObj hirCommand dslObj
    rcases checkAddr_cases address with h1 | h1 <;>
      simp [h1, hirCfg_rAttrs, hirDescr_rAttrs, litI64_hLit, bind, Except.bind, pure, Except.pure, Functor.map, Except.map]
  | false =>
    unfold rObj hirObj hirCommand dslObj
    have h0 : checkU32 0 = Except.ok 0 := rfl
    cases si <;> cases so <;>
      cases h1 : checkAddr address <;> cases h4 : checkRepeat rep <;>
      cases h5 : (fin.getD []).mapM (dslField g) <;> cases h6 : (fout.getD []).mapM (dslField g) <;>
      simp [hirCfg_rAttrs, hirDescr_rAttrs, cmd_address, cmd_byteOrder, cmd_bitOrder, cmd_abo,
        cmd_aao, cmd_si, cmd_so, hirCmdRepeat, cmd_repeat, hirRepeat_rRepeat, litI64_hLit, litU32_hNat,
        optFields_render g _ hi, optFields_render g _ ho, h0, h1, h4, h5, h6, bind, Except.bind, pure, Except.pure,
        Functor.map, Except.map] <;>
      (try (generalize checkU32 _ = x; cases x <;> try simp)) <;>
      (try (generalize checkU32 _ = y; cases y <;> try simp))

theorem buffer_render (g : GlobalConfig) (c : ACommon) (access : Option Access) (address : Int) :
    hirObj g (rObj (.buffer c access address)) = dslObj g (.buffer c access address) := by
  unfold rObj hirObj hirBuffer dslObj
  simp only [hirCfg_rAttrs, hirDescr_rAttrs, litI64_hLit]
  rcases checkAddr_cases address with h1 | h1 <;>
    simp [h1, bind, Except.bind, pure, Except.pure, Functor.map, Except.map]

/-! ### Ref overrides -/

theorem ovreg_access (ov : AOverride) : (rOvRegItems ov).findSome? HRegItem.access? = ov.access := by
  unfold rOvRegItems; sel_simp; rw [resetItem_sel _ _ _ (fun _ => rfl) (fun _ => rfl)]; sel_simp
theorem ovreg_address (ov : AOverride) : (rOvRegItems ov).findSome? HRegItem.address? = ov.address.map hLit := by
  unfold rOvRegItems; sel_simp; rw [resetItem_sel _ _ _ (fun _ => rfl) (fun _ => rfl)]; sel_simp
  cases ov.address <;> rfl
theorem ovreg_aao (ov : AOverride) : (rOvRegItems ov).findSome? HRegItem.allowAddressOverlap? = ov.allowAddressOverlap := by
  unfold rOvRegItems; sel_simp; rw [resetItem_sel _ _ _ (fun _ => rfl) (fun _ => rfl)]; sel_simp
theorem ovreg_repeat (ov : AOverride) : (rOvRegItems ov).findSome? HRegItem.repeat? = ov.repeat_.map rRepeat := by
  unfold rOvRegItems; sel_simp; rw [resetItem_sel _ _ _ (fun _ => rfl) (fun _ => rfl)]; sel_simp
  cases ov.repeat_ <;> rfl
theorem ovreg_layout (ov : AOverride) : (rOvRegItems ov).any HRegItem.layout = false := by
  obtain ⟨kind, address, rep, access, reset, aao, illegal⟩ := ov
  unfold rOvRegItems
  cases access <;> cases address <;> cases rep <;> cases aao <;> cases reset <;>
    first | rfl | (rename_i rv; cases rv <;> rfl)
theorem ovreg_reset (ov : AOverride) (h : ResetOk ov.reset) : hirFindReset (rOvRegItems ov) = dslReset ov.reset := by
  unfold hirFindReset rOvRegItems
  have hnone : ∀ {α : Type} (o : Option α) (f : α → HRegItem), (∀ a, hirResetOf (f a) = none) →
      ∀ l, (optItem o f ++ l).findSome? hirResetOf = l.findSome? hirResetOf := by
    intro α o f hf l
    cases o with
    | none => rfl
    | some a => simp [optItem, List.findSome?_cons, hf]
  simp only [List.append_assoc]
  rw [hnone _ _ (fun _ => rfl), hnone _ _ (fun _ => rfl)]
  cases hr : ov.reset with
  | none =>
    simp only [rResetItem, List.nil_append]
    rw [hnone _ _ (fun _ => rfl)]
    cases ov.allowAddressOverlap <;> rfl
  | some rv =>
    cases rv with
    | int n =>
      simp only [rResetItem, List.cons_append, List.findSome?_cons, hirResetOf, litReset_hNat, dslReset]
      by_cases hn : n < 2 ^ 128 <;> simp [hn] <;> rfl
    | array a =>
      rw [hr] at h
      simp only [ResetOk] at h
      simp only [rResetItem, List.cons_append, List.findSome?_cons, hirResetOf, dslReset, h]
      rfl

theorem ovcmd_address (ov : AOverride) : (rOvCmdItems ov).findSome? HCmdItem.address? = ov.address.map hLit := by
  unfold rOvCmdItems; sel_simp; cases ov.address <;> rfl
theorem ovcmd_aao (ov : AOverride) : (rOvCmdItems ov).findSome? HCmdItem.allowAddressOverlap? = ov.allowAddressOverlap := by
  unfold rOvCmdItems; sel_simp
theorem ovcmd_repeat (ov : AOverride) : (rOvCmdItems ov).findSome? HCmdItem.repeat? = ov.repeat_.map rRepeat := by
  unfold rOvCmdItems; sel_simp; cases ov.repeat_ <;> rfl
theorem ovcmd_layout (ov : AOverride) : (rOvCmdItems ov).any HCmdItem.layout = false := by
  obtain ⟨kind, address, rep, access, reset, aao, illegal⟩ := ov
  unfold rOvCmdItems
  cases address <;> cases rep <;> cases aao <;> rfl

theorem optAddr_render (a : Option Int) : (a.map hLit).mapM litI64 = a.mapM checkAddr := by
  cases a <;> simp [litI64_hLit]

theorem optAddr_cases (a : Option Int) : a.mapM checkAddr = .ok a ∨ a.mapM checkAddr = .error bv := by
  cases a with
  | none => exact Or.inl rfl
  | some x => rcases checkAddr_cases x with h | h <;> simp [h, Functor.map, Except.map]

theorem ref_render (c : ACommon) (target : String) (ov : AOverride) (hi : ov.illegal = []) (hres : ResetOk ov.reset) :
    hirRef (rAttrs c.cfg c.description) c.name (rOverride target ov) =
      (do let ov' ← dslOverride target ov
          pure { cfg := c.cfg, description := c.description.getD "", name := c.name, override := ov' }) := by
  unfold hirRef dslOverride rOverride
  simp only [hirCfg_rAttrs, hirDescr_rAttrs, hi, List.isEmpty_nil, Bool.not_true, Bool.false_eq_true, if_false]
  by_cases hb : ov.kind = "block"
  · simp only [hb, hirBlockOverride, blockOffset_render, blockRepeat_render]
    rcases optAddr_cases ov.address with h1 | h1 <;> rcases checkRepeat_cases ov.repeat_ with h2 | h2 <;>
      simp [h1, h2, bind, Except.bind, pure, Except.pure]
  · by_cases hr : ov.kind = "register"
    · simp only [hr, hirRegisterOverride, ovreg_access, ovreg_address, ovreg_aao, ovreg_reset ov hres, hirRegRepeat,
        ovreg_repeat, ovreg_layout, hirRepeat_rRepeat, findLit, optAddr_render]
      rcases optAddr_cases ov.address with h1 | h1 <;> rcases checkRepeat_cases ov.repeat_ with h2 | h2 <;>
        rcases dslReset_cases ov.reset with h3 | h3 <;>
        simp [h1, h2, h3, bind, Except.bind, pure, Except.pure]
    · by_cases hc : ov.kind = "command"
      · simp only [hc, hirCommandOverride, ovcmd_address, ovcmd_aao, hirCmdRepeat, ovcmd_repeat, ovcmd_layout,
          hirRepeat_rRepeat, findLit, optAddr_render]
        rcases optAddr_cases ov.address with h1 | h1 <;> rcases checkRepeat_cases ov.repeat_ with h2 | h2 <;>
          simp [h1, h2, bind, Except.bind, pure, Except.pure]
      · by_cases hbu : ov.kind = "buffer"
        · simp [hbu, bind, Except.bind, throw, throwThe, MonadExceptOf.throw, pure, Except.pure]
        · split <;> first | contradiction | skip
          all_goals (rename_i hk; simp only [hk] at *)
          all_goals (first | (exfalso; simp_all; done) | skip)
          all_goals simp [bind, Except.bind, throw, throwThe, MonadExceptOf.throw, pure, Except.pure]

/-! ### Objects, config, device -/

def ObjOk : AObj → Prop
  | .block _ _ _ _ => True
  | .register _ _ _ _ _ _ reset _ _ _ fields => ResetOk reset ∧ ∀ f ∈ fields, FieldOk f
  | .command _ _ _ _ _ _ _ _ _ _ fin fout => (∀ f ∈ fin.getD [], FieldOk f) ∧ (∀ f ∈ fout.getD [], FieldOk f)
  | .buffer _ _ _ => True
  | .ref _ _ ov => ov.illegal = [] ∧ ResetOk ov.reset

mutual
def TreeOk : AObj → Prop
  | .block c off rep os => TreesOk os
  | o => ObjOk o
def TreesOk : List AObj → Prop
  | [] => True
  | o :: os => TreeOk o ∧ TreesOk os
end

mutual
theorem obj_render (g : GlobalConfig) : ∀ (o : AObj), TreeOk o → hirObj g (rObj o) = dslObj g o
  | .block c off rep os, h => by
    unfold TreeOk at h
    unfold rObj hirObj dslObj
    simp only [hirCfg_rAttrs, hirDescr_rAttrs, blockOffset_render, blockRepeat_render, objs_render g os h]
    rfl
  | .register c access bo bito address size reset rep abo aao fields, h => by
    simp only [TreeOk, ObjOk] at h
    exact register_render g c access bo bito address size reset rep abo aao fields h.1 h.2
  | .command c basic address bo bito si so rep abo aao fin fout, h => by
    simp only [TreeOk, ObjOk] at h
    exact command_render g c basic address bo bito si so rep abo aao fin fout h.1 h.2
  | .buffer c access address, _ => buffer_render g c access address
  | .ref c target ov, h => by
    simp only [TreeOk, ObjOk] at h
    unfold rObj hirObj dslObj
    rw [ref_render c target ov h.1 h.2]
    cases dslOverride target ov <;> rfl
theorem objs_render (g : GlobalConfig) : ∀ (os : List AObj), TreesOk os → hirObjs g (rObjs os) = dslObjs g os
  | [], _ => by unfold rObjs hirObjs dslObjs; rfl
  | o :: os, h => by
    unfold TreesOk at h
    unfold rObjs hirObjs dslObjs
    rw [obj_render g o h.1, objs_render g os h.2]
end

end DDV.Gen.HirLemmas
