/-
  Lemmas joining the lowering (`transformFieldSets`, `lower`) to `DDV.Gen.OpSem`: which field sets
  are emitted under which names, what a register's set contains, and that an accessor's lookup of
  its field-set type by name finds exactly that set when field-set names are distinct.
-/
import DDV.Gen.OpSem
import DDV.Gen.Lemmas.LowerTree

namespace DDV.Gen
open DDV.Proto
set_option linter.unusedSimpArgs false
set_option linter.unusedVariables false

theorem mapM_ok_cons {α β : Type} (f : α → M β) (a : α) (l : List α) (ys : List β) :
    (a :: l).mapM f = .ok ys ↔ ∃ y ys', f a = .ok y ∧ l.mapM f = .ok ys' ∧ ys = y :: ys' := by
  rw [List.mapM_cons]
  simp only [bind, Except.bind, pure, Except.pure]
  cases hf : f a with
  | error e => simp
  | ok y =>
    cases hl : l.mapM f with
    | error e => simp
    | ok ys' => simp [eq_comm]

/-- Looking an element up by a key that is unique in the list finds that element. -/
theorem find_by_key {α : Type} (key : α → String) : ∀ (l : List α) (x : α), x ∈ l → (l.map key).Nodup →
    l.find? (fun y => key y = key x) = some x := by
  intro l
  induction l with
  | nil => intro x hx; cases hx
  | cons a l ih =>
    intro x hx hn
    simp only [List.map_cons, List.nodup_cons] at hn
    rcases List.mem_cons.1 hx with rfl | hx'
    · simp
    · have hne : key a ≠ key x := by
        intro h; apply hn.1; rw [h]; exact List.mem_map_of_mem hx'
      simp [hne, ih x hx' hn.2]

theorem filterMapM_ok_cons {α β : Type} (f : α → M (Option β)) (a : α) (l : List α) (ys : List β) :
    (a :: l).filterMapM f = .ok ys ↔
      ∃ o ys', f a = .ok o ∧ l.filterMapM f = .ok ys' ∧ ys = (match o with | some b => b :: ys' | none => ys') := by
  rw [List.filterMapM_cons]
  simp only [bind, Except.bind, pure, Except.pure]
  cases hf : f a with
  | error e => simp
  | ok o =>
    cases o with
    | none => simp [eq_comm]
    | some b =>
      cases hl : l.filterMapM f with
      | error e => simp
      | ok ys' => simp [eq_comm]

theorem filterMapM_ok_sublist {α β : Type} (f : α → M (Option β)) (key : β → String) (key' : α → String)
    (hk : ∀ x y, f x = .ok (some y) → key y = key' x) :
    ∀ (l : List α) (ys : List β), l.filterMapM f = .ok ys → (ys.map key).Sublist (l.map key') := by
  intro l
  induction l with
  | nil => intro ys h; simp [pure, Except.pure] at h; subst h; simp
  | cons a l ih =>
    intro ys h
    obtain ⟨o, ys', hfa, hl, rfl⟩ := (filterMapM_ok_cons f a l ys).1 h
    cases o with
    | none => simp only [List.map_cons]; exact (ih ys' hl).cons _
    | some b =>
      simp only [List.map_cons]
      rw [hk a b hfa]
      exact (ih ys' hl).cons_cons _

theorem filterMapM_ok_mem {α β : Type} (f : α → M (Option β)) :
    ∀ (l : List α) (ys : List β), l.filterMapM f = .ok ys → ∀ x ∈ l, ∀ y, f x = .ok (some y) → y ∈ ys := by
  intro l
  induction l with
  | nil => intro ys h x hx; cases hx
  | cons a l ih =>
    intro ys h x hx y hy
    obtain ⟨o, ys', hfa, hl, rfl⟩ := (filterMapM_ok_cons f a l ys).1 h
    rcases List.mem_cons.1 hx with rfl | hx'
    · rw [hy] at hfa; cases hfa; simp
    · have := ih ys' hl x hx' y hy
      cases o <;> simp [this]
theorem transformFieldSet_shape (enums : List Enum) (fields : List Field) (name : String) (cfg : Cfg)
    (bo : DDV.Bits.ByteOrder) (bito : DDV.Bits.BitOrder) (size : Nat) (reset : Option (List Nat))
    (refs : List (String × List Nat)) (fs : LFieldSet)
    (h : transformFieldSet enums fields name cfg bo bito size reset refs = .ok fs) :
    fs.name = name ∧ fs.sizeBits = size ∧ fs.refResets = refs ∧
      fs.reset = reset.getD (List.replicate ((size + 7) / 8) 0) := by
  unfold transformFieldSet at h
  simp only [bind, Except.bind, pure, Except.pure] at h
  cases hm : fields.mapM (transformField enums) with
  | error e => rw [hm] at h; cases h
  | ok x => rw [hm] at h; simp only [Except.ok.injEq] at h; rw [← h]; exact ⟨rfl, rfl, rfl, rfl⟩

theorem bind_eq_ok {α β : Type} (x : M α) (f : α → M β) (b : β) :
    (x >>= f) = .ok b ↔ ∃ a, x = .ok a ∧ f a = .ok b := by
  cases x with
  | error e => simp [bind, Except.bind]
  | ok a => simp [bind, Except.bind]

/-- What a register contributes: one set, named after it, of its size, starting from its declared
    reset value; it exists only when the reset value is absent or already an array. -/
theorem fieldSetsOfObject_register (objs : List Object) (enums : List Enum) (r : Register) (s : List LFieldSet)
    (h : fieldSetsOfObject objs enums (.register r) = .ok s) :
    ∃ fs, s = [fs] ∧ fs.name = r.name ∧ fs.sizeBits = r.sizeBits ∧ fs.reset = declaredReset r ∧
      (refsTo objs r.name).filterMapM refResetStep = .ok fs.refResets := by
  unfold fieldSetsOfObject at h
  simp only [bind_eq_ok] at h
  obtain ⟨ovs, hovs, h⟩ := h
  cases hbo : r.byteOrder with
  | none => rw [hbo] at h; simp [bind, Except.bind, throw, throwThe, MonadExceptOf.throw] at h
  | some bo =>
  rw [hbo] at h
  simp only [bind_eq_ok] at h
  obtain ⟨bo', _, rb, hrb, fs, hfs, hs⟩ := h
  simp only [pure, Except.pure, Except.ok.injEq] at hs
  obtain ⟨h1, h2, h3', h4⟩ := transformFieldSet_shape _ _ _ _ _ _ _ _ _ _ hfs
  refine ⟨fs, hs.symm, h1, h2, ?_, by rw [h3']; exact hovs⟩
  rw [h4]
  unfold declaredReset
  cases hr : r.reset with
  | none => rw [hr] at hrb; simp only [resetBytes, pure, Except.pure, Except.ok.injEq] at hrb; subst hrb; rfl
  | some v =>
    cases v with
    | array a => rw [hr] at hrb; simp only [resetBytes, pure, Except.pure, Except.ok.injEq] at hrb; subst hrb; rfl
    | int k => rw [hr] at hrb; simp [resetBytes, throw, throwThe, MonadExceptOf.throw] at hrb

/-- What a command contributes: its input and its output set, of the declared sizes. -/
theorem fieldSetsOfObject_command (objs : List Object) (enums : List Enum) (c : Command) (s : List LFieldSet)
    (h : fieldSetsOfObject objs enums (.command c) = .ok s) :
    ∃ i o, s = [i, o] ∧ i.name = s!"{c.name}FieldsIn" ∧ i.sizeBits = c.sizeBitsIn ∧
      o.name = s!"{c.name}FieldsOut" ∧ o.sizeBits = c.sizeBitsOut := by
  unfold fieldSetsOfObject at h
  simp only at h
  cases hbo : c.byteOrder with
  | none => rw [hbo] at h; simp [bind, Except.bind, throw, throwThe, MonadExceptOf.throw] at h
  | some bo =>
  rw [hbo] at h
  simp only [bind_eq_ok] at h
  obtain ⟨bo', _, i, hi, o, ho, hs⟩ := h
  simp only [pure, Except.pure, Except.ok.injEq] at hs
  obtain ⟨h1, h2, _, _⟩ := transformFieldSet_shape _ _ _ _ _ _ _ _ _ _ hi
  obtain ⟨h3, h4, _, _⟩ := transformFieldSet_shape _ _ _ _ _ _ _ _ _ _ ho
  exact ⟨i, o, hs.symm, h1, h2, h3, h4⟩

/-- The names of the sets an object contributes. -/
theorem fieldSetsOfObject_names (objs : List Object) (enums : List Enum) (o : Object) (s : List LFieldSet)
    (h : fieldSetsOfObject objs enums o = .ok s) : s.map (·.name) = fieldSetNamesOf o := by
  cases o with
  | register r =>
    obtain ⟨fs, rfl, h1, _⟩ := fieldSetsOfObject_register objs enums r s h
    simp [fieldSetNamesOf, h1]
  | command c =>
    obtain ⟨i, o, rfl, h1, _, h3, _⟩ := fieldSetsOfObject_command objs enums c s h
    simp [fieldSetNamesOf, h1, h3]
  | block hd os => unfold fieldSetsOfObject at h; simp only [pure, Except.pure, Except.ok.injEq] at h; subst h; rfl
  | buffer b => unfold fieldSetsOfObject at h; simp only [pure, Except.pure, Except.ok.injEq] at h; subst h; rfl
  | ref rf => unfold fieldSetsOfObject at h; simp only [pure, Except.pure, Except.ok.injEq] at h; subst h; rfl

/-- `mapM` of the per-object function: names of the flattened result, and membership. -/
theorem mapM_fieldSets (objs : List Object) (enums : List Enum) :
    ∀ (l : List Object) (sets : List (List LFieldSet)), l.mapM (fieldSetsOfObject objs enums) = .ok sets →
      sets.flatten.map (·.name) = l.flatMap fieldSetNamesOf ∧
      ∀ o ∈ l, ∃ s, fieldSetsOfObject objs enums o = .ok s ∧ ∀ fs ∈ s, fs ∈ sets.flatten := by
  intro l
  induction l with
  | nil =>
    intro sets h
    simp only [List.mapM_nil, pure, Except.pure, Except.ok.injEq] at h
    subst h
    exact ⟨rfl, fun o ho => by cases ho⟩
  | cons a l ih =>
    intro sets h
    obtain ⟨y, ys, hy, hys, rfl⟩ := (mapM_ok_cons _ a l sets).1 h
    obtain ⟨e1, e2⟩ := ih ys hys
    refine ⟨?_, ?_⟩
    · simp only [List.flatten_cons, List.map_append, List.flatMap_cons]
      rw [e1, fieldSetsOfObject_names objs enums a y hy]
    · intro o ho
      rcases List.mem_cons.1 ho with rfl | ho'
      · exact ⟨y, hy, fun fs hfs => by simp [hfs]⟩
      · obtain ⟨s, hs1, hs2⟩ := e2 o ho'
        exact ⟨s, hs1, fun fs hfs => by simp [hs2 fs hfs]⟩

/-- The emitted field sets of a device carry exactly the names `fieldSetNames`. -/
theorem transformFieldSets_names (d : Device) (enums : List Enum) (fsets : List LFieldSet)
    (h : transformFieldSets d enums = .ok fsets) : fsets.map (·.name) = fieldSetNames d := by
  unfold transformFieldSets at h
  simp only [bind_eq_ok] at h
  obtain ⟨sets, hm, hp⟩ := h
  simp only [pure, Except.pure, Except.ok.injEq] at hp
  subst hp
  exact (mapM_fieldSets _ enums _ sets hm).1

/-- A register anywhere in the device has its field set emitted. -/
theorem transformFieldSets_register (d : Device) (enums : List Enum) (fsets : List LFieldSet) (r : Register)
    (h : transformFieldSets d enums = .ok fsets) (hr : Object.register r ∈ allObjects d.objects) :
    ∃ fs ∈ fsets, fs.name = r.name ∧ fs.sizeBits = r.sizeBits ∧ fs.reset = declaredReset r ∧
      (refsTo (allObjects d.objects) r.name).filterMapM refResetStep = .ok fs.refResets := by
  unfold transformFieldSets at h
  simp only [bind_eq_ok] at h
  obtain ⟨sets, hm, hp⟩ := h
  simp only [pure, Except.pure, Except.ok.injEq] at hp
  subst hp
  obtain ⟨s, hs1, hs2⟩ := (mapM_fieldSets _ enums _ sets hm).2 _ hr
  obtain ⟨fs, rfl, h1, h2, h3, h4⟩ := fieldSetsOfObject_register _ enums r s hs1
  exact ⟨fs, hs2 fs (by simp), h1, h2, h3, h4⟩

/-- A command anywhere in the device has both its field sets emitted. -/
theorem transformFieldSets_command (d : Device) (enums : List Enum) (fsets : List LFieldSet) (c : Command)
    (h : transformFieldSets d enums = .ok fsets) (hc : Object.command c ∈ allObjects d.objects) :
    ∃ i ∈ fsets, ∃ o ∈ fsets, i.name = s!"{c.name}FieldsIn" ∧ i.sizeBits = c.sizeBitsIn ∧
      o.name = s!"{c.name}FieldsOut" ∧ o.sizeBits = c.sizeBitsOut := by
  unfold transformFieldSets at h
  simp only [bind_eq_ok] at h
  obtain ⟨sets, hm, hp⟩ := h
  simp only [pure, Except.pure, Except.ok.injEq] at hp
  subst hp
  obtain ⟨s, hs1, hs2⟩ := (mapM_fieldSets _ enums _ sets hm).2 _ hc
  obtain ⟨i, o, rfl, h1, h2, h3, h4⟩ := fieldSetsOfObject_command _ enums c s hs1
  exact ⟨i, hs2 i (by simp), o, hs2 o (by simp), h1, h2, h3, h4⟩

/-- The field sets of a lowered device are those of `transformFieldSets`. -/
theorem lower_fieldSets (n : Names) (name : String) (d : Device) (l : Lir) (h : lower n name d = .ok l) :
    transformFieldSets d ((collectEnums d.objects).map (·.1)) = .ok l.fieldSets := by
  unfold lower at h
  simp only [bind, Except.bind, pure, Except.pure] at h
  split at h
  · cases h
  split at h
  · cases h
  cases hf : transformFieldSets d ((collectEnums d.objects).map (·.1)) with
  | error e => rw [hf] at h; cases h
  | ok fs =>
    rw [hf] at h
    simp only at h
    cases hc : collectIntoBlocks n d.config d.objects (2 * (allObjects d.objects).length + 4) none name true d.objects with
    | error e => rw [hc] at h; cases h
    | ok bl =>
      rw [hc] at h
      simp only at h
      cases hb : findBestInternalAddress d with
      | error e => rw [hb] at h; cases h
      | ok p =>
        rw [hb] at h
        simp only [Except.ok.injEq] at h
        subst h
        rfl

theorem refCtor_ne_new (n : Names) (x : String) : refCtorName n x ≠ "new" := by
  unfold refCtorName
  intro h
  have := congrArg String.length h
  simp only [String.length_append] at this
  have h2 : (toString "new_as_").length = 7 := by decide
  have h3 : ("new" : String).length = 3 := by decide
  omega

/-- The override a register ref contributes: its reset bytes, once converted to an array. -/
theorem refResetStep_array (rf : RefObject) (ov : RegisterOverride) (a : List Nat)
    (hov : rf.override = .register ov) (hr : ov.reset = some (.array a)) :
    refResetStep rf = .ok (some (rf.name, a)) := by
  unfold refResetStep
  rw [hov]
  simp [hr, resetBytes, bind, Except.bind, pure, Except.pure]

end DDV.Gen
