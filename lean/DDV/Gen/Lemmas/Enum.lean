/-
  Lemmas for C15 / C07: numbering, duplicate detection and the accept/reject decision of
  `checkEnum`.
-/
import DDV.Gen.Lemmas.Tree
import DDV.Gen.Lower

namespace DDV.Gen
set_option linter.unusedVariables false
set_option linter.unusedSimpArgs false

/-- The documented numbering: explicit numbers as given; every other variant (implicit, default,
    catch-all) one above the previous variant, starting at 0. -/
def specNumbers : List EnumVariant → Option Int → List Int
  | [], _ => []
  | v :: vs, last =>
    let n : Int := match v.value with
      | .specified k => k
      | _ => (match last with | some l => l + 1 | none => 0)
    n :: specNumbers vs (some n)

theorem assignValues_numbers : ∀ (vs : List EnumVariant) (last : Option Int),
    (assignValues vs last).2.map (·.1) = specNumbers vs last
  | [], last => rfl
  | v :: vs, last => by
    unfold assignValues specNumbers
    cases hv : v.value <;> cases last <;> simp [hv, assignValues_numbers vs]

theorem assignValues_ids : ∀ (vs : List EnumVariant) (last : Option Int),
    (assignValues vs last).2.map (fun x => (x.2.1, x.2.2)) = vs.map (fun v => (v.name, v.cfg))
  | [], last => rfl
  | v :: vs, last => by
    unfold assignValues
    cases hv : v.value <;> cases last <;> simp [hv, assignValues_ids vs]

theorem assignValues_keys (vs : List EnumVariant) (last : Option Int) :
    (assignValues vs last).2.map dupKey = (specNumbers vs last).zip (vs.map (·.cfg)) := by
  induction vs generalizing last with
  | nil => rfl
  | cons v vs ih =>
    unfold assignValues specNumbers
    cases hv : v.value <;> cases last <;> simp [hv, dupKey, ih]

/-- The emission numbering (`transform_enum`, which tracks the *next* number) run on the variants
    rewritten by the analysis (which tracks the *last* number) gives the analysis numbering again. -/
theorem numbering_agree : ∀ (vs : List EnumVariant) (last : Option Int),
    (numberVariants (assignValues vs last).1 (last.map (· + 1))).map (·.number) = specNumbers vs last
  | [], last => rfl
  | v :: vs, last => by
    unfold assignValues specNumbers
    cases hv : v.value <;> cases last <;>
      simp [hv, numberVariants, Option.getD] <;>
      (first | exact numbering_agree vs (some _) | skip)

theorem duplicatesBy_nil_iff {α κ : Type} [BEq κ] [LawfulBEq κ] (key : α → κ) :
    ∀ (xs : List α) (so : List κ),
      duplicatesBy key xs so [] = [] ↔ (∀ x ∈ xs, key x ∉ so) ∧ (xs.map key).Nodup
  | [], so => by simp [duplicatesBy]
  | x :: xs, so => by
    unfold duplicatesBy
    simp only [List.contains_nil, Bool.false_eq_true, if_false]
    by_cases h : key x ∈ so
    · have : so.contains (key x) = true := List.contains_iff_mem.2 h
      simp only [this, if_true, reduceCtorEq, List.mem_cons, forall_eq_or_imp, false_iff, not_and]
      intro hh; exact absurd h hh.1
    · have : so.contains (key x) = false := by
        cases hc : so.contains (key x)
        · rfl
        · exact absurd (List.contains_iff_mem.1 hc) h
      simp only [this, Bool.false_eq_true, if_false]
      rw [duplicatesBy_nil_iff key xs (key x :: so)]
      simp only [List.mem_cons, not_or, List.map_cons, List.nodup_cons, List.mem_map, not_exists, not_and,
        forall_eq_or_imp]
      constructor
      · intro ⟨h1, h2⟩
        exact ⟨⟨h, fun y hy => (h1 y hy).2⟩, fun y hy heq => (h1 y hy).1 heq, h2⟩
      · intro ⟨⟨_, h1⟩, h2, h3⟩
        exact ⟨fun y hy => ⟨fun heq => h2 y hy heq, h1 y hy⟩, h3⟩

theorem bitsCovered_iff (highest : Int) (seen : List Int) (h : 0 ≤ highest + 1) :
    bitsCovered highest seen = true ↔ ∀ v : Nat, (v : Int) ≤ highest → (v : Int) ∈ seen := by
  unfold bitsCovered
  simp only [List.all_eq_true, List.mem_range, List.contains_iff_mem]
  constructor
  · intro hh v hv; exact hh v (by omega)
  · intro hh v hv; exact hh v (by omega)

end DDV.Gen
