/-
  `find_map` over an item list does not depend on the order of the items when at most one item matches
  the selector - the situation the grammar guarantees (it refuses a second item of a kind).
-/
import DDV.Gen.DslHir

namespace DDV.Gen.HirPerm
open DDV.Gen

theorem findSome?_eq_head_filter {α β : Type} (sel : α → Option β) :
    ∀ (l : List α), l.findSome? sel = ((l.filter fun a => (sel a).isSome).head?).bind sel
  | [] => rfl
  | a :: l => by
    rw [List.findSome?_cons, List.filter_cons]
    cases h : sel a with
    | none => simp [findSome?_eq_head_filter sel l]
    | some b => simp [h]

theorem perm_eq_of_length_le_one {α : Type} {l₁ l₂ : List α} (hp : l₁.Perm l₂) (h : l₁.length ≤ 1) : l₁ = l₂ := by
  match l₁, h with
  | [], _ => exact (List.nil_perm.mp hp).symm
  | [a], _ => exact (List.singleton_perm.mp hp)

/-- At most one item matches `sel`. -/
def Unique {α β : Type} (sel : α → Option β) (l : List α) : Prop :=
  (l.filter fun a => (sel a).isSome).length ≤ 1

theorem findSome?_perm {α β : Type} (sel : α → Option β) {l₁ l₂ : List α} (hp : l₁.Perm l₂)
    (hu : Unique sel l₁) : l₁.findSome? sel = l₂.findSome? sel := by
  rw [findSome?_eq_head_filter sel l₁, findSome?_eq_head_filter sel l₂,
    perm_eq_of_length_le_one (hp.filter _) hu]

theorem any_perm {α : Type} (p : α → Bool) {l₁ l₂ : List α} (hp : l₁.Perm l₂) : l₁.any p = l₂.any p := by
  induction hp with
  | nil => rfl
  | cons x _ ih => simp [ih]
  | swap x y l => simp [Bool.or_left_comm]
  | trans _ _ ih1 ih2 => rw [ih1, ih2]

/-- No kind of register item occurs twice (a reset value in either form counts as one kind). -/
structure RegUnique (items : List HRegItem) : Prop where
  access : Unique HRegItem.access? items
  byteOrder : Unique HRegItem.byteOrder? items
  bitOrder : Unique HRegItem.bitOrder? items
  address : Unique HRegItem.address? items
  sizeBits : Unique HRegItem.sizeBits? items
  reset : Unique hirResetOf items
  repeat_ : Unique HRegItem.repeat? items
  abo : Unique HRegItem.allowBitOverlap? items
  aao : Unique HRegItem.allowAddressOverlap? items

/-- **The items of a register body may be written in any order.** -/
theorem hirRegister_perm (g : GlobalConfig) (attrs : List HAttr) (name : String) {items items' : List HRegItem}
    (fields : List HField) (hp : items.Perm items') (hu : RegUnique items) :
    hirRegister g attrs name items fields = hirRegister g attrs name items' fields := by
  unfold hirRegister hirFindReset hirRegRepeat findLit
  rw [findSome?_perm _ hp hu.access, findSome?_perm _ hp hu.byteOrder, findSome?_perm _ hp hu.bitOrder,
    findSome?_perm _ hp hu.address, findSome?_perm _ hp hu.sizeBits, findSome?_perm _ hp hu.reset,
    findSome?_perm _ hp hu.repeat_, findSome?_perm _ hp hu.abo, findSome?_perm _ hp hu.aao]

/-- … and so may those of a register override. -/
theorem hirRegisterOverride_perm (attrs : List HAttr) (name : String) {items items' : List HRegItem}
    (fields : List HField) (hp : items.Perm items') (hu : RegUnique items) :
    hirRegisterOverride attrs name items fields = hirRegisterOverride attrs name items' fields := by
  unfold hirRegisterOverride hirFindReset hirRegRepeat findLit
  rw [findSome?_perm _ hp hu.access, findSome?_perm _ hp hu.address, findSome?_perm _ hp hu.reset,
    findSome?_perm _ hp hu.repeat_, findSome?_perm _ hp hu.aao, any_perm _ hp]

structure CmdUnique (items : List HCmdItem) : Prop where
  byteOrder : Unique HCmdItem.byteOrder? items
  bitOrder : Unique HCmdItem.bitOrder? items
  address : Unique HCmdItem.address? items
  sizeBitsIn : Unique HCmdItem.sizeBitsIn? items
  sizeBitsOut : Unique HCmdItem.sizeBitsOut? items
  repeat_ : Unique HCmdItem.repeat? items
  abo : Unique HCmdItem.allowBitOverlap? items
  aao : Unique HCmdItem.allowAddressOverlap? items

/-- **The items of a command body may be written in any order.** -/
theorem hirCommand_perm (g : GlobalConfig) (attrs : List HAttr) (name : String) {items items' : List HCmdItem}
    (fin fout : Option (List HField)) (hp : items.Perm items') (hu : CmdUnique items) :
    hirCommand g attrs name (some (.extended items fin fout)) =
      hirCommand g attrs name (some (.extended items' fin fout)) := by
  unfold hirCommand hirCmdRepeat
  simp only [bind, Except.bind, pure, Except.pure, findSome?_perm _ hp hu.byteOrder, findSome?_perm _ hp hu.bitOrder, findSome?_perm _ hp hu.address,
    findSome?_perm _ hp hu.sizeBitsIn, findSome?_perm _ hp hu.sizeBitsOut, findSome?_perm _ hp hu.repeat_,
    findSome?_perm _ hp hu.abo, findSome?_perm _ hp hu.aao]

structure BlockUnique (items : List HBlockItem) : Prop where
  offset : Unique HBlockItem.offset? items
  repeat_ : Unique HBlockItem.repeat? items

theorem hirBlockItems_perm {items items' : List HBlockItem} (hp : items.Perm items') (hu : BlockUnique items) :
    hirBlockOffset items = hirBlockOffset items' ∧ hirBlockRepeat items = hirBlockRepeat items' := by
  unfold hirBlockOffset hirBlockRepeat findLit
  rw [findSome?_perm _ hp hu.offset, findSome?_perm _ hp hu.repeat_]
  exact ⟨rfl, rfl⟩

end DDV.Gen.HirPerm
