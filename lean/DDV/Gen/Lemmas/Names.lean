/-
  names_unique (DDV.Gen.namesUnique) succeeds iff the definition is free of name collisions.
-/
import DDV.Gen.Passes
import DDV.Gen.Lemmas.Tree

namespace DDV.Gen
set_option linter.unusedVariables false
set_option linter.unusedSimpArgs false

abbrev Key := String × Cfg

def variantKey (v : EnumVariant) : Key := (v.name, v.cfg)
def enumKey (e : Enum) : Key := (e.name, e.cfg)
def objKey (o : Object) : Key := (o.name, o.cfg)

/-- the inline enums of a field list, in declaration order -/
def enumsOfFields : List Field → List Enum
  | [] => []
  | f :: fs => match f.conv with
    | some (.enum e _) => e :: enumsOfFields fs
    | _ => enumsOfFields fs

def enumsOfFieldSets : List (List Field) → List Enum
  | [] => []
  | fs :: rest => enumsOfFields fs ++ enumsOfFieldSets rest

theorem contains_key_iff (l : List Key) (k : Key) : l.contains k = true ↔ k ∈ l := by
  simp [List.contains_iff_mem]

theorem contains_str_iff (l : List String) (k : String) : l.contains k = true ↔ k ∈ l := by
  simp [List.contains_iff_mem]

/-! ### variants -/

theorem checkVariants_ok_iff (en on fn : String) :
    ∀ (vs : List EnumVariant) (seen : List Key),
      isOk (checkVariants en on fn vs seen) ↔
        (∀ v ∈ vs, variantKey v ∉ seen) ∧ (vs.map variantKey).Nodup
  | [], seen => by
    unfold checkVariants isOk
    simp only [List.not_mem_nil, false_implies, implies_true, List.map_nil, List.nodup_nil, and_self, iff_true]
    exact ⟨_, rfl⟩
  | v :: vs, seen => by
    unfold checkVariants
    by_cases h : seen.contains (v.name, v.cfg) = true
    · rw [if_pos h]
      constructor
      · intro ⟨a, ha⟩; cases ha
      · intro ⟨h1, _⟩
        exact absurd ((contains_key_iff seen _).1 h) (h1 v (List.mem_cons_self ..))
    · rw [if_neg h]
      have hn : variantKey v ∉ seen := fun hm => h ((contains_key_iff seen _).2 hm)
      rw [checkVariants_ok_iff en on fn vs ((v.name, v.cfg) :: seen)]
      simp only [List.mem_cons, not_or, List.map_cons, List.nodup_cons, List.mem_map, not_exists, not_and,
        forall_eq_or_imp]
      constructor
      · intro ⟨h1, h2⟩
        refine ⟨⟨hn, fun w hw => (h1 w hw).2⟩, ?_, h2⟩
        intro w hw heq
        exact (h1 w hw).1 heq
      · intro ⟨⟨_, h1⟩, h3, h2⟩
        exact ⟨fun w hw => ⟨fun heq => h3 w hw heq, h1 w hw⟩, h2⟩

/-! ### fields -/

/-- freshness conditions of one field list, relative to the field names and enum keys seen so far -/
def FieldsOk : List Field → List String → List Key → Prop
  | [], _, _ => True
  | f :: fs, names, enums =>
    f.name ∉ names ∧
    (match f.conv with
     | some (.enum e _) =>
       enumKey e ∉ enums ∧ (e.variants.map variantKey).Nodup ∧ FieldsOk fs (f.name :: names) (enumKey e :: enums)
     | _ => FieldsOk fs (f.name :: names) enums)

theorem checkFields_spec (on : String) :
    ∀ (fs : List Field) (names : List String) (s : Seen),
      (isOk (checkFields on fs names s) ↔ FieldsOk fs names s.enums) ∧
      (∀ s', checkFields on fs names s = .ok s' →
        s'.objects = s.objects ∧ s'.enums = ((enumsOfFields fs).map enumKey).reverse ++ s.enums)
  | [], names, s => by
    unfold checkFields FieldsOk isOk enumsOfFields
    refine ⟨⟨fun _ => trivial, fun _ => ⟨_, rfl⟩⟩, ?_⟩
    intro s' h
    cases h
    simp
  | f :: fs, names, s => by
    unfold checkFields FieldsOk enumsOfFields
    by_cases hn : names.contains f.name = true
    · simp only [hn, if_true, bind, Except.bind, throw, throwThe, MonadExceptOf.throw]
      refine ⟨⟨(fun ⟨a, ha⟩ => by cases ha), fun ⟨h1, _⟩ => absurd ((contains_str_iff _ _).1 hn) h1⟩, ?_⟩
      intro s' h; cases h
    · have hn' : f.name ∉ names := fun hm => hn ((contains_str_iff _ _).2 hm)
      simp only [hn, if_false, bind, Except.bind, pure, Except.pure]
      cases hc : f.conv with
      | none =>
        simp only
        have ih := checkFields_spec on fs (f.name :: names) s
        exact ⟨⟨fun h => ⟨hn', ih.1.1 h⟩, fun h => ih.1.2 h.2⟩, ih.2⟩
      | some c =>
        cases c with
        | direct t u =>
          simp only
          have ih := checkFields_spec on fs (f.name :: names) s
          exact ⟨⟨fun h => ⟨hn', ih.1.1 h⟩, fun h => ih.1.2 h.2⟩, ih.2⟩
        | «enum» e u =>
          simp only
          by_cases he : s.enums.contains (e.name, e.cfg) = true
          · simp only [he, if_true, throw, throwThe, MonadExceptOf.throw]
            refine ⟨⟨(fun ⟨a, ha⟩ => by cases ha), fun ⟨_, h1, _⟩ => absurd ((contains_key_iff _ _).1 he) h1⟩, ?_⟩
            intro s' h; cases h
          · have he' : enumKey e ∉ s.enums := fun hm => he ((contains_key_iff _ _).2 hm)
            simp only [he, if_false]
            cases hv : checkVariants e.name on f.name e.variants [] with
            | error err =>
              simp only
              have : ¬ isOk (checkVariants e.name on f.name e.variants []) := by
                intro ⟨a, ha⟩; rw [hv] at ha; cases ha
              rw [checkVariants_ok_iff] at this
              refine ⟨⟨(fun ⟨a, ha⟩ => by cases ha), fun ⟨_, _, h2, _⟩ => absurd ⟨fun _ _ => List.not_mem_nil, h2⟩ this⟩, ?_⟩
              intro s' h; cases h
            | ok u' =>
              simp only
              have hvok : (e.variants.map variantKey).Nodup :=
                ((checkVariants_ok_iff e.name on f.name e.variants []).1 ⟨_, hv⟩).2
              have ih := checkFields_spec on fs (f.name :: names) { s with enums := (e.name, e.cfg) :: s.enums }
              refine ⟨⟨fun h => ⟨hn', he', hvok, ih.1.1 h⟩, fun h => ih.1.2 h.2.2.2⟩, ?_⟩
              intro s' h
              have := ih.2 s' h
              refine ⟨this.1, ?_⟩
              rw [this.2]
              simp [enumKey]

/-! ### field sets -/

def FieldSetsOk : List (List Field) → List Key → Prop
  | [], _ => True
  | fs :: rest, enums =>
    FieldsOk fs [] enums ∧ FieldSetsOk rest (((enumsOfFields fs).map enumKey).reverse ++ enums)

theorem checkFieldSets_spec (on : String) :
    ∀ (fss : List (List Field)) (s : Seen),
      (isOk (checkFieldSets on fss s) ↔ FieldSetsOk fss s.enums) ∧
      (∀ s', checkFieldSets on fss s = .ok s' →
        s'.objects = s.objects ∧ s'.enums = ((enumsOfFieldSets fss).map enumKey).reverse ++ s.enums)
  | [], s => by
    unfold checkFieldSets FieldSetsOk isOk enumsOfFieldSets
    refine ⟨⟨fun _ => trivial, fun _ => ⟨_, rfl⟩⟩, ?_⟩
    intro s' h; cases h; simp
  | fs :: rest, s => by
    unfold checkFieldSets FieldSetsOk enumsOfFieldSets
    have h1 := checkFields_spec on fs [] s
    cases hf : checkFields on fs [] s with
    | error e =>
      simp only [bind, Except.bind]
      have : ¬ isOk (checkFields on fs [] s) := by intro ⟨a, ha⟩; rw [hf] at ha; cases ha
      refine ⟨⟨(fun ⟨a, ha⟩ => by cases ha), fun ⟨h, _⟩ => absurd (h1.1.2 h) this⟩, ?_⟩
      intro s' h; cases h
    | ok s1 =>
      simp only [bind, Except.bind]
      have e1 := h1.2 s1 hf
      have ih := checkFieldSets_spec on rest s1
      rw [e1.2] at ih
      refine ⟨⟨fun h => ⟨h1.1.1 ⟨_, hf⟩, ih.1.1 h⟩, fun h => ih.1.2 h.2⟩, ?_⟩
      intro s' h
      have := ih.2 s' h
      refine ⟨this.1.trans e1.1, ?_⟩
      rw [this.2]
      simp [List.map_append, List.reverse_append, List.append_assoc]

/-! ### objects -/

def ObjsOk : List Object → List Key → List Key → Prop
  | [], _, _ => True
  | o :: os, objs, enums =>
    objKey o ∉ objs ∧ FieldSetsOk o.fieldSets enums ∧
    ObjsOk os (objKey o :: objs) (((enumsOfFieldSets o.fieldSets).map enumKey).reverse ++ enums)

theorem foldl_names_ok_iff :
    ∀ (os : List Object) (s : Seen), isOk (os.foldlM namesStep s) ↔ ObjsOk os s.objects s.enums
  | [], s => by
    simp only [List.foldlM, ObjsOk, iff_true]
    exact ⟨_, rfl⟩
  | o :: os, s => by
    simp only [List.foldlM, ObjsOk]
    unfold namesStep
    by_cases h : s.objects.contains (o.name, o.cfg) = true
    · rw [if_pos h]
      simp only [bind, Except.bind, throw, throwThe, MonadExceptOf.throw]
      exact ⟨(fun ⟨a, ha⟩ => by cases ha), fun ⟨h1, _⟩ => absurd ((contains_key_iff _ _).1 h) h1⟩
    · rw [if_neg h]
      have hn : objKey o ∉ s.objects := fun hm => h ((contains_key_iff _ _).2 hm)
      have hs := checkFieldSets_spec o.name o.fieldSets { s with objects := (o.name, o.cfg) :: s.objects }
      cases hc : checkFieldSets o.name o.fieldSets { s with objects := (o.name, o.cfg) :: s.objects } with
      | error e =>
        simp only [bind, Except.bind]
        have : ¬ isOk (checkFieldSets o.name o.fieldSets { s with objects := (o.name, o.cfg) :: s.objects }) := by
          intro ⟨a, ha⟩; rw [hc] at ha; cases ha
        exact ⟨(fun ⟨a, ha⟩ => by cases ha), fun ⟨_, h2, _⟩ => absurd (hs.1.2 h2) this⟩
      | ok s1 =>
        simp only [bind, Except.bind]
        have e1 := hs.2 s1 hc
        have ih := foldl_names_ok_iff os s1
        rw [e1.1, e1.2] at ih
        exact ⟨fun hh => ⟨hn, hs.1.1 ⟨_, hc⟩, ih.1 hh⟩, fun hh => ih.2 hh.2.2⟩

theorem namesUnique_ok_iff (d : Device) :
    isOk (namesUnique d) ↔ ObjsOk (allObjects d.objects) [] [] := by
  unfold namesUnique
  have := foldl_names_ok_iff (allObjects d.objects) ({} : Seen)
  cases h : (allObjects d.objects).foldlM namesStep ({} : Seen) with
  | error e =>
    rw [h] at this
    exact ⟨(fun ⟨a, ha⟩ => by cases ha), fun hh => by obtain ⟨a, ha⟩ := this.2 hh; cases ha⟩
  | ok s =>
    rw [h] at this
    exact ⟨fun _ => this.1 ⟨_, rfl⟩, fun _ => ⟨_, rfl⟩⟩

/-! ### from accumulated freshness to plain `Nodup` -/

theorem FieldsOk_iff :
    ∀ (fs : List Field) (names : List String) (enums : List Key),
      FieldsOk fs names enums ↔
        (∀ f ∈ fs, f.name ∉ names) ∧ (fs.map (·.name)).Nodup ∧
        (∀ e ∈ enumsOfFields fs, enumKey e ∉ enums) ∧ ((enumsOfFields fs).map enumKey).Nodup ∧
        (∀ e ∈ enumsOfFields fs, (e.variants.map variantKey).Nodup)
  | [], names, enums => by simp [FieldsOk, enumsOfFields]
  | f :: fs, names, enums => by
    unfold FieldsOk enumsOfFields
    cases hc : f.conv with
    | none =>
      simp only
      rw [FieldsOk_iff fs (f.name :: names) enums]
      simp only [List.mem_cons, not_or, List.map_cons, List.nodup_cons, List.mem_map, not_exists, not_and,
        forall_eq_or_imp]
      constructor
      · intro ⟨h0, h1, h2, h3, h4, h5⟩
        exact ⟨⟨h0, fun w hw => (h1 w hw).2⟩, ⟨fun w hw heq => (h1 w hw).1 heq, h2⟩, h3, h4, h5⟩
      · intro ⟨⟨h0, h1⟩, ⟨h6, h2⟩, h3, h4, h5⟩
        exact ⟨h0, fun w hw => ⟨fun heq => h6 w hw heq, h1 w hw⟩, h2, h3, h4, h5⟩
    | some c =>
      cases c with
      | direct t u =>
        simp only
        rw [FieldsOk_iff fs (f.name :: names) enums]
        simp only [List.mem_cons, not_or, List.map_cons, List.nodup_cons, List.mem_map, not_exists, not_and,
          forall_eq_or_imp]
        constructor
        · intro ⟨h0, h1, h2, h3, h4, h5⟩
          exact ⟨⟨h0, fun w hw => (h1 w hw).2⟩, ⟨fun w hw heq => (h1 w hw).1 heq, h2⟩, h3, h4, h5⟩
        · intro ⟨⟨h0, h1⟩, ⟨h6, h2⟩, h3, h4, h5⟩
          exact ⟨h0, fun w hw => ⟨fun heq => h6 w hw heq, h1 w hw⟩, h2, h3, h4, h5⟩
      | «enum» e u =>
        simp only
        rw [FieldsOk_iff fs (f.name :: names) (enumKey e :: enums)]
        simp only [List.mem_cons, not_or, List.map_cons, List.nodup_cons, List.mem_map, not_exists, not_and,
          forall_eq_or_imp]
        constructor
        · intro ⟨h0, he, hv, h1, h2, h3, h4, h5⟩
          exact ⟨⟨h0, fun w hw => (h1 w hw).2⟩, ⟨fun w hw heq => (h1 w hw).1 heq, h2⟩,
                 ⟨he, fun w hw => (h3 w hw).2⟩, ⟨fun w hw heq => (h3 w hw).1 heq, h4⟩, hv, h5⟩
        · intro ⟨⟨h0, h1⟩, ⟨h6, h2⟩, ⟨he, h3⟩, ⟨h7, h4⟩, hv, h5⟩
          exact ⟨h0, he, hv, fun w hw => ⟨fun heq => h6 w hw heq, h1 w hw⟩, h2,
                 fun w hw => ⟨fun heq => h7 w hw heq, h3 w hw⟩, h4, h5⟩

theorem FieldSetsOk_iff :
    ∀ (fss : List (List Field)) (enums : List Key),
      FieldSetsOk fss enums ↔
        (∀ fs ∈ fss, (fs.map (·.name)).Nodup) ∧
        (∀ e ∈ enumsOfFieldSets fss, enumKey e ∉ enums) ∧ ((enumsOfFieldSets fss).map enumKey).Nodup ∧
        (∀ e ∈ enumsOfFieldSets fss, (e.variants.map variantKey).Nodup)
  | [], enums => by simp [FieldSetsOk, enumsOfFieldSets]
  | fs :: rest, enums => by
    unfold FieldSetsOk enumsOfFieldSets
    rw [FieldsOk_iff fs [] enums, FieldSetsOk_iff rest _]
    simp only [List.not_mem_nil, not_false_eq_true, implies_true, true_and, List.mem_cons, forall_eq_or_imp,
      List.mem_append, List.mem_reverse, List.mem_map, not_or, not_exists, not_and, List.map_append,
      List.nodup_append, ne_eq]
    constructor
    · intro ⟨⟨h1, h2, h3, h4⟩, h5, h6, h7, h8⟩
      refine ⟨⟨h1, h5⟩, ?_, ⟨h3, h7, ?_⟩, ?_⟩
      · intro e he
        rcases he with he | he
        · exact h2 e he
        · exact (h6 e he).2
      · intro a ⟨e1, he1, hk1⟩ b ⟨e2, he2, hk2⟩ hab
        exact (h6 e2 he2).1 e1 he1 (by rw [hk1, hab, hk2])
      · intro e he
        rcases he with he | he
        · exact h4 e he
        · exact h8 e he
    · intro ⟨⟨h1, h5⟩, h2, ⟨h3, h7, h9⟩, h4⟩
      refine ⟨⟨h1, fun e he => h2 e (Or.inl he), h3, fun e he => h4 e (Or.inl he)⟩, h5, ?_, h7,
              fun e he => h4 e (Or.inr he)⟩
      intro e he
      refine ⟨fun e1 he1 hk => ?_, h2 e (Or.inr he)⟩
      exact h9 (enumKey e1) ⟨e1, he1, rfl⟩ (enumKey e) ⟨e, he, rfl⟩ hk

def enumsOfObjs : List Object → List Enum
  | [] => []
  | o :: os => enumsOfFieldSets o.fieldSets ++ enumsOfObjs os

theorem ObjsOk_iff :
    ∀ (os : List Object) (objs enums : List Key),
      ObjsOk os objs enums ↔
        (∀ o ∈ os, objKey o ∉ objs) ∧ (os.map objKey).Nodup ∧
        (∀ o ∈ os, ∀ fs ∈ o.fieldSets, (fs.map (·.name)).Nodup) ∧
        (∀ e ∈ enumsOfObjs os, enumKey e ∉ enums) ∧ ((enumsOfObjs os).map enumKey).Nodup ∧
        (∀ e ∈ enumsOfObjs os, (e.variants.map variantKey).Nodup)
  | [], objs, enums => by simp [ObjsOk, enumsOfObjs]
  | o :: os, objs, enums => by
    unfold ObjsOk enumsOfObjs
    rw [FieldSetsOk_iff o.fieldSets enums, ObjsOk_iff os _ _]
    simp only [List.mem_cons, forall_eq_or_imp, List.mem_append, List.mem_reverse, List.mem_map, not_or,
      not_exists, not_and, List.map_append, List.nodup_append, ne_eq, List.map_cons, List.nodup_cons]
    constructor
    · intro ⟨h0, ⟨f1, f2, f3, f4⟩, g1, g2, g3, g4, g5, g6⟩
      refine ⟨⟨h0, fun w hw => (g1 w hw).2⟩, ⟨fun w hw hk => (g1 w hw).1 hk, g2⟩, ⟨f1, g3⟩, ?_, ⟨f3, g5, ?_⟩, ?_⟩
      · intro e he
        rcases he with he | he
        · exact f2 e he
        · exact (g4 e he).2
      · intro a ⟨e1, he1, hk1⟩ b ⟨e2, he2, hk2⟩ hab
        exact (g4 e2 he2).1 e1 he1 (by rw [hk1, hab, hk2])
      · intro e he
        rcases he with he | he
        · exact f4 e he
        · exact g6 e he
    · intro ⟨⟨h0, g1⟩, ⟨g7, g2⟩, ⟨f1, g3⟩, f2, ⟨f3, g5, g9⟩, f4⟩
      refine ⟨h0, ⟨f1, fun e he => f2 e (Or.inl he), f3, fun e he => f4 e (Or.inl he)⟩,
              fun w hw => ⟨fun hk => g7 w hw hk, g1 w hw⟩, g2, g3, ?_, g5, fun e he => f4 e (Or.inr he)⟩
      intro e he
      refine ⟨fun e1 he1 hk => ?_, f2 e (Or.inr he)⟩
      exact g9 (enumKey e1) ⟨e1, he1, rfl⟩ (enumKey e) ⟨e, he, rfl⟩ hk

end DDV.Gen
