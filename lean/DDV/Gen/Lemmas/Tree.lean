/-
  Generic facts about the stateless pre-order traversal `mapObjs`: a pass succeeds exactly when
  its callback succeeds on every object of the tree, and then it is the tree map.
-/
import DDV.Gen.Passes

namespace DDV.Gen
set_option linter.unusedVariables false

/- "the tree `os'` is the image of `os`": block heads through `fb`, other objects through `fl`. -/
mutual
def ObjRel (fb : BlockHead → M BlockHead) (fl : Object → M Object) : Object → Object → Prop
  | .block h os, .block h' os' => fb h = .ok h' ∧ ListRel fb fl os os'
  | .block _ _, _ => False
  | .register r, o' => fl (.register r) = .ok o'
  | .command c, o' => fl (.command c) = .ok o'
  | .buffer b, o' => fl (.buffer b) = .ok o'
  | .ref r, o' => fl (.ref r) = .ok o'
def ListRel (fb : BlockHead → M BlockHead) (fl : Object → M Object) : List Object → List Object → Prop
  | [], [] => True
  | o :: os, o' :: os' => ObjRel fb fl o o' ∧ ListRel fb fl os os'
  | [], _ :: _ => False
  | _ :: _, [] => False
end

mutual
theorem mapObj_ok_iff (fb : BlockHead → M BlockHead) (fl : Object → M Object) :
    ∀ (o o' : Object), mapObj fb fl o = .ok o' ↔ ObjRel fb fl o o'
  | .block h os, o' => by
    unfold mapObj
    cases hb : fb h with
    | error e => cases o' <;> simp [ObjRel, hb]
    | ok h' =>
      simp only
      cases hv : mapObjs fb fl os with
      | error e =>
        cases o' with
        | block h2 os2 =>
          simp only [ObjRel, hb, Except.ok.injEq, reduceCtorEq, false_iff, not_and]
          intro _ h2
          have := (mapObjs_ok_iff fb fl os os2).2 h2
          rw [hv] at this; cases this
        | _ => simp [ObjRel]
      | ok os1 =>
        cases o' with
        | block h3 os3 =>
          simp only [ObjRel, hb, Except.ok.injEq, Object.block.injEq]
          constructor
          · intro ⟨h1, h2⟩
            subst h1; subst h2
            exact ⟨rfl, (mapObjs_ok_iff fb fl os os1).1 hv⟩
          · intro ⟨h1, h2⟩
            have h4 := (mapObjs_ok_iff fb fl os os3).2 h2
            rw [hv] at h4
            exact ⟨h1, Except.ok.inj h4⟩
        | _ => simp [ObjRel]
  | .register r, o' => by unfold mapObj; simp [ObjRel]
  | .command c, o' => by unfold mapObj; simp [ObjRel]
  | .buffer b, o' => by unfold mapObj; simp [ObjRel]
  | .ref r, o' => by unfold mapObj; simp [ObjRel]

theorem mapObjs_ok_iff (fb : BlockHead → M BlockHead) (fl : Object → M Object) :
    ∀ (os os' : List Object), mapObjs fb fl os = .ok os' ↔ ListRel fb fl os os'
  | [], os' => by
    unfold mapObjs
    cases os' <;> simp [ListRel]
  | o :: os, os' => by
    unfold mapObjs
    cases hv : mapObj fb fl o with
    | error e =>
      cases os' with
      | nil => simp [ListRel]
      | cons o2 os2 =>
        simp only [ListRel, reduceCtorEq, false_iff, not_and]
        intro h1
        have := (mapObj_ok_iff fb fl o o2).2 h1
        rw [hv] at this; cases this
    | ok o1 =>
      simp only
      cases hl : mapObjs fb fl os with
      | error e =>
        cases os' with
        | nil => simp [ListRel]
        | cons o2 os2 =>
          simp only [ListRel, reduceCtorEq, false_iff, not_and]
          intro _ h2
          have := (mapObjs_ok_iff fb fl os os2).2 h2
          rw [hl] at this; cases this
      | ok os1 =>
        cases os' with
        | nil => simp [ListRel]
        | cons o2 os2 =>
          simp only [ListRel, Except.ok.injEq, List.cons.injEq]
          constructor
          · intro ⟨h1, h2⟩
            subst h1; subst h2
            exact ⟨(mapObj_ok_iff fb fl o o1).1 hv, (mapObjs_ok_iff fb fl os os1).1 hl⟩
          · intro ⟨h1, h2⟩
            have a := (mapObj_ok_iff fb fl o o2).2 h1
            have b := (mapObjs_ok_iff fb fl os os2).2 h2
            rw [hv] at a; rw [hl] at b
            exact ⟨Except.ok.inj a, Except.ok.inj b⟩
end

end DDV.Gen

namespace DDV.Gen
set_option linter.unusedVariables false

/- Every non-block object of the tree satisfies `p`. -/
mutual
def AllLeavesObj (p : Object → Prop) : Object → Prop
  | .block _ os => AllLeaves p os
  | .register r => p (.register r)
  | .command c => p (.command c)
  | .buffer b => p (.buffer b)
  | .ref r => p (.ref r)
def AllLeaves (p : Object → Prop) : List Object → Prop
  | [] => True
  | o :: os => AllLeavesObj p o ∧ AllLeaves p os
end

def isOk {α : Type} (m : M α) : Prop := ∃ a, m = .ok a

/- A pass that leaves block heads alone succeeds iff its callback succeeds on every leaf. -/
mutual
theorem mapObj_pure_isOk (fl : Object → M Object) :
    ∀ (o : Object), isOk (mapObj (fun h => .ok h) fl o) ↔ AllLeavesObj (fun x => isOk (fl x)) o
  | .block h os => by
    unfold mapObj AllLeavesObj
    simp only
    have ih := mapObjs_pure_isOk fl os
    cases hv : mapObjs (fun h => .ok h) fl os with
    | error e =>
      constructor
      · intro ⟨a, ha⟩; cases ha
      · intro h; have := ih.2 h; obtain ⟨a, ha⟩ := this; rw [hv] at ha; cases ha
    | ok os1 =>
      constructor
      · intro _; exact ih.1 ⟨os1, hv⟩
      · intro _; exact ⟨_, rfl⟩
  | .register r => by unfold mapObj AllLeavesObj; exact Iff.rfl
  | .command c => by unfold mapObj AllLeavesObj; exact Iff.rfl
  | .buffer b => by unfold mapObj AllLeavesObj; exact Iff.rfl
  | .ref r => by unfold mapObj AllLeavesObj; exact Iff.rfl

theorem mapObjs_pure_isOk (fl : Object → M Object) :
    ∀ (os : List Object), isOk (mapObjs (fun h => .ok h) fl os) ↔ AllLeaves (fun x => isOk (fl x)) os
  | [] => by unfold mapObjs AllLeaves; exact ⟨fun _ => trivial, fun _ => ⟨_, rfl⟩⟩
  | o :: os => by
    unfold mapObjs AllLeaves
    have h1 := mapObj_pure_isOk fl o
    have h2 := mapObjs_pure_isOk fl os
    cases hv : mapObj (fun h => .ok h) fl o with
    | error e =>
      constructor
      · intro ⟨a, ha⟩; cases ha
      · intro ⟨h, _⟩; obtain ⟨a, ha⟩ := h1.2 h; rw [hv] at ha; cases ha
    | ok o1 =>
      simp only
      cases hl : mapObjs (fun h => .ok h) fl os with
      | error e =>
        constructor
        · intro ⟨a, ha⟩; cases ha
        · intro ⟨_, h⟩; obtain ⟨a, ha⟩ := h2.2 h; rw [hl] at ha; cases ha
      | ok os1 =>
        constructor
        · intro _; exact ⟨h1.1 ⟨o1, hv⟩, h2.1 ⟨os1, hl⟩⟩
        · intro _; exact ⟨_, rfl⟩
end

/- The pure tree map: block heads untouched, every other object through `g`. -/
mutual
def treeMapObj (g : Object → Object) : Object → Object
  | .block h os => .block h (treeMap g os)
  | .register r => g (.register r)
  | .command c => g (.command c)
  | .buffer b => g (.buffer b)
  | .ref r => g (.ref r)
def treeMap (g : Object → Object) : List Object → List Object
  | [] => []
  | o :: os => treeMapObj g o :: treeMap g os
end

/- If a successful callback always returns `g o`, a successful pass returns the tree map. -/
mutual
theorem mapObj_pure_eq_treeMap (fl : Object → M Object) (g : Object → Object)
    (hg : ∀ o o', fl o = .ok o' → o' = g o) :
    ∀ (o o' : Object), mapObj (fun h => .ok h) fl o = .ok o' → o' = treeMapObj g o
  | .block h os, o' => by
    unfold mapObj treeMapObj
    simp only
    cases hv : mapObjs (fun h => .ok h) fl os with
    | error e => intro h; cases h
    | ok os1 =>
      intro h
      have := mapObjs_pure_eq_treeMap fl g hg os os1 hv
      rw [← this]; exact (Except.ok.inj h).symm
  | .register r, o' => by unfold mapObj treeMapObj; exact hg _ _
  | .command c, o' => by unfold mapObj treeMapObj; exact hg _ _
  | .buffer b, o' => by unfold mapObj treeMapObj; exact hg _ _
  | .ref r, o' => by unfold mapObj treeMapObj; exact hg _ _
theorem mapObjs_pure_eq_treeMap (fl : Object → M Object) (g : Object → Object)
    (hg : ∀ o o', fl o = .ok o' → o' = g o) :
    ∀ (os os' : List Object), mapObjs (fun h => .ok h) fl os = .ok os' → os' = treeMap g os
  | [], os' => by unfold mapObjs treeMap; intro h; exact (Except.ok.inj h).symm
  | o :: os, os' => by
    unfold mapObjs treeMap
    cases hv : mapObj (fun h => .ok h) fl o with
    | error e => intro h; cases h
    | ok o1 =>
      simp only
      cases hl : mapObjs (fun h => .ok h) fl os with
      | error e => intro h; cases h
      | ok os1 =>
        intro h
        rw [← mapObj_pure_eq_treeMap fl g hg o o1 hv, ← mapObjs_pure_eq_treeMap fl g hg os os1 hl]
        exact (Except.ok.inj h).symm
end

/- `AllLeaves` through a tree map that keeps non-blocks non-blocks. -/
def LeafToLeaf (g : Object → Object) : Prop :=
  ∀ o, (∀ h os, o ≠ .block h os) → (∀ h os, g o ≠ .block h os)

theorem allLeavesObj_of_leaf (p : Object → Prop) (o : Object) (h : ∀ hd os, o ≠ .block hd os) :
    AllLeavesObj p o ↔ p o := by
  cases o with
  | block hd os => exact absurd rfl (h hd os)
  | _ => unfold AllLeavesObj; exact Iff.rfl

mutual
theorem allLeavesObj_treeMap (p : Object → Prop) (g : Object → Object) (hg : LeafToLeaf g) :
    ∀ (o : Object), AllLeavesObj p (treeMapObj g o) ↔ AllLeavesObj (fun x => p (g x)) o
  | .block h os => by
    unfold treeMapObj AllLeavesObj
    exact allLeaves_treeMap p g hg os
  | .register r => by
    unfold treeMapObj
    rw [allLeavesObj_of_leaf p _ (hg _ (by intro _ _ h; cases h))]
    unfold AllLeavesObj; exact Iff.rfl
  | .command c => by
    unfold treeMapObj
    rw [allLeavesObj_of_leaf p _ (hg _ (by intro _ _ h; cases h))]
    unfold AllLeavesObj; exact Iff.rfl
  | .buffer b => by
    unfold treeMapObj
    rw [allLeavesObj_of_leaf p _ (hg _ (by intro _ _ h; cases h))]
    unfold AllLeavesObj; exact Iff.rfl
  | .ref r => by
    unfold treeMapObj
    rw [allLeavesObj_of_leaf p _ (hg _ (by intro _ _ h; cases h))]
    unfold AllLeavesObj; exact Iff.rfl
theorem allLeaves_treeMap (p : Object → Prop) (g : Object → Object) (hg : LeafToLeaf g) :
    ∀ (os : List Object), AllLeaves p (treeMap g os) ↔ AllLeaves (fun x => p (g x)) os
  | [] => by unfold treeMap AllLeaves; exact Iff.rfl
  | o :: os => by
    unfold treeMap AllLeaves
    rw [allLeavesObj_treeMap p g hg o, allLeaves_treeMap p g hg os]
end

/- `AllLeaves` is monotone / congruent. -/
mutual
theorem allLeavesObj_congr (p q : Object → Prop) (h : ∀ o, p o ↔ q o) :
    ∀ (o : Object), AllLeavesObj p o ↔ AllLeavesObj q o
  | .block hd os => by unfold AllLeavesObj; exact allLeaves_congr p q h os
  | .register r => by unfold AllLeavesObj; exact h _
  | .command c => by unfold AllLeavesObj; exact h _
  | .buffer b => by unfold AllLeavesObj; exact h _
  | .ref r => by unfold AllLeavesObj; exact h _
theorem allLeaves_congr (p q : Object → Prop) (h : ∀ o, p o ↔ q o) :
    ∀ (os : List Object), AllLeaves p os ↔ AllLeaves q os
  | [] => by unfold AllLeaves; exact Iff.rfl
  | o :: os => by
    unfold AllLeaves
    rw [allLeavesObj_congr p q h o, allLeaves_congr p q h os]
end

mutual
theorem allLeavesObj_and (p q : Object → Prop) :
    ∀ (o : Object), AllLeavesObj (fun x => p x ∧ q x) o ↔ AllLeavesObj p o ∧ AllLeavesObj q o
  | .block hd os => by unfold AllLeavesObj; exact allLeaves_and p q os
  | .register r => by unfold AllLeavesObj; exact Iff.rfl
  | .command c => by unfold AllLeavesObj; exact Iff.rfl
  | .buffer b => by unfold AllLeavesObj; exact Iff.rfl
  | .ref r => by unfold AllLeavesObj; exact Iff.rfl
theorem allLeaves_and (p q : Object → Prop) :
    ∀ (os : List Object), AllLeaves (fun x => p x ∧ q x) os ↔ AllLeaves p os ∧ AllLeaves q os
  | [] => by unfold AllLeaves; exact ⟨fun _ => ⟨trivial, trivial⟩, fun _ => trivial⟩
  | o :: os => by
    unfold AllLeaves
    rw [allLeavesObj_and p q o, allLeaves_and p q os]
    constructor
    · intro ⟨⟨a, b⟩, ⟨c, d⟩⟩; exact ⟨⟨a, c⟩, ⟨b, d⟩⟩
    · intro ⟨⟨a, c⟩, ⟨b, d⟩⟩; exact ⟨⟨a, b⟩, ⟨c, d⟩⟩
end

end DDV.Gen

namespace DDV.Gen
set_option linter.unusedVariables false

/-- The computation can only stop with a *reported error*, never with a panic or abort. -/
def OnlyErrors {α : Type} (m : M α) : Prop := ∀ s, m = .error s → ∃ e, s = Stop.error e

mutual
theorem mapObj_onlyErrors (fl : Object → M Object) (h : ∀ o, OnlyErrors (fl o)) :
    ∀ (o : Object), OnlyErrors (mapObj (fun h => .ok h) fl o)
  | .block hd os => by
    unfold mapObj
    simp only
    intro s hs
    cases hv : mapObjs (fun h => .ok h) fl os with
    | error e => rw [hv] at hs; exact mapObjs_onlyErrors fl h os s (by rw [hv]; exact congrArg _ (Except.error.inj hs))
    | ok x => rw [hv] at hs; cases hs
  | .register r => by unfold mapObj; exact h _
  | .command c => by unfold mapObj; exact h _
  | .buffer b => by unfold mapObj; exact h _
  | .ref r => by unfold mapObj; exact h _
theorem mapObjs_onlyErrors (fl : Object → M Object) (h : ∀ o, OnlyErrors (fl o)) :
    ∀ (os : List Object), OnlyErrors (mapObjs (fun h => .ok h) fl os)
  | [] => by unfold mapObjs; intro s hs; cases hs
  | o :: os => by
    unfold mapObjs
    intro s hs
    cases hv : mapObj (fun h => .ok h) fl o with
    | error e =>
      rw [hv] at hs
      exact mapObj_onlyErrors fl h o s (by rw [hv]; exact congrArg _ (Except.error.inj hs))
    | ok o1 =>
      rw [hv] at hs
      simp only at hs
      cases hl : mapObjs (fun h => .ok h) fl os with
      | error e =>
        rw [hl] at hs
        exact mapObjs_onlyErrors fl h os s (by rw [hl]; exact congrArg _ (Except.error.inj hs))
      | ok x => rw [hl] at hs; cases hs
end

end DDV.Gen
