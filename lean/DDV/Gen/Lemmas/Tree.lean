/-
  Generic facts about the stateless pre-order traversal `mapObjs`: a pass succeeds exactly when
  its callback succeeds on every object of the tree, and then it is the tree map.
-/
import DDV.Gen.Passes

namespace DDV.Gen
set_option linter.unusedVariables false

/- "the tree `os'` is the image of `os`": block heads through `fb`, other objects through `fl`. -/
mutual
def ObjRel (fb : BlockHead → M BlockHead) (fl : Object → M Object) : Object → Object → Prop
  | .block h os, .block h' os' => fb h = .ok h' ∧ ListRel fb fl os os'
  | .block _ _, _ => False
  | .register r, o' => fl (.register r) = .ok o'
  | .command c, o' => fl (.command c) = .ok o'
  | .buffer b, o' => fl (.buffer b) = .ok o'
  | .ref r, o' => fl (.ref r) = .ok o'
def ListRel (fb : BlockHead → M BlockHead) (fl : Object → M Object) : List Object → List Object → Prop
  | [], [] => True
  | o :: os, o' :: os' => ObjRel fb fl o o' ∧ ListRel fb fl os os'
  | [], _ :: _ => False
  | _ :: _, [] => False
end

mutual
theorem mapObj_ok_iff (fb : BlockHead → M BlockHead) (fl : Object → M Object) :
    ∀ (o o' : Object), mapObj fb fl o = .ok o' ↔ ObjRel fb fl o o'
  | .block h os, o' => by
    unfold mapObj
    cases hb : fb h with
    | error e => cases o' <;> simp [ObjRel, hb]
    | ok h' =>
      simp only
      cases hv : mapObjs fb fl os with
      | error e =>
        cases o' with
        | block h2 os2 =>
          simp only [ObjRel, hb, Except.ok.injEq, reduceCtorEq, false_iff, not_and]
          intro _ h2
          have := (mapObjs_ok_iff fb fl os os2).2 h2
          rw [hv] at this; cases this
        | _ => simp [ObjRel]
      | ok os1 =>
        cases o' with
        | block h3 os3 =>
          simp only [ObjRel, hb, Except.ok.injEq, Object.block.injEq]
          constructor
          · intro ⟨h1, h2⟩
            subst h1; subst h2
            exact ⟨rfl, (mapObjs_ok_iff fb fl os os1).1 hv⟩
          · intro ⟨h1, h2⟩
            have h4 := (mapObjs_ok_iff fb fl os os3).2 h2
            rw [hv] at h4
            exact ⟨h1, Except.ok.inj h4⟩
        | _ => simp [ObjRel]
  | .register r, o' => by unfold mapObj; simp [ObjRel]
  | .command c, o' => by unfold mapObj; simp [ObjRel]
  | .buffer b, o' => by unfold mapObj; simp [ObjRel]
  | .ref r, o' => by unfold mapObj; simp [ObjRel]

theorem mapObjs_ok_iff (fb : BlockHead → M BlockHead) (fl : Object → M Object) :
    ∀ (os os' : List Object), mapObjs fb fl os = .ok os' ↔ ListRel fb fl os os'
  | [], os' => by
    unfold mapObjs
    cases os' <;> simp [ListRel]
  | o :: os, os' => by
    unfold mapObjs
    cases hv : mapObj fb fl o with
    | error e =>
      cases os' with
      | nil => simp [ListRel]
      | cons o2 os2 =>
        simp only [ListRel, reduceCtorEq, false_iff, not_and]
        intro h1
        have := (mapObj_ok_iff fb fl o o2).2 h1
        rw [hv] at this; cases this
    | ok o1 =>
      simp only
      cases hl : mapObjs fb fl os with
      | error e =>
        cases os' with
        | nil => simp [ListRel]
        | cons o2 os2 =>
          simp only [ListRel, reduceCtorEq, false_iff, not_and]
          intro _ h2
          have := (mapObjs_ok_iff fb fl os os2).2 h2
          rw [hl] at this; cases this
      | ok os1 =>
        cases os' with
        | nil => simp [ListRel]
        | cons o2 os2 =>
          simp only [ListRel, Except.ok.injEq, List.cons.injEq]
          constructor
          · intro ⟨h1, h2⟩
            subst h1; subst h2
            exact ⟨(mapObj_ok_iff fb fl o o1).1 hv, (mapObjs_ok_iff fb fl os os1).1 hl⟩
          · intro ⟨h1, h2⟩
            have a := (mapObj_ok_iff fb fl o o2).2 h1
            have b := (mapObjs_ok_iff fb fl os os2).2 h2
            rw [hv] at a; rw [hl] at b
            exact ⟨Except.ok.inj a, Except.ok.inj b⟩
end

end DDV.Gen

namespace DDV.Gen
set_option linter.unusedVariables false

/- Every non-block object of the tree satisfies `p`. -/
mutual
def AllLeavesObj (p : Object → Prop) : Object → Prop
  | .block _ os => AllLeaves p os
  | .register r => p (.register r)
  | .command c => p (.command c)
  | .buffer b => p (.buffer b)
  | .ref r => p (.ref r)
def AllLeaves (p : Object → Prop) : List Object → Prop
  | [] => True
  | o :: os => AllLeavesObj p o ∧ AllLeaves p os
end

def isOk {α : Type} (m : M α) : Prop := ∃ a, m = .ok a

/- A pass that leaves block heads alone succeeds iff its callback succeeds on every leaf. -/
mutual
theorem mapObj_pure_isOk (fl : Object → M Object) :
    ∀ (o : Object), isOk (mapObj (fun h => .ok h) fl o) ↔ AllLeavesObj (fun x => isOk (fl x)) o
  | .block h os => by
    unfold mapObj AllLeavesObj
    simp only
    have ih := mapObjs_pure_isOk fl os
    cases hv : mapObjs (fun h => .ok h) fl os with
    | error e =>
      constructor
      · intro ⟨a, ha⟩; cases ha
      · intro h; have := ih.2 h; obtain ⟨a, ha⟩ := this; rw [hv] at ha; cases ha
    | ok os1 =>
      constructor
      · intro _; exact ih.1 ⟨os1, hv⟩
      · intro _; exact ⟨_, rfl⟩
  | .register r => by unfold mapObj AllLeavesObj; exact Iff.rfl
  | .command c => by unfold mapObj AllLeavesObj; exact Iff.rfl
  | .buffer b => by unfold mapObj AllLeavesObj; exact Iff.rfl
  | .ref r => by unfold mapObj AllLeavesObj; exact Iff.rfl

theorem mapObjs_pure_isOk (fl : Object → M Object) :
    ∀ (os : List Object), isOk (mapObjs (fun h => .ok h) fl os) ↔ AllLeaves (fun x => isOk (fl x)) os
  | [] => by unfold mapObjs AllLeaves; exact ⟨fun _ => trivial, fun _ => ⟨_, rfl⟩⟩
  | o :: os => by
    unfold mapObjs AllLeaves
    have h1 := mapObj_pure_isOk fl o
    have h2 := mapObjs_pure_isOk fl os
    cases hv : mapObj (fun h => .ok h) fl o with
    | error e =>
      constructor
      · intro ⟨a, ha⟩; cases ha
      · intro ⟨h, _⟩; obtain ⟨a, ha⟩ := h1.2 h; rw [hv] at ha; cases ha
    | ok o1 =>
      simp only
      cases hl : mapObjs (fun h => .ok h) fl os with
      | error e =>
        constructor
        · intro ⟨a, ha⟩; cases ha
        · intro ⟨_, h⟩; obtain ⟨a, ha⟩ := h2.2 h; rw [hl] at ha; cases ha
      | ok os1 =>
        constructor
        · intro _; exact ⟨h1.1 ⟨o1, hv⟩, h2.1 ⟨os1, hl⟩⟩
        · intro _; exact ⟨_, rfl⟩
end

/-- Kleisli composition of two per-object callbacks. -/
def andThen (f g : Object → M Object) (o : Object) : M Object :=
  match f o with
  | .error e => .error e
  | .ok o1 => g o1

/-- A callback that maps non-block objects to non-block objects. -/
def KeepsLeaves (f : Object → M Object) : Prop :=
  ∀ o o', f o = .ok o' → (∀ h os, o ≠ .block h os) → (∀ h os, o' ≠ .block h os)

/- Two consecutive passes succeed iff the fused pass does (and then give the same tree). -/
mutual
theorem mapObj_fuse (f g : Object → M Object) (hf : KeepsLeaves f) :
    ∀ (o : Object),
      (match mapObj (fun h => .ok h) f o with
       | .error e => (.error e : M Object)
       | .ok o1 => mapObj (fun h => .ok h) g o1) = mapObj (fun h => .ok h) (andThen f g) o ∨
      (¬ isOk (match mapObj (fun h => .ok h) f o with
               | .error e => (.error e : M Object)
               | .ok o1 => mapObj (fun h => .ok h) g o1) ∧
       ¬ isOk (mapObj (fun h => .ok h) (andThen f g) o))
  | .block h os => by
    have ih := mapObjs_fuse f g hf os
    unfold mapObj
    simp only
    cases hv : mapObjs (fun h => .ok h) f os with
    | error e =>
      rw [hv] at ih
      simp only at ih ⊢
      rcases ih with ih | ih
      · left; rw [← ih]
      · right
        refine ⟨fun ⟨a, ha⟩ => by cases ha, ?_⟩
        intro ⟨a, ha⟩
        cases h2 : mapObjs (fun h => .ok h) (andThen f g) os with
        | error e2 => rw [h2] at ha; cases ha
        | ok x => exact ih.2 ⟨x, h2⟩
    | ok os1 =>
      rw [hv] at ih
      simp only at ih ⊢
      unfold mapObj
      simp only
      rcases ih with ih | ih
      · left; rw [ih]
      · right
        constructor
        · intro ⟨a, ha⟩
          cases h2 : mapObjs (fun h => .ok h) g os1 with
          | error e2 => rw [h2] at ha; cases ha
          | ok x => exact ih.1 ⟨x, h2⟩
        · intro ⟨a, ha⟩
          cases h2 : mapObjs (fun h => .ok h) (andThen f g) os with
          | error e2 => rw [h2] at ha; cases ha
          | ok x => exact ih.2 ⟨x, h2⟩
  | .register r => by
    unfold mapObj andThen
    cases h : f (.register r) with
    | error e => left; rfl
    | ok o1 =>
      simp only
      have := hf _ _ h (by intro _ _ hh; cases hh)
      left
      cases o1 with
      | block h os => exact absurd rfl (this h os)
      | _ => unfold mapObj; rfl
  | .command c => by
    unfold mapObj andThen
    cases h : f (.command c) with
    | error e => left; rfl
    | ok o1 =>
      simp only
      have := hf _ _ h (by intro _ _ hh; cases hh)
      left
      cases o1 with
      | block h os => exact absurd rfl (this h os)
      | _ => unfold mapObj; rfl
  | .buffer b => by
    unfold mapObj andThen
    cases h : f (.buffer b) with
    | error e => left; rfl
    | ok o1 =>
      simp only
      have := hf _ _ h (by intro _ _ hh; cases hh)
      left
      cases o1 with
      | block h os => exact absurd rfl (this h os)
      | _ => unfold mapObj; rfl
  | .ref r => by
    unfold mapObj andThen
    cases h : f (.ref r) with
    | error e => left; rfl
    | ok o1 =>
      simp only
      have := hf _ _ h (by intro _ _ hh; cases hh)
      left
      cases o1 with
      | block h os => exact absurd rfl (this h os)
      | _ => unfold mapObj; rfl

theorem mapObjs_fuse (f g : Object → M Object) (hf : KeepsLeaves f) :
    ∀ (os : List Object),
      (match mapObjs (fun h => .ok h) f os with
       | .error e => (.error e : M (List Object))
       | .ok os1 => mapObjs (fun h => .ok h) g os1) = mapObjs (fun h => .ok h) (andThen f g) os ∨
      (¬ isOk (match mapObjs (fun h => .ok h) f os with
               | .error e => (.error e : M (List Object))
               | .ok os1 => mapObjs (fun h => .ok h) g os1) ∧
       ¬ isOk (mapObjs (fun h => .ok h) (andThen f g) os))
  | [] => by left; unfold mapObjs; simp only; unfold mapObjs; rfl
  | o :: os => by
    have h1 := mapObj_fuse f g hf o
    have h2 := mapObjs_fuse f g hf os
    sorry
end

end DDV.Gen
