/-
  What the lowering makes of a ref to a register / command: one lemma each, used by the
  property files (address and layout: C04; access: C17; cfg: C18; constructor: C05/C08; overlap
  flag: C12).
-/
import DDV.Gen.Lower

namespace DDV.Gen
set_option linter.unusedVariables false
set_option linter.unusedSimpArgs false

/-- A ref whose override is a register override and whose target name resolves to a register. -/
theorem register_ref_method (n : Names) (cfg : GlobalConfig) (all : List Object) (rf : RefObject)
    (ov : RegisterOverride) (r : Register) (t : Integer) (fuel : Nat)
    (hov : rf.override = .register ov) (ht : searchObject ov.name all = some (.register r))
    (hc : cfg.registerAddressType = some t) :
    ∃ m, getMethod n cfg all "new" (fuel + 2) (.ref rf) = .ok (m, []) ∧
      m.name = n.method rf.name ∧ m.kind = .register ∧
      m.cfg = rf.cfg ∧
      m.target = some r.name ∧
      m.address = ov.address.getD r.address ∧
      m.repeat_ = (match ov.repeat_ with | some x => some x | none => r.repeat_) ∧
      m.access = some (ov.access.getD r.access) ∧
      m.allowAddressOverlap = (r.allowAddressOverlap || ov.allowAddressOverlap) ∧
      m.addressType = some t ∧
      m.resetFn = some (if ov.reset.isSome then s!"new_as_{n.method rf.name}" else "new") := by
  unfold getMethod
  simp only [hov, ObjectOverride.name, ht, substRef, bind, Except.bind, pure, Except.pure]
  simp [getMethod, hc, bind, Except.bind, pure, Except.pure]
  cases ov.repeat_ <;> rfl

/-- A ref whose override is a command override and whose target name resolves to a command. -/
theorem command_ref_method (n : Names) (cfg : GlobalConfig) (all : List Object) (rf : RefObject)
    (ov : CommandOverride) (c : Command) (t : Integer) (fuel : Nat)
    (hov : rf.override = .command ov) (ht : searchObject ov.name all = some (.command c))
    (hc : cfg.commandAddressType = some t) :
    ∃ m, getMethod n cfg all "new" (fuel + 2) (.ref rf) = .ok (m, []) ∧
      m.name = n.method rf.name ∧ m.kind = .command ∧
      m.cfg = rf.cfg ∧
      m.address = ov.address.getD c.address ∧
      m.repeat_ = (match ov.repeat_ with | some x => some x | none => c.repeat_) ∧
      m.allowAddressOverlap = (c.allowAddressOverlap || ov.allowAddressOverlap) ∧
      m.addressType = some t ∧
      (m.inSet = if c.inFields.isEmpty then none else some s!"{c.name}FieldsIn") ∧
      (m.outSet = if c.outFields.isEmpty then none else some s!"{c.name}FieldsOut") := by
  unfold getMethod
  simp only [hov, ObjectOverride.name, ht, substRef, bind, Except.bind, pure, Except.pure]
  simp [getMethod, hc, bind, Except.bind, pure, Except.pure]
  cases ov.repeat_ <;> rfl

end DDV.Gen
