/-
  Lemmas for C13: what `find_min_max_addresses` covers.
-/
import DDV.Gen.Passes

namespace DDV.Gen
set_option linter.unusedVariables false
set_option linter.unusedSimpArgs false

theorem ck_ok {n v : Int} (h : ck n = .ok v) : v = n ∧ i64Min ≤ n ∧ n ≤ i64Max := by
  unfold ck fitsI64' at h
  split at h
  · rename_i hh
    simp only [decide_eq_true_eq] at hh
    exact ⟨(Except.ok.inj h).symm, hh.1, hh.2⟩
  · cases h

theorem sumChecked_ok : ∀ (l : List Int) (acc v : Int), sumChecked l acc = .ok v → v = acc + l.sum
  | [], acc, v, h => by unfold sumChecked at h; simp [(Except.ok.inj h).symm]
  | x :: xs, acc, v, h => by
    unfold sumChecked at h
    cases hc : ck (acc + x) with
    | error e => rw [hc] at h; cases h
    | ok w =>
      rw [hc] at h
      have := sumChecked_ok xs w v h
      rw [this, (ck_ok hc).1]
      simp [List.sum_cons]; omega

/-- the lowest / highest base the enclosing blocks' repeats can produce -/
def loSum (base : List (Int × Int)) : Int := (base.map (·.1)).sum
def hiSum (base : List (Int × Int)) : Int := (base.map (·.2)).sum

/-- Stack invariant of the walk at nesting level `depth` below blocks whose (lowest, highest)
    offsets are `base` (innermost first, the initial (0, 0) at the bottom): deeper entries may
    still be on the stack (they are popped at the next object), the rest of the stack is `base`. -/
structure MMInv (mm : MinMax) (depth : Nat) (base : List (Int × Int)) : Prop where
  ge : depth ≤ mm.lastDepth
  len : mm.offsets.length = mm.lastDepth + 1
  tail : mm.offsets.drop (mm.lastDepth - depth) = base

theorem popWhile_spec (mm : MinMax) (depth : Nat) (base : List (Int × Int)) (h : MMInv mm depth base) :
    (popWhile depth mm).offsets = base ∧ (popWhile depth mm).lastDepth = depth ∧
    (popWhile depth mm).min = mm.min ∧ (popWhile depth mm).max = mm.max := by
  unfold popWhile
  by_cases hd : depth < mm.lastDepth
  · rw [if_pos hd]
    exact ⟨h.tail, rfl, rfl, rfl⟩
  · have heq : mm.lastDepth = depth := by have := h.ge; omega
    rw [if_neg hd]
    have ht := h.tail
    rw [heq, Nat.sub_self, List.drop_zero] at ht
    exact ⟨ht, heq, rfl, rfl⟩

/-- min only goes down, max only goes up. -/
def Mono (a b : MinMax) : Prop := b.min ≤ a.min ∧ a.max ≤ b.max

theorem Mono.refl (a : MinMax) : Mono a a := ⟨Int.le_refl _, Int.le_refl _⟩
theorem Mono.trans {a b c : MinMax} (h1 : Mono a b) (h2 : Mono b c) : Mono a c :=
  ⟨Int.le_trans h2.1 h1.1, Int.le_trans h1.2 h2.2⟩

def Covered (mm : MinMax) (x : Int) : Prop := mm.min ≤ x ∧ x ≤ mm.max

theorem Covered.mono {a b : MinMax} {x : Int} (h : Covered a x) (m : Mono a b) : Covered b x :=
  ⟨Int.le_trans m.1 h.1, Int.le_trans h.2 m.2⟩

/-- The object's own lowest / highest address over its repeat. -/
def ownLo (a : Int) (rep : Repeat) : Int := a + Min.min (countMinus1AsI64 rep.count * rep.stride) 0
def ownHi (a : Int) (rep : Repeat) : Int := a + Max.max (countMinus1AsI64 rep.count * rep.stride) 0

/-- The update covers the lowest address on top of the lowest base and the highest on top of the
    highest base, returns the object's own extremes, and changes nothing else. -/
theorem updMinMax_spec (mm mm' : MinMax) (a : Int) (rep : Repeat) (lo hi : Int)
    (h : updMinMax mm a rep = .ok (mm', lo, hi)) :
    Mono mm mm' ∧ lo = ownLo a rep ∧ hi = ownHi a rep ∧
    mm'.min ≤ loSum mm.offsets + lo ∧ hiSum mm.offsets + hi ≤ mm'.max ∧
    mm'.offsets = mm.offsets ∧ mm'.lastDepth = mm.lastDepth := by
  unfold updMinMax at h
  cases hs1 : sumChecked (mm.offsets.map (·.1)).reverse 0 with
  | error e => rw [hs1] at h; cases h
  | ok minOff =>
    rw [hs1] at h
    simp only at h
    cases hs2 : sumChecked (mm.offsets.map (·.2)).reverse 0 with
    | error e => rw [hs2] at h; cases h
    | ok maxOff =>
      rw [hs2] at h
      simp only at h
      have hmin : minOff = loSum mm.offsets := by
        have := sumChecked_ok _ _ _ hs1
        rw [this, List.sum_reverse]; unfold loSum; omega
      have hmax : maxOff = hiSum mm.offsets := by
        have := sumChecked_ok _ _ _ hs2
        rw [this, List.sum_reverse]; unfold hiSum; omega
      cases h2 : ck (countMinus1AsI64 rep.count * rep.stride) with
      | error e => rw [h2] at h; cases h
      | ok span =>
        rw [h2] at h
        simp only at h
        cases h3 : ck (a + Min.min span 0) with
        | error e => rw [h3] at h; cases h
        | ok lowest =>
          rw [h3] at h
          simp only at h
          cases h4 : ck (a + Max.max span 0) with
          | error e => rw [h4] at h; cases h
          | ok highest =>
            rw [h4] at h
            simp only at h
            cases h5 : ck (minOff + lowest) with
            | error e => rw [h5] at h; cases h
            | ok l =>
              rw [h5] at h
              simp only at h
              cases h6 : ck (maxOff + highest) with
              | error e => rw [h6] at h; cases h
              | ok hh =>
                rw [h6] at h
                simp only [Except.ok.injEq, Prod.mk.injEq] at h
                obtain ⟨hm, hlo, hhi⟩ := h
                have e2 := (ck_ok h2).1
                have e3 := (ck_ok h3).1
                have e4 := (ck_ok h4).1
                have e5 := (ck_ok h5).1
                have e6 := (ck_ok h6).1
                subst hlo hhi
                rw [← hm]
                unfold Mono ownLo ownHi
                simp only
                rw [← hmin, ← hmax, ← e2]
                refine ⟨⟨?_, ?_⟩, e3, e4, ?_, ?_, ?_, ?_⟩
                all_goals first
                  | trivial
                  | rfl
                  | (simp only [Min.min, Max.max, Int.min_def, Int.max_def] <;> (repeat' split) <;> omega)

/-- One callback invocation on a selected object. -/
theorem minMaxStep_selected (filter : Object → Bool) (mm mm' : MinMax) (o : Object) (depth : Nat)
    (base : List (Int × Int)) (hinv : MMInv mm depth base) (hf : filter o = true)
    (h : minMaxStep filter mm (o, depth) = .ok mm') :
    Mono mm mm' ∧
    (∀ a, o.address = some a →
      mm'.min ≤ loSum base + ownLo a (o.repeat_.getD ⟨1, 0⟩) ∧ hiSum base + ownHi a (o.repeat_.getD ⟨1, 0⟩) ≤ mm'.max ∧
      ∃ mm2, mm' = pushBlock o (ownLo a (o.repeat_.getD ⟨1, 0⟩)) (ownHi a (o.repeat_.getD ⟨1, 0⟩)) mm2 ∧
        mm2.offsets = base ∧ mm2.lastDepth = depth) ∧
    (o.address = none → mm'.offsets = base ∧ mm'.lastDepth = depth) := by
  obtain ⟨hp1, hp2, hp3, hp4⟩ := popWhile_spec mm depth base hinv
  unfold minMaxStep at h
  simp only [hf, Bool.not_true, Bool.false_eq_true, if_false] at h
  have hpm : Mono mm (popWhile depth mm) := ⟨by rw [hp3]; exact Int.le_refl _, by rw [hp4]; exact Int.le_refl _⟩
  have hpush : ∀ (m : MinMax) (x y : Int), (pushBlock o x y m).min = m.min ∧ (pushBlock o x y m).max = m.max := by
    intro m x y; unfold pushBlock; cases o <;> exact ⟨rfl, rfl⟩
  cases ha : o.address with
  | none =>
    simp only [ha, Except.ok.injEq] at h
    rw [← h]
    exact ⟨hpm, (fun a h' => by cases h'), fun _ => ⟨hp1, hp2⟩⟩
  | some a =>
    simp only [ha] at h
    cases hu : updMinMax (popWhile depth mm) a (o.repeat_.getD ⟨1, 0⟩) with
    | error e => rw [hu] at h; cases h
    | ok r =>
      obtain ⟨mm2, lo, hi⟩ := r
      rw [hu] at h
      simp only [Except.ok.injEq] at h
      obtain ⟨m1, elo, ehi, c1, c2, o1, o2⟩ := updMinMax_spec _ _ _ _ _ _ hu
      rw [hp1] at c1 c2
      rw [← h]
      have hm2 : Mono mm2 (pushBlock o lo hi mm2) :=
        ⟨by rw [(hpush _ _ _).1]; exact Int.le_refl _, by rw [(hpush _ _ _).2]; exact Int.le_refl _⟩
      refine ⟨(hpm.trans m1).trans hm2, ?_, fun hh => by cases hh⟩
      intro a' ha'
      cases ha'
      refine ⟨by rw [(hpush _ _ _).1, ← elo]; exact c1, by rw [(hpush _ _ _).2, ← ehi]; exact c2,
              mm2, by rw [elo, ehi], by rw [o1, hp1], by rw [o2, hp2]⟩

/-- A callback invocation on an object the filter does not select only pops. -/
theorem minMaxStep_unselected (filter : Object → Bool) (mm mm' : MinMax) (o : Object) (depth : Nat)
    (base : List (Int × Int)) (hinv : MMInv mm depth base) (hf : filter o = false)
    (h : minMaxStep filter mm (o, depth) = .ok mm') :
    Mono mm mm' ∧ mm'.offsets = base ∧ mm'.lastDepth = depth := by
  obtain ⟨hp1, hp2, hp3, hp4⟩ := popWhile_spec mm depth base hinv
  unfold minMaxStep at h
  simp only [hf, Bool.not_false, if_true, Except.ok.injEq] at h
  rw [← h]
  exact ⟨⟨by rw [hp3]; exact Int.le_refl _, by rw [hp4]; exact Int.le_refl _⟩, hp1, hp2⟩

theorem countMinus1_small (n : Nat) (h : n - 1 < 2 ^ 63) : countMinus1AsI64 n = ((n - 1 : Nat) : Int) := by
  unfold countMinus1AsI64
  simp [h]

/-- Every instance of a repeated object lies between its own lowest and highest address. -/
theorem own_between (a : Int) (rep : Repeat) (i : Nat) (hi : i < rep.count) (hs : rep.count - 1 < 2 ^ 63) :
    ownLo a rep ≤ a + (i : Int) * rep.stride ∧ a + (i : Int) * rep.stride ≤ ownHi a rep := by
  unfold ownLo ownHi
  rw [countMinus1_small _ hs]
  have hin : (i : Int) ≤ ((rep.count - 1 : Nat) : Int) := by omega
  have hi0 : (0 : Int) ≤ (i : Int) := by omega
  by_cases hst : 0 ≤ rep.stride
  · have h2 : (i : Int) * rep.stride ≤ ((rep.count - 1 : Nat) : Int) * rep.stride := Int.mul_le_mul_of_nonneg_right hin hst
    have h3 : 0 ≤ (i : Int) * rep.stride := Int.mul_nonneg hi0 hst
    simp only [Min.min, Max.max, Int.min_def, Int.max_def]
    constructor <;> (repeat' split) <;> omega
  · have hs' : rep.stride ≤ 0 := by omega
    have h2 : ((rep.count - 1 : Nat) : Int) * rep.stride ≤ (i : Int) * rep.stride := Int.mul_le_mul_of_nonpos_right hin hs'
    have h3 : (i : Int) * rep.stride ≤ 0 := Int.mul_nonpos_of_nonneg_of_nonpos hi0 hs'
    simp only [Min.min, Max.max, Int.min_def, Int.max_def]
    constructor <;> (repeat' split) <;> omega

/- What the analysis bounds: for every selected object with an address and every base `b` the
   enclosing blocks' repeats can produce (`bl ≤ b ≤ bh`), all of `b + address + i × stride`
   (i below its own repeat count); a block's children are bounded over the range of bases the
   block's own repeat produces. Only `Object::Block`s are descended into (children behind a block
   ref are not: finding F6b). -/
mutual
def BoundsObj (filter : Object → Bool) (mn mx : Int) (bl bh : Int) : Object → Prop
  | .block h os =>
    (∀ b, bl ≤ b → b ≤ bh → ∀ i, i < (h.repeat_.getD ⟨1, 0⟩).count →
       mn ≤ b + h.addressOffset + (i : Int) * (h.repeat_.getD ⟨1, 0⟩).stride ∧
       b + h.addressOffset + (i : Int) * (h.repeat_.getD ⟨1, 0⟩).stride ≤ mx) ∧
    BoundsList filter mn mx (bl + ownLo h.addressOffset (h.repeat_.getD ⟨1, 0⟩))
      (bh + ownHi h.addressOffset (h.repeat_.getD ⟨1, 0⟩)) os
  | .register r => filter (.register r) = true →
      ∀ b, bl ≤ b → b ≤ bh → ∀ i, i < (r.repeat_.getD ⟨1, 0⟩).count →
        mn ≤ b + r.address + (i : Int) * (r.repeat_.getD ⟨1, 0⟩).stride ∧
        b + r.address + (i : Int) * (r.repeat_.getD ⟨1, 0⟩).stride ≤ mx
  | .command c => filter (.command c) = true →
      ∀ b, bl ≤ b → b ≤ bh → ∀ i, i < (c.repeat_.getD ⟨1, 0⟩).count →
        mn ≤ b + c.address + (i : Int) * (c.repeat_.getD ⟨1, 0⟩).stride ∧
        b + c.address + (i : Int) * (c.repeat_.getD ⟨1, 0⟩).stride ≤ mx
  | .buffer bf => filter (.buffer bf) = true → ∀ b, bl ≤ b → b ≤ bh → mn ≤ b + bf.address ∧ b + bf.address ≤ mx
  | .ref r => filter (.ref r) = true → ∀ a, (Object.ref r).address = some a →
      ∀ b, bl ≤ b → b ≤ bh → ∀ i, i < ((Object.ref r).repeat_.getD ⟨1, 0⟩).count →
        mn ≤ b + a + (i : Int) * ((Object.ref r).repeat_.getD ⟨1, 0⟩).stride ∧
        b + a + (i : Int) * ((Object.ref r).repeat_.getD ⟨1, 0⟩).stride ≤ mx
def BoundsList (filter : Object → Bool) (mn mx : Int) (bl bh : Int) : List Object → Prop
  | [] => True
  | o :: os => BoundsObj filter mn mx bl bh o ∧ BoundsList filter mn mx bl bh os
end

mutual
theorem boundsObj_mono (filter : Object → Bool) (mn mx mn' mx' : Int) (h1 : mn' ≤ mn) (h2 : mx ≤ mx') :
    ∀ (o : Object) (bl bh : Int), BoundsObj filter mn mx bl bh o → BoundsObj filter mn' mx' bl bh o
  | .block h os, bl, bh, hb => by
    unfold BoundsObj at hb ⊢
    exact ⟨fun b hb1 hb2 i hi => ⟨by have := hb.1 b hb1 hb2 i hi; omega, by have := hb.1 b hb1 hb2 i hi; omega⟩,
           boundsList_mono filter mn mx mn' mx' h1 h2 os _ _ hb.2⟩
  | .register r, bl, bh, hb => by
    unfold BoundsObj at hb ⊢
    intro hf b hb1 hb2 i hi; have := hb hf b hb1 hb2 i hi; exact ⟨by omega, by omega⟩
  | .command c, bl, bh, hb => by
    unfold BoundsObj at hb ⊢
    intro hf b hb1 hb2 i hi; have := hb hf b hb1 hb2 i hi; exact ⟨by omega, by omega⟩
  | .buffer bf, bl, bh, hb => by
    unfold BoundsObj at hb ⊢
    intro hf b hb1 hb2; have := hb hf b hb1 hb2; exact ⟨by omega, by omega⟩
  | .ref r, bl, bh, hb => by
    unfold BoundsObj at hb ⊢
    intro hf a ha b hb1 hb2 i hi; have := hb hf a ha b hb1 hb2 i hi; exact ⟨by omega, by omega⟩
theorem boundsList_mono (filter : Object → Bool) (mn mx mn' mx' : Int) (h1 : mn' ≤ mn) (h2 : mx ≤ mx') :
    ∀ (os : List Object) (bl bh : Int), BoundsList filter mn mx bl bh os → BoundsList filter mn' mx' bl bh os
  | [], bl, bh, hb => by unfold BoundsList; trivial
  | o :: os, bl, bh, hb => by
    unfold BoundsList at hb ⊢
    exact ⟨boundsObj_mono filter mn mx mn' mx' h1 h2 o bl bh hb.1,
           boundsList_mono filter mn mx mn' mx' h1 h2 os bl bh hb.2⟩
end

/-- Repeat counts the `u64 → i64` cast does not wrap (always the case for counts one can emit). -/
def SmallCount (o : Object) : Prop := (o.repeat_.getD ⟨1, 0⟩).count - 1 < 2 ^ 63

mutual
def SmallCounts : Object → Prop
  | .block h os => SmallCount (.block h os) ∧ SmallCountsList os
  | o => SmallCount o
def SmallCountsList : List Object → Prop
  | [] => True
  | o :: os => SmallCounts o ∧ SmallCountsList os
end

theorem pushBlock_leaf (o : Object) (x y : Int) (mm : MinMax) (h : ∀ hd os, o ≠ .block hd os) :
    pushBlock o x y mm = mm := by
  unfold pushBlock
  cases o with
  | block hd os => exact absurd rfl (h hd os)
  | _ => rfl

theorem inv_of_eq (mm : MinMax) (depth : Nat) (base : List (Int × Int)) (h1 : mm.offsets = base) (h2 : mm.lastDepth = depth)
    (hl : base.length = depth + 1) : MMInv mm depth base :=
  ⟨by omega, by rw [h1, h2]; exact hl, by rw [h2, Nat.sub_self, List.drop_zero]; exact h1⟩

/-- One leaf (non-block object): the invariant is kept, min/max only widen, and — if selected —
    every instance of the object at every reachable base is within the bounds reached. -/
theorem leaf_step (filter : Object → Bool) (mm mm' : MinMax) (o : Object) (depth : Nat) (base : List (Int × Int))
    (hleaf : ∀ hd os, o ≠ .block hd os) (hinv : MMInv mm depth base) (hl : base.length = depth + 1)
    (hsmall : SmallCount o) (h : minMaxStep filter mm (o, depth) = .ok mm') :
    MMInv mm' depth base ∧ Mono mm mm' ∧
    (filter o = true → ∀ a, o.address = some a → ∀ b, loSum base ≤ b → b ≤ hiSum base →
      ∀ i, i < (o.repeat_.getD ⟨1, 0⟩).count →
      Covered mm' (b + a + (i : Int) * (o.repeat_.getD ⟨1, 0⟩).stride)) := by
  cases hf : filter o with
  | false =>
    obtain ⟨m, o1, o2⟩ := minMaxStep_unselected filter mm mm' o depth base hinv hf h
    exact ⟨inv_of_eq _ _ _ o1 o2 hl, m, fun hh => by cases hh⟩
  | true =>
    obtain ⟨m, hc, hnone⟩ := minMaxStep_selected filter mm mm' o depth base hinv hf h
    cases ha : o.address with
    | none =>
      obtain ⟨o1, o2⟩ := hnone ha
      exact ⟨inv_of_eq _ _ _ o1 o2 hl, m, fun _ a ha' => by cases ha'⟩
    | some a =>
      obtain ⟨c1, c2, mm2, e, o1, o2⟩ := hc a ha
      rw [pushBlock_leaf o _ _ mm2 hleaf] at e
      subst e
      refine ⟨inv_of_eq _ _ _ o1 o2 hl, m, fun _ a' ha' b hb1 hb2 i hi => ?_⟩
      cases ha'
      obtain ⟨w1, w2⟩ := own_between a (o.repeat_.getD ⟨1, 0⟩) i hi hsmall
      unfold Covered
      constructor <;> omega

theorem loSum_cons (x : Int × Int) (base : List (Int × Int)) : loSum (x :: base) = loSum base + x.1 := by
  unfold loSum; simp [List.sum_cons]; omega
theorem hiSum_cons (x : Int × Int) (base : List (Int × Int)) : hiSum (x :: base) = hiSum base + x.2 := by
  unfold hiSum; simp [List.sum_cons]; omega

mutual
theorem mmWalkObj_spec (filter : Object → Bool) (hfb : ∀ hd os, filter (.block hd os) = true) :
    ∀ (o : Object) (depth : Nat) (mm mm' : MinMax) (base : List (Int × Int)),
      MMInv mm depth base → base.length = depth + 1 → SmallCounts o →
      mmWalkObj filter depth mm o = .ok mm' →
      MMInv mm' depth base ∧ Mono mm mm' ∧ BoundsObj filter mm'.min mm'.max (loSum base) (hiSum base) o
  | .block hd os, depth, mm, mm', base, hinv, hl, hsm, h => by
    unfold mmWalkObj at h
    unfold SmallCounts at hsm
    cases hs : minMaxStep filter mm (.block hd os, depth) with
    | error e => rw [hs] at h; cases h
    | ok mm1 =>
      rw [hs] at h
      simp only at h
      obtain ⟨m1, hc, _⟩ := minMaxStep_selected filter mm mm1 (.block hd os) depth base hinv (hfb hd os) hs
      obtain ⟨c1, c2, mm2, e, o1, o2⟩ := hc hd.addressOffset rfl
      have hrep : (Object.block hd os).repeat_ = hd.repeat_ := rfl
      rw [hrep] at c1 c2 e
      have hinv1 : MMInv mm1 (depth + 1) ((ownLo hd.addressOffset (hd.repeat_.getD ⟨1, 0⟩),
          ownHi hd.addressOffset (hd.repeat_.getD ⟨1, 0⟩)) :: base) := by
        rw [e]; unfold pushBlock
        exact inv_of_eq _ _ _ (by simp [o1]) (by simp [o2]) (by simp [hl])
      obtain ⟨i2, m2, b2⟩ := mmWalkList_spec filter hfb os (depth + 1) mm1 mm' _
        hinv1 (by simp [hl]) hsm.2 h
      refine ⟨?_, m1.trans m2, ?_⟩
      · refine ⟨by have := i2.ge; omega, i2.len, ?_⟩
        have ht := i2.tail
        have : mm'.lastDepth - depth = (mm'.lastDepth - (depth + 1)) + 1 := by have := i2.ge; omega
        rw [this, ← List.drop_drop, ht]; rfl
      · unfold BoundsObj
        constructor
        · intro b hb1 hb2 i hi
          have hsc : (hd.repeat_.getD ⟨1, 0⟩).count - 1 < 2 ^ 63 := hsm.1
          obtain ⟨w1, w2⟩ := own_between hd.addressOffset (hd.repeat_.getD ⟨1, 0⟩) i hi hsc
          have m21 := m2.1
          have m22 := m2.2
          constructor <;> omega
        · rw [loSum_cons, hiSum_cons] at b2; exact b2
  | .register r, depth, mm, mm', base, hinv, hl, hsm, h => by
    unfold mmWalkObj at h
    obtain ⟨i1, m1, c1⟩ := leaf_step filter mm mm' (.register r) depth base (by intro _ _ hh; cases hh) hinv hl hsm h
    refine ⟨i1, m1, ?_⟩
    unfold BoundsObj
    intro hf b hb1 hb2 i hi; exact c1 hf r.address rfl b hb1 hb2 i hi
  | .command c, depth, mm, mm', base, hinv, hl, hsm, h => by
    unfold mmWalkObj at h
    obtain ⟨i1, m1, c1⟩ := leaf_step filter mm mm' (.command c) depth base (by intro _ _ hh; cases hh) hinv hl hsm h
    refine ⟨i1, m1, ?_⟩
    unfold BoundsObj
    intro hf b hb1 hb2 i hi; exact c1 hf c.address rfl b hb1 hb2 i hi
  | .buffer bf, depth, mm, mm', base, hinv, hl, hsm, h => by
    unfold mmWalkObj at h
    obtain ⟨i1, m1, c1⟩ := leaf_step filter mm mm' (.buffer bf) depth base (by intro _ _ hh; cases hh) hinv hl hsm h
    refine ⟨i1, m1, ?_⟩
    unfold BoundsObj
    intro hf b hb1 hb2
    have := c1 hf bf.address rfl b hb1 hb2 0 (by show 0 < 1; exact Nat.one_pos)
    simpa [Covered] using this
  | .ref r, depth, mm, mm', base, hinv, hl, hsm, h => by
    unfold mmWalkObj at h
    obtain ⟨i1, m1, c1⟩ := leaf_step filter mm mm' (.ref r) depth base (by intro _ _ hh; cases hh) hinv hl hsm h
    refine ⟨i1, m1, ?_⟩
    unfold BoundsObj
    intro hf a ha b hb1 hb2 i hi; exact c1 hf a ha b hb1 hb2 i hi

theorem mmWalkList_spec (filter : Object → Bool) (hfb : ∀ hd os, filter (.block hd os) = true) :
    ∀ (os : List Object) (depth : Nat) (mm mm' : MinMax) (base : List (Int × Int)),
      MMInv mm depth base → base.length = depth + 1 → SmallCountsList os →
      mmWalkList filter depth mm os = .ok mm' →
      MMInv mm' depth base ∧ Mono mm mm' ∧ BoundsList filter mm'.min mm'.max (loSum base) (hiSum base) os
  | [], depth, mm, mm', base, hinv, hl, hsm, h => by
    unfold mmWalkList at h
    rw [← Except.ok.inj h]
    exact ⟨hinv, Mono.refl _, by unfold BoundsList; trivial⟩
  | o :: os, depth, mm, mm', base, hinv, hl, hsm, h => by
    unfold mmWalkList at h
    unfold SmallCountsList at hsm
    cases ho : mmWalkObj filter depth mm o with
    | error e => rw [ho] at h; cases h
    | ok mm1 =>
      rw [ho] at h
      simp only at h
      obtain ⟨i1, m1, b1⟩ := mmWalkObj_spec filter hfb o depth mm mm1 base hinv hl hsm.1 ho
      obtain ⟨i2, m2, b2⟩ := mmWalkList_spec filter hfb os depth mm1 mm' base i1 hl hsm.2 h
      refine ⟨i2, m1.trans m2, ?_⟩
      unfold BoundsList
      exact ⟨boundsObj_mono filter _ _ _ _ m2.1 m2.2 o _ _ b1, b2⟩
end

/-- **What the analysis guarantees.** If `find_min_max_addresses` returns `(mn, mx)` for a filter
    that selects blocks, then `mn ≤ 0 ≤ mx` and every instance of every selected object — at every
    combination of its own repeat index and the repeat indices of its enclosing blocks — lies in
    `[mn, mx]`. -/
theorem findMinMax_bounds (filter : Object → Bool) (hfb : ∀ hd os, filter (.block hd os) = true)
    (os : List Object) (hsm : SmallCountsList os) (mn mx : Int) (h : findMinMax os filter = .ok (mn, mx)) :
    mn ≤ 0 ∧ 0 ≤ mx ∧ BoundsList filter mn mx 0 0 os := by
  unfold findMinMax at h
  cases hw : mmWalkList filter 0 {} os with
  | error e => rw [hw] at h; cases h
  | ok mm =>
    rw [hw] at h
    simp only [Except.ok.injEq, Prod.mk.injEq] at h
    obtain ⟨i1, m1, b1⟩ := mmWalkList_spec filter hfb os 0 {} mm [(0, 0)]
      ⟨Nat.le_refl _, rfl, rfl⟩ rfl hsm hw
    rw [← h.1, ← h.2]
    exact ⟨m1.1, m1.2, by simpa [loSum, hiSum] using b1⟩

end DDV.Gen
