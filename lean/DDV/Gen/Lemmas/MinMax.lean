/-
  Lemmas for C13: what `find_min_max_addresses` covers.
-/
import DDV.Gen.Passes

namespace DDV.Gen
set_option linter.unusedVariables false
set_option linter.unusedSimpArgs false

theorem ck_ok {n v : Int} (h : ck n = .ok v) : v = n ∧ i64Min ≤ n ∧ n ≤ i64Max := by
  unfold ck fitsI64' at h
  split at h
  · rename_i hh
    simp only [decide_eq_true_eq] at hh
    exact ⟨(Except.ok.inj h).symm, hh.1, hh.2⟩
  · cases h

theorem sumChecked_ok : ∀ (l : List Int) (acc v : Int), sumChecked l acc = .ok v → v = acc + l.sum
  | [], acc, v, h => by unfold sumChecked at h; simp [(Except.ok.inj h).symm]
  | x :: xs, acc, v, h => by
    unfold sumChecked at h
    cases hc : ck (acc + x) with
    | error e => rw [hc] at h; cases h
    | ok w =>
      rw [hc] at h
      have := sumChecked_ok xs w v h
      rw [this, (ck_ok hc).1]
      simp [List.sum_cons]; omega

/-- Stack invariant of the walk at nesting level `depth` below blocks whose offsets are `base`
    (innermost first, the initial 0 at the bottom): deeper entries may still be on the stack (they
    are popped at the next object), the rest of the stack is `base`. -/
structure MMInv (mm : MinMax) (depth : Nat) (base : List Int) : Prop where
  ge : depth ≤ mm.lastDepth
  len : mm.offsets.length = mm.lastDepth + 1
  tail : mm.offsets.drop (mm.lastDepth - depth) = base

theorem popWhile_spec (mm : MinMax) (depth : Nat) (base : List Int) (h : MMInv mm depth base) :
    (popWhile depth mm).offsets = base ∧ (popWhile depth mm).lastDepth = depth ∧
    (popWhile depth mm).min = mm.min ∧ (popWhile depth mm).max = mm.max := by
  unfold popWhile
  by_cases hd : depth < mm.lastDepth
  · rw [if_pos hd]
    exact ⟨h.tail, rfl, rfl, rfl⟩
  · have heq : mm.lastDepth = depth := by have := h.ge; omega
    rw [if_neg hd]
    have ht := h.tail
    rw [heq, Nat.sub_self, List.drop_zero] at ht
    exact ⟨ht, heq, rfl, rfl⟩

/-- min only goes down, max only goes up. -/
def Mono (a b : MinMax) : Prop := b.min ≤ a.min ∧ a.max ≤ b.max

theorem Mono.refl (a : MinMax) : Mono a a := ⟨Int.le_refl _, Int.le_refl _⟩
theorem Mono.trans {a b c : MinMax} (h1 : Mono a b) (h2 : Mono b c) : Mono a c :=
  ⟨Int.le_trans h2.1 h1.1, Int.le_trans h1.2 h2.2⟩

def Covered (mm : MinMax) (x : Int) : Prop := mm.min ≤ x ∧ x ≤ mm.max

theorem Covered.mono {a b : MinMax} {x : Int} (h : Covered a x) (m : Mono a b) : Covered b x :=
  ⟨Int.le_trans m.1 h.1, Int.le_trans h.2 m.2⟩

/-- The update covers both ends of the object's own repeat and changes nothing else. -/
theorem updMinMax_spec (mm mm' : MinMax) (a : Int) (rep : Repeat) (h : updMinMax mm a rep = .ok mm') :
    Mono mm mm' ∧ Covered mm' (mm.offsets.sum + a) ∧
    Covered mm' (mm.offsets.sum + a + countMinus1AsI64 rep.count * rep.stride) ∧
    mm'.offsets = mm.offsets ∧ mm'.lastDepth = mm.lastDepth := by
  unfold updMinMax at h
  cases hs : sumChecked mm.offsets.reverse 0 with
  | error e => rw [hs] at h; cases h
  | ok total =>
    rw [hs] at h
    have htot : total = mm.offsets.sum := by
      have := sumChecked_ok _ _ _ hs
      rw [this, List.sum_reverse]; omega
    simp only at h
    cases h1 : ck (total + a) with
    | error e => rw [h1] at h; cases h
    | ok a0 =>
      rw [h1] at h
      simp only at h
      cases h2 : ck (countMinus1AsI64 rep.count * rep.stride) with
      | error e => rw [h2] at h; cases h
      | ok span =>
        rw [h2] at h
        simp only at h
        cases h3 : ck (a0 + span) with
        | error e => rw [h3] at h; cases h
        | ok aMax =>
          rw [h3] at h
          simp only [Except.ok.injEq] at h
          have e0 := (ck_ok h1).1
          have e1 := (ck_ok h2).1
          have e2 := (ck_ok h3).1
          rw [← h]
          unfold Mono Covered
          simp only
          refine ⟨⟨?_, ?_⟩, ⟨?_, ?_⟩, ⟨?_, ?_⟩, ?_, ?_⟩
          all_goals first
            | trivial
            | rfl
            | (simp only [Min.min, Max.max, Int.min_def, Int.max_def] <;> (repeat' split) <;> omega)

/-- One callback invocation on a selected object. -/
theorem minMaxStep_selected (filter : Object → Bool) (mm mm' : MinMax) (o : Object) (depth : Nat)
    (base : List Int) (hinv : MMInv mm depth base) (hf : filter o = true)
    (h : minMaxStep filter mm (o, depth) = .ok mm') :
    Mono mm mm' ∧
    (∀ a, o.address = some a → Covered mm' (base.sum + a) ∧
      Covered mm' (base.sum + a + countMinus1AsI64 (o.repeat_.getD ⟨1, 0⟩).count * (o.repeat_.getD ⟨1, 0⟩).stride)) ∧
    (∃ mm2, mm' = pushBlock o mm2 ∧ mm2.offsets = base ∧ mm2.lastDepth = depth) := by
  obtain ⟨hp1, hp2, hp3, hp4⟩ := popWhile_spec mm depth base hinv
  unfold minMaxStep at h
  simp only [hf, Bool.not_true, Bool.false_eq_true, if_false] at h
  have hpm : Mono mm (popWhile depth mm) := ⟨by rw [hp3]; exact Int.le_refl _, by rw [hp4]; exact Int.le_refl _⟩
  have hpush : ∀ m : MinMax, (pushBlock o m).min = m.min ∧ (pushBlock o m).max = m.max := by
    intro m; unfold pushBlock; cases o <;> exact ⟨rfl, rfl⟩
  cases ha : o.address with
  | none =>
    simp only [ha, Except.ok.injEq] at h
    rw [← h]
    refine ⟨⟨by rw [(hpush _).1, hp3]; exact Int.le_refl _, by rw [(hpush _).2, hp4]; exact Int.le_refl _⟩,
            (fun a h' => by cases h'), ⟨_, rfl, hp1, hp2⟩⟩
  | some a =>
    simp only [ha] at h
    cases hu : updMinMax (popWhile depth mm) a (o.repeat_.getD ⟨1, 0⟩) with
    | error e => rw [hu] at h; cases h
    | ok mm2 =>
      rw [hu] at h
      simp only [Except.ok.injEq] at h
      obtain ⟨m1, c1, c2, o1, o2⟩ := updMinMax_spec _ _ _ _ hu
      rw [hp1] at c1 c2
      rw [← h]
      have hm2 : Mono mm2 (pushBlock o mm2) :=
        ⟨by rw [(hpush _).1]; exact Int.le_refl _, by rw [(hpush _).2]; exact Int.le_refl _⟩
      refine ⟨(hpm.trans m1).trans hm2, ?_, ⟨mm2, rfl, by rw [o1, hp1], by rw [o2, hp2]⟩⟩
      intro a' ha'
      cases ha'
      exact ⟨c1.mono hm2, c2.mono hm2⟩

/-- A callback invocation on an object the filter does not select only pops. -/
theorem minMaxStep_unselected (filter : Object → Bool) (mm mm' : MinMax) (o : Object) (depth : Nat)
    (base : List Int) (hinv : MMInv mm depth base) (hf : filter o = false)
    (h : minMaxStep filter mm (o, depth) = .ok mm') :
    Mono mm mm' ∧ mm'.offsets = base ∧ mm'.lastDepth = depth := by
  obtain ⟨hp1, hp2, hp3, hp4⟩ := popWhile_spec mm depth base hinv
  unfold minMaxStep at h
  simp only [hf, Bool.not_false, if_true, Except.ok.injEq] at h
  rw [← h]
  exact ⟨⟨by rw [hp3]; exact Int.le_refl _, by rw [hp4]; exact Int.le_refl _⟩, hp1, hp2⟩

end DDV.Gen

namespace DDV.Gen
set_option linter.unusedVariables false
set_option linter.unusedSimpArgs false

/-- All instances of one repeated object lie between its two ends. -/
theorem covered_between (mm : MinMax) (a s : Int) (n i : Nat) (hi : i < n)
    (h0 : Covered mm a) (h1 : Covered mm (a + ((n - 1 : Nat) : Int) * s)) : Covered mm (a + (i : Int) * s) := by
  unfold Covered at *
  have hin : (i : Int) ≤ ((n - 1 : Nat) : Int) := by omega
  have hi0 : (0 : Int) ≤ (i : Int) := by omega
  by_cases hs : 0 ≤ s
  · have h2 : (i : Int) * s ≤ ((n - 1 : Nat) : Int) * s := Int.mul_le_mul_of_nonneg_right hin hs
    have h3 : 0 ≤ (i : Int) * s := Int.mul_nonneg hi0 hs
    omega
  · have hs' : s ≤ 0 := by omega
    have h2 : ((n - 1 : Nat) : Int) * s ≤ (i : Int) * s := Int.mul_le_mul_of_nonpos_right hin hs'
    have h3 : (i : Int) * s ≤ 0 := Int.mul_nonpos_of_nonneg_of_nonpos hi0 hs'
    omega

theorem countMinus1_small (n : Nat) (h : n - 1 < 2 ^ 63) : countMinus1AsI64 n = ((n - 1 : Nat) : Int) := by
  unfold countMinus1AsI64
  simp [h]

/- What the analysis bounds: for every selected object with an address, all of
   `base + address + i × stride` (i below its own repeat count), where `base` is the sum of the
   `address_offset`s of the enclosing blocks (their repeat strides are *not* included: finding F6a)
   and only `Object::Block`s are descended into (children behind a block ref are not: finding F6b). -/
mutual
def BoundsObj (filter : Object → Bool) (mn mx : Int) (base : Int) : Object → Prop
  | .block h os =>
    (∀ i, i < (h.repeat_.getD ⟨1, 0⟩).count →
       mn ≤ base + h.addressOffset + (i : Int) * (h.repeat_.getD ⟨1, 0⟩).stride ∧
       base + h.addressOffset + (i : Int) * (h.repeat_.getD ⟨1, 0⟩).stride ≤ mx) ∧
    BoundsList filter mn mx (base + h.addressOffset) os
  | .register r => filter (.register r) = true →
      ∀ i, i < (r.repeat_.getD ⟨1, 0⟩).count →
        mn ≤ base + r.address + (i : Int) * (r.repeat_.getD ⟨1, 0⟩).stride ∧
        base + r.address + (i : Int) * (r.repeat_.getD ⟨1, 0⟩).stride ≤ mx
  | .command c => filter (.command c) = true →
      ∀ i, i < (c.repeat_.getD ⟨1, 0⟩).count →
        mn ≤ base + c.address + (i : Int) * (c.repeat_.getD ⟨1, 0⟩).stride ∧
        base + c.address + (i : Int) * (c.repeat_.getD ⟨1, 0⟩).stride ≤ mx
  | .buffer b => filter (.buffer b) = true → mn ≤ base + b.address ∧ base + b.address ≤ mx
  | .ref r => filter (.ref r) = true → ∀ a, (Object.ref r).address = some a →
      ∀ i, i < ((Object.ref r).repeat_.getD ⟨1, 0⟩).count →
        mn ≤ base + a + (i : Int) * ((Object.ref r).repeat_.getD ⟨1, 0⟩).stride ∧
        base + a + (i : Int) * ((Object.ref r).repeat_.getD ⟨1, 0⟩).stride ≤ mx
def BoundsList (filter : Object → Bool) (mn mx : Int) (base : Int) : List Object → Prop
  | [] => True
  | o :: os => BoundsObj filter mn mx base o ∧ BoundsList filter mn mx base os
end

mutual
theorem boundsObj_mono (filter : Object → Bool) (mn mx mn' mx' : Int) (h1 : mn' ≤ mn) (h2 : mx ≤ mx') :
    ∀ (o : Object) (base : Int), BoundsObj filter mn mx base o → BoundsObj filter mn' mx' base o
  | .block h os, base, hb => by
    unfold BoundsObj at hb ⊢
    exact ⟨fun i hi => ⟨by have := hb.1 i hi; omega, by have := hb.1 i hi; omega⟩,
           boundsList_mono filter mn mx mn' mx' h1 h2 os _ hb.2⟩
  | .register r, base, hb => by
    unfold BoundsObj at hb ⊢
    intro hf i hi; have := hb hf i hi; exact ⟨by omega, by omega⟩
  | .command c, base, hb => by
    unfold BoundsObj at hb ⊢
    intro hf i hi; have := hb hf i hi; exact ⟨by omega, by omega⟩
  | .buffer b, base, hb => by
    unfold BoundsObj at hb ⊢
    intro hf; have := hb hf; exact ⟨by omega, by omega⟩
  | .ref r, base, hb => by
    unfold BoundsObj at hb ⊢
    intro hf a ha i hi; have := hb hf a ha i hi; exact ⟨by omega, by omega⟩
theorem boundsList_mono (filter : Object → Bool) (mn mx mn' mx' : Int) (h1 : mn' ≤ mn) (h2 : mx ≤ mx') :
    ∀ (os : List Object) (base : Int), BoundsList filter mn mx base os → BoundsList filter mn' mx' base os
  | [], base, hb => by unfold BoundsList; trivial
  | o :: os, base, hb => by
    unfold BoundsList at hb ⊢
    exact ⟨boundsObj_mono filter mn mx mn' mx' h1 h2 o base hb.1,
           boundsList_mono filter mn mx mn' mx' h1 h2 os base hb.2⟩
end

/-- Repeat counts the `u64 → i64` cast does not wrap (always the case for counts one can emit). -/
def SmallCount (o : Object) : Prop := (o.repeat_.getD ⟨1, 0⟩).count - 1 < 2 ^ 63

mutual
def SmallCounts : Object → Prop
  | .block h os => SmallCount (.block h os) ∧ SmallCountsList os
  | o => SmallCount o
def SmallCountsList : List Object → Prop
  | [] => True
  | o :: os => SmallCounts o ∧ SmallCountsList os
end

end DDV.Gen

namespace DDV.Gen
set_option linter.unusedVariables false
set_option linter.unusedSimpArgs false

theorem pushBlock_leaf (o : Object) (mm : MinMax) (h : ∀ hd os, o ≠ .block hd os) : pushBlock o mm = mm := by
  unfold pushBlock
  cases o with
  | block hd os => exact absurd rfl (h hd os)
  | _ => rfl

theorem inv_of_eq (mm : MinMax) (depth : Nat) (base : List Int) (h1 : mm.offsets = base) (h2 : mm.lastDepth = depth)
    (hl : base.length = depth + 1) : MMInv mm depth base :=
  ⟨by omega, by rw [h1, h2]; exact hl, by rw [h2, Nat.sub_self, List.drop_zero]; exact h1⟩

/-- One leaf (non-block object): the invariant is kept, min/max only widen, and — if selected —
    every instance of the object is within the bounds reached. -/
theorem leaf_step (filter : Object → Bool) (mm mm' : MinMax) (o : Object) (depth : Nat) (base : List Int)
    (hleaf : ∀ hd os, o ≠ .block hd os) (hinv : MMInv mm depth base) (hl : base.length = depth + 1)
    (hsmall : SmallCount o) (h : minMaxStep filter mm (o, depth) = .ok mm') :
    MMInv mm' depth base ∧ Mono mm mm' ∧
    (filter o = true → ∀ a, o.address = some a → ∀ i, i < (o.repeat_.getD ⟨1, 0⟩).count →
      Covered mm' (base.sum + a + (i : Int) * (o.repeat_.getD ⟨1, 0⟩).stride)) := by
  cases hf : filter o with
  | false =>
    obtain ⟨m, o1, o2⟩ := minMaxStep_unselected filter mm mm' o depth base hinv hf h
    exact ⟨inv_of_eq _ _ _ o1 o2 hl, m, fun hh => by cases hh⟩
  | true =>
    obtain ⟨m, hc, ⟨mm2, e, o1, o2⟩⟩ := minMaxStep_selected filter mm mm' o depth base hinv hf h
    rw [pushBlock_leaf o mm2 hleaf] at e
    subst e
    refine ⟨inv_of_eq _ _ _ o1 o2 hl, m, fun _ a ha i hi => ?_⟩
    obtain ⟨c1, c2⟩ := hc a ha
    rw [countMinus1_small _ hsmall] at c2
    exact covered_between mm' (base.sum + a) _ _ i hi c1 c2

mutual
theorem mmWalkObj_spec (filter : Object → Bool) (hfb : ∀ hd os, filter (.block hd os) = true) :
    ∀ (o : Object) (depth : Nat) (mm mm' : MinMax) (base : List Int),
      MMInv mm depth base → base.length = depth + 1 → SmallCounts o →
      mmWalkObj filter depth mm o = .ok mm' →
      MMInv mm' depth base ∧ Mono mm mm' ∧ BoundsObj filter mm'.min mm'.max base.sum o
  | .block hd os, depth, mm, mm', base, hinv, hl, hsm, h => by
    unfold mmWalkObj at h
    unfold SmallCounts at hsm
    cases hs : minMaxStep filter mm (.block hd os, depth) with
    | error e => rw [hs] at h; cases h
    | ok mm1 =>
      rw [hs] at h
      simp only at h
      obtain ⟨m1, hc, ⟨mm2, e, o1, o2⟩⟩ := minMaxStep_selected filter mm mm1 (.block hd os) depth base hinv (hfb hd os) hs
      have hinv1 : MMInv mm1 (depth + 1) (hd.addressOffset :: base) := by
        rw [e]; unfold pushBlock
        exact inv_of_eq _ _ _ (by simp [o1]) (by simp [o2]) (by simp [hl])
      obtain ⟨i2, m2, b2⟩ := mmWalkList_spec filter hfb os (depth + 1) mm1 mm' (hd.addressOffset :: base)
        hinv1 (by simp [hl]) hsm.2 h
      refine ⟨?_, m1.trans m2, ?_⟩
      · refine ⟨by have := i2.ge; omega, i2.len, ?_⟩
        have ht := i2.tail
        have : mm'.lastDepth - depth = (mm'.lastDepth - (depth + 1)) + 1 := by have := i2.ge; omega
        rw [this, ← List.drop_drop, ht]; rfl
      · unfold BoundsObj
        constructor
        · intro i hi
          obtain ⟨c1, c2⟩ := hc hd.addressOffset rfl
          have hcnt : countMinus1AsI64 ((Object.block hd os).repeat_.getD ⟨1, 0⟩).count =
              ((((Object.block hd os).repeat_.getD ⟨1, 0⟩).count - 1 : Nat) : Int) := countMinus1_small _ hsm.1
          rw [hcnt] at c2
          have := (covered_between mm1 (base.sum + hd.addressOffset) _ _ i hi c1 c2).mono m2
          exact this
        · have : (hd.addressOffset :: base).sum = base.sum + hd.addressOffset := by
            simp [List.sum_cons]; omega
          rw [this] at b2; exact b2
  | .register r, depth, mm, mm', base, hinv, hl, hsm, h => by
    unfold mmWalkObj at h
    obtain ⟨i1, m1, c1⟩ := leaf_step filter mm mm' (.register r) depth base (by intro _ _ hh; cases hh) hinv hl hsm h
    refine ⟨i1, m1, ?_⟩
    unfold BoundsObj
    intro hf i hi; exact c1 hf r.address rfl i hi
  | .command c, depth, mm, mm', base, hinv, hl, hsm, h => by
    unfold mmWalkObj at h
    obtain ⟨i1, m1, c1⟩ := leaf_step filter mm mm' (.command c) depth base (by intro _ _ hh; cases hh) hinv hl hsm h
    refine ⟨i1, m1, ?_⟩
    unfold BoundsObj
    intro hf i hi; exact c1 hf c.address rfl i hi
  | .buffer b, depth, mm, mm', base, hinv, hl, hsm, h => by
    unfold mmWalkObj at h
    obtain ⟨i1, m1, c1⟩ := leaf_step filter mm mm' (.buffer b) depth base (by intro _ _ hh; cases hh) hinv hl hsm h
    refine ⟨i1, m1, ?_⟩
    unfold BoundsObj
    intro hf
    have := c1 hf b.address rfl 0 (by show 0 < 1; exact Nat.one_pos)
    simpa [Covered] using this
  | .ref r, depth, mm, mm', base, hinv, hl, hsm, h => by
    unfold mmWalkObj at h
    obtain ⟨i1, m1, c1⟩ := leaf_step filter mm mm' (.ref r) depth base (by intro _ _ hh; cases hh) hinv hl hsm h
    refine ⟨i1, m1, ?_⟩
    unfold BoundsObj
    intro hf a ha i hi; exact c1 hf a ha i hi

theorem mmWalkList_spec (filter : Object → Bool) (hfb : ∀ hd os, filter (.block hd os) = true) :
    ∀ (os : List Object) (depth : Nat) (mm mm' : MinMax) (base : List Int),
      MMInv mm depth base → base.length = depth + 1 → SmallCountsList os →
      mmWalkList filter depth mm os = .ok mm' →
      MMInv mm' depth base ∧ Mono mm mm' ∧ BoundsList filter mm'.min mm'.max base.sum os
  | [], depth, mm, mm', base, hinv, hl, hsm, h => by
    unfold mmWalkList at h
    rw [← Except.ok.inj h]
    exact ⟨hinv, Mono.refl _, by unfold BoundsList; trivial⟩
  | o :: os, depth, mm, mm', base, hinv, hl, hsm, h => by
    unfold mmWalkList at h
    unfold SmallCountsList at hsm
    cases ho : mmWalkObj filter depth mm o with
    | error e => rw [ho] at h; cases h
    | ok mm1 =>
      rw [ho] at h
      simp only at h
      obtain ⟨i1, m1, b1⟩ := mmWalkObj_spec filter hfb o depth mm mm1 base hinv hl hsm.1 ho
      obtain ⟨i2, m2, b2⟩ := mmWalkList_spec filter hfb os depth mm1 mm' base i1 hl hsm.2 h
      refine ⟨i2, m1.trans m2, ?_⟩
      unfold BoundsList
      exact ⟨boundsObj_mono filter _ _ _ _ m2.1 m2.2 o _ b1, b2⟩
end

/-- **What the analysis guarantees.** If `find_min_max_addresses` returns `(mn, mx)` for a filter
    that selects blocks, then `mn ≤ 0 ≤ mx` and every instance of every selected object lies in
    `[mn, mx]`, where an instance's base is the sum of its enclosing blocks' offsets. -/
theorem findMinMax_bounds (filter : Object → Bool) (hfb : ∀ hd os, filter (.block hd os) = true)
    (os : List Object) (hsm : SmallCountsList os) (mn mx : Int) (h : findMinMax os filter = .ok (mn, mx)) :
    mn ≤ 0 ∧ 0 ≤ mx ∧ BoundsList filter mn mx 0 os := by
  unfold findMinMax at h
  cases hw : mmWalkList filter 0 {} os with
  | error e => rw [hw] at h; cases h
  | ok mm =>
    rw [hw] at h
    simp only [Except.ok.injEq, Prod.mk.injEq] at h
    obtain ⟨i1, m1, b1⟩ := mmWalkList_spec filter hfb os 0 {} mm [0]
      ⟨Nat.le_refl _, rfl, rfl⟩ rfl hsm hw
    rw [← h.1, ← h.2]
    exact ⟨m1.1, m1.2, by simpa using b1⟩

end DDV.Gen
