/-
  Lemmas for C11/C03b: what the three layout passes accept, per field set and per object.
-/
import DDV.Gen.Lemmas.Tree

namespace DDV.Gen
set_option linter.unusedVariables false
set_option linter.unusedSimpArgs false

/-- The zero-width → one-bit normalisation of `bool` fields (bool_fields_checked.rs:13-16). -/
def boolNorm (f : Field) : Field :=
  if f.base == .bool then (if f.start = f.stop then { f with stop := f.stop + 1 } else f) else f

def BoolOk (f : Field) : Prop :=
  f.base = .bool → (boolNorm f).stop - (boolNorm f).start = 1 ∧ f.conv = none

theorem checkBoolField_ok_iff (n : String) (f f' : Field) :
    checkBoolField n f = .ok f' ↔ f' = boolNorm f ∧ BoolOk f := by
  unfold BoolOk
  by_cases hb : f.base = .bool
  · have hbeq : (f.base == BaseType.bool) = true := by rw [hb]; rfl
    have hn : boolNorm f = (if f.start = f.stop then { f with stop := f.stop + 1 } else f) := by
      unfold boolNorm; simp only [hbeq, if_true]
    have hc : (boolNorm f).conv = f.conv := by rw [hn]; split <;> rfl
    have hcheck : checkBoolField n f =
        (if (boolNorm f).width ≠ 1 then .error (passErr "bool_too_wide" [n, f.name])
         else if (boolNorm f).conv.isSome then .error (passErr "bool_conversion" [n, f.name])
         else .ok (boolNorm f)) := by
      unfold checkBoolField
      simp only [hbeq, if_true]
      rw [← hn]
    rw [hcheck, hc]
    unfold Field.width
    simp only [hb, forall_const]
    by_cases hw : (boolNorm f).stop - (boolNorm f).start = 1
    · cases hcv : f.conv with
      | none =>
        simp only [hw, ne_eq, not_true_eq_false, if_false, Option.isSome_none, Bool.false_eq_true,
          Except.ok.injEq, and_self, and_true]
        exact eq_comm
      | some c =>
        simp only [hw, ne_eq, not_true_eq_false, if_false, Option.isSome_some, if_true, reduceCtorEq,
          and_false]
    · simp only [ne_eq, hw, not_false_eq_true, if_true, reduceCtorEq, false_and, and_false]
  · have hbeq : (f.base == BaseType.bool) = false := by
      cases h : f.base <;> simp_all
    have hn : boolNorm f = f := by unfold boolNorm; simp [hbeq]
    unfold checkBoolField
    simp only [hbeq, Bool.false_eq_true, if_false, Except.ok.injEq, hn, hb, false_implies, and_true]
    exact eq_comm

theorem checkBoolFields_ok_iff (n : String) : ∀ (fs fs' : List Field),
    checkBoolFields n fs = .ok fs' ↔ fs' = fs.map boolNorm ∧ ∀ f ∈ fs, BoolOk f
  | [], fs' => by
    unfold checkBoolFields
    simp only [Except.ok.injEq, List.map_nil, List.not_mem_nil, false_implies, implies_true, and_true]
    exact eq_comm
  | f :: fs, fs' => by
    unfold checkBoolFields
    cases hf : checkBoolField n f with
    | error e =>
      simp only [reduceCtorEq, List.map_cons, List.mem_cons, forall_eq_or_imp, false_iff, not_and]
      intro _ hb
      have := (checkBoolField_ok_iff n f (boolNorm f)).2 ⟨rfl, hb⟩
      rw [hf] at this; cases this
    | ok f1 =>
      have h1 := (checkBoolField_ok_iff n f f1).1 hf
      simp only
      cases hr : checkBoolFields n fs with
      | error e =>
        simp only [reduceCtorEq, List.map_cons, List.mem_cons, forall_eq_or_imp, false_iff, not_and]
        intro _ _ hall
        have := (checkBoolFields_ok_iff n fs (fs.map boolNorm)).2 ⟨rfl, hall⟩
        rw [hr] at this; cases this
      | ok fs1 =>
        have h2 := (checkBoolFields_ok_iff n fs fs1).1 hr
        simp only [Except.ok.injEq, List.map_cons, List.mem_cons, forall_eq_or_imp]
        constructor
        · intro h; subst h
          exact ⟨by rw [h1.1, h2.1], h1.2, h2.2⟩
        · intro ⟨h, _, _⟩; rw [h, h1.1, h2.1]

theorem validateLen_ok_iff (size : Nat) (n : String) : ∀ (fs : List Field),
    validateLen size n fs = .ok () ↔ ∀ f ∈ fs, f.start < f.stop ∧ f.stop ≤ size
  | [] => by unfold validateLen; simp
  | f :: fs => by
    unfold validateLen Field.width
    by_cases h1 : f.stop ≤ size
    · by_cases h2 : f.stop - f.start > 0
      · simp only [h1, not_true_eq_false, if_false, h2, List.mem_cons, forall_eq_or_imp, and_true]
        rw [validateLen_ok_iff size n fs]
        constructor
        · intro h; exact ⟨by omega, h⟩
        · intro ⟨_, h⟩; exact h
      · simp only [h1, not_true_eq_false, if_false, h2, not_false_eq_true, if_true, reduceCtorEq,
          List.mem_cons, forall_eq_or_imp, false_iff, not_and]
        intro h; omega
    · simp only [h1, not_false_eq_true, if_true, reduceCtorEq, List.mem_cons, forall_eq_or_imp,
        false_iff, not_and]
      intro h; exact absurd h.2 (fun x => x)

def Disj (a b : Field) : Prop := a.stop ≤ b.start ∨ b.stop ≤ a.start

theorem rangesOverlap_false_iff (a b : Field) : rangesOverlap a b = false ↔ Disj a b := by
  unfold rangesOverlap Disj
  simp only [Bool.and_eq_false_iff, decide_eq_false_iff_not, Nat.not_lt]
  constructor
  · intro h; rcases h with h | h
    · right; exact h
    · left; exact h
  · intro h; rcases h with h | h
    · right; exact h
    · left; exact h

theorem validateOverlap_ok_iff (n : String) : ∀ (fs : List Field),
    validateOverlap n fs = .ok () ↔ fs.Pairwise Disj
  | [] => by unfold validateOverlap; simp
  | f :: fs => by
    unfold validateOverlap
    cases hfind : fs.find? (rangesOverlap f) with
    | some g =>
      simp only [reduceCtorEq, List.pairwise_cons, false_iff, not_and]
      intro hall
      have hg := List.find?_some hfind
      have hmem := List.mem_of_find?_eq_some hfind
      have := (rangesOverlap_false_iff f g).2 (hall g hmem)
      rw [this] at hg; cases hg
    | none =>
      simp only [List.pairwise_cons]
      rw [validateOverlap_ok_iff n fs]
      constructor
      · intro h
        refine ⟨?_, h⟩
        intro g hg
        have := List.find?_eq_none.1 hfind g hg
        apply (rangesOverlap_false_iff f g).1
        cases h2 : rangesOverlap f g <;> simp_all
      · intro ⟨_, h⟩; exact h

/-- A field set after normalisation is acceptable to `validate_len` + `validate_overlap`. -/
def SetOkNorm (allow : Bool) (size : Nat) (fs : List Field) : Prop :=
  (∀ f ∈ fs, f.start < f.stop ∧ f.stop ≤ size) ∧ (allow = false → fs.Pairwise Disj)

theorem validateSet_ok_iff (allow : Bool) (size : Nat) (n : String) (fs : List Field) :
    validateSet allow size n fs = .ok () ↔ SetOkNorm allow size fs := by
  unfold validateSet SetOkNorm
  cases hl : validateLen size n fs with
  | error e =>
    simp only [reduceCtorEq, false_iff, not_and]
    intro h
    have := (validateLen_ok_iff size n fs).2 h
    rw [hl] at this; cases this
  | ok u =>
    have h1 := (validateLen_ok_iff size n fs).1 hl
    cases allow
    · simp only [Bool.false_eq_true, if_false, forall_const]
      rw [validateOverlap_ok_iff]
      exact ⟨fun h => ⟨h1, h⟩, fun h => h.2⟩
    · simp only [if_true, reduceCtorEq, false_implies, and_true, true_iff]
      exact h1

end DDV.Gen

namespace DDV.Gen
open DDV.Bits (ByteOrder BitOrder)
set_option linter.unusedVariables false
set_option linter.unusedSimpArgs false

/-! ### Per-object facts -/

def fillByteOrder (dflt : Option ByteOrder) : Object → Object
  | .register r => if r.byteOrder.isNone then .register { r with byteOrder := some (dflt.getD .le) } else .register r
  | .command c => if c.byteOrder.isNone then .command { c with byteOrder := some (dflt.getD .le) } else .command c
  | o => o

def ByteOrderOk (dflt : Option ByteOrder) : Object → Prop
  | .register r => r.sizeBits > 8 → r.byteOrder.isSome ∨ dflt.isSome
  | .command c => (c.sizeBitsIn > 8 ∨ c.sizeBitsOut > 8) → c.byteOrder.isSome ∨ dflt.isSome
  | _ => True

theorem byteOrderObj_spec (dflt : Option ByteOrder) (o : Object) :
    (isOk (byteOrderObj dflt o) ↔ ByteOrderOk dflt o) ∧
    (∀ o', byteOrderObj dflt o = .ok o' → o' = fillByteOrder dflt o) := by
  unfold byteOrderObj fillByteOrder ByteOrderOk isOk
  cases dflt with
  | some bo =>
    cases o with
    | register r =>
      cases hb : r.byteOrder <;> simp [hb]
    | command c =>
      cases hb : c.byteOrder <;> simp [hb]
    | block h os => simp
    | buffer b => simp
    | ref r => simp
  | none =>
    cases o with
    | register r =>
      cases hb : r.byteOrder with
      | some b => simp [hb]
      | none =>
        by_cases hs : r.sizeBits > 8
        · simp [hb, hs]
        · simp [hb, hs]
    | command c =>
      cases hb : c.byteOrder with
      | some b => simp [hb]
      | none =>
        by_cases hs : c.sizeBitsIn > 8 ∨ c.sizeBitsOut > 8
        · have : (decide (c.sizeBitsIn > 8) || decide (c.sizeBitsOut > 8)) = true := by
            simp only [Bool.or_eq_true, decide_eq_true_eq]; exact hs
          simp [hb, hs, this]
        · have : (decide (c.sizeBitsIn > 8) || decide (c.sizeBitsOut > 8)) = false := by
            simp only [Bool.or_eq_false_iff, decide_eq_false_iff_not]
            exact ⟨fun h => hs (Or.inl h), fun h => hs (Or.inr h)⟩
          simp [hb, hs, this]
    | block h os => simp
    | buffer b => simp
    | ref r => simp

def normObj : Object → Object
  | .register r => .register { r with fields := r.fields.map boolNorm }
  | .command c => .command { c with inFields := c.inFields.map boolNorm, outFields := c.outFields.map boolNorm }
  | o => o

def BoolObjOk : Object → Prop
  | .register r => ∀ f ∈ r.fields, BoolOk f
  | .command c => (∀ f ∈ c.inFields, BoolOk f) ∧ (∀ f ∈ c.outFields, BoolOk f)
  | _ => True

theorem boolObj_spec (o : Object) :
    (isOk (boolObj o) ↔ BoolObjOk o) ∧ (∀ o', boolObj o = .ok o' → o' = normObj o) := by
  unfold boolObj normObj BoolObjOk isOk
  cases o with
  | register r =>
    simp only
    cases h : checkBoolFields r.name r.fields with
    | error e =>
      refine ⟨⟨(fun ⟨a, ha⟩ => by cases ha), fun hall => ?_⟩, (fun o' ho => by cases ho)⟩
      have := (checkBoolFields_ok_iff r.name r.fields _).2 ⟨rfl, hall⟩
      rw [h] at this; cases this
    | ok fs =>
      have := (checkBoolFields_ok_iff r.name r.fields fs).1 h
      refine ⟨⟨fun _ => this.2, fun _ => ⟨_, rfl⟩⟩, fun o' ho => ?_⟩
      rw [← Except.ok.inj ho, this.1]
  | command c =>
    simp only
    cases h : checkBoolFields c.name c.inFields with
    | error e =>
      refine ⟨⟨(fun ⟨a, ha⟩ => by cases ha), fun hall => ?_⟩, (fun o' ho => by cases ho)⟩
      have := (checkBoolFields_ok_iff c.name c.inFields _).2 ⟨rfl, hall.1⟩
      rw [h] at this; cases this
    | ok fi =>
      have h1 := (checkBoolFields_ok_iff c.name c.inFields fi).1 h
      simp only
      cases h' : checkBoolFields c.name c.outFields with
      | error e =>
        refine ⟨⟨(fun ⟨a, ha⟩ => by cases ha), fun hall => ?_⟩, (fun o' ho => by cases ho)⟩
        have := (checkBoolFields_ok_iff c.name c.outFields _).2 ⟨rfl, hall.2⟩
        rw [h'] at this; cases this
      | ok fo =>
        have h2 := (checkBoolFields_ok_iff c.name c.outFields fo).1 h'
        refine ⟨⟨fun _ => ⟨h1.2, h2.2⟩, fun _ => ⟨_, rfl⟩⟩, fun o' ho => ?_⟩
        rw [← Except.ok.inj ho, h1.1, h2.1]
  | block h os => exact ⟨⟨fun _ => trivial, fun _ => ⟨_, rfl⟩⟩, fun o' ho => (Except.ok.inj ho).symm⟩
  | buffer b => exact ⟨⟨fun _ => trivial, fun _ => ⟨_, rfl⟩⟩, fun o' ho => (Except.ok.inj ho).symm⟩
  | ref r => exact ⟨⟨fun _ => trivial, fun _ => ⟨_, rfl⟩⟩, fun o' ho => (Except.ok.inj ho).symm⟩

def RangesObjOk : Object → Prop
  | .register r => SetOkNorm r.allowBitOverlap r.sizeBits r.fields
  | .command c => SetOkNorm c.allowBitOverlap c.sizeBitsIn c.inFields ∧
                  SetOkNorm c.allowBitOverlap c.sizeBitsOut c.outFields
  | _ => True

theorem bitRangesObj_spec (o : Object) : isOk (bitRangesObj o) ↔ RangesObjOk o := by
  unfold bitRangesObj RangesObjOk isOk
  cases o with
  | register r =>
    simp only
    cases h : validateSet r.allowBitOverlap r.sizeBits r.name r.fields with
    | error e =>
      refine ⟨(fun ⟨a, ha⟩ => by cases ha), fun hs => ?_⟩
      have := (validateSet_ok_iff _ _ r.name _).2 hs
      rw [h] at this; cases this
    | ok u => exact ⟨fun _ => (validateSet_ok_iff _ _ r.name _).1 h, fun _ => ⟨_, rfl⟩⟩
  | command c =>
    simp only
    cases h : validateSet c.allowBitOverlap c.sizeBitsIn s!"{c.name} (in)" c.inFields with
    | error e =>
      refine ⟨(fun ⟨a, ha⟩ => by cases ha), fun hs => ?_⟩
      have := (validateSet_ok_iff _ _ s!"{c.name} (in)" _).2 hs.1
      rw [h] at this; cases this
    | ok u =>
      simp only
      cases h' : validateSet c.allowBitOverlap c.sizeBitsOut s!"{c.name} (out)" c.outFields with
      | error e =>
        refine ⟨(fun ⟨a, ha⟩ => by cases ha), fun hs => ?_⟩
        have := (validateSet_ok_iff _ _ s!"{c.name} (out)" _).2 hs.2
        rw [h'] at this; cases this
      | ok u' =>
        exact ⟨fun _ => ⟨(validateSet_ok_iff _ _ _ _).1 h, (validateSet_ok_iff _ _ _ _).1 h'⟩,
               fun _ => ⟨_, rfl⟩⟩
  | block h os => exact ⟨fun _ => trivial, fun _ => ⟨_, rfl⟩⟩
  | buffer b => exact ⟨fun _ => trivial, fun _ => ⟨_, rfl⟩⟩
  | ref r => exact ⟨fun _ => trivial, fun _ => ⟨_, rfl⟩⟩

theorem fillByteOrder_leaf (dflt : Option ByteOrder) : LeafToLeaf (fillByteOrder dflt) := by
  intro o ho h os
  cases o with
  | block h' os' => exact absurd rfl (ho h' os')
  | register r =>
    unfold fillByteOrder
    by_cases hb : r.byteOrder.isNone = true
    · simp only [hb, if_true]; intro hh; cases hh
    · simp only [hb, if_false]; intro hh; cases hh
  | command c =>
    unfold fillByteOrder
    by_cases hb : c.byteOrder.isNone = true
    · simp only [hb, if_true]; intro hh; cases hh
    · simp only [hb, if_false]; intro hh; cases hh
  | buffer b => unfold fillByteOrder; intro hh; cases hh
  | ref r => unfold fillByteOrder; intro hh; cases hh

theorem normObj_leaf : LeafToLeaf normObj := by
  intro o ho h os
  cases o with
  | block h' os' => exact absurd rfl (ho h' os')
  | register r => unfold normObj; intro hh; cases hh
  | command c => unfold normObj; intro hh; cases hh
  | buffer b => unfold normObj; intro hh; cases hh
  | ref r => unfold normObj; intro hh; cases hh

end DDV.Gen

namespace DDV.Gen
open DDV.Bits (ByteOrder BitOrder)
set_option linter.unusedVariables false

theorem passErr_isError (k : String) (n : List String) (x : List Int) : ∃ e, passErr k n x = Stop.error e :=
  ⟨_, rfl⟩

theorem byteOrderObj_onlyErrors (g : Option ByteOrder) (o : Object) : OnlyErrors (byteOrderObj g o) := by
  intro s hs
  unfold byteOrderObj at hs
  cases g with
  | some bo =>
    cases o with
    | register r => simp only at hs; split at hs <;> cases hs
    | command c => simp only at hs; split at hs <;> cases hs
    | block h os => cases hs
    | buffer b => cases hs
    | ref r => cases hs
  | none =>
    cases o with
    | register r =>
      simp only at hs
      split at hs
      · split at hs
        · cases hs; exact passErr_isError _ _ _
        · cases hs
      · cases hs
    | command c =>
      simp only at hs
      split at hs
      · split at hs
        · cases hs; exact passErr_isError _ _ _
        · cases hs
      · cases hs
    | block h os => cases hs
    | buffer b => cases hs
    | ref r => cases hs

theorem checkBoolField_onlyErrors (n : String) (f : Field) : OnlyErrors (checkBoolField n f) := by
  intro s hs
  cases hr : checkBoolField n f with
  | ok f' => rw [hr] at hs; cases hs
  | error s' =>
    rw [hr] at hs
    have hss : s' = s := Except.error.inj hs
    subst hss
    unfold checkBoolField at hr
    by_cases hb : (f.base == BaseType.bool) = true
    · simp only [hb, if_true] at hr
      generalize (if f.start = f.stop then { f with stop := f.stop + 1 } else f) = g at hr
      by_cases hw : g.width ≠ 1
      · rw [if_pos hw] at hr; cases hr; exact passErr_isError _ _ _
      · rw [if_neg hw] at hr
        by_cases hc : g.conv.isSome = true
        · rw [if_pos hc] at hr; cases hr; exact passErr_isError _ _ _
        · rw [if_neg hc] at hr; cases hr
    · simp only [hb] at hr; cases hr

theorem checkBoolFields_onlyErrors (n : String) : ∀ (fs : List Field), OnlyErrors (checkBoolFields n fs)
  | [] => by intro s hs; unfold checkBoolFields at hs; cases hs
  | f :: fs => by
    intro s hs
    unfold checkBoolFields at hs
    cases hf : checkBoolField n f with
    | error e => rw [hf] at hs; exact checkBoolField_onlyErrors n f s (by rw [hf]; exact congrArg _ (Except.error.inj hs))
    | ok f1 =>
      rw [hf] at hs; simp only at hs
      cases hr : checkBoolFields n fs with
      | error e => rw [hr] at hs; exact checkBoolFields_onlyErrors n fs s (by rw [hr]; exact congrArg _ (Except.error.inj hs))
      | ok x => rw [hr] at hs; cases hs

theorem boolObj_onlyErrors (o : Object) : OnlyErrors (boolObj o) := by
  intro s hs
  unfold boolObj at hs
  cases o with
  | register r =>
    simp only at hs
    cases h : checkBoolFields r.name r.fields with
    | error e => rw [h] at hs; exact checkBoolFields_onlyErrors _ _ s (by rw [h]; exact congrArg _ (Except.error.inj hs))
    | ok x => rw [h] at hs; cases hs
  | command c =>
    simp only at hs
    cases h : checkBoolFields c.name c.inFields with
    | error e => rw [h] at hs; exact checkBoolFields_onlyErrors _ _ s (by rw [h]; exact congrArg _ (Except.error.inj hs))
    | ok x =>
      rw [h] at hs; simp only at hs
      cases h' : checkBoolFields c.name c.outFields with
      | error e => rw [h'] at hs; exact checkBoolFields_onlyErrors _ _ s (by rw [h']; exact congrArg _ (Except.error.inj hs))
      | ok y => rw [h'] at hs; cases hs
  | block h os => cases hs
  | buffer b => cases hs
  | ref r => cases hs

theorem validateLen_onlyErrors (size : Nat) (n : String) : ∀ (fs : List Field), OnlyErrors (validateLen size n fs)
  | [] => by intro s hs; unfold validateLen at hs; cases hs
  | f :: fs => by
    intro s hs
    unfold validateLen at hs
    split at hs
    · cases hs; exact passErr_isError _ _ _
    · split at hs
      · cases hs; exact passErr_isError _ _ _
      · exact validateLen_onlyErrors size n fs s hs

theorem validateOverlap_onlyErrors (n : String) : ∀ (fs : List Field), OnlyErrors (validateOverlap n fs)
  | [] => by intro s hs; unfold validateOverlap at hs; cases hs
  | f :: fs => by
    intro s hs
    unfold validateOverlap at hs
    split at hs
    · cases hs; exact passErr_isError _ _ _
    · exact validateOverlap_onlyErrors n fs s hs

theorem validateSet_onlyErrors (allow : Bool) (size : Nat) (n : String) (fs : List Field) :
    OnlyErrors (validateSet allow size n fs) := by
  intro s hs
  unfold validateSet at hs
  cases h : validateLen size n fs with
  | error e => rw [h] at hs; exact validateLen_onlyErrors _ _ _ s (by rw [h]; exact congrArg _ (Except.error.inj hs))
  | ok u =>
    rw [h] at hs; simp only at hs
    split at hs
    · cases hs
    · exact validateOverlap_onlyErrors _ _ s hs

theorem bitRangesObj_onlyErrors (o : Object) : OnlyErrors (bitRangesObj o) := by
  intro s hs
  unfold bitRangesObj at hs
  cases o with
  | register r =>
    simp only at hs
    cases h : validateSet r.allowBitOverlap r.sizeBits r.name r.fields with
    | error e => rw [h] at hs; exact validateSet_onlyErrors _ _ _ _ s (by rw [h]; exact congrArg _ (Except.error.inj hs))
    | ok u => rw [h] at hs; cases hs
  | command c =>
    simp only at hs
    cases h : validateSet c.allowBitOverlap c.sizeBitsIn s!"{c.name} (in)" c.inFields with
    | error e => rw [h] at hs; exact validateSet_onlyErrors _ _ _ _ s (by rw [h]; exact congrArg _ (Except.error.inj hs))
    | ok u =>
      rw [h] at hs; simp only at hs
      cases h' : validateSet c.allowBitOverlap c.sizeBitsOut s!"{c.name} (out)" c.outFields with
      | error e => rw [h'] at hs; exact validateSet_onlyErrors _ _ _ _ s (by rw [h']; exact congrArg _ (Except.error.inj hs))
      | ok u' => rw [h'] at hs; cases hs
  | block h os => cases hs
  | buffer b => cases hs
  | ref r => cases hs

end DDV.Gen
