/-
  DDV.Gen.Lemmas.Internal — `find_best_internal_address` (lir_transform.rs:638-657): the integer type
  chosen for `base_address` and all emitted address arithmetic contains the whole analysed range and
  is one of Rust's 8/16/32/64-bit integers.
-/
import DDV.Gen.Lower
import DDV.Gen.Emit
import DDV.Gen.Lemmas.MinMax

namespace DDV.Gen

theorem le_nextPow2 (n : Nat) : n ≤ nextPow2 n := by
  unfold nextPow2
  split
  · omega
  · have := Nat.lt_log2_self (n := n - 1)
    omega

theorem nextPow2_is_pow (n : Nat) : ∃ e, nextPow2 n = 2 ^ e := by
  unfold nextPow2
  split
  · exact ⟨0, rfl⟩
  · exact ⟨_, rfl⟩

/-- `ilog2 (next_power_of_two x)`: the number of bits `k` with `x ≤ 2^k`. -/
theorem pow_ilog2_nextPow2 (n : Nat) : n ≤ 2 ^ ilog2 (nextPow2 n) := by
  obtain ⟨e, he⟩ := nextPow2_is_pow n
  have h := le_nextPow2 n
  rw [he] at h ⊢
  unfold ilog2
  rw [Nat.log2_two_pow]
  exact h

theorem bits_table : ∀ x, x < 65 → (Nat.max (nextPow2 x) 8 = 8 ∨ Nat.max (nextPow2 x) 8 = 16 ∨
    Nat.max (nextPow2 x) 8 = 32 ∨ Nat.max (nextPow2 x) 8 = 64) := by
  decide +kernel

/-- What `find_best_internal_address` returns, spelled out. -/
theorem findBest_spec (d : Device) (sg : Bool) (bits : Nat)
    (h : findBestInternalAddress d = .ok (sg, bits)) :
    ∃ mn mx : Int, findMinMax d.objects (fun _ => true) = .ok (mn, mx) ∧ sg = decide (mn < 0) ∧
      Nat.max mn.natAbs mx.natAbs + 1 ≤ 2 ^ 63 ∧
      bits = Nat.max (nextPow2 (ilog2 (nextPow2 (Nat.max mn.natAbs mx.natAbs + 1)) + (if sg then 1 else 0))) 8 := by
  unfold findBestInternalAddress at h
  cases hm : findMinMax d.objects (fun _ => true) with
  | error e => rw [hm] at h; cases h
  | ok p =>
    obtain ⟨mn, mx⟩ := p
    rw [hm] at h
    simp only [bind, Except.bind, pure, Except.pure] at h
    split at h
    · cases h
    · rename_i hle
      simp only [Except.ok.injEq, Prod.mk.injEq] at h
      refine ⟨mn, mx, rfl, h.1.symm, by omega, ?_⟩
      rw [← h.2, ← h.1]

/-- The chosen type is one of `u8 u16 u32 u64 i8 i16 i32 i64`. -/
theorem internal_bits_rust (d : Device) (sg : Bool) (bits : Nat)
    (h : findBestInternalAddress d = .ok (sg, bits)) :
    bits = 8 ∨ bits = 16 ∨ bits = 32 ∨ bits = 64 := by
  obtain ⟨mn, mx, _, _, hle, hb⟩ := findBest_spec d sg bits h
  generalize hm : Nat.max mn.natAbs mx.natAbs = m at hle hb
  have hk : ilog2 (nextPow2 (m + 1)) ≤ 63 := by
    unfold nextPow2 ilog2
    split
    · show Nat.log2 1 ≤ 63
      decide
    · rw [Nat.log2_two_pow]
      have hm0 : m ≠ 0 := by omega
      have : Nat.log2 m < 63 := (Nat.log2_lt hm0).2 (by omega)
      simp only [Nat.add_sub_cancel]
      omega
  rw [hb]
  apply bits_table
  cases sg <;> simp <;> omega

/-- **The internal address type contains the analysed range**: with `(lo, hi)` the range of the
    chosen type and `(mn, mx)` what `find_min_max_addresses` returned, `lo ≤ mn` and `mx ≤ hi`. -/
theorem internal_type_covers_range (d : Device) (sg : Bool) (bits : Nat)
    (h : findBestInternalAddress d = .ok (sg, bits)) :
    ∃ mn mx : Int, findMinMax d.objects (fun _ => true) = .ok (mn, mx) ∧
      (typeRange sg bits).1 ≤ mn ∧ mx ≤ (typeRange sg bits).2 := by
  obtain ⟨mn, mx, hmm, hs, _, hb⟩ := findBest_spec d sg bits h
  refine ⟨mn, mx, hmm, ?_⟩
  generalize hm : Nat.max mn.natAbs mx.natAbs = m at hb
  have hk := pow_ilog2_nextPow2 (m + 1)
  generalize ilog2 (nextPow2 (m + 1)) = k at hk hb
  have hbits : k + (if sg then 1 else 0) ≤ bits := by
    rw [hb]
    exact Nat.le_trans (le_nextPow2 _) (Nat.le_max_left _ _)
  have hmn : mn.natAbs ≤ m := by rw [← hm]; exact Nat.le_max_left _ _
  have hmx : mx.natAbs ≤ m := by rw [← hm]; exact Nat.le_max_right _ _
  unfold typeRange
  cases sg with
  | false =>
    have hmn0 : ¬ mn < 0 := by simpa using hs.symm
    simp only [Bool.false_eq_true, if_false] at hbits ⊢
    have hp : (2:Nat) ^ k ≤ 2 ^ bits := Nat.pow_le_pow_right (by omega) hbits
    have hp' : ((2:Nat) ^ bits : Int) = (2:Int) ^ bits := by simp
    constructor
    · omega
    · have : (m : Int) + 1 ≤ ((2:Nat) ^ bits : Nat) := by exact_mod_cast Nat.le_trans hk hp
      rw [← hp']
      omega
  | true =>
    simp only [if_true] at hbits ⊢
    have hp : (2:Nat) ^ k ≤ 2 ^ (bits - 1) := Nat.pow_le_pow_right (by omega) (by omega)
    have hp' : ((2:Nat) ^ (bits - 1) : Int) = (2:Int) ^ (bits - 1) := by simp
    have : (m : Int) + 1 ≤ ((2:Nat) ^ (bits - 1) : Nat) := by exact_mod_cast Nat.le_trans hk hp
    rw [← hp']
    constructor <;> omega

end DDV.Gen
