/-
  Every value check of the two front-end lowerings fails, if it fails, with the same error
  (`front_bad_value`). The DSL lowering and the manifest lowering make the same checks in different
  orders; these lemmas are what lets a proof permute them.
-/
import DDV.Gen.Front

namespace DDV.Gen.FrontCases
open DDV.Gen
set_option linter.unusedSimpArgs false

def bv : Stop := frontErr "front_bad_value"

theorem checkAddr_cases (a : Int) : checkAddr a = .ok a ∨ checkAddr a = .error bv := by
  unfold checkAddr; split <;> simp [bv, pure, Except.pure, throw, throwThe, MonadExceptOf.throw]
theorem checkU32_cases (n : Nat) : checkU32 n = .ok n ∨ checkU32 n = .error bv := by
  unfold checkU32; split <;> simp [bv, pure, Except.pure, throw, throwThe, MonadExceptOf.throw]
theorem checkRepeat_cases (r : Option Repeat) : checkRepeat r = .ok r ∨ checkRepeat r = .error bv := by
  unfold checkRepeat
  cases r with
  | none => simp [pure, Except.pure]
  | some r => simp only; split <;> simp [bv, pure, Except.pure, throw, throwThe, MonadExceptOf.throw]
theorem dslReset_cases (r : Option ResetValue) : dslReset r = .ok r ∨ dslReset r = .error bv := by
  unfold dslReset
  cases r with
  | none => simp [pure, Except.pure]
  | some rv => cases rv <;> (simp only; split <;> simp [bv, pure, Except.pure, throw, throwThe, MonadExceptOf.throw])
theorem manReset_cases (s : Syntax) (r : Option ResetValue) : manReset s r = .ok r ∨ manReset s r = .error bv := by
  unfold manReset
  cases r with
  | none => simp [pure, Except.pure]
  | some rv => cases rv <;> (simp only; split <;> simp [bv, pure, Except.pure, throw, throwThe, MonadExceptOf.throw])

theorem optAddr_cases (a : Option Int) : a.mapM checkAddr = .ok a ∨ a.mapM checkAddr = .error bv := by
  cases a with
  | none => exact Or.inl rfl
  | some x => rcases checkAddr_cases x with h | h <;> simp [h, Functor.map, Except.map]

/-- The manifest lowering of a field can only fail with `front_bad_value`. -/
theorem manField_cases (g : GlobalConfig) (f : AField) :
    (∃ v, manField g f = .ok v) ∨ manField g f = .error bv := by
  unfold manField
  rcases checkU32_cases f.start with h1 | h1 <;> rw [h1]
  · cases hs : f.stop with
    | none => simp [bind, Except.bind, pure, Except.pure]
    | some e => rcases checkU32_cases e with h2 | h2 <;> simp [h2, bind, Except.bind, pure, Except.pure]
  · simp [bind, Except.bind]

theorem mapM_cases {α β : Type} (f : α → M β) : ∀ (l : List α),
    (∀ x ∈ l, (∃ v, f x = .ok v) ∨ f x = .error bv) → (∃ v, l.mapM f = .ok v) ∨ l.mapM f = .error bv
  | [], _ => Or.inl ⟨[], rfl⟩
  | x :: xs, h => by
    rw [List.mapM_cons]
    rcases h x (List.mem_cons_self ..) with ⟨v, hv⟩ | hv
    · rcases mapM_cases f xs (fun y hy => h y (List.mem_cons_of_mem _ hy)) with ⟨vs, hvs⟩ | hvs
      · exact Or.inl ⟨v :: vs, by simp [hv, hvs, bind, Except.bind, pure, Except.pure]⟩
      · exact Or.inr (by simp [hv, hvs, bind, Except.bind])
    · exact Or.inr (by simp [hv, bind, Except.bind])

end DDV.Gen.FrontCases
