/-
  DDV.Gen.ManTree — the manifest front end at the level of keys and values:
  `dd-manifest-tree/src/lib.rs` (the `Value` / `Map` abstraction over `serde_json::Value`,
  `yaml_rust2::Yaml`, `toml::Value`) and `generation/src/manifest/mod.rs` (`transform` and the
  per-object / per-field / per-override readers), function by function.

  Input is the parsed value tree exactly as the concrete parser produced it (`MVal`; the harness
  dumps the parser's own data structure, not what `dd-manifest-tree` says about it), output the MIR
  device. Errors carry the kind the harness' classifier assigns to the real message.
  The concrete parsers (text → tree) stay outside the model.
-/
import DDV.Gen.Front

namespace DDV.Gen
open DDV.Bits (ByteOrder BitOrder)

/-- A parsed manifest value. `int`: a JSON number that `is_u64` or `is_i64`, a YAML / TOML
    `Integer(i64)`; `float`: JSON `f64` (also integers outside `i64 ∪ u64`), YAML `Real`, TOML
    `Float`; `other`: TOML datetime, YAML alias / bad value. Maps keep their textual key order
    (`preserve_order` / `LinkedHashMap`) and have pairwise distinct keys. -/
inductive MVal
  | null
  | bool (b : Bool)
  | int (n : Int)
  | float
  | str (s : String)
  | arr (xs : List MVal)
  | map (kvs : List (String × MVal))
  | other
  deriving Repr, Inhabited

abbrev MKvs := List (String × MVal)

/-- `Map::get`. -/
def mget (kvs : MKvs) (k : String) : Option MVal := (kvs.find? fun p => p.1 == k).map (·.2)
/-- `Map::contains_key`. -/
def mhas (kvs : MKvs) (k : String) : Bool := (mget kvs k).isSome

def badValue : Stop := frontErr "front_bad_value"
def missingKey : Stop := frontErr "front_missing_key"
def unexpectedKey : Stop := frontErr "front_unexpected_key"

/-! ### `Value` accessors (dd-manifest-tree) -/

def asStringV : MVal → M String
  | .str s => pure s
  | _ => throw badValue

def asBoolV : MVal → M Bool
  | .bool b => pure b
  | _ => throw badValue

def asArrayV : MVal → M (List MVal)
  | .arr xs => pure xs
  | _ => throw badValue

def asMapV : MVal → M MKvs
  | .map kvs => pure kvs
  | _ => throw badValue

/-- `as_null().is_ok()`: TOML has no null (its impl always answers `Err`). -/
def isNullV (syn : Syntax) : MVal → Bool
  | .null => syn != .toml
  | _ => false

def binDigits : List Char → Option Nat
  | [] => none
  | cs => cs.foldl (fun acc c => match acc with
      | none => none
      | some v => if c == '0' then some (2 * v) else if c == '1' then some (2 * v + 1) else none) (some 0)

/-- `{u64,i64}::from_str_radix(s, 2)`: an optional sign (`-` only for the signed type), at least one
    binary digit, the value within the type. -/
def fromStrRadix2 (signed : Bool) (s : String) : Option Int :=
  let lo : Int := if signed then -(2 ^ 63) else 0
  let hi : Int := if signed then 2 ^ 63 - 1 else 2 ^ 64 - 1
  let check (v : Int) : Option Int := if lo ≤ v ∧ v ≤ hi then some v else none
  match s.toList with
  | [] => none
  | '+' :: ds => (binDigits ds).bind fun v => check v
  | '-' :: ds => if signed then (binDigits ds).bind fun v => check (-(v : Int)) else none
  | ds => (binDigits ds).bind fun v => check v

/-- YAML only: a string `0b…` read as a binary number. -/
def yamlBinary (signed : Bool) : MVal → Option Int
  | .str s => if s.startsWith "0b" then fromStrRadix2 signed (s.drop 2).toString else none
  | _ => none

/-- `Value::as_uint`. -/
def asUintV (syn : Syntax) (v : MVal) : M Nat :=
  match syn, v with
  | .yaml, .str s =>
    (match yamlBinary false (.str s) with
     | some n => pure n.toNat
     | none => throw badValue)
  | .json, .int n => if 0 ≤ n ∧ n < 2 ^ 64 then pure n.toNat else throw badValue
  | _, .int n => if 0 ≤ n ∧ n < 2 ^ 63 then pure n.toNat else throw badValue
  | _, _ => throw badValue

/-- `Value::as_int`. -/
def asIntV (syn : Syntax) (v : MVal) : M Int :=
  match syn, v with
  | .yaml, .str s =>
    (match yamlBinary true (.str s) with
     | some n => pure n
     | none => throw badValue)
  | _, .int n => if -(2 ^ 63) ≤ n ∧ n < 2 ^ 63 then pure n else throw badValue
  | _, _ => throw badValue

/-- `u64 → u32` (`try_into`). -/
def asU32V (syn : Syntax) (v : MVal) : M Nat := do
  let n ← asUintV syn v
  if n < 2 ^ 32 then pure n else throw badValue

/-! ### Scalars of the definition language -/

def manAccessV (v : MVal) : M Access := do
  match ← asStringV v with
  | "ReadWrite" | "RW" => pure .rw
  | "ReadOnly" | "RO" => pure .ro
  | "WriteOnly" | "WO" => pure .wo
  | _ => throw badValue

def manByteOrderV (v : MVal) : M ByteOrder := do
  match ← asStringV v with
  | "LE" => pure .le
  | "BE" => pure .be
  | _ => throw badValue

def manBitOrderV (v : MVal) : M BitOrder := do
  match ← asStringV v with
  | "LSB0" => pure .lsb0
  | "MSB0" => pure .msb0
  | _ => throw badValue

def manIntegerV (v : MVal) : M Integer := do
  match ← asStringV v with
  | "u8" => pure .u8 | "u16" => pure .u16 | "u32" => pure .u32
  | "i8" => pure .i8 | "i16" => pure .i16 | "i32" => pure .i32 | "i64" => pure .i64
  | _ => throw badValue

def manBaseTypeV (v : MVal) : M BaseType := do
  match ← asStringV v with
  | "bool" => pure .bool
  | "int" => pure .int
  | "uint" => pure .uint
  | _ => throw badValue

/-- `convert_case::Boundary::all()` by `Debug` name. -/
def boundaryNames : List String :=
  ["Hyphen", "Underscore", "Space", "UpperLower", "LowerUpper", "DigitUpper", "UpperDigit",
   "DigitLower", "LowerDigit", "Acronym"]

def asciiLower (s : String) : String := String.ofList (s.toList.map fun c => if c.isUpper then c.toLower else c)

/-- `name_word_boundaries`: a string is handed to `Boundary::list_from` (opaque: kept as written),
    an array must name boundaries (ASCII case-insensitively). -/
def manBoundariesV (v : MVal) : M (List String) :=
  match v with
  | .str s => pure ["list_from:" ++ s]
  | .arr xs => xs.mapM fun x => do
      let s ← asStringV x
      match boundaryNames.find? fun b => asciiLower b == asciiLower s with
      | some b => pure b
      | none => throw badValue
  | _ => throw badValue

/-- `transform_global_config`: every key overwrites its setting; an unknown key is an error. -/
def manConfigStep (g : GlobalConfig) (kv : String × MVal) : M GlobalConfig :=
  let k := kv.1
  let v := kv.2
  match k with
    | "default_register_access" => do pure { g with defaultRegisterAccess := ← manAccessV v }
    | "default_field_access" => do pure { g with defaultFieldAccess := ← manAccessV v }
    | "default_buffer_access" => do pure { g with defaultBufferAccess := ← manAccessV v }
    | "default_byte_order" => do pure { g with defaultByteOrder := some (← manByteOrderV v) }
    | "default_bit_order" => do pure { g with defaultBitOrder := ← manBitOrderV v }
    | "register_address_type" => do pure { g with registerAddressType := some (← manIntegerV v) }
    | "command_address_type" => do pure { g with commandAddressType := some (← manIntegerV v) }
    | "buffer_address_type" => do pure { g with bufferAddressType := some (← manIntegerV v) }
    | "name_word_boundaries" => do pure { g with nameWordBoundaries := some (← manBoundariesV v) }
    | "defmt_feature" => do pure { g with defmtFeature := some (← asStringV v) }
    | _ => throw unexpectedKey

def manConfigKeys (kvs : MKvs) (g : GlobalConfig) : M GlobalConfig :=
  kvs.foldlM (manConfigStep ) g

def manConfigV (v : MVal) : M GlobalConfig := do
  let kvs ← asMapV v
  manConfigKeys kvs {}

/-! ### Repeat, reset value -/

/-- `transform_repeat`: both keys looked up first, unknown keys rejected afterwards. -/
def manRepeatV (syn : Syntax) (v : MVal) : M Repeat := do
  let kvs ← asMapV v
  let count ← match mget kvs "count" with
    | some c => asUintV syn c
    | none => throw missingKey
  let stride ← match mget kvs "stride" with
    | some s => asIntV syn s
    | none => throw missingKey
  if kvs.any fun p => p.1 != "count" && p.1 != "stride" then throw unexpectedKey
  pure { count := count, stride := stride }

/-- an element of a reset array: `as_uint` then `u8::try_from` -/
def manByteV (syn : Syntax) (x : MVal) : M Nat := do
  let n ← asUintV syn x
  if n < 256 then pure n else throw badValue

/-- `reset_value`: an unsigned integer, else an array of bytes. -/
def manResetV (syn : Syntax) (v : MVal) : M ResetValue :=
  match asUintV syn v with
  | .ok n => pure (.int n)
  | .error _ =>
    match v with
    | .arr xs => do
      let bytes ← xs.mapM (manByteV syn)
      pure (.array bytes)
    | _ => throw badValue

/-! ### Fields -/

/-- `transform_enum_value`. -/
def manEnumValueV (syn : Syntax) (v : MVal) : M EnumValue :=
  if isNullV syn v then pure .unspecified else
  match asIntV syn v with
  | .ok n => pure (.specified n)
  | .error _ =>
    match v with
    | .str "default" => pure .default
    | .str "catch_all" => pure .catchAll
    | _ => throw badValue

/-- `transform_enum_variant`: the extended form is a map with optional `cfg`, `description`,
    `value` (other keys are ignored by the code); anything else is the value itself. -/
def manVariantV (syn : Syntax) (name : String) (v : MVal) : M EnumVariant :=
  match v with
  | .map kvs => do
    let cfg ← (mget kvs "cfg").mapM asStringV
    let descr ← (mget kvs "description").mapM asStringV
    let value ← (mget kvs "value").mapM (manEnumValueV syn)
    pure { cfg := cfg, description := descr.getD "", name := name, value := value.getD .unspecified }
  | _ => do
    let value ← manEnumValueV syn v
    pure { cfg := none, description := "", name := name, value := value }

/-- `transform_field_conversion`. -/
def manConversionV (syn : Syntax) (useTry : Bool) (v : MVal) : M FieldConversion :=
  match v with
  | .str ty => pure (.direct ty useTry)
  | .map kvs => do
    let name ← match mget kvs "name" with
      | some n => asStringV n
      | none => throw missingKey
    let descr ← (mget kvs "description").mapM asStringV
    let variants ← (kvs.filter fun p => p.1 != "name" && p.1 != "description").mapM
      fun p => manVariantV syn p.1 p.2
    pure (.enum { cfg := none, description := descr.getD "", name := name, variants := variants } useTry)
  | _ => throw badValue

/-- The loop of `transform_field` over the field's keys. `start` also sets `end` when the map has
    no `end` key — wherever in the map `start` is written. -/
def manFieldStep (syn : Syntax) (all : MKvs) (f : Field) (kv : String × MVal) : M Field :=
  let k := kv.1
  let v := kv.2
  match k with
    | "cfg" => do pure { f with cfg := some (← asStringV v) }
    | "description" => do pure { f with description := ← asStringV v }
    | "access" => do pure { f with access := ← manAccessV v }
    | "base" => do pure { f with base := ← manBaseTypeV v }
    | "conversion" => do pure { f with conv := some (← manConversionV syn false v) }
    | "try_conversion" => do
      if mhas all "conversion" then throw badValue
      pure { f with conv := some (← manConversionV syn true v) }
    | "start" => do
      let s ← asU32V syn v
      pure (if mhas all "end" then { f with start := s } else { f with start := s, stop := s })
    | "end" => do pure { f with stop := ← asU32V syn v }
    | _ => throw unexpectedKey

def manFieldKeys (syn : Syntax) (all : MKvs) (kvs : MKvs) (f : Field) : M Field :=
  kvs.foldlM (manFieldStep syn all) f

/-- `transform_field`. -/
def manFieldV (syn : Syntax) (g : GlobalConfig) (name : String) (v : MVal) : M Field := do
  let kvs ← asMapV v
  if !mhas kvs "base" then throw missingKey
  if !mhas kvs "start" then throw missingKey
  manFieldKeys syn kvs kvs
    { cfg := none, description := "", name := name, access := g.defaultFieldAccess, base := .uint,
      conv := none, start := 0, stop := 0 }

/-- `transform_fields`. -/
def manFieldsV (syn : Syntax) (g : GlobalConfig) (v : MVal) : M (List Field) := do
  let kvs ← asMapV v
  kvs.mapM fun p => manFieldV syn g p.1 p.2

/-! ### Leaf objects -/

def manRegisterStep (syn : Syntax) (g : GlobalConfig) (r : Register) (kv : String × MVal) : M Register :=
  let k := kv.1
  let v := kv.2
  match k with
    | "type" => pure r
    | "cfg" => do pure { r with cfg := some (← asStringV v) }
    | "description" => do pure { r with description := ← asStringV v }
    | "access" => do pure { r with access := ← manAccessV v }
    | "byte_order" => do pure { r with byteOrder := some (← manByteOrderV v) }
    | "bit_order" => do pure { r with bitOrder := ← manBitOrderV v }
    | "address" => do pure { r with address := ← asIntV syn v }
    | "size_bits" => do pure { r with sizeBits := ← asU32V syn v }
    | "reset_value" => do pure { r with reset := some (← manResetV syn v) }
    | "repeat" => do pure { r with repeat_ := some (← manRepeatV syn v) }
    | "allow_bit_overlap" => do pure { r with allowBitOverlap := ← asBoolV v }
    | "allow_address_overlap" => do pure { r with allowAddressOverlap := ← asBoolV v }
    | "fields" => do pure { r with fields := ← manFieldsV syn g v }
    | _ => throw unexpectedKey

def manRegisterKeys (syn : Syntax) (g : GlobalConfig) (kvs : MKvs) (r : Register) : M Register :=
  kvs.foldlM (manRegisterStep syn g) r

/-- `transform_register`. -/
def manRegister (syn : Syntax) (g : GlobalConfig) (name : String) (kvs : MKvs) : M Register := do
  if !mhas kvs "address" then throw missingKey
  if !mhas kvs "size_bits" then throw missingKey
  manRegisterKeys syn g kvs
    { cfg := none, description := "", name := name, access := g.defaultRegisterAccess, byteOrder := none,
      bitOrder := g.defaultBitOrder, allowBitOverlap := false, allowAddressOverlap := false,
      address := 0, sizeBits := 0, reset := none, repeat_ := none, fields := [] }

def manCommandStep (syn : Syntax) (g : GlobalConfig) (c : Command) (kv : String × MVal) : M Command :=
  let k := kv.1
  let v := kv.2
  match k with
    | "type" => pure c
    | "cfg" => do pure { c with cfg := some (← asStringV v) }
    | "description" => do pure { c with description := ← asStringV v }
    | "byte_order" => do pure { c with byteOrder := some (← manByteOrderV v) }
    | "bit_order" => do pure { c with bitOrder := ← manBitOrderV v }
    | "address" => do pure { c with address := ← asIntV syn v }
    | "size_bits_in" => do pure { c with sizeBitsIn := ← asU32V syn v }
    | "size_bits_out" => do pure { c with sizeBitsOut := ← asU32V syn v }
    | "repeat" => do pure { c with repeat_ := some (← manRepeatV syn v) }
    | "allow_bit_overlap" => do pure { c with allowBitOverlap := ← asBoolV v }
    | "allow_address_overlap" => do pure { c with allowAddressOverlap := ← asBoolV v }
    | "fields_in" => do pure { c with inFields := ← manFieldsV syn g v }
    | "fields_out" => do pure { c with outFields := ← manFieldsV syn g v }
    | _ => throw unexpectedKey

def manCommandKeys (syn : Syntax) (g : GlobalConfig) (kvs : MKvs) (c : Command) : M Command :=
  kvs.foldlM (manCommandStep syn g) c

/-- `transform_command`. -/
def manCommand (syn : Syntax) (g : GlobalConfig) (name : String) (kvs : MKvs) : M Command := do
  if !mhas kvs "address" then throw missingKey
  manCommandKeys syn g kvs
    { cfg := none, description := "", name := name, address := 0, byteOrder := none,
      bitOrder := g.defaultBitOrder, allowBitOverlap := false, allowAddressOverlap := false,
      sizeBitsIn := 0, sizeBitsOut := 0, repeat_ := none, inFields := [], outFields := [] }

def manBufferStep (syn : Syntax) (b : Buffer) (kv : String × MVal) : M Buffer :=
  let k := kv.1
  let v := kv.2
  match k with
    | "type" => pure b
    | "cfg" => do pure { b with cfg := some (← asStringV v) }
    | "description" => do pure { b with description := ← asStringV v }
    | "access" => do pure { b with access := ← manAccessV v }
    | "address" => do pure { b with address := ← asIntV syn v }
    | _ => throw unexpectedKey

def manBufferKeys (syn : Syntax) (kvs : MKvs) (b : Buffer) : M Buffer :=
  kvs.foldlM (manBufferStep syn) b

/-- `transform_buffer`. -/
def manBuffer (syn : Syntax) (g : GlobalConfig) (name : String) (kvs : MKvs) : M Buffer := do
  if !mhas kvs "address" then throw missingKey
  manBufferKeys syn kvs
    { cfg := none, description := "", name := name, access := g.defaultBufferAccess, address := 0 }

/-! ### Refs and overrides. Errors raised while reading the override are reported under
    "Parsing error for 'override'": an unexpected key there is a layout key. -/

def overrideKey : Stop := frontErr "front_override_layout"

def manBlockOverrideStep (syn : Syntax) (o : BlockOverride) (kv : String × MVal) : M BlockOverride :=
  let k := kv.1
  let v := kv.2
  match k with
    | "type" => pure o
    | "address_offset" => do pure { o with addressOffset := some (← asIntV syn v) }
    | "repeat" => do pure { o with repeat_ := some (← manRepeatV syn v) }
    | _ => throw overrideKey

def manBlockOverrideKeys (syn : Syntax) (kvs : MKvs) (o : BlockOverride) : M BlockOverride :=
  kvs.foldlM (manBlockOverrideStep syn) o

def manRegisterOverrideStep (syn : Syntax) (o : RegisterOverride) (kv : String × MVal) : M RegisterOverride :=
  let k := kv.1
  let v := kv.2
  match k with
    | "type" => pure o
    | "access" => do pure { o with access := some (← manAccessV v) }
    | "address" => do pure { o with address := some (← asIntV syn v) }
    | "reset_value" => do pure { o with reset := some (← manResetV syn v) }
    | "repeat" => do pure { o with repeat_ := some (← manRepeatV syn v) }
    | "allow_address_overlap" => do pure { o with allowAddressOverlap := ← asBoolV v }
    | _ => throw overrideKey

def manRegisterOverrideKeys (syn : Syntax) (kvs : MKvs) (o : RegisterOverride) : M RegisterOverride :=
  kvs.foldlM (manRegisterOverrideStep syn) o

def manCommandOverrideStep (syn : Syntax) (o : CommandOverride) (kv : String × MVal) : M CommandOverride :=
  let k := kv.1
  let v := kv.2
  match k with
    | "type" => pure o
    | "address" => do pure { o with address := some (← asIntV syn v) }
    | "repeat" => do pure { o with repeat_ := some (← manRepeatV syn v) }
    | "allow_address_overlap" => do pure { o with allowAddressOverlap := ← asBoolV v }
    | _ => throw overrideKey

def manCommandOverrideKeys (syn : Syntax) (kvs : MKvs) (o : CommandOverride) : M CommandOverride :=
  kvs.foldlM (manCommandOverrideStep syn) o

/-- A repeat with an unknown key inside an override is reported with the override's context too. -/
def inOverride {α : Type} (m : M α) : M α :=
  match m with
  | .error (.error e) => if e.kind == "front_unexpected_key" then .error overrideKey else .error (.error e)
  | x => x

/-- `transform_object_override`. -/
def manOverrideV (syn : Syntax) (target : String) (v : MVal) : M ObjectOverride := do
  let kvs ← asMapV v
  let ty ← match mget kvs "type" with
    | some t => asStringV t
    | none => throw missingKey
  match ty with
  | "block" => do pure (.block (← inOverride (manBlockOverrideKeys syn kvs { name := target, addressOffset := none, repeat_ := none })))
  | "register" => do pure (.register (← inOverride (manRegisterOverrideKeys syn kvs
      { name := target, access := none, address := none, allowAddressOverlap := false, reset := none, repeat_ := none })))
  | "command" => do pure (.command (← inOverride (manCommandOverrideKeys syn kvs
      { name := target, address := none, allowAddressOverlap := false, repeat_ := none })))
  | "buffer" => throw (frontErr "front_ref_buffer")
  | "ref" => throw (frontErr "front_ref_ref")
  | _ => throw overrideKey

def manRefStep (r : RefObject) (kv : String × MVal) : M RefObject :=
  let k := kv.1
  let v := kv.2
  match k with
    | "type" | "target" | "override" => pure r
    | "cfg" => do pure { r with cfg := some (← asStringV v) }
    | "description" => do pure { r with description := ← asStringV v }
    | _ => throw unexpectedKey

def manRefKeys (kvs : MKvs) (r : RefObject) : M RefObject :=
  kvs.foldlM (manRefStep ) r

/-- `transform_ref`: `target` is read first, then the ref's own keys, the override last. -/
def manRef (syn : Syntax) (name : String) (kvs : MKvs) : M RefObject := do
  if !mhas kvs "target" then throw missingKey
  if !mhas kvs "override" then throw missingKey
  let target ← match mget kvs "target" with
    | some t => asStringV t
    | none => throw missingKey
  let ov := (mget kvs "override").getD .null
  let r ← manRefKeys kvs { cfg := none, description := "", name := name,
                           override := .block { name := target, addressOffset := none, repeat_ := none } }
  let o ← manOverrideV syn target ov
  pure { r with override := o }

/-! ### Objects and blocks (the recursion) -/

/-- The keys of a block other than a well-formed `objects` map. -/
def manBlockScalar (syn : Syntax) (h : BlockHead) (os : List Object) (k : String) (v : MVal) :
    M (BlockHead × List Object) :=
  match k with
  | "type" => pure (h, os)
  | "cfg" => do pure ({ h with cfg := some (← asStringV v) }, os)
  | "description" => do pure ({ h with description := ← asStringV v }, os)
  | "address_offset" => do pure ({ h with addressOffset := ← asIntV syn v }, os)
  | "repeat" => do pure ({ h with repeat_ := some (← manRepeatV syn v) }, os)
  | "objects" => throw badValue
  | _ => throw unexpectedKey

mutual
/-- `transform_object_with_config`. -/
def manObjectV (syn : Syntax) (g : GlobalConfig) (name : String) : MVal → M Object
  | .map kvs => do
    let ty ← match mget kvs "type" with
      | some t => asStringV t
      | none => throw missingKey
    match ty with
    | "block" => do
      let (h, os) ← manBlockKeys syn g kvs
        ({ cfg := none, description := "", name := name, addressOffset := 0, repeat_ := none }, [])
      pure (.block h os)
    | "register" => do pure (.register (← manRegister syn g name kvs))
    | "command" => do pure (.command (← manCommand syn g name kvs))
    | "buffer" => do pure (.buffer (← manBuffer syn g name kvs))
    | "ref" => do pure (.ref (← manRef syn name kvs))
    | _ => throw unexpectedKey
  | _ => throw badValue

/-- One key of a block (`transform_block`, the body of its loop): `objects` recurses into the map of
    child objects, every other key is read by `manBlockScalar`. -/
def manBlockStep (syn : Syntax) (g : GlobalConfig) (h : BlockHead) (os : List Object) (k : String) :
    MVal → M (BlockHead × List Object)
  | .map okvs =>
    if k = "objects" then do pure (h, ← manObjectsKvs syn g okvs)
    else manBlockScalar syn h os k (.map okvs)
  | v => manBlockScalar syn h os k v

/-- The loop of `transform_block` over the block's keys. -/
def manBlockKeys (syn : Syntax) (g : GlobalConfig) : MKvs → BlockHead × List Object → M (BlockHead × List Object)
  | [], s => pure s
  | (k, v) :: rest, s => do
    let s' ← manBlockStep syn g s.1 s.2 k v
    manBlockKeys syn g rest s'

/-- The objects of a map, in its key order. -/
def manObjectsKvs (syn : Syntax) (g : GlobalConfig) : MKvs → M (List Object)
  | [] => pure []
  | (k, v) :: rest => do
    let o ← manObjectV syn g k v
    let os ← manObjectsKvs syn g rest
    pure (o :: os)
end

/-- `transform`: the `config` key first (wherever it is written), every other key an object. -/
def manTransform (syn : Syntax) (v : MVal) : M Device := do
  let kvs ← asMapV v
  let g ← match mget kvs "config" with
    | some c => manConfigV c
    | none => pure {}
  let os ← manObjectsKvs syn g (kvs.filter fun p => p.1 != "config")
  pure { config := g, objects := os }

end DDV.Gen
