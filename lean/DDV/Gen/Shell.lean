/-
  DDV.Gen.Shell — the two thin shells around the library: `cli/src/main.rs` and the
  `create_device!` macro (`macros/src/lib.rs`). The library (`transform_*`), `prettyplease`, the file
  system and `CARGO_MANIFEST_DIR` are parameters.
-/
namespace DDV.Shell

/-- What `transform_*` returns: generated items, or a `compile_error!` invocation. -/
inductive LibOutput
  | code (tokens : String)
  | compileError (msg : String)
  deriving DecidableEq, Repr

/-- The four parsers, chosen by file extension. -/
inductive Ext | dsl | json | yaml | toml
  deriving DecidableEq, Repr

def parseExt : String → Option Ext
  | "dsl" => some .dsl | "json" => some .json | "yaml" => some .yaml | "toml" => some .toml | _ => none

/-- The environment of a run. -/
structure World where
  lib : Ext → String → String → LibOutput          -- parser, file contents, device name
  pretty : LibOutput → String                      -- prettyplease::unparse(parse2(output))
  readFile : String → Option String
  manifestDir : String                              -- CARGO_MANIFEST_DIR (macro only)

inductive Sink | stdout | file (path : String)
  deriving DecidableEq, Repr

structure CliResult where
  written : Option (Sink × String)    -- what was written where (none: nothing, the CLI panicked before)
  exitCode : Nat
  deriving DecidableEq, Repr

/-- `pretty_output.starts_with("::core::compile_error!")` — the CLI's test for a library error. -/
def looksLikeError (w : World) (o : LibOutput) : Bool := (w.pretty o).startsWith "::core::compile_error!"

/-- `main` of the CLI (main.rs:19-84): extension → parser, read the file, transform, pretty-print,
    write to the file or stdout, return `Err` (exit 1) when the output is a compile error; every
    `expect`/`panic!`/`unwrap` is exit code 101 with nothing written. -/
def cli (w : World) (manifestPath : String) (ext : Option String) (out : Option String) (device : String) : CliResult :=
  match ext with
  | none => ⟨none, 101⟩
  | some e =>
    match w.readFile manifestPath with
    | none => ⟨none, 101⟩
    | some contents =>
      match parseExt e with
      | none => ⟨none, 101⟩
      | some x =>
        let o := w.lib x contents device
        let sink := match out with | some p => Sink.file p | none => Sink.stdout
        ⟨some (sink, w.pretty o), if looksLikeError w o then 1 else 0⟩

/-- Path resolution of the macro (lib.rs:52-57): relative paths are joined to the crate root. -/
def resolvePath (w : World) (path : String) : String :=
  if path.startsWith "/" then path else w.manifestDir ++ "/" ++ path

inductive MacroInput
  | dsl (tokens : String)
  | manifest (path : String) (ext : Option String)

inductive MacroResult
  | expansion (o : LibOutput)
  | error (why : String)
  deriving DecidableEq, Repr

/-- `create_device!` (lib.rs:33-125) with all four features enabled. -/
def createDevice (w : World) (device : String) : MacroInput → MacroResult
  | .dsl tokens => .expansion (w.lib .dsl tokens device)
  | .manifest path ext =>
    match w.readFile (resolvePath w path) with
    | none => .error "could not open the manifest file"
    | some contents =>
      match ext with
      | none => .error "no file extension"
      | some e =>
        match parseExt e with
        | none => .error "unknown manifest file extension"
        | some x => .expansion (w.lib x contents device)

end DDV.Shell
