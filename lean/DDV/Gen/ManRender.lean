/-
  DDV.Gen.ManRender — an abstract definition written down as a manifest value tree, in the key order
  of the harness' renderer (harness/src/gen/render.rs `manifest_tree`). Used to state that reading the
  rendered tree key by key (`DDV.Gen.ManTree`) computes the abstract manifest lowering
  (`DDV.Gen.Front.lowerManifest`).
-/
import DDV.Gen.ManTree

/-! ## Rendering an abstract definition as a manifest value tree (what the harness' renderer
    writes, in its canonical key order) -/
namespace DDV.Gen
open DDV.Bits (ByteOrder BitOrder)

def rOpt {α : Type} (k : String) (o : Option α) (f : α → MVal) : MKvs :=
  match o with
  | some a => [(k, f a)]
  | none => []

def rAccess : Access → MVal | .rw => .str "RW" | .ro => .str "RO" | .wo => .str "WO"
def rByteOrder : ByteOrder → MVal | .le => .str "LE" | .be => .str "BE"
def rBitOrder : BitOrder → MVal | .lsb0 => .str "LSB0" | .msb0 => .str "MSB0"
def rInteger : Integer → MVal
  | .u8 => .str "u8" | .u16 => .str "u16" | .u32 => .str "u32"
  | .i8 => .str "i8" | .i16 => .str "i16" | .i32 => .str "i32" | .i64 => .str "i64"
def rBase : BaseType → MVal | .bool => .str "bool" | .int => .str "int" | .uint => .str "uint"
def rNat (n : Nat) : MVal := .int n
def rRepeat (r : Repeat) : MVal := .map [("count", .int r.count), ("stride", .int r.stride)]
def rReset : ResetValue → MVal
  | .int n => .int n
  | .array a => .arr (a.map fun (b : Nat) => MVal.int (b : Int))

/-- an implicit value is `null`; TOML has no null and writes an empty table -/
def rEnumValue (syn : Syntax) : EnumValue → MVal
  | .unspecified => if syn == .toml then .map [] else .null
  | .specified n => .int n
  | .default => .str "default"
  | .catchAll => .str "catch_all"

def rVariant (syn : Syntax) (v : AVariant) : String × MVal :=
  if v.cfg.isSome || v.description.isSome then
    (v.name, .map ((match v.value with | .unspecified => [] | x => [("value", rEnumValue syn x)]) ++
                   rOpt "cfg" v.cfg .str ++ rOpt "description" v.description .str))
  else (v.name, rEnumValue syn v.value)

def convTry : AConv → Bool | .ty _ t => t | .enum _ t => t

def rConv (syn : Syntax) : AConv → String × MVal
  | .ty p t => (if t then "try_conversion" else "conversion", .str p)
  | .enum e t => (if t then "try_conversion" else "conversion",
      .map ([("name", .str e.name)] ++ rOpt "description" e.description .str ++ e.variants.map (rVariant syn)))

def rField (syn : Syntax) (f : AField) : String × MVal :=
  (f.name, .map (rOpt "cfg" f.cfg .str ++ rOpt "description" f.description .str ++ rOpt "access" f.access rAccess ++
    [("base", rBase f.base), ("start", rNat f.start)] ++ rOpt "end" f.stop rNat ++
    (match f.conv with | some c => [rConv syn c] | none => [])))

def rFields (syn : Syntax) (fs : List AField) : MVal := .map (fs.map (rField syn))

end DDV.Gen

namespace DDV.Gen
open DDV.Bits (ByteOrder BitOrder)

def rBool (b : Bool) : MVal := .bool b
def rIntV (n : Int) : MVal := .int n

def rCommon (ty : String) (c : ACommon) : MKvs :=
  [("type", .str ty)] ++ rOpt "cfg" c.cfg .str ++ rOpt "description" c.description .str

def registerKvs (syn : Syntax) (c : ACommon) (access : Option Access) (bo : Option ByteOrder) (bito : Option BitOrder)
    (address : Int) (size : Nat) (reset : Option ResetValue) (rep : Option Repeat) (abo aao : Option Bool)
    (fields : List AField) : MKvs :=
  rCommon "register" c ++ rOpt "access" access rAccess ++ rOpt "byte_order" bo rByteOrder ++ rOpt "bit_order" bito rBitOrder ++
    [("address", rIntV address), ("size_bits", rNat size)] ++ rOpt "reset_value" reset rReset ++ rOpt "repeat" rep rRepeat ++
    rOpt "allow_bit_overlap" abo rBool ++ rOpt "allow_address_overlap" aao rBool ++ [("fields", rFields syn fields)]

def commandKvs (syn : Syntax) (c : ACommon) (address : Int) (bo : Option ByteOrder) (bito : Option BitOrder)
    (si so : Option Nat) (rep : Option Repeat) (abo aao : Option Bool) (fin fout : Option (List AField)) : MKvs :=
  rCommon "command" c ++ rOpt "byte_order" bo rByteOrder ++ rOpt "bit_order" bito rBitOrder ++
    [("address", rIntV address)] ++ rOpt "size_bits_in" si rNat ++ rOpt "size_bits_out" so rNat ++ rOpt "repeat" rep rRepeat ++
    rOpt "allow_bit_overlap" abo rBool ++ rOpt "allow_address_overlap" aao rBool ++
    rOpt "fields_in" fin (rFields syn) ++ rOpt "fields_out" fout (rFields syn)

def bufferKvs (c : ACommon) (access : Option Access) (address : Int) : MKvs :=
  rCommon "buffer" c ++ rOpt "access" access rAccess ++ [("address", rIntV address)]

def overrideKvs (ov : AOverride) : MKvs :=
  match ov.kind with
  | "block" => [("type", .str "block")] ++ rOpt "address_offset" ov.address rIntV ++ rOpt "repeat" ov.repeat_ rRepeat
  | "register" => [("type", .str "register")] ++ rOpt "access" ov.access rAccess ++ rOpt "address" ov.address rIntV ++
      rOpt "reset_value" ov.reset rReset ++ rOpt "repeat" ov.repeat_ rRepeat ++ rOpt "allow_address_overlap" ov.allowAddressOverlap rBool
  | "command" => [("type", .str "command")] ++ rOpt "address" ov.address rIntV ++ rOpt "repeat" ov.repeat_ rRepeat ++
      rOpt "allow_address_overlap" ov.allowAddressOverlap rBool
  | k => [("type", .str k)]

def refKvs (c : ACommon) (target : String) (ov : AOverride) : MKvs :=
  rCommon "ref" c ++ [("target", .str target), ("override", .map (overrideKvs ov))]

mutual
def rObj (syn : Syntax) : AObj → String × MVal
  | .block c off rep os =>
    (c.name, .map (rCommon "block" c ++ rOpt "address_offset" off rIntV ++ rOpt "repeat" rep rRepeat ++ [("objects", .map (rObjs syn os))]))
  | .register c access bo bito address size reset rep abo aao fields =>
    (c.name, .map (registerKvs syn c access bo bito address size reset rep abo aao fields))
  | .command c _ address bo bito si so rep abo aao fin fout =>
    (c.name, .map (commandKvs syn c address bo bito si so rep abo aao fin fout))
  | .buffer c access address => (c.name, .map (bufferKvs c access address))
  | .ref c target ov => (c.name, .map (refKvs c target ov))
def rObjs (syn : Syntax) : List AObj → MKvs
  | [] => []
  | o :: os => rObj syn o :: rObjs syn os
end

def rConfigKvs (c : AConfig) : MKvs :=
  rOpt "default_register_access" c.defaultRegisterAccess rAccess ++ rOpt "default_field_access" c.defaultFieldAccess rAccess ++
  rOpt "default_buffer_access" c.defaultBufferAccess rAccess ++ rOpt "default_byte_order" c.defaultByteOrder rByteOrder ++
  rOpt "default_bit_order" c.defaultBitOrder rBitOrder ++ rOpt "register_address_type" c.registerAddressType rInteger ++
  rOpt "command_address_type" c.commandAddressType rInteger ++ rOpt "buffer_address_type" c.bufferAddressType rInteger ++
  rOpt "defmt_feature" c.defmtFeature .str

/-- The manifest value tree of an abstract definition (`name_word_boundaries` is left to the
    correspondence run: `convert_case` is opaque to the model). -/
def renderTree (syn : Syntax) (d : ADef) : MVal :=
  .map ([("config", .map (rConfigKvs d.config))] ++ rObjs syn d.objects)

end DDV.Gen
