import DDV.Bits.Model
import DDV.Bits.Spec
import DDV.Bits.Lemmas
import DDV.Props.C01
import DDV.Props.C02
import DDV.Props.C03
