//! Facts extraction from the generated token stream (GEN_PROTOCOL.md §2.1, the `"outcome":"ok"` record).
//!
//! The token stream produced by `device_driver_generation` is parsed with `syn` and reduced to the
//! canonical JSON facts object. Everything is positional and order preserving:
//!
//! * a top level `struct` starts a BLOCK record, the next inherent `impl` with the same name is
//!   attached to the *latest* block of that name (the generator may legitimately emit the same block
//!   twice — both records are produced);
//! * inside `mod field_sets` a `struct` starts an FS record and later impls attach to the latest
//!   FS of that name;
//! * a top level `enum` starts an ENUM record and the `Default`/`From`/`TryFrom`/`From<Enum> for repr`
//!   impls attach to the latest enum of that name.
//!
//! Nothing in here panics: every unexpected shape is reported as `Err(String)` naming what was missing.
use proc_macro2::TokenStream;
use quote::ToTokens;
use serde_json::{Map, Value, json};
use syn::visit::Visit;
use syn::{
    Attribute, BinOp, Block, Expr, FnArg, GenericArgument, ImplItem, ImplItemFn, Item, ItemEnum,
    ItemImpl, ItemMod, ItemStruct, Lit, Pat, Path, PathArguments, ReturnType, Stmt, Type, UnOp,
};

type Res<T> = Result<T, String>;

/// Reduce an accepted output token stream to the canonical facts record
/// (`internal_address_type`, `blocks`, `field_sets`, `enums`; the caller adds `"outcome":"ok"`).
pub fn extract_facts(tokens: &TokenStream) -> Result<Value, String> {
    let file = syn::parse2::<syn::File>(tokens.clone())
        .map_err(|e| format!("output does not parse as a syn::File: {e}"))?;

    let mut internal_address_type: Option<String> = None;
    let mut blocks: Vec<BlockRec> = Vec::new();
    let mut field_sets: Option<Vec<FsRec>> = None;
    let mut enums: Vec<EnumRec> = Vec::new();

    for item in &file.items {
        match item {
            Item::Struct(s) => {
                let (rec, addr_ty) = block_struct(s)?;
                if internal_address_type.is_none() {
                    internal_address_type = Some(addr_ty);
                }
                blocks.push(rec);
            }
            Item::Impl(imp) => top_level_impl(imp, &mut blocks, &mut enums)?,
            Item::Mod(m) if m.ident == "field_sets" => {
                if field_sets.is_some() {
                    return Err("more than one `mod field_sets` in the output".into());
                }
                field_sets = Some(field_sets_mod(m)?);
            }
            Item::Enum(e) => enums.push(enum_item(e)?),
            Item::Macro(m) if last_ident(&m.mac.path).as_deref() == Some("compile_error") => {
                return Err(format!(
                    "output is a compile_error!: {}",
                    m.mac.tokens.to_string()
                ));
            }
            other => {
                return Err(format!(
                    "unexpected top level item: {}",
                    truncate(&other.to_token_stream().to_string())
                ));
            }
        }
    }

    let internal_address_type = internal_address_type
        .ok_or_else(|| "no block struct (with a `base_address` field) found".to_string())?;
    let field_sets = field_sets.ok_or_else(|| "no `mod field_sets` found".to_string())?;

    let blocks = blocks
        .into_iter()
        .map(BlockRec::finish)
        .collect::<Res<Vec<_>>>()?;
    let field_sets = field_sets
        .into_iter()
        .map(FsRec::finish)
        .collect::<Res<Vec<_>>>()?;
    let enums = enums
        .into_iter()
        .map(EnumRec::finish)
        .collect::<Res<Vec<_>>>()?;

    Ok(json!({
        "internal_address_type": internal_address_type,
        "blocks": blocks,
        "field_sets": field_sets,
        "enums": enums,
    }))
}

// ---------------------------------------------------------------------------------------------
// Small helpers
// ---------------------------------------------------------------------------------------------

fn truncate(s: &str) -> String {
    const MAX: usize = 160;
    if s.chars().count() <= MAX {
        s.to_string()
    } else {
        let mut out: String = s.chars().take(MAX).collect();
        out.push('…');
        out
    }
}

/// Token string with the whitespace *between tokens* removed: what stands inside a string literal
/// (`feature = "rev a"`) is part of the token and is kept.
fn squash(tokens: &impl ToTokens) -> String {
    let text = tokens.to_token_stream().to_string();
    let mut out = String::with_capacity(text.len());
    let (mut in_str, mut escaped) = (false, false);
    for c in text.chars() {
        if in_str {
            out.push(c);
            if escaped {
                escaped = false;
            } else if c == '\\' {
                escaped = true;
            } else if c == '"' {
                in_str = false;
            }
        } else if c == '"' {
            in_str = true;
            out.push(c);
        } else if !c.is_whitespace() {
            out.push(c);
        }
    }
    out
}

fn show(tokens: &impl ToTokens) -> String {
    truncate(&tokens.to_token_stream().to_string())
}

/// CFG: the predicate of the `#[cfg(...)]` attribute, whitespace removed; `null` when absent.
/// Several cfg attributes on one item (the emitters never do that for the item kinds of the
/// protocol) are joined with `;` so that nothing is silently dropped.
fn cfg_of(attrs: &[Attribute]) -> Value {
    let mut found: Vec<String> = Vec::new();
    for attr in attrs {
        if !attr.path().is_ident("cfg") {
            continue;
        }
        match &attr.meta {
            syn::Meta::List(list) => found.push(squash(&list.tokens)),
            other => found.push(squash(other)),
        }
    }
    if found.is_empty() {
        Value::Null
    } else {
        Value::String(found.join(";"))
    }
}

/// Strip parentheses and invisible groups.
fn peel(mut e: &Expr) -> &Expr {
    loop {
        match e {
            Expr::Paren(p) => e = &p.expr,
            Expr::Group(g) => e = &g.expr,
            _ => return e,
        }
    }
}

fn peel_type(mut t: &Type) -> &Type {
    loop {
        match t {
            Type::Paren(p) => t = &p.elem,
            Type::Group(g) => t = &g.elem,
            _ => return t,
        }
    }
}

/// Normalise a decimal digit string (possibly with leading `-`s) to a canonical decimal string.
fn norm_decimal(raw: &str, negate: bool) -> Option<String> {
    let mut neg = negate;
    let mut s = raw.trim();
    while let Some(rest) = s.strip_prefix('-') {
        neg = !neg;
        s = rest.trim_start();
    }
    if s.is_empty() || !s.bytes().all(|b| b.is_ascii_digit()) {
        return None;
    }
    let digits = s.trim_start_matches('0');
    let digits = if digits.is_empty() { "0" } else { digits };
    if neg && digits != "0" {
        Some(format!("-{digits}"))
    } else {
        Some(digits.to_string())
    }
}

fn int_of_lit(lit: &Lit, negate: bool) -> Option<String> {
    match lit {
        // `base10_digits` strips `_`, the type suffix and converts hex/octal/binary.
        // A negative `Literal` token (proc_macro2 keeps `-5` as one token) yields digits `-5`.
        Lit::Int(i) => norm_decimal(i.base10_digits(), negate),
        _ => None,
    }
}

/// An integer literal expression, possibly negated / parenthesised. Returns the decimal string.
fn int_of_expr(e: &Expr) -> Option<String> {
    fn go(e: &Expr, negate: bool) -> Option<String> {
        match peel(e) {
            Expr::Lit(l) => int_of_lit(&l.lit, negate),
            Expr::Unary(u) if matches!(u.op, UnOp::Neg(_)) => go(&u.expr, !negate),
            _ => None,
        }
    }
    go(e, false)
}

fn need_int(e: &Expr, what: &str) -> Res<String> {
    int_of_expr(e).ok_or_else(|| format!("{what}: expected an integer literal, found `{}`", show(e)))
}

/// A small natural as a JSON number (falls back to the decimal string if it does not fit u64).
fn small_nat(e: &Expr, what: &str) -> Res<Value> {
    let s = need_int(e, what)?;
    Ok(match s.parse::<u64>() {
        Ok(n) => json!(n),
        Err(_) => Value::String(s),
    })
}

fn negate_decimal(s: &str) -> String {
    norm_decimal(s, true).unwrap_or_else(|| s.to_string())
}

fn str_of_expr(e: &Expr) -> Option<String> {
    match peel(e) {
        Expr::Lit(l) => match &l.lit {
            Lit::Str(s) => Some(s.value()),
            _ => None,
        },
        Expr::Reference(r) => str_of_expr(&r.expr),
        _ => None,
    }
}

fn last_ident(path: &Path) -> Option<String> {
    path.segments.last().map(|s| s.ident.to_string())
}

fn type_path(t: &Type) -> Option<&Path> {
    match peel_type(t) {
        Type::Path(tp) if tp.qself.is_none() => Some(&tp.path),
        _ => None,
    }
}

fn type_last_ident(t: &Type) -> Option<String> {
    type_path(t).and_then(last_ident)
}

fn is_unit_type(t: &Type) -> bool {
    matches!(peel_type(t), Type::Tuple(tt) if tt.elems.is_empty())
}

/// The *type* generic arguments of the last path segment (lifetimes etc. are skipped).
fn last_segment_type_args(path: &Path) -> Vec<&Type> {
    match path.segments.last().map(|s| &s.arguments) {
        Some(PathArguments::AngleBracketed(ab)) => ab
            .args
            .iter()
            .filter_map(|a| match a {
                GenericArgument::Type(t) => Some(t),
                _ => None,
            })
            .collect(),
        _ => Vec::new(),
    }
}

/// `self.<name>`?
fn is_self_field(e: &Expr, name: &str) -> bool {
    match peel(e) {
        Expr::Field(f) => {
            matches!(&f.member, syn::Member::Named(id) if id == name)
                && matches!(peel(&f.base), Expr::Path(p) if p.path.is_ident("self"))
        }
        _ => false,
    }
}

fn expr_is_ident(e: &Expr, name: &str) -> bool {
    matches!(peel(e), Expr::Path(p) if p.qself.is_none() && p.path.is_ident(name))
}

/// Does the expression mention the identifier `name` anywhere?
fn mentions_ident(e: &Expr, name: &str) -> bool {
    struct V<'a> {
        name: &'a str,
        hit: bool,
    }
    impl<'ast> Visit<'ast> for V<'_> {
        fn visit_ident(&mut self, i: &'ast proc_macro2::Ident) {
            if i == self.name {
                self.hit = true;
            }
        }
    }
    let mut v = V { name, hit: false };
    v.visit_expr(e);
    v.hit
}

fn pat_ident_name(p: &Pat) -> Option<String> {
    match p {
        Pat::Ident(pi) => Some(pi.ident.to_string()),
        Pat::Type(pt) => pat_ident_name(&pt.pat),
        Pat::Paren(pp) => pat_ident_name(&pp.pat),
        _ => None,
    }
}

/// The initialiser of `let <name> = …;` in a block.
fn find_let<'a>(block: &'a Block, name: &str) -> Option<&'a Expr> {
    block.stmts.iter().find_map(|s| match s {
        Stmt::Local(l) if pat_ident_name(&l.pat).as_deref() == Some(name) => {
            l.init.as_ref().map(|i| &*i.expr)
        }
        _ => None,
    })
}

/// The tail expression of a block (last statement, with or without trailing semicolon).
fn tail_expr(block: &Block) -> Option<&Expr> {
    match block.stmts.last() {
        Some(Stmt::Expr(e, _)) => Some(e),
        _ => None,
    }
}

fn fn_has_typed_arg(f: &ImplItemFn, name: &str) -> bool {
    f.sig.inputs.iter().any(|a| match a {
        FnArg::Typed(pt) => pat_ident_name(&pt.pat).as_deref() == Some(name),
        FnArg::Receiver(_) => false,
    })
}

fn receiver(f: &ImplItemFn) -> Option<&syn::Receiver> {
    f.sig.inputs.iter().find_map(|a| match a {
        FnArg::Receiver(r) => Some(r),
        _ => None,
    })
}

fn impl_fns(imp: &ItemImpl) -> impl Iterator<Item = &ImplItemFn> {
    imp.items.iter().filter_map(|i| match i {
        ImplItem::Fn(f) => Some(f),
        _ => None,
    })
}

// ---------------------------------------------------------------------------------------------
// Blocks
// ---------------------------------------------------------------------------------------------

struct BlockRec {
    name: String,
    cfg: Value,
    /// (root, methods, read_all, read_all of the async twin - or why it could not be read) once the impl has been seen.
    body: Option<(bool, Vec<Value>, Vec<Value>, Result<Vec<Value>, String>)>,
}

impl BlockRec {
    fn finish(self) -> Res<Value> {
        let (root, methods, read_all, read_all_async) = self
            .body
            .ok_or_else(|| format!("block `{}`: no inherent impl found", self.name))?;
        let mut v = json!({
            "name": self.name,
            "root": root,
            "cfg": self.cfg,
            "methods": methods,
            "read_all": read_all,
        });
        // `read_all_registers_async` is read with the same reader (`.await` is peeled off like `?`); the model has one
        // list, so the twin's list is reported only where it is not the blocking one's
        // (an async body written in a form the reader does not know is reported as such - the rest of the facts stays usable,
        // so that the compiled probe can still run the twin and look for a failing index)
        match read_all_async {
            Ok(list) if list == read_all => {}
            Ok(list) => v["read_all_async"] = Value::Array(list),
            Err(e) => v["read_all_async"] = json!({"unreadable": e}),
        }
        Ok(v)
    }
}

fn block_struct(s: &ItemStruct) -> Res<(BlockRec, String)> {
    let name = s.ident.to_string();
    let mut addr_ty = None;
    let mut has_interface = false;
    for field in &s.fields {
        match field.ident.as_ref().map(|i| i.to_string()).as_deref() {
            Some("base_address") => addr_ty = Some(squash(&field.ty)),
            Some("interface") => has_interface = true,
            _ => {}
        }
    }
    if !has_interface {
        return Err(format!("block struct `{name}`: no `interface` field"));
    }
    let addr_ty = addr_ty.ok_or_else(|| format!("block struct `{name}`: no `base_address` field"))?;
    Ok((
        BlockRec {
            name,
            cfg: cfg_of(&s.attrs),
            body: None,
        },
        addr_ty,
    ))
}

fn top_level_impl(imp: &ItemImpl, blocks: &mut [BlockRec], enums: &mut [EnumRec]) -> Res<()> {
    let self_name = type_last_ident(&imp.self_ty);
    match &imp.trait_ {
        None => {
            let self_name =
                self_name.ok_or_else(|| format!("inherent impl for non-path type `{}`", show(&imp.self_ty)))?;
            let block = blocks
                .iter_mut()
                .rev()
                .find(|b| b.name == self_name)
                .ok_or_else(|| format!("inherent impl for `{self_name}` without a preceding block struct"))?;
            if block.body.is_some() {
                return Err(format!("block `{self_name}`: more than one inherent impl for the same struct"));
            }
            block.body = Some(block_impl(imp, &self_name)?);
            Ok(())
        }
        Some((_, trait_path, _)) => enum_trait_impl(imp, trait_path, self_name.as_deref(), enums),
    }
}

fn block_impl(imp: &ItemImpl, block_name: &str) -> Res<(bool, Vec<Value>, Vec<Value>, Result<Vec<Value>, String>)> {
    let mut root: Option<bool> = None;
    let mut seen_interface = false;
    let mut read_all_async: Option<Result<Vec<Value>, String>> = None;
    let mut read_all: Option<Vec<Value>> = None;
    let mut methods = Vec::new();

    for f in impl_fns(imp) {
        let fname = f.sig.ident.to_string();
        match fname.as_str() {
            "new" if receiver(f).is_none() => {
                root = Some(!fn_has_typed_arg(f, "base_address"));
            }
            "interface" => seen_interface = true,
            "read_all_registers" => {
                read_all = Some(
                    read_all_body(&f.block).map_err(|e| format!("block `{block_name}`: read_all_registers: {e}"))?,
                );
            }
            "read_all_registers_async" => {
                read_all_async =
                    Some(read_all_body(&f.block).map_err(|e| format!("block `{block_name}`: read_all_registers_async: {e}")));
            }
            _ => {
                methods.push(block_method(f).map_err(|e| format!("block `{block_name}`: method `{fname}`: {e}"))?);
            }
        }
    }

    let root = root.ok_or_else(|| format!("block `{block_name}`: no `fn new` in impl"))?;
    if !seen_interface {
        return Err(format!("block `{block_name}`: no `fn interface` in impl"));
    }
    let read_all_async =
        read_all_async.ok_or_else(|| format!("block `{block_name}`: no `fn read_all_registers_async` in impl"))?;
    let read_all = read_all.ok_or_else(|| format!("block `{block_name}`: no `fn read_all_registers` in impl"))?;
    Ok((root, methods, read_all, read_all_async))
}

/// One signed term of an additive chain.
struct Term<'a> {
    negative: bool,
    expr: &'a Expr,
}

/// Flatten `a + b - (c + d)` into signed terms (parentheses tolerated, signs propagated).
fn flatten_sum<'a>(e: &'a Expr, negative: bool, out: &mut Vec<Term<'a>>) {
    let e = peel(e);
    if let Expr::Binary(b) = e {
        match b.op {
            BinOp::Add(_) => {
                flatten_sum(&b.left, negative, out);
                flatten_sum(&b.right, negative, out);
                return;
            }
            BinOp::Sub(_) => {
                flatten_sum(&b.left, negative, out);
                flatten_sum(&b.right, !negative, out);
                return;
            }
            _ => {}
        }
    }
    out.push(Term { negative, expr: e });
}

/// Flatten `a * b * c` into factors.
fn flatten_product<'a>(e: &'a Expr, out: &mut Vec<&'a Expr>) {
    let e = peel(e);
    if let Expr::Binary(b) = e {
        if matches!(b.op, BinOp::Mul(_)) {
            flatten_product(&b.left, out);
            flatten_product(&b.right, out);
            return;
        }
    }
    out.push(e);
}

/// Decode `self.base_address + LIT [(+|-) index as T * STRIDE]`.
/// Returns (address, Option<(op, stride_abs)>, order) where `order` spells the sequence of the terms as
/// emitted (`b` = base, `a` = literal address, `i` = index term): the sum is evaluated left to right in
/// the internal address type, so the order decides which intermediate values must fit it.
fn decode_address_calc(e: &Expr) -> Res<(String, Option<(String, String)>, String)> {
    let mut terms = Vec::new();
    flatten_sum(e, false, &mut terms);
    let mut order = String::new();

    let mut base_seen = false;
    let mut address: Option<String> = None;
    let mut index_term: Option<(String, String)> = None;

    for term in &terms {
        if is_self_field(term.expr, "base_address") {
            if base_seen || term.negative {
                return Err(format!("unexpected use of `self.base_address` in `{}`", show(e)));
            }
            base_seen = true;
            order.push('b');
        } else if let Some(lit) = int_of_expr(term.expr) {
            if address.is_some() {
                return Err(format!("more than one literal address term in `{}`", show(e)));
            }
            address = Some(if term.negative { negate_decimal(&lit) } else { lit });
            order.push('a');
        } else if mentions_ident(term.expr, "index") {
            if index_term.is_some() {
                return Err(format!("more than one index term in `{}`", show(e)));
            }
            let mut factors = Vec::new();
            flatten_product(term.expr, &mut factors);
            let mut stride: Option<String> = None;
            let mut index_seen = false;
            for factor in factors {
                if let Some(lit) = int_of_expr(factor) {
                    if stride.is_some() {
                        return Err(format!("more than one stride literal in `{}`", show(term.expr)));
                    }
                    stride = Some(lit);
                } else if mentions_ident(factor, "index") && !index_seen {
                    index_seen = true;
                } else {
                    return Err(format!("unexpected factor `{}` in index term", show(factor)));
                }
            }
            let stride = stride.ok_or_else(|| format!("no stride literal in `{}`", show(term.expr)))?;
            // A negative stride literal flips the operator (the emitter always prints the absolute value).
            let (flip, stride_abs) = match stride.strip_prefix('-') {
                Some(abs) => (true, abs.to_string()),
                None => (false, stride),
            };
            let op = if term.negative != flip { "-" } else { "+" };
            index_term = Some((op.to_string(), stride_abs));
            order.push('i');
        } else {
            return Err(format!("unexpected term `{}` in address calculation", show(term.expr)));
        }
    }

    if !base_seen {
        return Err(format!("no `self.base_address` term in `{}`", show(e)));
    }
    let address = address.ok_or_else(|| format!("no literal address term in `{}`", show(e)))?;
    Ok((address, index_term, order))
}

/// `assert!(index < COUNT)` → COUNT
fn assert_count(block: &Block) -> Res<String> {
    for stmt in &block.stmts {
        let mac = match stmt {
            Stmt::Macro(m) => &m.mac,
            Stmt::Expr(Expr::Macro(m), _) => &m.mac,
            _ => continue,
        };
        if !mac.path.is_ident("assert") {
            continue;
        }
        let args = mac
            .parse_body_with(syn::punctuated::Punctuated::<Expr, syn::Token![,]>::parse_terminated)
            .map_err(|e| format!("assert! arguments do not parse: {e}"))?;
        let cond = args.first().ok_or("assert! without arguments")?;
        if let Expr::Binary(b) = peel(cond) {
            if matches!(b.op, BinOp::Lt(_)) && expr_is_ident(&b.left, "index") {
                return need_int(&b.right, "repeat count");
            }
        }
        return Err(format!("assert! condition is not `index < COUNT`: `{}`", show(cond)));
    }
    Err("no `assert!(index < COUNT)` in repeated address block".into())
}

fn block_method(f: &ImplItemFn) -> Res<Value> {
    let name = f.sig.ident.to_string();
    let cfg = cfg_of(&f.attrs);
    let has_index = fn_has_typed_arg(f, "index");

    // ----- the return type
    let ret_ty = match &f.sig.output {
        ReturnType::Type(_, t) => &**t,
        ReturnType::Default => return Err("no return type".into()),
    };
    let ret_path = type_path(ret_ty).ok_or_else(|| format!("return type `{}` is not a path", show(ret_ty)))?;
    let ret_last = last_ident(ret_path).ok_or("empty return type path")?;
    let is_dd = ret_path.leading_colon.is_some()
        && ret_path.segments.len() == 2
        && ret_path.segments.first().is_some_and(|s| s.ident == "device_driver");
    let targs = last_segment_type_args(ret_path);
    let targ = |i: usize, what: &str| -> Res<&Type> {
        targs
            .get(i)
            .copied()
            .ok_or_else(|| format!("return type `{}`: missing generic argument {what}", show(ret_ty)))
    };
    let set_name = |t: &Type| -> Res<Value> {
        if is_unit_type(t) {
            Ok(Value::Null)
        } else {
            type_last_ident(t)
                .map(Value::String)
                .ok_or_else(|| format!("field set type `{}` is not a path", show(t)))
        }
    };

    let mut kind = "block";
    let mut target = Value::Null;
    let mut address_type = Value::Null;
    let mut access = Value::Null;
    let mut in_set = Value::Null;
    let mut out_set = Value::Null;

    match (is_dd, ret_last.as_str()) {
        (true, "RegisterOperation") => {
            kind = "register";
            address_type = Value::String(squash(targ(1, "address type")?));
            target = set_name(targ(2, "field set")?)?;
            access = type_last_ident(targ(3, "access")?)
                .map(Value::String)
                .ok_or("access type is not a path")?;
        }
        (true, "CommandOperation") => {
            kind = "command";
            address_type = Value::String(squash(targ(1, "address type")?));
            in_set = set_name(targ(2, "input field set")?)?;
            out_set = set_name(targ(3, "output field set")?)?;
        }
        (true, "BufferOperation") => {
            kind = "buffer";
            address_type = Value::String(squash(targ(1, "address type")?));
            access = type_last_ident(targ(2, "access")?)
                .map(Value::String)
                .ok_or("access type is not a path")?;
        }
        (true, other) => return Err(format!("unknown operation type `::device_driver::{other}`")),
        (false, _) => {
            target = Value::String(ret_last.clone());
        }
    }

    // ----- the constructor call: `<Ret>::new(self.interface(), address [as T] [, field_sets::X::reset_fn])`
    let call = match tail_expr(&f.block).map(peel) {
        Some(Expr::Call(c)) => c,
        _ => return Err("body does not end in a `…::new(…)` call".into()),
    };
    match peel(&call.func) {
        Expr::Path(p) if last_ident(&p.path).as_deref() == Some("new") => {}
        other => return Err(format!("tail call is not `…::new`: `{}`", show(other))),
    }
    let reset_fn = if kind == "register" {
        let arg = call
            .args
            .iter()
            .nth(2)
            .ok_or("register constructor call has no reset function argument")?;
        match peel(arg) {
            Expr::Path(p) => Value::String(last_ident(&p.path).ok_or("empty reset function path")?),
            other => return Err(format!("reset function argument is not a path: `{}`", show(other))),
        }
    } else {
        Value::Null
    };

    // ----- the address: whatever the constructor call's second argument denotes - a local (of any name) bound by a
    // `let` in the body, possibly behind an `as T` cast, or the expression itself
    let addr_arg = call
        .args
        .iter()
        .nth(1)
        .ok_or("constructor call has no address argument")?;
    // follow locals and `as T` casts until an expression that is neither is reached
    let mut addr_expr = peel(addr_arg);
    for _ in 0..8 {
        match addr_expr {
            Expr::Cast(c) => addr_expr = peel(&c.expr),
            Expr::Path(p) if p.qself.is_none() && p.path.get_ident().is_some() => {
                let local = p.path.get_ident().unwrap().to_string();
                addr_expr = peel(
                    find_let(&f.block, &local)
                        .ok_or_else(|| format!("no `let {local} = …;` statement for the address argument"))?,
                );
            }
            _ => break,
        }
    }
    let (address, repeat) = match peel(addr_expr) {
        Expr::Block(b) => {
            let count = assert_count(&b.block)?;
            let calc = tail_expr(&b.block).ok_or("repeated address block has no tail expression")?;
            let (address, index_term, order) = decode_address_calc(calc)?;
            let (op, stride_abs) = index_term.ok_or_else(|| format!("no index term in `{}`", show(calc)))?;
            (
                address,
                json!({"count": count, "op": op, "stride_abs": stride_abs, "order": order}),
            )
        }
        other => {
            let (address, index_term, _order) = decode_address_calc(other)?;
            match index_term {
                None => (address, Value::Null),
                // Tolerate an index term without the surrounding assert block? No: the count is part of the facts.
                Some(_) => return Err("index term without `assert!(index < COUNT)` block".into()),
            }
        }
    };
    if has_index != !repeat.is_null() {
        return Err(format!(
            "`index` parameter present = {has_index} but repeat = {}",
            if repeat.is_null() { "none" } else { "some" }
        ));
    }

    let mut m = Map::new();
    m.insert("name".into(), Value::String(name));
    m.insert("cfg".into(), cfg);
    m.insert("kind".into(), Value::String(kind.into()));
    m.insert("target".into(), target);
    m.insert("address_type".into(), address_type);
    m.insert("access".into(), access);
    m.insert("reset_fn".into(), reset_fn);
    m.insert("in_set".into(), in_set);
    m.insert("out_set".into(), out_set);
    m.insert("address".into(), Value::String(address));
    m.insert("repeat".into(), repeat);
    Ok(Value::Object(m))
}

/// Find `self.NAME(ARGS…)` at the root of a receiver chain such as `self.NAME(0).read()?`.
fn accessor_call(e: &Expr) -> Option<(String, Vec<&Expr>)> {
    match peel(e) {
        Expr::Try(t) => accessor_call(&t.expr),
        Expr::Await(a) => accessor_call(&a.base),
        Expr::MethodCall(mc) => {
            if expr_is_ident(&mc.receiver, "self") {
                Some((mc.method.to_string(), mc.args.iter().collect()))
            } else {
                accessor_call(&mc.receiver)
            }
        }
        _ => None,
    }
}

fn read_all_body(block: &Block) -> Res<Vec<Value>> {
    struct Pending {
        method: String,
        index: Value,
        cfg: Value,
    }
    /// One statement list (the function body, or a `{ … }` statement inside it, gated by `outer_cfg`): reads are
    /// `let NAME = self.ACCESSOR(…).read()…?;`, reports are `callback(ADDR, "display", VALUE)` where ADDR may be a
    /// local bound earlier in the same list. Anything else is refused rather than skipped.
    fn walk(block: &Block, outer_cfg: &Value, out: &mut Vec<Value>) -> Res<()> {
        let mut pending: Option<Pending> = None;
        let mut locals: Vec<(String, &Expr)> = Vec::new();
        let n = block.stmts.len();
        for (pos, stmt) in block.stmts.iter().enumerate() {
            match stmt {
                Stmt::Local(l) => {
                    let name = pat_ident_name(&l.pat).ok_or("`let` with a pattern in read_all_registers")?;
                    let init = l.init.as_ref().ok_or_else(|| format!("`let {name}` without initialiser"))?;
                    if let Some((method, args)) = accessor_call(&init.expr) {
                        if pending.is_some() {
                            return Err("two register reads without a `callback(…)` in between".into());
                        }
                        let index = match args.as_slice() {
                            [] => Value::Null,
                            [a] => Value::String(need_int(a, "accessor index")?),
                            _ => return Err(format!("accessor `{method}` called with more than one argument")),
                        };
                        let own = cfg_of(&l.attrs);
                        pending = Some(Pending {
                            method,
                            index,
                            cfg: if own.is_null() { outer_cfg.clone() } else { own },
                        });
                    } else {
                        locals.push((name, &init.expr));
                    }
                }
                Stmt::Expr(e, _) => match peel(e) {
                    Expr::Call(c) if expr_is_ident(&c.func, "callback") => {
                        let p = pending
                            .take()
                            .ok_or("`callback(…)` without a preceding register read")?;
                        let args: Vec<&Expr> = c.args.iter().collect();
                        if args.len() != 3 {
                            return Err(format!("`callback` called with {} arguments (expected 3)", args.len()));
                        }
                        let resolve = |e: &Expr| -> Expr {
                            let mut cur = peel(e).clone();
                            for _ in 0..4 {
                                let next = match &cur {
                                    Expr::Path(pp) if pp.qself.is_none() && pp.path.get_ident().is_some() => {
                                        let id = pp.path.get_ident().unwrap().to_string();
                                        locals.iter().rev().find(|(n, _)| *n == id).map(|(_, init)| peel(init).clone())
                                    }
                                    _ => None,
                                };
                                match next {
                                    Some(nx) => cur = nx,
                                    None => break,
                                }
                            }
                            cur
                        };
                        let addr = resolve(args[0]);
                        let (address, stride) = decode_callback_address(&addr, &p.index)?;
                        let disp = resolve(args[1]);
                        let display = str_of_expr(&disp)
                            .ok_or_else(|| format!("callback display name is not a string literal: `{}`", show(args[1])))?;
                        out.push(json!({
                            "method": p.method,
                            "cfg": p.cfg,
                            "index": p.index,
                            "address": address,
                            "stride": stride,
                            "display": display,
                        }));
                    }
                    Expr::Block(b) => {
                        if pending.is_some() {
                            return Err("a block statement between a register read and its `callback(…)`".into());
                        }
                        let own = cfg_of(&b.attrs);
                        walk(&b.block, if own.is_null() { outer_cfg } else { &own }, out)?;
                    }
                    // the final `Ok(())`
                    Expr::Call(c) if pos + 1 == n && expr_is_ident(&c.func, "Ok") => {}
                    other => return Err(format!("statement not understood in read_all_registers: `{}`", show(other))),
                },
                Stmt::Item(_) | Stmt::Macro(_) => return Err("item or macro statement in read_all_registers".into()),
            }
        }
        if pending.is_some() {
            return Err("trailing register read without `callback(…)`".into());
        }
        Ok(())
    }
    let mut out = Vec::new();
    walk(block, &Value::Null, &mut out)?;
    Ok(out)
}

/// `ADDR + INDEX * STRIDE` → (ADDR, STRIDE). The INDEX literal is cross-checked against the accessor
/// argument when there is one.
fn decode_callback_address(e: &Expr, accessor_index: &Value) -> Res<(String, String)> {
    let mut terms = Vec::new();
    flatten_sum(e, false, &mut terms);
    let mut address: Option<String> = None;
    let mut product: Option<(String, String)> = None;
    for term in &terms {
        let mut factors = Vec::new();
        flatten_product(term.expr, &mut factors);
        match factors.as_slice() {
            [single] if address.is_none() => {
                let lit = need_int(single, "callback address")?;
                address = Some(if term.negative { negate_decimal(&lit) } else { lit });
            }
            [index, stride] if product.is_none() => {
                let index = need_int(index, "callback index")?;
                let stride = need_int(stride, "callback stride")?;
                let stride = if term.negative { negate_decimal(&stride) } else { stride };
                product = Some((index, stride));
            }
            _ => return Err(format!("callback address `{}` is not `ADDR + INDEX * STRIDE`", show(e))),
        }
    }
    let address = address.ok_or_else(|| format!("callback address `{}` has no address term", show(e)))?;
    let (index, stride) =
        product.ok_or_else(|| format!("callback address `{}` has no `INDEX * STRIDE` term", show(e)))?;
    if let Value::String(ai) = accessor_index {
        if *ai != index {
            return Err(format!(
                "callback index {index} differs from accessor index {ai} in `{}`",
                show(e)
            ));
        }
    }
    Ok((address, stride))
}

// ---------------------------------------------------------------------------------------------
// Field sets
// ---------------------------------------------------------------------------------------------

struct FFieldRec {
    name: String,
    getter: Option<(Value, Value)>, // (cfg, ACC)
    setter: Option<(Value, Value)>,
}

struct FsRec {
    name: String,
    cfg: Value,
    size_bytes: Value,
    size_bits: Option<Value>,
    /// (new, new_as, fields) once the inherent impl has been seen.
    inherent: Option<(Value, Vec<Value>, Vec<FFieldRec>)>,
    debug_fields: Option<Vec<String>>,
}

impl FsRec {
    fn finish(self) -> Res<Value> {
        let name = self.name;
        let size_bits = self
            .size_bits
            .ok_or_else(|| format!("field set `{name}`: no `impl ::device_driver::FieldSet` with SIZE_BITS"))?;
        let (new, new_as, fields) = self
            .inherent
            .ok_or_else(|| format!("field set `{name}`: no inherent impl"))?;
        let debug_fields = self
            .debug_fields
            .ok_or_else(|| format!("field set `{name}`: no `impl core::fmt::Debug`"))?;
        let fields: Vec<Value> = fields
            .into_iter()
            .map(|f| {
                let cfg = match (&f.getter, &f.setter) {
                    (Some((cfg, _)), _) => cfg.clone(),
                    (None, Some((cfg, _))) => cfg.clone(),
                    (None, None) => Value::Null,
                };
                json!({
                    "name": f.name,
                    "cfg": cfg,
                    "getter": f.getter.map(|g| g.1).unwrap_or(Value::Null),
                    "setter": f.setter.map(|s| s.1).unwrap_or(Value::Null),
                })
            })
            .collect();
        Ok(json!({
            "name": name,
            "cfg": self.cfg,
            "size_bytes": self.size_bytes,
            "size_bits": size_bits,
            "new": new,
            "new_as": new_as,
            "fields": fields,
            "debug_fields": debug_fields,
        }))
    }
}

fn field_sets_mod(m: &ItemMod) -> Res<Vec<FsRec>> {
    let (_, items) = m
        .content
        .as_ref()
        .ok_or("`mod field_sets` has no inline content")?;
    let mut sets: Vec<FsRec> = Vec::new();
    let mut seen_value_enum = false;

    for item in items {
        match item {
            Item::Use(_) => {}
            Item::Struct(s) => sets.push(fs_struct(s)?),
            Item::Enum(e) if e.ident == "FieldSetValue" => seen_value_enum = true,
            Item::Impl(imp) => {
                let Some(self_name) = type_last_ident(&imp.self_ty) else {
                    // e.g. `impl From<X> for [u8; N]`
                    continue;
                };
                let Some(fs) = sets.iter_mut().rev().find(|f| f.name == self_name) else {
                    // impls for `FieldSetValue`
                    continue;
                };
                match &imp.trait_ {
                    None => {
                        if fs.inherent.is_some() {
                            return Err(format!("field set `{self_name}`: more than one inherent impl"));
                        }
                        fs.inherent = Some(fs_inherent_impl(imp, &self_name)?);
                    }
                    Some((_, path, _)) => match last_ident(path).as_deref() {
                        Some("FieldSet") => {
                            if fs.size_bits.is_none() {
                                fs.size_bits = Some(fs_size_bits(imp, &self_name)?);
                            }
                        }
                        Some("Debug") => {
                            if fs.debug_fields.is_none() {
                                fs.debug_fields = Some(fs_debug_fields(imp));
                            }
                        }
                        _ => {}
                    },
                }
            }
            other => {
                return Err(format!(
                    "unexpected item in `mod field_sets`: {}",
                    show(other)
                ));
            }
        }
    }
    if !seen_value_enum {
        return Err("`mod field_sets` has no `enum FieldSetValue`".into());
    }
    Ok(sets)
}

fn fs_struct(s: &ItemStruct) -> Res<FsRec> {
    let name = s.ident.to_string();
    let bits = s
        .fields
        .iter()
        .find(|f| f.ident.as_ref().is_some_and(|i| i == "bits"))
        .ok_or_else(|| format!("field set struct `{name}`: no `bits` field"))?;
    let size_bytes = match peel_type(&bits.ty) {
        Type::Array(a) => small_nat(&a.len, &format!("field set struct `{name}`: array length"))?,
        other => {
            return Err(format!(
                "field set struct `{name}`: `bits` is not an array: `{}`",
                show(other)
            ));
        }
    };
    Ok(FsRec {
        name,
        cfg: cfg_of(&s.attrs),
        size_bytes,
        size_bits: None,
        inherent: None,
        debug_fields: None,
    })
}

fn fs_size_bits(imp: &ItemImpl, name: &str) -> Res<Value> {
    for item in &imp.items {
        if let ImplItem::Const(c) = item {
            if c.ident == "SIZE_BITS" {
                return small_nat(&c.expr, &format!("field set `{name}`: SIZE_BITS"));
            }
        }
    }
    Err(format!("field set `{name}`: `impl FieldSet` has no `const SIZE_BITS`"))
}

/// The string literals of all `.field("name", …)` calls in the Debug impl (receiver-chain order).
fn fs_debug_fields(imp: &ItemImpl) -> Vec<String> {
    struct V {
        out: Vec<String>,
    }
    impl<'ast> Visit<'ast> for V {
        fn visit_expr_method_call(&mut self, mc: &'ast syn::ExprMethodCall) {
            // receiver first, so that the chain is collected left to right
            self.visit_expr(&mc.receiver);
            if mc.method == "field" {
                if let Some(s) = mc.args.first().and_then(str_of_expr) {
                    self.out.push(s);
                }
            }
            for a in &mc.args {
                self.visit_expr(a);
            }
        }
    }
    let mut v = V { out: Vec::new() };
    for f in impl_fns(imp) {
        v.visit_block(&f.block);
    }
    v.out
}

/// `Self { bits: [a, b, c] }` → `[a, b, c]` as JSON numbers.
fn ctor_bytes(f: &ImplItemFn) -> Res<Value> {
    let tail = tail_expr(&f.block).ok_or("constructor has no tail expression")?;
    let st = match peel(tail) {
        Expr::Struct(s) => s,
        other => return Err(format!("constructor body is not `Self {{ bits: … }}`: `{}`", show(other))),
    };
    let bits = st
        .fields
        .iter()
        .find(|fv| matches!(&fv.member, syn::Member::Named(id) if id == "bits"))
        .ok_or("constructor has no `bits` field")?;
    match peel(&bits.expr) {
        Expr::Array(a) => {
            let bytes = a
                .elems
                .iter()
                .map(|e| small_nat(e, "reset byte"))
                .collect::<Res<Vec<_>>>()?;
            Ok(Value::Array(bytes))
        }
        Expr::Repeat(r) => {
            // `[v; n]`
            let v = small_nat(&r.expr, "reset byte")?;
            let n = need_int(&r.len, "reset repeat length")?
                .parse::<usize>()
                .map_err(|e| format!("reset repeat length: {e}"))?;
            if n > (1 << 20) {
                return Err(format!("reset repeat length {n} is unreasonably large"));
            }
            Ok(Value::Array(vec![v; n]))
        }
        other => Err(format!("`bits` initialiser is not an array: `{}`", show(other))),
    }
}

/// Find the first call to `…::load_*` / `…::store_*` in a function body.
fn find_ops_call(block: &Block) -> Option<&syn::ExprCall> {
    struct V<'a> {
        hit: Option<&'a syn::ExprCall>,
    }
    impl<'ast> Visit<'ast> for V<'ast> {
        fn visit_expr_call(&mut self, c: &'ast syn::ExprCall) {
            if self.hit.is_some() {
                return;
            }
            if let Expr::Path(p) = peel(&c.func) {
                if let Some(id) = last_ident(&p.path) {
                    if matches!(id.as_str(), "load_lsb0" | "load_msb0" | "store_lsb0" | "store_msb0") {
                        self.hit = Some(c);
                        return;
                    }
                }
            }
            syn::visit::visit_expr_call(self, c);
        }
    }
    let mut v = V { hit: None };
    v.visit_block(block);
    v.hit
}

fn is_method_on(e: &Expr, recv: &str, method: &str) -> bool {
    matches!(peel(e), Expr::MethodCall(mc) if mc.method == method && expr_is_ident(&mc.receiver, recv))
}

/// Does `e` denote the value the getter loaded: the `unsafe { …::load_*(…) }` expression itself, or a local bound to it?
fn denotes_load(f: &ImplItemFn, e: &Expr) -> bool {
    fn is_load_expr(e: &Expr) -> bool {
        let inner = match peel(e) {
            Expr::Unsafe(u) => match tail_expr(&u.block) {
                Some(t) => peel(t),
                None => return false,
            },
            other => other,
        };
        match inner {
            Expr::Call(c) => match peel(&c.func) {
                Expr::Path(p) => matches!(last_ident(&p.path).as_deref(), Some("load_lsb0" | "load_msb0")),
                _ => false,
            },
            _ => false,
        }
    }
    match peel(e) {
        Expr::Path(p) if p.qself.is_none() && p.path.get_ident().is_some() => {
            let name = p.path.get_ident().unwrap().to_string();
            find_let(&f.block, &name).map(is_load_expr).unwrap_or(false)
        }
        other => is_load_expr(other),
    }
}

/// `x.METHOD()` or `…::TRAIT::METHOD(x)` (any path ending in one of `fns`) → `x`
fn conversion_arg<'a>(e: &'a Expr, methods: &[&str], fns: &[&str]) -> Option<&'a Expr> {
    match peel(e) {
        Expr::MethodCall(mc) if mc.args.is_empty() && methods.iter().any(|m| mc.method == m) => Some(&mc.receiver),
        Expr::Call(c) if c.args.len() == 1 => match peel(&c.func) {
            Expr::Path(p) if p.path.segments.len() >= 2 && fns.iter().any(|m| last_ident(&p.path).as_deref() == Some(m)) => {
                c.args.first()
            }
            _ => None,
        },
        _ => None,
    }
}

fn getter_conv(f: &ImplItemFn) -> Res<&'static str> {
    let tail = tail_expr(&f.block).ok_or("getter has no tail expression")?;
    let tail = peel(tail);
    if denotes_load(f, tail) {
        return Ok("raw");
    }
    if let Some(x) = conversion_arg(tail, &["into"], &["into", "from"]) {
        if denotes_load(f, x) {
            return Ok("into");
        }
    }
    if let Some(x) = conversion_arg(tail, &["try_into"], &["try_into", "try_from"]) {
        if denotes_load(f, x) {
            return Ok("try_into");
        }
    }
    if let Expr::Unsafe(u) = tail {
        if let Some(Expr::MethodCall(mc)) = tail_expr(&u.block).map(peel) {
            if mc.method == "unwrap_unchecked" {
                if let Some(x) = conversion_arg(&mc.receiver, &["try_into"], &["try_into", "try_from"]) {
                    if denotes_load(f, x) {
                        return Ok("unsafe_into");
                    }
                }
            }
        }
    }
    if let Expr::Binary(b) = tail {
        // the carrier of a bool is unsigned: `> 0` and `!= 0` are the same test
        if matches!(b.op, BinOp::Gt(_) | BinOp::Ne(_)) && denotes_load(f, &b.left) && int_of_expr(&b.right).as_deref() == Some("0") {
            return Ok("bool");
        }
    }
    Err(format!("unknown getter conversion `{}`", show(tail)))
}

fn setter_conv(f: &ImplItemFn) -> Res<&'static str> {
    let raw = find_let(&f.block, "raw").ok_or("setter has no `let raw = …;`")?;
    let raw = peel(raw);
    if expr_is_ident(raw, "value") {
        return Ok("raw");
    }
    if let Expr::Cast(c) = raw {
        if expr_is_ident(&c.expr, "value") {
            return Ok("bool");
        }
    }
    if is_method_on(raw, "value", "into") {
        return Ok("into");
    }
    Err(format!("unknown setter conversion `{}`", show(raw)))
}

fn acc(f: &ImplItemFn, is_getter: bool, conv: &str, ty: String) -> Res<Value> {
    let call = find_ops_call(&f.block).ok_or("no `::device_driver::ops::load_*/store_*` call in body")?;
    let path = match peel(&call.func) {
        Expr::Path(p) => &p.path,
        _ => return Err("ops call is not a path call".into()),
    };
    let fn_name = last_ident(path).ok_or("empty ops path")?;
    if is_getter != fn_name.starts_with("load_") {
        return Err(format!(
            "{} uses `{fn_name}`",
            if is_getter { "getter" } else { "setter" }
        ));
    }
    let targs = last_segment_type_args(path);
    if targs.len() != 2 {
        return Err(format!("`{fn_name}` has {} type arguments (expected 2)", targs.len()));
    }
    let carrier = squash(targs[0]);
    let byte_order = type_last_ident(targs[1]).ok_or("byte order type argument is not a path")?;
    let args: Vec<&Expr> = call.args.iter().collect();
    let expected_args = if is_getter { 3 } else { 4 };
    if args.len() != expected_args {
        return Err(format!(
            "`{fn_name}` called with {} arguments (expected {expected_args})",
            args.len()
        ));
    }
    let start = small_nat(args[1], "field start bit")?;
    let end = small_nat(args[2], "field end bit")?;
    Ok(json!({
        "fn": fn_name,
        "carrier": carrier,
        "byte_order": byte_order,
        "start": start,
        "end": end,
        "conv": conv,
        "type": ty,
    }))
}

fn fs_inherent_impl(imp: &ItemImpl, fs_name: &str) -> Res<(Value, Vec<Value>, Vec<FFieldRec>)> {
    let mut new: Option<Value> = None;
    let mut seen_new_zero = false;
    let mut new_as: Vec<Value> = Vec::new();
    let mut fields: Vec<FFieldRec> = Vec::new();

    for f in impl_fns(imp) {
        let fname = f.sig.ident.to_string();
        let ctx = |e: String| format!("field set `{fs_name}`: fn `{fname}`: {e}");
        match receiver(f) {
            None => {
                if fname == "new" {
                    new = Some(ctor_bytes(f).map_err(ctx)?);
                } else if fname == "new_zero" {
                    seen_new_zero = true;
                } else if fname.starts_with("new_as_") {
                    let bytes = ctor_bytes(f).map_err(ctx)?;
                    new_as.push(json!({"name": fname, "bytes": bytes}));
                } else {
                    return Err(ctx("unexpected associated function without receiver".into()));
                }
            }
            Some(r) if r.mutability.is_none() => {
                // getter
                let ty = match &f.sig.output {
                    ReturnType::Type(_, t) => squash(&**t),
                    ReturnType::Default => return Err(ctx("getter without return type".into())),
                };
                let conv = getter_conv(f).map_err(ctx)?;
                let a = acc(f, true, conv, ty).map_err(ctx)?;
                let cfg = cfg_of(&f.attrs);
                match fields.iter_mut().find(|x| x.name == fname && x.getter.is_none()) {
                    Some(x) => x.getter = Some((cfg, a)),
                    None => fields.push(FFieldRec {
                        name: fname.clone(),
                        getter: Some((cfg, a)),
                        setter: None,
                    }),
                }
            }
            Some(_) => {
                // setter
                let field_name = fname
                    .strip_prefix("set_")
                    .ok_or_else(|| ctx("`&mut self` function whose name does not start with `set_`".into()))?
                    .to_string();
                let ty = f
                    .sig
                    .inputs
                    .iter()
                    .find_map(|a| match a {
                        FnArg::Typed(pt) if pat_ident_name(&pt.pat).as_deref() == Some("value") => {
                            Some(squash(&*pt.ty))
                        }
                        _ => None,
                    })
                    .ok_or_else(|| ctx("setter without `value` parameter".into()))?;
                let conv = setter_conv(f).map_err(ctx)?;
                let a = acc(f, false, conv, ty).map_err(ctx)?;
                let cfg = cfg_of(&f.attrs);
                match fields
                    .iter_mut()
                    .find(|x| x.name == field_name && x.setter.is_none())
                {
                    Some(x) => x.setter = Some((cfg, a)),
                    None => fields.push(FFieldRec {
                        name: field_name,
                        getter: None,
                        setter: Some((cfg, a)),
                    }),
                }
            }
        }
    }

    let new = new.ok_or_else(|| format!("field set `{fs_name}`: no `fn new`"))?;
    if !seen_new_zero {
        return Err(format!("field set `{fs_name}`: no `fn new_zero`"));
    }
    Ok((new, new_as, fields))
}

// ---------------------------------------------------------------------------------------------
// Enums
// ---------------------------------------------------------------------------------------------

struct EnumRec {
    name: String,
    cfg: Value,
    repr: String,
    variants: Vec<Value>,
    default: Option<String>,
    from: Option<Value>,
    try_from: Option<Value>,
    into: Option<Vec<Value>>,
}

impl EnumRec {
    fn finish(self) -> Res<Value> {
        let into = self
            .into
            .ok_or_else(|| format!("enum `{}`: no `impl From<{}> for {}`", self.name, self.name, self.repr))?;
        if self.from.is_none() && self.try_from.is_none() {
            return Err(format!(
                "enum `{}`: neither `impl From<{}>` nor `impl TryFrom<{}>` found",
                self.name, self.repr, self.repr
            ));
        }
        Ok(json!({
            "name": self.name,
            "cfg": self.cfg,
            "repr": self.repr,
            "variants": self.variants,
            "default": self.default,
            "from": self.from.unwrap_or(Value::Null),
            "try_from": self.try_from.unwrap_or(Value::Null),
            "into": into,
        }))
    }
}

fn enum_item(e: &ItemEnum) -> Res<EnumRec> {
    let name = e.ident.to_string();
    let mut repr = None;
    for attr in &e.attrs {
        if attr.path().is_ident("repr") {
            if let syn::Meta::List(list) = &attr.meta {
                repr = Some(squash(&list.tokens));
            }
        }
    }
    let repr = repr.ok_or_else(|| format!("enum `{name}`: no `#[repr(…)]` attribute"))?;

    let mut variants = Vec::new();
    for v in &e.variants {
        let vname = v.ident.to_string();
        let catch_all = match &v.fields {
            syn::Fields::Unit => false,
            syn::Fields::Unnamed(_) => true,
            syn::Fields::Named(_) => {
                return Err(format!("enum `{name}`: variant `{vname}` has named fields"));
            }
        };
        let (_, disc) = v
            .discriminant
            .as_ref()
            .ok_or_else(|| format!("enum `{name}`: variant `{vname}` has no discriminant"))?;
        let number = need_int(disc, &format!("enum `{name}`: variant `{vname}` discriminant"))?;
        variants.push(json!({
            "name": vname,
            "cfg": cfg_of(&v.attrs),
            "number": number,
            "catch_all": catch_all,
        }));
    }

    Ok(EnumRec {
        name,
        cfg: cfg_of(&e.attrs),
        repr,
        variants,
        default: None,
        from: None,
        try_from: None,
        into: None,
    })
}

/// `Self::V`, `Self::V(…)`, `Name::V`, `Ok(Self::V)` → `V`
fn variant_of_expr(e: &Expr) -> Option<String> {
    match peel(e) {
        Expr::Path(p) if p.path.segments.len() >= 2 => last_ident(&p.path),
        Expr::Call(c) => match peel(&c.func) {
            Expr::Path(p) if p.path.segments.len() >= 2 => last_ident(&p.path),
            Expr::Path(p) if p.path.is_ident("Ok") => c.args.first().and_then(variant_of_expr),
            _ => None,
        },
        _ => None,
    }
}

/// The `match val { … }` of the single function in a conversion impl.
fn conversion_match<'a>(imp: &'a ItemImpl, what: &str) -> Res<&'a syn::ExprMatch> {
    let f = impl_fns(imp)
        .next()
        .ok_or_else(|| format!("{what}: impl has no function"))?;
    // the match itself, or the match wrapped once in `Ok(…)` (arms then give the bare variant and the fallback returns)
    let mut tail = tail_expr(&f.block).map(peel);
    if let Some(Expr::Call(c)) = tail {
        if expr_is_ident(&c.func, "Ok") && c.args.len() == 1 {
            tail = c.args.first().map(peel);
        }
    }
    match tail {
        Some(Expr::Match(m)) => Ok(m),
        _ => Err(format!("{what}: function body is not a `match`")),
    }
}

/// An integer literal pattern (possibly negative).
fn int_of_pat(p: &Pat) -> Option<String> {
    match p {
        Pat::Lit(l) => int_of_lit(&l.lit, false),
        Pat::Paren(pp) => int_of_pat(&pp.pat),
        // Anything else (e.g. a negated literal, depending on how syn models it): re-parse as an expression.
        other => syn::parse2::<Expr>(other.to_token_stream())
            .ok()
            .and_then(|e| int_of_expr(&e)),
    }
}

fn enum_trait_impl(
    imp: &ItemImpl,
    trait_path: &Path,
    self_name: Option<&str>,
    enums: &mut [EnumRec],
) -> Res<()> {
    let trait_name = last_ident(trait_path).unwrap_or_default();
    let trait_args = last_segment_type_args(trait_path);
    let trait_arg_name = trait_args.first().and_then(|t| type_last_ident(t));

    fn latest<'a>(enums: &'a mut [EnumRec], name: Option<&str>) -> Option<&'a mut EnumRec> {
        let name = name?;
        enums.iter_mut().rev().find(|e| e.name == name)
    }

    // impls whose Self type is an enum
    if let Some(en) = latest(enums, self_name) {
        let ename = en.name.clone();
        match trait_name.as_str() {
            "Default" => {
                let f = impl_fns(imp)
                    .next()
                    .ok_or_else(|| format!("enum `{ename}`: `impl Default` has no function"))?;
                let tail = tail_expr(&f.block)
                    .ok_or_else(|| format!("enum `{ename}`: `fn default` has no tail expression"))?;
                let v = variant_of_expr(tail).ok_or_else(|| {
                    format!("enum `{ename}`: `fn default` body is not `Self::Variant`: `{}`", show(tail))
                })?;
                en.default = Some(v);
                return Ok(());
            }
            "From" => {
                let what = format!("enum `{ename}`: `impl From<{}>`", en.repr);
                let m = conversion_match(imp, &what)?;
                let mut arms = Vec::new();
                let mut fallback: Option<String> = None;
                for arm in &m.arms {
                    if fallback.is_some() {
                        return Err(format!("{what}: arm after the fallback arm"));
                    }
                    if let Some(number) = int_of_pat(&arm.pat) {
                        let variant = variant_of_expr(&arm.body)
                            .ok_or_else(|| format!("{what}: arm body is not `Self::Variant`: `{}`", show(&arm.body)))?;
                        arms.push(json!({"number": number, "variant": variant, "cfg": cfg_of(&arm.attrs)}));
                    } else if matches!(&arm.pat, Pat::Wild(_)) {
                        fallback = Some("default".into());
                    } else if pat_ident_name(&arm.pat).is_some() {
                        let variant = variant_of_expr(&arm.body).ok_or_else(|| {
                            format!("{what}: fallback arm body is not `Self::Variant(val)`: `{}`", show(&arm.body))
                        })?;
                        fallback = Some(format!("catch_all:{variant}"));
                    } else {
                        return Err(format!("{what}: unexpected arm pattern `{}`", show(&arm.pat)));
                    }
                }
                let fallback = fallback.ok_or_else(|| format!("{what}: no fallback arm"))?;
                en.from = Some(json!({"arms": arms, "fallback": fallback}));
                return Ok(());
            }
            "TryFrom" => {
                let what = format!("enum `{ename}`: `impl TryFrom<{}>`", en.repr);
                let m = conversion_match(imp, &what)?;
                let mut arms = Vec::new();
                let mut target: Option<String> = None;
                for arm in &m.arms {
                    if target.is_some() {
                        return Err(format!("{what}: arm after the fallback arm"));
                    }
                    if let Some(number) = int_of_pat(&arm.pat) {
                        let variant = variant_of_expr(&arm.body).ok_or_else(|| {
                            format!("{what}: arm body is not `Ok(Self::Variant)`: `{}`", show(&arm.body))
                        })?;
                        arms.push(json!({"number": number, "variant": variant, "cfg": cfg_of(&arm.attrs)}));
                    } else {
                        target = Some(
                            conversion_error_target(&arm.body)
                                .ok_or_else(|| format!("{what}: fallback arm has no `target: \"…\"`: `{}`", show(&arm.body)))?,
                        );
                    }
                }
                let target = target.ok_or_else(|| format!("{what}: no fallback arm"))?;
                en.try_from = Some(json!({"arms": arms, "target": target}));
                return Ok(());
            }
            _ => {
                return Err(format!("enum `{ename}`: unexpected trait impl `{}`", show(trait_path)));
            }
        }
    }

    // `impl From<Enum> for repr`
    if trait_name == "From" {
        if let Some(en) = latest(enums, trait_arg_name.as_deref()) {
            let what = format!("enum `{}`: `impl From<{}> for {}`", en.name, en.name, en.repr);
            let m = conversion_match(imp, &what)?;
            let mut into = Vec::new();
            for arm in &m.arms {
                let (variant, number) = match &arm.pat {
                    Pat::Path(p) => (
                        last_ident(&p.path),
                        Value::String(need_int(&arm.body, &format!("{what}: arm value"))?),
                    ),
                    Pat::TupleStruct(ts) => (last_ident(&ts.path), Value::Null),
                    // A single-segment path pattern parses as an identifier pattern; the emitter never does that.
                    other => return Err(format!("{what}: unexpected arm pattern `{}`", show(other))),
                };
                let variant = variant.ok_or_else(|| format!("{what}: empty variant path"))?;
                into.push(json!({"variant": variant, "number": number, "cfg": cfg_of(&arm.attrs)}));
            }
            en.into = Some(into);
            return Ok(());
        }
    }

    Err(format!(
        "top level trait impl that belongs to no generated enum: `impl {} for {}`",
        show(trait_path),
        show(&imp.self_ty)
    ))
}

/// `Err(::device_driver::ConversionError { source: val, target: "Name" })` → `Name`
fn conversion_error_target(e: &Expr) -> Option<String> {
    struct V {
        out: Option<String>,
    }
    impl<'ast> Visit<'ast> for V {
        fn visit_expr_struct(&mut self, s: &'ast syn::ExprStruct) {
            if self.out.is_none() {
                for fv in &s.fields {
                    if matches!(&fv.member, syn::Member::Named(id) if id == "target") {
                        self.out = str_of_expr(&fv.expr);
                    }
                }
            }
            syn::visit::visit_expr_struct(self, s);
        }
    }
    let mut v = V { out: None };
    v.visit_expr(e);
    v.out
}
