//! Generic parser for the output of derived `Debug` (`{:?}`, and tolerant of `{:#?}`), producing the
//! canonical JSON of GEN_PROTOCOL.md §2.2.
//!
//! Purely syntactic mapping:
//!
//! | Debug text                    | JSON                                                   |
//! |-------------------------------|--------------------------------------------------------|
//! | `Name { a: x, b: y }`         | `{"$": "Name", "a": X, "b": Y}`                        |
//! | `Name(x, y)` (tuple variant / tuple struct) | `{"$": "Name", "0": X, "1": Y}`          |
//! | `Name` (unit variant / unit struct)         | `"Name"`                                 |
//! | `Some(x)` / `None`            | `X` / `null`                                           |
//! | `true` / `false`              | `true` / `false`                                       |
//! | `[x, y]`, `(x, y)`, `{x, y}`  | `[X, Y]`                                               |
//! | `{k: v, …}` (map)             | `[[K, V], …]`                                          |
//! | `-12`, `3.5`                  | `"-12"`, `"3.5"` (decimal strings)                     |
//! | `a..b`, `a..=b`               | `{"start": "a", "end": "b"}` (+ `"inclusive": true`)   |
//! | `"text\n"`, `'c'`             | `"text\n"`, `"c"` (escapes decoded)                    |
//!
//! A text that does not parse yields `{"$parse_error": "...", "at": offset, "raw": text}` instead of
//! a panic.
use serde_json::{Map, Value, json};

struct P<'a> {
    s: &'a [u8],
    src: &'a str,
    i: usize,
    depth: usize,
}

type R<T> = Result<T, String>;

const MAX_DEPTH: usize = 2000;

impl<'a> P<'a> {
    fn ws(&mut self) {
        while self.i < self.s.len() && (self.s[self.i] as char).is_ascii_whitespace() {
            self.i += 1;
        }
    }

    fn peek(&self) -> Option<u8> {
        self.s.get(self.i).copied()
    }

    fn starts(&self, t: &str) -> bool {
        self.s[self.i..].starts_with(t.as_bytes())
    }

    fn eat(&mut self, t: &str) -> bool {
        if self.starts(t) {
            self.i += t.len();
            true
        } else {
            false
        }
    }

    fn expect(&mut self, t: &str) -> R<()> {
        self.ws();
        if self.eat(t) { Ok(()) } else { Err(format!("expected `{t}`")) }
    }

    fn value(&mut self) -> R<Value> {
        self.depth += 1;
        if self.depth > MAX_DEPTH {
            return Err("nesting too deep".into());
        }
        let r = self.value_inner();
        self.depth -= 1;
        r
    }

    fn value_inner(&mut self) -> R<Value> {
        self.ws();
        let Some(c) = self.peek() else {
            return Err("unexpected end of input".into());
        };
        let v = match c {
            b'"' => Value::String(self.string()?),
            b'\'' => Value::String(self.char_lit()?),
            b'[' => {
                self.i += 1;
                Value::Array(self.seq("]")?)
            }
            b'(' => {
                self.i += 1;
                Value::Array(self.seq(")")?)
            }
            b'{' => {
                self.i += 1;
                self.set_or_map()?
            }
            b'-' | b'0'..=b'9' => self.number()?,
            b'.' if self.starts("..") => {
                // `..b` / `..=b` / `..`
                return self.range_tail(Value::Null);
            }
            c if c == b'_' || (c as char).is_ascii_alphabetic() || c >= 0x80 => self.named()?,
            other => return Err(format!("unexpected character `{}`", other as char)),
        };
        // A range can follow any scalar.
        let save = self.i;
        self.ws();
        if self.starts("..") && !self.starts("...") {
            return self.range_tail(v);
        }
        self.i = save;
        Ok(v)
    }

    fn range_tail(&mut self, start: Value) -> R<Value> {
        self.expect("..")?;
        let inclusive = self.eat("=");
        self.ws();
        let end = match self.peek() {
            Some(c) if c == b'-' || c.is_ascii_digit() => self.number()?,
            Some(c) if c == b'"' || c == b'\'' || c == b'_' || (c as char).is_ascii_alphabetic() => self.value()?,
            _ => Value::Null,
        };
        let mut m = Map::new();
        m.insert("start".into(), start);
        m.insert("end".into(), end);
        if inclusive {
            m.insert("inclusive".into(), Value::Bool(true));
        }
        Ok(Value::Object(m))
    }

    /// Comma-separated values up to `close` (trailing comma allowed).
    fn seq(&mut self, close: &str) -> R<Vec<Value>> {
        let mut out = Vec::new();
        loop {
            self.ws();
            if self.eat(close) {
                return Ok(out);
            }
            out.push(self.value()?);
            self.ws();
            if self.eat(",") {
                continue;
            }
            self.expect(close)?;
            return Ok(out);
        }
    }

    /// After `{`: a set `{a, b}` → array, or a map `{k: v}` → array of pairs.
    fn set_or_map(&mut self) -> R<Value> {
        let mut out = Vec::new();
        loop {
            self.ws();
            if self.eat("}") {
                return Ok(Value::Array(out));
            }
            let k = self.value()?;
            self.ws();
            if self.starts(":") && !self.starts("::") {
                self.i += 1;
                let v = self.value()?;
                out.push(Value::Array(vec![k, v]));
            } else {
                out.push(k);
            }
            self.ws();
            if self.eat(",") {
                continue;
            }
            self.expect("}")?;
            return Ok(Value::Array(out));
        }
    }

    fn number(&mut self) -> R<Value> {
        let start = self.i;
        if self.peek() == Some(b'-') {
            self.i += 1;
        }
        let digits = self.i;
        while matches!(self.peek(), Some(c) if c.is_ascii_alphanumeric() || c == b'_') {
            // alphanumerics cover hex (`0x1f`), exponents and type suffixes
            self.i += 1;
        }
        if self.i == digits {
            return Err("expected digits".into());
        }
        // A fraction only if `.` is followed by a digit (so `0..4` stays a range).
        if self.peek() == Some(b'.') && matches!(self.s.get(self.i + 1), Some(c) if c.is_ascii_digit()) {
            self.i += 1;
            while matches!(self.peek(), Some(c) if c.is_ascii_alphanumeric() || c == b'_' ) {
                self.i += 1;
            }
            // exponent sign, e.g. `1.5e-7`
            if matches!(self.s.get(self.i - 1), Some(b'e' | b'E')) && matches!(self.peek(), Some(b'-' | b'+')) {
                self.i += 1;
                while matches!(self.peek(), Some(c) if c.is_ascii_digit()) {
                    self.i += 1;
                }
            }
        }
        Ok(Value::String(self.src[start..self.i].to_string()))
    }

    fn ident_path(&mut self) -> String {
        let start = self.i;
        loop {
            while matches!(self.peek(), Some(c) if c == b'_' || c.is_ascii_alphanumeric() || c >= 0x80) {
                self.i += 1;
            }
            if self.starts("::") {
                self.i += 2;
                continue;
            }
            break;
        }
        self.src[start..self.i].to_string()
    }

    fn named(&mut self) -> R<Value> {
        let name = self.ident_path();
        if name.is_empty() {
            return Err("expected identifier".into());
        }
        let save = self.i;
        self.ws();
        match self.peek() {
            Some(b'{') => {
                self.i += 1;
                let mut m = Map::new();
                m.insert("$".into(), Value::String(name));
                loop {
                    self.ws();
                    if self.eat("}") {
                        break;
                    }
                    if self.eat("..") {
                        // `finish_non_exhaustive`
                        self.ws();
                        self.expect("}")?;
                        break;
                    }
                    let field = self.ident_path();
                    if field.is_empty() {
                        return Err("expected field name".into());
                    }
                    self.expect(":")?;
                    let v = self.value()?;
                    m.insert(field, v);
                    self.ws();
                    if self.eat(",") {
                        continue;
                    }
                    self.expect("}")?;
                    break;
                }
                Ok(Value::Object(m))
            }
            Some(b'(') => {
                self.i += 1;
                let items = self.seq(")")?;
                if name == "Some" && items.len() == 1 {
                    return Ok(items.into_iter().next().unwrap_or(Value::Null));
                }
                let mut m = Map::new();
                m.insert("$".into(), Value::String(name));
                for (i, v) in items.into_iter().enumerate() {
                    m.insert(i.to_string(), v);
                }
                Ok(Value::Object(m))
            }
            _ => {
                self.i = save;
                Ok(match name.as_str() {
                    "None" => Value::Null,
                    "true" => Value::Bool(true),
                    "false" => Value::Bool(false),
                    _ => Value::String(name),
                })
            }
        }
    }

    fn escape(&mut self) -> R<char> {
        // positioned after the backslash
        let Some(c) = self.peek() else { return Err("unterminated escape".into()) };
        self.i += 1;
        Ok(match c {
            b'n' => '\n',
            b'r' => '\r',
            b't' => '\t',
            b'0' => '\0',
            b'\\' => '\\',
            b'"' => '"',
            b'\'' => '\'',
            b'x' => {
                let hex = self.src.get(self.i..self.i + 2).ok_or("bad \\x escape")?;
                let n = u8::from_str_radix(hex, 16).map_err(|_| "bad \\x escape")?;
                self.i += 2;
                n as char
            }
            b'u' => {
                self.expect("{")?;
                let start = self.i;
                while matches!(self.peek(), Some(c) if c != b'}') {
                    self.i += 1;
                }
                let hex = &self.src[start..self.i];
                self.expect("}")?;
                let n = u32::from_str_radix(hex, 16).map_err(|_| "bad \\u escape")?;
                char::from_u32(n).ok_or("bad \\u code point")?
            }
            other => return Err(format!("unknown escape `\\{}`", other as char)),
        })
    }

    fn string(&mut self) -> R<String> {
        self.i += 1; // opening quote
        let mut out = String::new();
        loop {
            let rest = &self.src[self.i..];
            let Some(c) = rest.chars().next() else { return Err("unterminated string".into()) };
            self.i += c.len_utf8();
            match c {
                '"' => return Ok(out),
                '\\' => out.push(self.escape()?),
                c => out.push(c),
            }
        }
    }

    fn char_lit(&mut self) -> R<String> {
        self.i += 1;
        let rest = &self.src[self.i..];
        let Some(c) = rest.chars().next() else { return Err("unterminated char".into()) };
        self.i += c.len_utf8();
        let ch = if c == '\\' { self.escape()? } else { c };
        if !self.eat("'") {
            return Err("expected closing `'`".into());
        }
        Ok(ch.to_string())
    }
}

/// Parse a `Debug` rendering into canonical JSON (never panics).
pub fn debug_to_json(debug: &str) -> Value {
    let mut p = P { s: debug.as_bytes(), src: debug, i: 0, depth: 0 };
    let r = p.value().and_then(|v| {
        p.ws();
        if p.i == p.s.len() { Ok(v) } else { Err("trailing input".to_string()) }
    });
    match r {
        Ok(v) => v,
        Err(e) => json!({"$parse_error": e, "at": p.i, "raw": debug}),
    }
}

#[cfg(test)]
mod tests {
    use super::*;

    #[derive(Debug)]
    #[allow(dead_code)]
    enum E {
        Unit,
        Tuple(i128, Option<String>),
        Struct { r: std::ops::Range<u32>, v: Vec<u8>, s: String, b: bool, n: Option<u8> },
        Wrap(Inner),
    }
    #[derive(Debug)]
    #[allow(dead_code)]
    struct Inner {
        name: String,
        e: Box<E>,
    }

    #[test]
    fn roundtrip_shapes() {
        let x = E::Struct { r: 0..4, v: vec![1, 2], s: "a\"b\\\n\u{7f}é".into(), b: true, n: None };
        let j = debug_to_json(&format!("{x:?}"));
        assert_eq!(
            j,
            json!({"$":"Struct","r":{"start":"0","end":"4"},"v":["1","2"],"s":"a\"b\\\n\u{7f}é","b":true,"n":null})
        );
        assert_eq!(j, debug_to_json(&format!("{x:#?}")));
        let y = E::Wrap(Inner { name: "n".into(), e: Box::new(E::Tuple(-5, Some("q".into()))) });
        assert_eq!(
            debug_to_json(&format!("{y:?}")),
            json!({"$":"Wrap","0":{"$":"Inner","name":"n","e":{"$":"Tuple","0":"-5","1":"q"}}})
        );
        assert_eq!(debug_to_json(&format!("{:?}", E::Unit)), json!("Unit"));
        assert!(debug_to_json("Foo { a: ").get("$parse_error").is_some());
    }
}
