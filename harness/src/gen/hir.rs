//! The DSL tree (`dsl_hir::Device`) the real `syn` grammar of `generation/src/dsl_hir/mod.rs` builds from a DSL
//! text, dumped as JSON for the Lean model of `dsl_hir/mir_transform.rs` (`DDV.Gen.DslHir`). The walk is over the
//! generator's own typed tree (public only under the `verif-hooks` feature of the generation crate), so the
//! lowering HIR -> MIR is inside the modelled part and only the grammar (text -> HIR) stays outside.
//!
//! Encoding (see DDV/Driver/Gen.lean `parseHir`): an integer literal is its `base10_digits()` string (sign
//! included, radix and `_` already removed by syn, suffix dropped as `base10_parse` ignores it); a path is its
//! printed token stream (whitespace as printed - the lowering removes it); attributes keep their order.
use device_driver_generation::dsl_hir as h;
use quote::ToTokens;
use serde_json::{json, Value};

pub fn dump(text: &str) -> Value {
    let tokens: proc_macro2::TokenStream = match text.parse() {
        Ok(t) => t,
        Err(e) => return json!({"$parse_error": format!("lex: {e}")}),
    };
    match syn::parse2::<h::Device>(tokens) {
        Ok(d) => device(&d),
        Err(e) => json!({"$parse_error": e.to_string()}),
    }
}

fn lit(l: &syn::LitInt) -> Value {
    Value::String(l.base10_digits().to_string())
}

fn access(a: &h::Access) -> Value {
    Value::String(
        match a {
            h::Access::RW => "RW",
            h::Access::RO => "RO",
            h::Access::WO => "WO",
        }
        .into(),
    )
}

fn byte_order(b: &h::ByteOrder) -> Value {
    Value::String(
        match b {
            h::ByteOrder::LE => "LE",
            h::ByteOrder::BE => "BE",
        }
        .into(),
    )
}

fn bit_order(b: &h::BitOrder) -> Value {
    Value::String(
        match b {
            h::BitOrder::LSB0 => "LSB0",
            h::BitOrder::MSB0 => "MSB0",
        }
        .into(),
    )
}

fn device(d: &h::Device) -> Value {
    json!({
        "configs": d.global_config_list.configs.iter().map(config).collect::<Vec<_>>(),
        "objects": d.object_list.objects.iter().map(object).collect::<Vec<_>>(),
    })
}

fn config(c: &h::GlobalConfig) -> Value {
    use h::GlobalConfig as G;
    match c {
        G::DefaultRegisterAccess(a) => json!({"k": "DefaultRegisterAccess", "v": access(a)}),
        G::DefaultFieldAccess(a) => json!({"k": "DefaultFieldAccess", "v": access(a)}),
        G::DefaultBufferAccess(a) => json!({"k": "DefaultBufferAccess", "v": access(a)}),
        G::DefaultByteOrder(b) => json!({"k": "DefaultByteOrder", "v": byte_order(b)}),
        G::DefaultBitOrder(b) => json!({"k": "DefaultBitOrder", "v": bit_order(b)}),
        G::RegisterAddressType(i) => json!({"k": "RegisterAddressType", "v": i.to_string()}),
        G::CommandAddressType(i) => json!({"k": "CommandAddressType", "v": i.to_string()}),
        G::BufferAddressType(i) => json!({"k": "BufferAddressType", "v": i.to_string()}),
        G::NameWordBoundaries(bs) => {
            json!({"k": "NameWordBoundaries", "v": bs.iter().map(|b| format!("{b:?}")).collect::<Vec<_>>()})
        }
        G::DefmtFeature(s) => json!({"k": "DefmtFeature", "v": s.value()}),
    }
}

fn attrs(a: &h::AttributeList) -> Value {
    Value::Array(
        a.attributes
            .iter()
            .map(|a| match a {
                h::Attribute::Doc(s) => json!({"doc": s}),
                h::Attribute::Cfg(s, _) => json!({"cfg": s}),
            })
            .collect(),
    )
}

fn repeat(r: &h::Repeat) -> Value {
    json!({"k": "Repeat", "count": lit(&r.count), "stride": lit(&r.stride)})
}

fn object(o: &h::Object) -> Value {
    match o {
        h::Object::Block(b) => json!({
            "k": "block", "attrs": attrs(&b.attribute_list), "name": b.identifier.to_string(),
            "items": b.block_item_list.block_items.iter().map(|i| match i {
                h::BlockItem::AddressOffset(l) => json!({"k": "AddressOffset", "v": lit(l)}),
                h::BlockItem::Repeat(r) => repeat(r),
            }).collect::<Vec<_>>(),
            "objects": b.object_list.objects.iter().map(object).collect::<Vec<_>>(),
        }),
        h::Object::Register(r) => json!({
            "k": "register", "attrs": attrs(&r.attribute_list), "name": r.identifier.to_string(),
            "items": r.register_item_list.register_items.iter().map(register_item).collect::<Vec<_>>(),
            "fields": r.field_list.fields.iter().map(field).collect::<Vec<_>>(),
        }),
        h::Object::Command(c) => json!({
            "k": "command", "attrs": attrs(&c.attribute_list), "name": c.identifier.to_string(),
            "value": match &c.value {
                None => Value::Null,
                Some(h::CommandValue::Basic(l)) => json!({"basic": lit(l)}),
                Some(h::CommandValue::Extended { command_item_list, in_field_list, out_field_list }) => json!({
                    "items": command_item_list.items.iter().map(command_item).collect::<Vec<_>>(),
                    "in": in_field_list.as_ref().map(|l| Value::Array(l.fields.iter().map(field).collect())).unwrap_or(Value::Null),
                    "out": out_field_list.as_ref().map(|l| Value::Array(l.fields.iter().map(field).collect())).unwrap_or(Value::Null),
                }),
            },
        }),
        h::Object::Buffer(b) => json!({
            "k": "buffer", "attrs": attrs(&b.attribute_list), "name": b.identifier.to_string(),
            "access": b.access.as_ref().map(access).unwrap_or(Value::Null),
            "address": b.address.as_ref().map(lit).unwrap_or(Value::Null),
        }),
        h::Object::Ref(r) => json!({
            "k": "ref", "attrs": attrs(&r.attribute_list), "name": r.identifier.to_string(),
            "object": object(&r.object),
        }),
    }
}

fn register_item(i: &h::RegisterItem) -> Value {
    use h::RegisterItem as R;
    match i {
        R::Access(a) => json!({"k": "Access", "v": access(a)}),
        R::ByteOrder(b) => json!({"k": "ByteOrder", "v": byte_order(b)}),
        R::BitOrder(b) => json!({"k": "BitOrder", "v": bit_order(b)}),
        R::Address(l) => json!({"k": "Address", "v": lit(l)}),
        R::SizeBits(l) => json!({"k": "SizeBits", "v": lit(l)}),
        R::ResetValueInt(l) => json!({"k": "ResetValueInt", "v": lit(l)}),
        R::ResetValueArray(a) => json!({"k": "ResetValueArray", "v": a}),
        R::Repeat(r) => repeat(r),
        R::AllowBitOverlap(b) => json!({"k": "AllowBitOverlap", "v": b.value}),
        R::AllowAddressOverlap(b) => json!({"k": "AllowAddressOverlap", "v": b.value}),
    }
}

fn command_item(i: &h::CommandItem) -> Value {
    use h::CommandItem as C;
    match i {
        C::ByteOrder(b) => json!({"k": "ByteOrder", "v": byte_order(b)}),
        C::BitOrder(b) => json!({"k": "BitOrder", "v": bit_order(b)}),
        C::Address(l) => json!({"k": "Address", "v": lit(l)}),
        C::SizeBitsIn(l) => json!({"k": "SizeBitsIn", "v": lit(l)}),
        C::SizeBitsOut(l) => json!({"k": "SizeBitsOut", "v": lit(l)}),
        C::Repeat(r) => repeat(r),
        C::AllowBitOverlap(b) => json!({"k": "AllowBitOverlap", "v": b.value}),
        C::AllowAddressOverlap(b) => json!({"k": "AllowAddressOverlap", "v": b.value}),
    }
}

fn field(f: &h::Field) -> Value {
    json!({
        "attrs": attrs(&f.attribute_list), "name": f.identifier.to_string(),
        "access": f.access.as_ref().map(access).unwrap_or(Value::Null),
        "base": match f.base_type { h::BaseType::Bool => "bool", h::BaseType::Uint => "uint", h::BaseType::Int => "int" },
        "conv": match &f.field_conversion {
            None => Value::Null,
            Some(h::FieldConversion::Direct { path, use_try }) => json!({"direct": path.to_token_stream().to_string(), "try": use_try}),
            Some(h::FieldConversion::Enum { identifier, enum_variant_list, use_try }) => json!({
                "enum": identifier.to_string(), "try": use_try,
                "variants": enum_variant_list.variants.iter().map(|v| json!({
                    "attrs": attrs(&v.attribute_list), "name": v.identifier.to_string(),
                    "value": match &v.enum_value {
                        None => Value::Null,
                        Some(h::EnumValue::Specified(l)) => json!({"int": lit(l)}),
                        Some(h::EnumValue::Default) => json!("default"),
                        Some(h::EnumValue::CatchAll) => json!("catch_all"),
                    },
                })).collect::<Vec<_>>(),
            }),
        },
        "addr": match &f.field_address {
            h::FieldAddress::Integer(l) => json!({"k": "Integer", "v": lit(l)}),
            h::FieldAddress::Range { start, end } => json!({"k": "Range", "start": lit(start), "end": lit(end)}),
            h::FieldAddress::RangeInclusive { start, end } => json!({"k": "RangeInclusive", "start": lit(start), "end": lit(end)}),
        },
    })
}
