//! The value tree a concrete manifest parser produces, dumped as tagged JSON for the Lean model of
//! `dd-manifest-tree` + `manifest/mod.rs` (`DDV.Gen.ManTree`). The dump walks the parser's own data
//! structure (`serde_json::Value`, `yaml_rust2::Yaml`, `toml::Value`) - not what `dd-manifest-tree`
//! says about it - so that crate's accessors are inside the modelled part.
//!
//! Encoding: `null`; `true` / `false`; a string; an array; `{"i": "123"}` an integer the parser holds
//! as an integer (JSON: `is_u64` or `is_i64`); `{"f": 1}` a float (JSON: also an integer outside
//! i64 ∪ u64); `{"m": [[key, value], …]}` a map in the parser's iteration order; `{"o": 1}` anything
//! else (TOML datetime, YAML alias / bad value); `{"$parse_error": msg}` when the text does not parse;
//! `{"$badkey": 1}` a YAML map with a key that is no string (the real reader panics on it).
use serde_json::{json, Value};

pub fn dump(syntax: &str, text: &str) -> Value {
    match syntax {
        "json" => match serde_json::from_str::<serde_json::Value>(text) {
            Ok(v) => dump_json(&v),
            Err(e) => json!({"$parse_error": e.to_string()}),
        },
        "yaml" => match yaml_rust2::YamlLoader::load_from_str(text) {
            Ok(mut docs) => {
                if docs.is_empty() {
                    json!({"$parse_error": "no document"})
                } else {
                    dump_yaml(&docs.remove(0))
                }
            }
            Err(e) => json!({"$parse_error": e.to_string()}),
        },
        "toml" => match toml::from_str::<toml::Value>(text) {
            Ok(v) => dump_toml(&v),
            Err(e) => json!({"$parse_error": e.to_string()}),
        },
        _ => Value::Null,
    }
}

fn dump_json(v: &serde_json::Value) -> Value {
    match v {
        serde_json::Value::Null => Value::Null,
        serde_json::Value::Bool(b) => Value::Bool(*b),
        serde_json::Value::Number(n) => {
            if let Some(u) = n.as_u64() {
                json!({"i": u.to_string()})
            } else if let Some(i) = n.as_i64() {
                json!({"i": i.to_string()})
            } else {
                json!({"f": 1})
            }
        }
        serde_json::Value::String(s) => Value::String(s.clone()),
        serde_json::Value::Array(a) => Value::Array(a.iter().map(dump_json).collect()),
        serde_json::Value::Object(o) => json!({"m": o.iter().map(|(k, v)| json!([k, dump_json(v)])).collect::<Vec<_>>()}),
    }
}

fn dump_yaml(v: &yaml_rust2::Yaml) -> Value {
    use yaml_rust2::Yaml;
    match v {
        Yaml::Real(_) => json!({"f": 1}),
        Yaml::Integer(i) => json!({"i": i.to_string()}),
        Yaml::String(s) => Value::String(s.clone()),
        Yaml::Boolean(b) => Value::Bool(*b),
        Yaml::Array(a) => Value::Array(a.iter().map(dump_yaml).collect()),
        Yaml::Hash(h) => {
            let mut out = Vec::new();
            for (k, v) in h.iter() {
                match k {
                    Yaml::String(s) => out.push(json!([s, dump_yaml(v)])),
                    _ => return json!({"$badkey": 1}),
                }
            }
            json!({"m": out})
        }
        Yaml::Null => Value::Null,
        Yaml::Alias(_) | Yaml::BadValue => json!({"o": 1}),
    }
}

fn dump_toml(v: &toml::Value) -> Value {
    match v {
        toml::Value::String(s) => Value::String(s.clone()),
        toml::Value::Integer(i) => json!({"i": i.to_string()}),
        toml::Value::Float(_) => json!({"f": 1}),
        toml::Value::Boolean(b) => Value::Bool(*b),
        toml::Value::Datetime(_) => json!({"o": 1}),
        toml::Value::Array(a) => Value::Array(a.iter().map(dump_toml).collect()),
        toml::Value::Table(t) => json!({"m": t.iter().map(|(k, v)| json!([k, dump_toml(v)])).collect::<Vec<_>>()}),
    }
}
