//! The `ddv-gen` runner (GEN_PROTOCOL.md): parent/worker process pair around the real
//! `device_driver_generation` crate.
//!
//! * `ddv-gen run <cases.jsonl> <out.jsonl>` — parent. Streams case lines one at a time to a
//!   `ddv-gen worker` child and reads one answer line back per case. A child that dies (stack
//!   overflow abort, OOM kill, …) yields `{"outcome":"abort"}` for the case in flight and a fresh
//!   worker for the next case; a child that exceeds `DDV_GEN_TIMEOUT_MS` (default 60000) is killed
//!   and yields `{"outcome":"timeout"}` (protocol extension). Workers run with an address-space
//!   cap of `DDV_GEN_MEM_MB` (default 4096, `0` = none); exceeding it is an allocation-failure
//!   abort, i.e. `{"outcome":"abort"}`.
//! * `ddv-gen worker` — child. Runs every case on the **main thread with the default stack**, so a
//!   real stack overflow aborts the process exactly as it would abort rustc's proc-macro server.
//! * `ddv-gen names <in.jsonl> <out.jsonl>` — add/overwrite `"names"` using the convert_case oracle.
//! * `ddv-gen render <syntax> < adef.json` — print the rendered source text (debug aid).
use std::cell::RefCell;
use std::io::{BufRead, BufReader, BufWriter, Read, Write};
use std::panic::{AssertUnwindSafe, catch_unwind};
use std::process::{Child, ChildStdin, Command, Stdio};
use std::str::FromStr;
use std::sync::mpsc::{Receiver, RecvTimeoutError, channel};
use std::time::Duration;

use proc_macro2::{Delimiter, TokenStream, TokenTree};
use serde_json::{Map, Value, json};

use super::classify::{StageHint, classify_error_staged, classify_front_kind, classify_panic};
use super::facts::extract_facts;
use super::mirdebug::debug_to_json;
use super::names::names_oracle;
use super::render::render;

// ---------------------------------------------------------------------------------------------
// Panic capture
// ---------------------------------------------------------------------------------------------

thread_local! {
    static LAST_PANIC: RefCell<Option<String>> = const { RefCell::new(None) };
}

/// Install a panic hook that is silent on stderr and remembers the message (thread-local).
pub fn install_panic_capture() {
    std::panic::set_hook(Box::new(|info| {
        let payload = info.payload();
        let msg = if let Some(s) = payload.downcast_ref::<&str>() {
            (*s).to_string()
        } else if let Some(s) = payload.downcast_ref::<String>() {
            s.clone()
        } else {
            "<non-string panic payload>".to_string()
        };
        LAST_PANIC.with(|c| *c.borrow_mut() = Some(msg));
    }));
}

/// Run `f`, converting a panic into `Err(message)`.
fn guarded<T>(f: impl FnOnce() -> T) -> Result<T, String> {
    LAST_PANIC.with(|c| *c.borrow_mut() = None);
    match catch_unwind(AssertUnwindSafe(f)) {
        Ok(v) => Ok(v),
        Err(payload) => {
            let from_hook = LAST_PANIC.with(|c| c.borrow_mut().take());
            Err(from_hook.unwrap_or_else(|| {
                if let Some(s) = payload.downcast_ref::<&str>() {
                    (*s).to_string()
                } else if let Some(s) = payload.downcast_ref::<String>() {
                    s.clone()
                } else {
                    "<non-string panic payload>".to_string()
                }
            }))
        }
    }
}

// ---------------------------------------------------------------------------------------------
// Calling the real crate
// ---------------------------------------------------------------------------------------------

/// Result of running only the front end (`_private_transform_*_mir`).
enum Front {
    /// Accepted; the `{:?}` text of the MIR if it was asked for.
    Ok(Option<String>),
    /// Rejected with this message (`syn::Error` display / `anyhow` `{:#}` chain).
    Err(String),
    Panic(String),
}

const LEX_FAILURE: &str = "lex error: cannot parse string into token stream";

fn run_front(syntax: &str, text: &str, want_debug: bool) -> Front {
    let r = guarded(|| -> Result<Option<String>, String> {
        match syntax {
            "dsl" => {
                let tokens = TokenStream::from_str(text).map_err(|_| LEX_FAILURE.to_string())?;
                match device_driver_generation::_private_transform_dsl_mir(tokens) {
                    Ok(mir) => Ok(want_debug.then(|| format!("{mir:?}"))),
                    Err(e) => Err(e.to_string()),
                }
            }
            "json" => match device_driver_generation::_private_transform_json_mir(text) {
                Ok(mir) => Ok(want_debug.then(|| format!("{mir:?}"))),
                Err(e) => Err(format!("{e:#}")),
            },
            "yaml" => match device_driver_generation::_private_transform_yaml_mir(text) {
                Ok(mir) => Ok(want_debug.then(|| format!("{mir:?}"))),
                Err(e) => Err(format!("{e:#}")),
            },
            "toml" => match device_driver_generation::_private_transform_toml_mir(text) {
                Ok(mir) => Ok(want_debug.then(|| format!("{mir:?}"))),
                Err(e) => Err(format!("{e:#}")),
            },
            other => Err(format!("unknown syntax {other:?}")),
        }
    });
    match r {
        Ok(Ok(d)) => Front::Ok(d),
        Ok(Err(m)) => Front::Err(m),
        Err(p) => Front::Panic(p),
    }
}

/// What the public entry point (`transform_dsl` / `transform_json` / …) did.
enum Outcome {
    Tokens(TokenStream),
    /// The DSL text does not even lex into a token stream (the user would get a rustc syntax error).
    LexFailure,
    Panic(String),
}

fn run_transform(syntax: &str, text: &str, device_name: &str) -> Outcome {
    let r = guarded(|| -> Option<TokenStream> {
        match syntax {
            "dsl" => {
                let tokens = TokenStream::from_str(text).ok()?;
                Some(device_driver_generation::transform_dsl(tokens, device_name))
            }
            "json" => Some(device_driver_generation::transform_json(text, device_name)),
            "yaml" => Some(device_driver_generation::transform_yaml(text, device_name)),
            _ => Some(device_driver_generation::transform_toml(text, device_name)),
        }
    });
    match r {
        Ok(Some(ts)) => Outcome::Tokens(ts),
        Ok(None) => Outcome::LexFailure,
        Err(p) => Outcome::Panic(p),
    }
}

/// If `ts` consists of nothing but `::core::compile_error! { "msg" }` invocations (the rendering of
/// `syn::Error::into_compile_error`, one invocation per combined error), return the messages.
pub fn compile_error_messages(ts: &TokenStream) -> Option<Vec<String>> {
    let toks: Vec<TokenTree> = ts.clone().into_iter().collect();
    let mut i = 0;
    let mut msgs = Vec::new();
    let is_punct = |t: Option<&TokenTree>, c: char| matches!(t, Some(TokenTree::Punct(p)) if p.as_char() == c);
    let is_ident = |t: Option<&TokenTree>, names: &[&str]| matches!(t, Some(TokenTree::Ident(id)) if names.iter().any(|n| id == n));
    while i < toks.len() {
        // optional leading `::`
        if is_punct(toks.get(i), ':') && is_punct(toks.get(i + 1), ':') {
            i += 2;
        }
        // optional `core ::` / `std ::`
        if is_ident(toks.get(i), &["core", "std"]) && is_punct(toks.get(i + 1), ':') && is_punct(toks.get(i + 2), ':') {
            i += 3;
        }
        if !is_ident(toks.get(i), &["compile_error"]) || !is_punct(toks.get(i + 1), '!') {
            return None;
        }
        i += 2;
        let Some(TokenTree::Group(g)) = toks.get(i) else { return None };
        if g.delimiter() == Delimiter::None {
            return None;
        }
        let lit: syn::LitStr = syn::parse2(g.stream()).ok()?;
        msgs.push(lit.value());
        i += 1;
        if is_punct(toks.get(i), ';') {
            i += 1;
        }
    }
    if msgs.is_empty() { None } else { Some(msgs) }
}

fn with_outcome(outcome: &str, rest: Value) -> Value {
    let mut m = Map::new();
    m.insert("outcome".into(), Value::String(outcome.into()));
    if let Value::Object(o) = rest {
        for (k, v) in o {
            if k != "outcome" {
                m.insert(k, v);
            }
        }
    }
    Value::Object(m)
}

fn harness_error(id: &Value, message: String) -> Value {
    json!({"id": id, "facts": {"outcome": "harness_error", "message": message}})
}

/// Process one case line and produce the answer object.
pub fn process_case_line(line: &str) -> Value {
    let case: Value = match serde_json::from_str(line) {
        Ok(v) => v,
        Err(e) => return harness_error(&Value::Null, format!("case line is not JSON: {e}")),
    };
    let id = case.get("id").cloned().unwrap_or(Value::Null);
    let Some(syntax) = case.get("syntax").and_then(Value::as_str) else {
        return harness_error(&id, "case has no string \"syntax\"".into());
    };
    if !matches!(syntax, "dsl" | "json" | "yaml" | "toml") {
        return harness_error(&id, format!("unknown syntax {syntax:?}"));
    }
    let device_name = case.get("device_name").and_then(Value::as_str).unwrap_or("Device");
    let Some(adef) = case.get("adef") else {
        return harness_error(&id, "case has no \"adef\"".into());
    };
    let want_mir = case.get("want_mir").and_then(Value::as_bool).unwrap_or(false);
    let want_tokens = case.get("want_tokens").and_then(Value::as_bool).unwrap_or(false);
    let want_source = case.get("want_source").and_then(Value::as_bool).unwrap_or(false);

    // (a) render
    let text = match guarded(|| render(adef, syntax)) {
        Ok(Ok(t)) => t,
        Ok(Err(e)) => return harness_error(&id, format!("render: {e}")),
        Err(p) => return harness_error(&id, format!("render panicked: {p}")),
    };

    // (b) the real pipeline
    let outcome = run_transform(syntax, &text, device_name);

    // (d) the front end alone: needed for "mir", and to know the stage of an error for certain.
    let mut front: Option<Front> = None;
    if want_mir {
        front = Some(run_front(syntax, &text, true));
    }

    // (c) the outcome
    let mut tokens_text: Option<String> = None;
    let facts = match &outcome {
        Outcome::Panic(msg) => json!({"outcome": "panic", "site": classify_panic(msg)}),
        Outcome::LexFailure => with_outcome("error", classify_error_staged(LEX_FAILURE, StageHint::Front)),
        Outcome::Tokens(ts) => {
            if want_tokens {
                tokens_text = Some(ts.to_string());
            }
            match compile_error_messages(ts) {
                Some(msgs) => {
                    if front.is_none() {
                        front = Some(run_front(syntax, &text, false));
                    }
                    let hint = match front.as_ref() {
                        Some(Front::Err(_)) => StageHint::Front,
                        Some(Front::Ok(_)) => StageHint::Back,
                        _ => StageHint::Unknown,
                    };
                    let mut f = with_outcome("error", classify_error_staged(&msgs[0], hint));
                    // the text itself, for the comparison that is used when a message is not one the classifier knows
                    if let Value::Object(o) = &mut f {
                        o.insert("message".into(), Value::String(msgs[0].clone()));
                    }
                    f
                }
                None => match guarded(|| extract_facts(ts)) {
                    Ok(Ok(f)) => with_outcome("ok", f),
                    // accepted, but the token stream is not a syntactically valid Rust file (e.g. a keyword used as an identifier)
                    Ok(Err(e)) if e.contains("does not parse as a syn::File") => json!({"outcome": "unparsable", "message": e}),
                    Ok(Err(e)) => json!({"outcome": "harness_error", "message": format!("extract_facts: {e}")}),
                    Err(p) => json!({"outcome": "harness_error", "message": format!("extract_facts panicked: {p}")}),
                },
            }
        }
    };

    let mut answer = Map::new();
    answer.insert("id".into(), id);
    answer.insert("facts".into(), facts);
    if want_mir {
        let mir = match front {
            Some(Front::Ok(Some(debug))) => debug_to_json(&debug),
            Some(Front::Ok(None)) => Value::Null,
            Some(Front::Err(msg)) => json!({"$err": classify_front_kind(&msg)}),
            Some(Front::Panic(msg)) => json!({"$panic": classify_panic(&msg)}),
            None => Value::Null,
        };
        answer.insert("mir".into(), mir);
    }
    if want_tokens {
        answer.insert("tokens".into(), tokens_text.map(Value::String).unwrap_or(Value::Null));
    }
    if want_source {
        answer.insert("source".into(), Value::String(text));
    }
    // Debug aid: the raw message behind an error / panic classification.
    if case.get("want_message").and_then(Value::as_bool).unwrap_or(false) {
        let msg = match &outcome {
            Outcome::Panic(m) => Some(m.clone()),
            Outcome::LexFailure => Some(LEX_FAILURE.to_string()),
            Outcome::Tokens(ts) => compile_error_messages(ts).map(|m| m.join("\n")),
        };
        answer.insert("message".into(), msg.map(Value::String).unwrap_or(Value::Null));
    }
    Value::Object(answer)
}

// ---------------------------------------------------------------------------------------------
// Worker
// ---------------------------------------------------------------------------------------------

/// Cap the worker's address space (`DDV_GEN_MEM_MB`, default 4096, `0` = no cap) so that a case
/// that allocates without bound (e.g. `repeat.count = 4e9` in the LIR address pass) dies quickly
/// with an allocation-failure abort instead of taking the machine down. The stack is not affected:
/// the main thread keeps the default 8 MiB, so genuine stack overflows still abort as for users.
#[cfg(target_os = "linux")]
fn cap_memory() {
    #[repr(C)]
    struct RLimit {
        cur: u64,
        max: u64,
    }
    unsafe extern "C" {
        fn setrlimit(resource: i32, rlim: *const RLimit) -> i32;
    }
    const RLIMIT_AS: i32 = 9;
    let mb: u64 = std::env::var("DDV_GEN_MEM_MB").ok().and_then(|s| s.parse().ok()).unwrap_or(4096);
    if mb == 0 {
        return;
    }
    let bytes = mb.saturating_mul(1024 * 1024);
    let lim = RLimit { cur: bytes, max: bytes };
    // SAFETY: `setrlimit(2)` with a pointer to a properly initialised `struct rlimit`
    // (two `rlim_t` = `u64` on 64-bit Linux); the call does not retain the pointer.
    let _ = unsafe { setrlimit(RLIMIT_AS, &lim) };
}

#[cfg(not(target_os = "linux"))]
fn cap_memory() {}

fn worker_main() -> i32 {
    install_panic_capture();
    cap_memory();
    let stdin = std::io::stdin();
    let stdout = std::io::stdout();
    let mut line = String::new();
    loop {
        line.clear();
        match stdin.lock().read_line(&mut line) {
            Ok(0) => return 0,
            Ok(_) => {}
            Err(_) => return 1,
        }
        let trimmed = line.trim();
        if trimmed.is_empty() {
            continue;
        }
        let answer = process_case_line(trimmed);
        let mut out = stdout.lock();
        if writeln!(out, "{answer}").is_err() || out.flush().is_err() {
            return 1;
        }
    }
}

// ---------------------------------------------------------------------------------------------
// Parent
// ---------------------------------------------------------------------------------------------

struct Worker {
    child: Child,
    stdin: ChildStdin,
    rx: Receiver<String>,
}

fn spawn_worker() -> Result<Worker, String> {
    let exe = std::env::current_exe().map_err(|e| format!("current_exe: {e}"))?;
    let stderr = if std::env::var_os("DDV_GEN_STDERR").is_some() { Stdio::inherit() } else { Stdio::null() };
    let mut child = Command::new(exe)
        .arg("worker")
        .stdin(Stdio::piped())
        .stdout(Stdio::piped())
        .stderr(stderr)
        .spawn()
        .map_err(|e| format!("spawn worker: {e}"))?;
    let stdin = child.stdin.take().ok_or("worker has no stdin")?;
    let stdout = child.stdout.take().ok_or("worker has no stdout")?;
    let (tx, rx) = channel();
    std::thread::spawn(move || {
        let reader = BufReader::new(stdout);
        for line in reader.lines() {
            match line {
                Ok(l) => {
                    if tx.send(l).is_err() {
                        break;
                    }
                }
                Err(_) => break,
            }
        }
    });
    Ok(Worker { child, stdin, rx })
}

fn retire(mut w: Worker) {
    let _ = w.child.kill();
    let _ = w.child.wait();
}

enum Exchange {
    Answer(String),
    Died,
    TimedOut,
    /// The line could not even be handed to the worker (it was already dead).
    NotDelivered,
}

fn exchange(w: &mut Worker, line: &str, timeout: Duration) -> Exchange {
    if w.stdin.write_all(line.as_bytes()).is_err()
        || w.stdin.write_all(b"\n").is_err()
        || w.stdin.flush().is_err()
    {
        return Exchange::NotDelivered;
    }
    match w.rx.recv_timeout(timeout) {
        Ok(l) => Exchange::Answer(l),
        Err(RecvTimeoutError::Timeout) => Exchange::TimedOut,
        Err(RecvTimeoutError::Disconnected) => Exchange::Died,
    }
}

fn run_main(cases_path: &str, out_path: &str) -> Result<(), String> {
    let input = std::fs::File::open(cases_path).map_err(|e| format!("open {cases_path}: {e}"))?;
    let output = std::fs::File::create(out_path).map_err(|e| format!("create {out_path}: {e}"))?;
    let mut out = BufWriter::new(output);
    let timeout = Duration::from_millis(
        std::env::var("DDV_GEN_TIMEOUT_MS").ok().and_then(|s| s.parse().ok()).unwrap_or(60_000),
    );

    let mut worker: Option<Worker> = None;
    let mut counts: std::collections::BTreeMap<String, u64> = Default::default();
    let mut restarts = 0u64;

    for line in BufReader::new(input).lines() {
        let line = line.map_err(|e| format!("read {cases_path}: {e}"))?;
        let line = line.trim();
        if line.is_empty() {
            continue;
        }
        let id = serde_json::from_str::<Value>(line)
            .ok()
            .and_then(|v| v.get("id").cloned())
            .unwrap_or(Value::Null);

        let mut attempts = 0;
        let answer: Value = loop {
            attempts += 1;
            if worker.is_none() {
                worker = Some(spawn_worker()?);
            }
            let Some(w) = worker.as_mut() else { return Err("no worker".into()) };
            match exchange(w, line, timeout) {
                Exchange::Answer(l) => match serde_json::from_str::<Value>(&l) {
                    Ok(v) if v.get("facts").is_some() => break v,
                    _ => break harness_error(&id, format!("worker answered with a non-answer line: {l}")),
                },
                Exchange::Died => {
                    if let Some(w) = worker.take() {
                        retire(w);
                    }
                    restarts += 1;
                    break json!({"id": id, "facts": {"outcome": "abort"}});
                }
                Exchange::TimedOut => {
                    if let Some(w) = worker.take() {
                        retire(w);
                    }
                    restarts += 1;
                    break json!({"id": id, "facts": {"outcome": "timeout"}});
                }
                Exchange::NotDelivered => {
                    // The worker was dead before this case was handed over: not this case's fault.
                    if let Some(w) = worker.take() {
                        retire(w);
                    }
                    restarts += 1;
                    if attempts >= 3 {
                        break harness_error(&id, "could not deliver the case to a worker".into());
                    }
                }
            }
        };

        let outcome = answer
            .get("facts")
            .and_then(|f| f.get("outcome"))
            .and_then(Value::as_str)
            .unwrap_or("?")
            .to_string();
        *counts.entry(outcome).or_default() += 1;
        writeln!(out, "{answer}").map_err(|e| format!("write {out_path}: {e}"))?;
    }
    out.flush().map_err(|e| format!("write {out_path}: {e}"))?;
    if let Some(mut w) = worker.take() {
        drop(w.stdin);
        let _ = w.child.wait();
    }
    let summary: Vec<String> = counts.iter().map(|(k, v)| format!("{k}={v}")).collect();
    eprintln!("ddv-gen run: {} (worker restarts: {restarts})", summary.join(" "));
    Ok(())
}

fn names_main(in_path: &str, out_path: &str) -> Result<(), String> {
    let input = std::fs::File::open(in_path).map_err(|e| format!("open {in_path}: {e}"))?;
    let output = std::fs::File::create(out_path).map_err(|e| format!("create {out_path}: {e}"))?;
    let mut out = BufWriter::new(output);
    for (n, line) in BufReader::new(input).lines().enumerate() {
        let line = line.map_err(|e| format!("read {in_path}: {e}"))?;
        if line.trim().is_empty() {
            continue;
        }
        match serde_json::from_str::<Value>(&line) {
            Ok(Value::Object(mut case)) => {
                let device_name = case.get("device_name").and_then(Value::as_str).unwrap_or("Device").to_string();
                let names = match case.get("adef") {
                    Some(adef) => guarded(|| names_oracle(adef, &device_name))
                        .unwrap_or_else(|p| json!({"$harness_error": format!("names_oracle panicked: {p}")})),
                    None => Value::Null,
                };
                case.insert("names".into(), names);
                // manifests: the value tree the concrete parser builds from the rendered text, for the key-level model
                let syntax = case.get("syntax").and_then(Value::as_str).unwrap_or("").to_string();
                if matches!(syntax.as_str(), "json" | "yaml" | "toml") {
                    if let Some(adef) = case.get("adef") {
                        let tree = match guarded(|| render(adef, &syntax)) {
                            Ok(Ok(text)) => guarded(|| super::tree::dump(&syntax, &text))
                                .unwrap_or_else(|p| json!({"$parse_error": format!("parser panicked: {p}")})),
                            _ => Value::Null,
                        };
                        if !tree.is_null() {
                            case.insert("tree".into(), tree);
                        }
                    }
                }
                // DSL: the tree the generator's own grammar builds from the rendered text, for the model of the lowering
                if syntax == "dsl" {
                    if let Some(adef) = case.get("adef") {
                        let hir = match guarded(|| render(adef, &syntax)) {
                            Ok(Ok(text)) => guarded(|| super::hir::dump(&text))
                                .unwrap_or_else(|p| json!({"$parse_error": format!("parser panicked: {p}")})),
                            _ => Value::Null,
                        };
                        if !hir.is_null() {
                            case.insert("hir".into(), hir);
                        }
                    }
                }
                writeln!(out, "{}", Value::Object(case)).map_err(|e| format!("write {out_path}: {e}"))?;
            }
            _ => {
                eprintln!("ddv-gen names: line {} is not a JSON object; copied unchanged", n + 1);
                writeln!(out, "{line}").map_err(|e| format!("write {out_path}: {e}"))?;
            }
        }
    }
    out.flush().map_err(|e| format!("write {out_path}: {e}"))
}

/// `ddv-gen integer-table`: the range of every address type as the real generator applies it, found by
/// running it (a translator by execution, used when `Integer::{min,max}_value` cannot be read off the source):
/// for each type the least and the greatest address of a lone register that is not rejected. A one-register
/// device can only be rejected by the range check; a panic further down (the lowering at the ends of i64) is
/// not a rejection. Prints one JSON object `{"U8": ["0", "255"], …}`.
fn integer_table_main() -> Result<(), String> {
    let mut out = Map::new();
    for (variant, ty) in [("U8", "u8"), ("U16", "u16"), ("U32", "u32"), ("I8", "i8"), ("I16", "i16"), ("I32", "i32"), ("I64", "i64")] {
        let rejected = |a: i128| -> bool {
            let text = format!(
                "{{\"config\":{{\"register_address_type\":\"{ty}\",\"default_byte_order\":\"LE\"}},\"R\":{{\"type\":\"register\",\"address\":{a},\"size_bits\":8}}}}"
            );
            match run_transform("json", &text, "Dev") {
                Outcome::Tokens(ts) => compile_error_messages(&ts).is_some(),
                _ => false,
            }
        };
        if rejected(0) {
            return Err(format!("integer-table: address 0 is rejected for {ty}"));
        }
        // greatest accepted address in [0, i64::MAX] and least accepted in [i64::MIN, 0] (acceptance is an interval)
        let search = |mut good: i128, mut bad: i128| -> i128 {
            if !rejected(bad) {
                return bad;
            }
            while (bad - good).abs() > 1 {
                let mid = good + (bad - good) / 2;
                if rejected(mid) { bad = mid } else { good = mid }
            }
            good
        };
        let max = search(0, i64::MAX as i128);
        let min = search(0, i64::MIN as i128);
        out.insert(variant.to_string(), json!([min.to_string(), max.to_string()]));
    }
    println!("{}", Value::Object(out));
    Ok(())
}

fn render_main(syntax: &str) -> Result<(), String> {
    let mut src = String::new();
    std::io::stdin().read_to_string(&mut src).map_err(|e| format!("read stdin: {e}"))?;
    let v: Value = serde_json::from_str(&src).map_err(|e| format!("stdin is not JSON: {e}"))?;
    // Accept either a bare ADEF or a whole case line.
    let adef = v.get("adef").unwrap_or(&v);
    let text = render(adef, syntax)?;
    print!("{text}");
    Ok(())
}

const USAGE: &str = "usage:\n  ddv-gen run <cases.jsonl> <out.jsonl>\n  ddv-gen names <cases-in.jsonl> <cases-out.jsonl>\n  ddv-gen render <dsl|json|yaml|toml> < adef.json\n  ddv-gen worker   (internal: case lines on stdin, answer lines on stdout)";

/// Entry point of the `ddv-gen` binary; returns the process exit code.
pub fn main_cli(args: &[String]) -> i32 {
    let strs: Vec<&str> = args.iter().map(String::as_str).collect();
    let r = match strs.as_slice() {
        ["worker"] => return worker_main(),
        ["run", cases, out] => run_main(cases, out),
        ["names", input, out] => {
            install_panic_capture();
            names_main(input, out)
        }
        ["render", syntax] => {
            install_panic_capture();
            render_main(syntax)
        }
        ["integer-table"] => {
            install_panic_capture();
            integer_table_main()
        }
        _ => Err(USAGE.to_string()),
    };
    match r {
        Ok(()) => 0,
        Err(e) => {
            eprintln!("{e}");
            2
        }
    }
}

#[cfg(test)]
mod tests {
    use super::*;

    #[test]
    fn compile_error_detection() {
        let e = syn::Error::new(proc_macro2::Span::call_site(), "a \"quoted\" message");
        assert_eq!(compile_error_messages(&e.clone().into_compile_error()), Some(vec!["a \"quoted\" message".to_string()]));
        let mut two = e;
        two.combine(syn::Error::new(proc_macro2::Span::call_site(), "second"));
        assert_eq!(compile_error_messages(&two.into_compile_error()).map(|m| m.len()), Some(2));
        assert_eq!(compile_error_messages(&quote::quote! { struct A; }), None);
        assert_eq!(compile_error_messages(&quote::quote! { ::core::compile_error! { "x" } struct A; }), None);
        assert_eq!(compile_error_messages(&TokenStream::new()), None);
    }

    #[test]
    fn bad_case_lines_are_harness_errors() {
        assert_eq!(process_case_line("not json")["facts"]["outcome"], "harness_error");
        assert_eq!(process_case_line("{\"id\":1,\"syntax\":\"xml\",\"adef\":{}}")["facts"]["outcome"], "harness_error");
        assert_eq!(process_case_line("{\"id\":1,\"syntax\":\"json\"}")["facts"]["outcome"], "harness_error");
        assert_eq!(process_case_line("{\"id\":1,\"syntax\":\"json\",\"adef\":[]}")["facts"]["outcome"], "harness_error");
    }
}
