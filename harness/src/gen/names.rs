//! The `convert_case` oracle (GEN_PROTOCOL.md §1.2).
//!
//! Everything here is computed with the real `convert_case` 0.6.0 crate, called exactly the way
//! `/repo/generation` calls it:
//!
//! * `pascal` / `snake`: `Converter::new().set_boundaries(&configured).to_case(Case::Pascal|Snake)`
//!   (`mir/passes/names_normalized.rs`);
//! * `method`: `Casing::to_case(Case::Snake)` with default boundaries (`mir/lir_transform.rs`
//!   `get_method`), for every value of `pascal`;
//! * `collision`: `Casing::to_case(Case::Pascal)` with default boundaries
//!   (`lir/passes/addresses_non_overlapping.rs`), for every value of `method` *and* every value of
//!   `pascal` (the collision pass applies it to block type names too);
//! * `device_pascal`: the lenient converter of `mir/lir_transform.rs` lines 15-20.
use convert_case::{Boundary, Case, Casing, Converter, Pattern};
use serde_json::{Map, Value};

/// Resolve `CONFIG.name_word_boundaries` the way the front ends do. Absent → `Boundary::defaults()`.
/// Array entries are matched case-insensitively against `format!("{b:?}")` over `Boundary::all()`
/// (unknown names are skipped here; the real front ends reject them). A plain string is passed to
/// `Boundary::list_from`, as both front ends do.
pub fn configured_boundaries(adef: &Value) -> Vec<Boundary> {
    let Some(nwb) = adef.get("config").and_then(|c| c.get("name_word_boundaries")) else {
        return Boundary::defaults();
    };
    match nwb {
        Value::String(s) => Boundary::list_from(s),
        Value::Array(items) => {
            let mut out = Vec::new();
            for item in items {
                let Some(name) = item.as_str() else { continue };
                for b in Boundary::all() {
                    if format!("{b:?}").eq_ignore_ascii_case(name) {
                        out.push(b);
                        break;
                    }
                }
            }
            out
        }
        _ => Boundary::defaults(),
    }
}

fn push_name(out: &mut Vec<String>, v: Option<&Value>) {
    if let Some(Value::String(s)) = v {
        if !out.iter().any(|x| x == s) {
            out.push(s.clone());
        }
    }
}

fn collect_fields(out: &mut Vec<String>, fields: Option<&Value>) {
    let Some(Value::Array(fields)) = fields else { return };
    for f in fields {
        push_name(out, f.get("name"));
        if let Some(e) = f.get("conversion").and_then(|c| c.get("enum")) {
            push_name(out, e.get("name"));
            if let Some(Value::Array(vs)) = e.get("variants") {
                for v in vs {
                    push_name(out, v.get("name"));
                }
            }
        }
    }
}

fn collect_objects(out: &mut Vec<String>, objects: Option<&Value>, depth: usize) {
    // Depth guard: the harness itself must never overflow its stack on adversarial nesting.
    if depth > 512 {
        return;
    }
    let Some(Value::Array(objects)) = objects else { return };
    for o in objects {
        push_name(out, o.get("name"));
        push_name(out, o.get("target"));
        collect_fields(out, o.get("fields"));
        collect_fields(out, o.get("fields_in"));
        collect_fields(out, o.get("fields_out"));
        collect_objects(out, o.get("objects"), depth + 1);
    }
}

/// Every raw name of the ADEF (object names, ref targets, field names, enum names, variant names)
/// in first-occurrence order, without duplicates.
pub fn raw_names(adef: &Value) -> Vec<String> {
    let mut out = Vec::new();
    collect_objects(&mut out, adef.get("objects"), 0);
    out
}

/// `device_pascal` as in `/repo/generation/src/mir/lir_transform.rs` lines 15-20.
pub fn device_pascal(device_name: &str) -> String {
    Converter::new()
        .set_boundaries(&Boundary::list_from("aA:AAa:_:-: :a1:A1"))
        .set_pattern(Pattern::Capital)
        .convert(device_name)
}

/// Compute NAMES for a case.
pub fn names_oracle(adef: &Value, device_name: &str) -> Value {
    let boundaries = configured_boundaries(adef);
    let pascal_converter = Converter::new().set_boundaries(&boundaries).to_case(Case::Pascal);
    let snake_converter = Converter::new().set_boundaries(&boundaries).to_case(Case::Snake);

    let mut pascal = Map::new();
    let mut snake = Map::new();
    for raw in raw_names(adef) {
        pascal.insert(raw.clone(), Value::String(pascal_converter.convert(&raw)));
        snake.insert(raw.clone(), Value::String(snake_converter.convert(&raw)));
    }

    let mut method = Map::new();
    for v in pascal.values() {
        if let Value::String(p) = v {
            if !method.contains_key(p) {
                method.insert(p.clone(), Value::String(p.to_case(Case::Snake)));
            }
        }
    }

    let mut collision = Map::new();
    for v in method.values().chain(pascal.values()) {
        if let Value::String(m) = v {
            if !collision.contains_key(m) {
                collision.insert(m.clone(), Value::String(m.to_case(Case::Pascal)));
            }
        }
    }

    let mut names = Map::new();
    names.insert("pascal".into(), Value::Object(pascal));
    names.insert("snake".into(), Value::Object(snake));
    names.insert("method".into(), Value::Object(method));
    names.insert("collision".into(), Value::Object(collision));
    names.insert("device_pascal".into(), Value::String(device_pascal(device_name)));
    Value::Object(names)
}

#[cfg(test)]
mod tests {
    use super::*;
    use serde_json::json;

    #[test]
    fn oracle_uses_configured_and_default_boundaries() {
        let adef = json!({"config": {"name_word_boundaries": ["underscore"]}, "objects": [
            {"kind": "register", "name": "my_reg2A", "fields": [
                {"name": "fooBar", "conversion": {"enum": {"name": "e_n", "variants": [{"name": "v_1"}]}}}]},
            {"kind": "ref", "name": "r_x", "target": "my_reg2A", "override": {"kind": "register"}}]});
        let n = names_oracle(&adef, "my_dev2");
        // Only `_` splits words when configured so…
        assert_eq!(n["pascal"]["my_reg2A"], "MyReg2a");
        assert_eq!(n["snake"]["fooBar"], "foobar");
        assert_eq!(n["pascal"]["v_1"], "V1");
        // …but the accessor name is re-split with the default boundaries.
        assert_eq!(n["method"]["MyReg2a"], "my_reg_2_a");
        assert_eq!(n["collision"]["my_reg_2_a"], "MyReg2A");
        assert_eq!(n["collision"]["MyReg2a"], "MyReg2A");
        assert_eq!(n["device_pascal"], "MyDev2");
        for raw in ["my_reg2A", "fooBar", "e_n", "v_1", "r_x"] {
            assert!(n["pascal"].get(raw).is_some() && n["snake"].get(raw).is_some(), "{raw}");
        }
    }
}
