//! Generator-side correspondence machinery (see GEN_PROTOCOL.md).
pub mod classify;
pub mod facts;
pub mod mirdebug;
pub mod names;
pub mod render;
pub mod run;
pub mod tree;
pub mod hir;
